package simpleshell

// Demonstration of the C13 defect on the pinned tree: a pinned call rewires
// http.DefaultClient.

import (
	"context"
	"net/http"
	"testing"
)

func TestDefectC13(t *testing.T) {
	before := http.DefaultClient.Transport
	_, _, sh := NewEchoShell()
	/* Well-formed pin, nothing listening: the call fails, but must not
	touch process-wide state. */
	Go(context.Background(), ConnConfig{
		C2:          "https://127.0.0.1:1/io",
		Fingerprint: "sha256//AAAAAAAAAAAAAAAAAAAAAAAAAAAAAAAAAAAAAAAAAAA=",
	}, sh)
	if after := http.DefaultClient.Transport; before != after {
		tr, _ := after.(*http.Transport)
		t.Fatalf(
			"http.DefaultClient.Transport changed from %v to %T (InsecureSkipVerify=%v)",
			before, after,
			nil != tr && nil != tr.TLSClientConfig && tr.TLSClientConfig.InsecureSkipVerify,
		)
	}
}
