package opshell

/*
 * zz_defect_c19_test.go
 * Demonstration of a C19 (and C03) defect on the pinned tree: goxterm calls
 * ControlCharacterCallback with the terminal's lock held and the Ctrl+O
 * handler then takes Shell.wL, while writePlain/Logf take Shell.wL and then
 * the terminal's lock inside Terminal.Write.  Pressing Ctrl+O while shell
 * output is being written (its very purpose) can deadlock the operator's
 * terminal: no status line is ever written again.
 *
 * Place at lib/opshell/zz_defect_c19_test.go and run, from the repository root,
 *
 *	go test -vet=off -count=1 -run '^TestDefectC19$' ./lib/opshell/
 *
 * The test re-executes itself in a new session whose controlling terminal is
 * a fresh pty, so that the real New and Do can be used.  In the child,
 * os.Stdin and os.Stdout are swapped for pipes so the test can type at the
 * shell and see exactly what it writes to the terminal.
 */

import (
	"bytes"
	"context"
	"fmt"
	"os"
	"os/exec"
	"strings"
	"sync"
	"syscall"
	"testing"
	"time"
	"unsafe"
)

const dlkChildEnv = "C19_DEADLOCK_CHILD"

func TestDefectC19(t *testing.T) {
	if "" == os.Getenv(dlkChildEnv) {
		dlkParent(t, "TestDefectC19")
		return
	}
	dlkChild(t)
}

// dlkParent runs the named test again with a pty as controlling terminal.
func dlkParent(t *testing.T, name string) {
	ioctl := func(fd, req uintptr, arg unsafe.Pointer) error {
		if _, _, e := syscall.Syscall(
			syscall.SYS_IOCTL,
			fd,
			req,
			uintptr(arg),
		); 0 != e {
			return e
		}
		return nil
	}
	/* Roll a pty. */
	m, err := os.OpenFile("/dev/ptmx", os.O_RDWR|syscall.O_NOCTTY, 0)
	if nil != err {
		t.Fatalf("Opening /dev/ptmx: %s", err)
	}
	defer m.Close()
	var (
		n      uint32
		unlock int32
	)
	if err := ioctl(m.Fd(), syscall.TIOCGPTN, unsafe.Pointer(&n)); nil != err {
		t.Fatalf("TIOCGPTN: %s", err)
	}
	if err := ioctl(m.Fd(), syscall.TIOCSPTLCK, unsafe.Pointer(&unlock)); nil != err {
		t.Fatalf("TIOCSPTLCK: %s", err)
	}
	ws := struct{ Row, Col, X, Y uint16 }{Row: 50, Col: 200}
	if err := ioctl(m.Fd(), syscall.TIOCSWINSZ, unsafe.Pointer(&ws)); nil != err {
		t.Fatalf("TIOCSWINSZ: %s", err)
	}
	sl, err := os.OpenFile(
		fmt.Sprintf("/dev/pts/%d", n),
		os.O_RDWR|syscall.O_NOCTTY,
		0,
	)
	if nil != err {
		t.Fatalf("Opening pty slave: %s", err)
	}
	defer sl.Close()

	/* Run ourselves in it. */
	ctx, cancel := context.WithTimeout(context.Background(), time.Minute)
	defer cancel()
	var out bytes.Buffer
	cmd := exec.CommandContext(
		ctx,
		os.Args[0],
		"-test.run=^"+name+"$",
		"-test.v",
		"-test.count=1",
	)
	cmd.Env = append(os.Environ(), dlkChildEnv+"=1")
	cmd.Stdin = sl
	cmd.Stdout = &out
	cmd.Stderr = &out
	cmd.SysProcAttr = &syscall.SysProcAttr{
		Setsid:  true,
		Setctty: true,
		Ctty:    0,
	}
	err = cmd.Run()
	t.Logf("Child output:\n%s", out.String())
	if nil != err {
		t.Fatalf("Child failed: %s", err)
	}
}

// dlkScreen collects what the shell writes to its terminal.
type dlkScreen struct {
	mu  sync.Mutex
	buf bytes.Buffer
}

func (s *dlkScreen) collect(f *os.File) {
	b := make([]byte, 4096)
	for {
		n, err := f.Read(b)
		s.mu.Lock()
		s.buf.Write(b[:n])
		s.mu.Unlock()
		if nil != err {
			return
		}
	}
}

func (s *dlkScreen) String() string {
	s.mu.Lock()
	defer s.mu.Unlock()
	return s.buf.String()
}

// waitFor waits until the screen has at least n of sub, or the timeout
// elapses.
func (s *dlkScreen) waitFor(sub string, n int, d time.Duration) bool {
	dl := time.Now().Add(d)
	for {
		if n <= strings.Count(s.String(), sub) {
			return true
		}
		if time.Now().After(dl) {
			return false
		}
		time.Sleep(5 * time.Millisecond)
	}
}

func dlkChild(t *testing.T) {
	/* Be the terminal. */
	inR, inW, err := os.Pipe()
	if nil != err {
		t.Fatalf("Pipe: %s", err)
	}
	outR, outW, err := os.Pipe()
	if nil != err {
		t.Fatalf("Pipe: %s", err)
	}
	origIn, origOut := os.Stdin, os.Stdout
	os.Stdin, os.Stdout = inR, outW
	defer func() { os.Stdin, os.Stdout = origIn, origOut }()
	var screen dlkScreen
	go screen.collect(outR)

	/* Start the real shell. */
	var (
		ich = make(chan string, 16)
		och = make(chan CLine, 1024)
	)
	s, cleanup, err := New(
		ich,
		och,
		"c19> ",
		false,
		func() ([]byte, error) { return []byte("unused\n"), nil },
		"unused",
	)
	if nil != err {
		t.Fatalf("New: %s", err)
	}
	defer cleanup()
	ctx, cancel := context.WithCancel(context.Background())
	defer cancel()
	go s.Do(ctx)
	defer inW.Close()

	/* A shell floods the terminal while the operator leans on Ctrl+O. */
	stop := make(chan struct{})
	var wg sync.WaitGroup
	wg.Add(2)
	go func() {
		defer wg.Done()
		for {
			select {
			case <-stop:
				return
			case och <- CLine{Line: "flood flood flood flood\n", Plain: true}:
			case <-time.After(500 * time.Millisecond):
				/* Nobody is taking output any more. */
			}
		}
	}()
	go func() {
		defer wg.Done()
		for {
			select {
			case <-stop:
				return
			case <-time.After(time.Millisecond):
				inW.Write([]byte{0x0F})
			}
		}
	}()
	time.Sleep(3 * time.Second)
	close(stop)
	wg.Wait()

	/* Status lines are always written, muted or not. */
	done := make(chan struct{})
	go func() {
		select {
		case och <- CLine{Line: "C19-STILL-ALIVE"}:
		case <-time.After(5 * time.Second):
		}
		close(done)
	}()
	<-done
	if !screen.waitFor("C19-STILL-ALIVE", 1, 5*time.Second) {
		t.Fatalf("A status line sent after Ctrl+O was pressed during output never reached the terminal: the shell's writers are deadlocked")
	}
}
