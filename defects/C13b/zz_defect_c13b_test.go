package simpleshell

// Demonstration of a second C13 defect on the pinned tree: with a fingerprint
// configured and a plain http:// C2 URL, Go sends shell traffic without any
// TLS connection, so to a server which presented no matching key at all.

import (
	"context"
	"net/http"
	"net/http/httptest"
	"sync/atomic"
	"testing"
	"time"
)

func TestDefectC13b(t *testing.T) {
	var hits atomic.Int32
	srv := httptest.NewServer(http.HandlerFunc(func(w http.ResponseWriter, r *http.Request) {
		hits.Add(1)
	}))
	defer func() { srv.CloseClientConnections(); go srv.Close() }()
	in, _, sh := NewEchoShell()
	errc := make(chan error, 1)
	go func() {
		errc <- Go(context.Background(), ConnConfig{
			C2:          srv.URL + "/io", /* http://... */
			Fingerprint: "sha256//AAAAAAAAAAAAAAAAAAAAAAAAAAAAAAAAAAAAAAAAAAA=",
		}, sh)
	}()
	var err error
	select {
	case err = <-errc:
	case <-time.After(2 * time.Second):
		in.Close()
	}
	if 0 != hits.Load() {
		t.Fatalf("a request reached an unpinned plaintext server although a fingerprint was configured")
	}
	if nil == err {
		t.Fatalf("Go did not refuse the connection")
	}
}
