package shellfuncsfile

// Demonstration of a second C17 defect on the pinned tree: a single-file
// source which matches no filter must pass through unchanged, but
// fromSingleFile returned errNoConverter together with the bytes.

import (
	"os"
	"path/filepath"
	"testing"
)

func TestDefectC17b(t *testing.T) {
	d := t.TempDir()
	fn := filepath.Join(d, "funcs.txt")
	want := "f() { :; }\n"
	os.WriteFile(fn, []byte(want), 0600)
	got, err := NewDefaultConverter().From(fn)
	if nil != err {
		t.Fatalf("unmatched single file: %s", err)
	}
	if string(got) != want {
		t.Fatalf("got %q, want %q", got, want)
	}
}
