package iobroker

// Demonstration of the C04 defect on the pinned tree: with a stalled operator
// channel and a flooding shell, proxyOut's reader goroutine stays blocked in a
// channel send forever after the stream was cancelled and closed.

import (
	"context"
	"io"
	"log/slog"
	"runtime"
	"strings"
	"testing"
	"time"

	"github.com/magisterquis/curlrevshell/lib/opshell"
)

type c04Flood struct{ closed chan struct{} }

func (f c04Flood) Read(p []byte) (int, error) {
	select {
	case <-f.closed:
		return 0, io.ErrClosedPipe
	default:
		return copy(p, "flood"), nil
	}
}

func TestDefectC04(t *testing.T) {
	ich := make(chan string)
	och := make(chan opshell.CLine) /* Nobody reads: stalled terminal. */
	b, err := New(ich, och)
	if nil != err {
		t.Fatal(err)
	}
	sl := slog.New(slog.NewTextHandler(io.Discard, nil))
	ctx, cancel := context.WithCancel(context.Background())
	f := c04Flood{closed: make(chan struct{})}
	done := make(chan error, 1)
	go func() { done <- b.proxyOut(ctx, sl, f) }()
	time.Sleep(100 * time.Millisecond) /* Queue fills, forwarder blocks. */
	cancel()
	<-done
	close(f.closed) /* Transport closed. */
	time.Sleep(200 * time.Millisecond)
	buf := make([]byte, 1<<20)
	dump := string(buf[:runtime.Stack(buf, true)])
	for _, g := range strings.Split(dump, "\n\n") {
		if strings.Contains(g, "proxyOut.func1") {
			t.Fatalf("reader goroutine still running:\n%s", g)
		}
	}
}
