package iobroker

// Demonstration of the C06 defect on the pinned tree: every /io connection
// used the same broker-wide sentinel key, so the input half of one request
// and the output half of another could be paired into one shell.

import (
	"context"
	"io"
	"log/slog"
	"strings"
	"sync"
	"testing"
	"time"

	"github.com/magisterquis/curlrevshell/lib/opshell"
)

type c06Writer struct {
	name string
	got  chan string
}

func (w c06Writer) Write(p []byte) (int, error) { w.got <- w.name; return len(p), nil }

func TestDefectC06(t *testing.T) {
	const trials = 400
	var crossed, paired int
	for i := 0; i < trials; i++ {
		ich := make(chan string, 4)
		och := make(chan opshell.CLine, 1024)
		b, err := New(ich, och)
		if nil != err {
			t.Fatal(err)
		}
		ctx, cancel := context.WithCancel(context.Background())
		go b.Do(ctx)
		sl := slog.New(slog.NewTextHandler(io.Discard, nil))
		got := make(chan string, 4)
		var wg sync.WaitGroup
		pws := map[string]*io.PipeWriter{}
		start := make(chan struct{})
		for _, name := range []string{"A", "B"} {
			pr, pw := io.Pipe()
			pws[name] = pw
			wg.Add(1)
			go func() {
				defer wg.Done()
				<-start
				b.ConnectInOut(ctx, sl, name, c06Writer{name, got}, pr)
			}()
		}
		close(start)
		/* Wait for a full shell. */
		ready := false
		to := time.After(2 * time.Second)
	WAIT:
		for {
			select {
			case cl := <-och:
				if strings.Contains(cl.Line, ShellReadyMessage) {
					ready = true
					break WAIT
				}
			case <-to:
				break WAIT
			}
		}
		if ready {
			paired++
			/* Who gets input? */
			ich <- "probe"
			var inOwner string
			select {
			case inOwner = <-got:
			case <-time.After(2 * time.Second):
				t.Fatalf("no input delivered")
			}
			/* Whose output is shown? */
			for name, pw := range pws {
				go pw.Write([]byte("from" + name))
			}
			var outOwner string
			to := time.After(2 * time.Second)
		OUT:
			for {
				select {
				case cl := <-och:
					if cl.Plain {
						outOwner = strings.TrimPrefix(cl.Line, "from")
						break OUT
					}
				case <-to:
					t.Fatalf("no output shown")
				}
			}
			if inOwner != outOwner {
				crossed++
			}
		}
		cancel()
		for _, pw := range pws {
			pw.Close()
		}
		wg.Wait()
	}
	t.Logf("%d trials, %d full shells, %d cross-paired", trials, paired, crossed)
	if 0 != crossed {
		t.Fatalf("%d of %d shells combined halves of different requests", crossed, paired)
	}
}
