# Demonstration of the C20 defect on the pinned tree: without a controlling
# terminal the program dies with a nil-pointer panic instead of its own error.
go build -o ./crs.demo . || exit 2
out=$(setsid ./crs.demo -listen-address 127.0.0.1:0 -tls-certificate-cache "" </dev/null 2>&1); st=$?
rm -f ./crs.demo
echo "exit status $st"; echo "$out" | head -5
case "$out" in *"nil pointer"*|*"goroutine "*) echo "FAIL: Go panic / stack trace"; exit 1;; esac
case "$out" in *"Error setting up shell"*) [ $st -ne 0 ] && { echo ok; exit 0; };; esac
echo "FAIL: unexpected outcome"; exit 1
