package shellfuncsfile

// Demonstration of the C17 defect on the pinned tree: dot-files are converted
// and a dangling dot-file symlink aborts the conversion.

import (
	"os"
	"path/filepath"
	"testing"
)

func TestDefectC17(t *testing.T) {
	d := t.TempDir()
	os.WriteFile(filepath.Join(d, "a.sh"), []byte("a() { :; }\n"), 0600)
	os.WriteFile(filepath.Join(d, ".hidden.sh"), []byte("hidden() { :; }\n"), 0600)
	c := NewDefaultConverter()
	got, err := c.From(d)
	if nil != err {
		t.Fatalf("with a dot-file: %s", err)
	}
	if want := "a() { :; }\n"; string(got) != want {
		t.Errorf("with a dot-file: got %q, want %q", got, want)
	}
	if err := os.Symlink("user@host.1234", filepath.Join(d, ".#a.sh")); nil != err {
		t.Skip(err)
	}
	if _, err := c.From(d); nil != err {
		t.Errorf("with an editor lock link: %s", err)
	}
}
