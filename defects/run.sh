#!/bin/sh
# usage: run.sh <Cnn> <rev> — runs the defect demonstration for Cnn against a
# scratch worktree of /repo at <rev> (e.g. the pinned snapshot or HEAD).
set -eu
id=$1; rev=${2:-HEAD}
export GOFLAGS=-mod=mod GOPROXY=off GOSUMDB=off GOTOOLCHAIN=local
unset GOWORK || true
here=$(cd "$(dirname "$0")" && pwd)
wt=$(mktemp -d /tmp/defect.XXXXXX)
trap 'git -C /repo worktree remove --force "$wt" >/dev/null 2>&1 || true; rm -rf "$wt"' EXIT
git -C /repo worktree add --detach -q "$wt" "$rev"
pkg=$(cat "$here/$id/PKG")
cp "$here/$id"/*_test.go "$wt/$pkg/" 2>/dev/null || true
if [ -f "$here/$id/run.sh" ]; then
	(cd "$wt" && sh "$here/$id/run.sh")
else
	(cd "$wt" && go test -vet=off -count=1 -timeout 90s -run "TestDefect$id" "./$pkg/")
fi
