package simpleshell

// Demonstration of the C14 defect on the pinned tree: CmdShell.Go called
// cmd.Run concurrently with the pipe copies, so Wait closed the pipes before a
// slow consumer had read everything.  Place in lib/simpleshell and run
// go test -run TestDefectC14.

import (
	"context"
	"io"
	"os/exec"
	"strings"
	"testing"
	"time"
)

func TestDefectC14(t *testing.T) {
	const n = 60000
	cmd := exec.Command("/bin/sh", "-c", "head -c 60000 /dev/zero | tr '\\0' 'x'")
	s, err := NewCmdShell(cmd)
	if nil != err {
		t.Fatal(err)
	}
	s.SetInput(strings.NewReader(""))
	errc := make(chan error, 1)
	go func() { errc <- s.Go(context.Background()) }()
	time.Sleep(300 * time.Millisecond) /* Let the child exit first. */
	var got int
	buf := make([]byte, 1024)
	o := s.Output()
	for {
		m, err := o.Read(buf)
		got += m
		if nil != err {
			if io.EOF != err {
				t.Logf("read error: %s", err)
			}
			break
		}
		time.Sleep(time.Millisecond)
	}
	if err := <-errc; nil != err {
		t.Logf("Go returned %s", err)
	}
	if n != got {
		t.Fatalf("got %d of %d bytes before EOF", got, n)
	}
}
