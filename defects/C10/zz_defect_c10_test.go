package hsrv

// Demonstration of the C10 defect on the pinned tree: RLogf/RErrorLogf reuse
// the formatted notice as a format string.

import (
	"net/http/httptest"
	"strings"
	"testing"

	"github.com/magisterquis/curlrevshell/lib/opshell"
)

func TestDefectC10(t *testing.T) {
	och := make(chan opshell.CLine, 4)
	s := &Server{och: och}
	r := httptest.NewRequest("GET", "/a%20b?x=%d", nil)
	s.RLogf(FileColor, r, "File requested: %s", r.URL)
	s.RErrorLogf(r, "Could not open %s", r.URL)
	for i := 0; i < 2; i++ {
		cl := <-och
		if !strings.HasSuffix(cl.Line, "/a%20b?x=%d") {
			t.Errorf("notice %d: %q", i, cl.Line)
		}
	}
}
