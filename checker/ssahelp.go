package main

// ssahelp.go: small helpers over go/ssa shared by all rules.  Callees are
// always resolved through type information, never by source text.

import (
	"go/ast"
	"go/constant"
	"go/token"
	"go/types"
	"strings"

	"golang.org/x/tools/go/packages"
	"golang.org/x/tools/go/ssa"
)

// Func finds a source function of the module: package path suffix (below the
// module path), receiver type name ("" for none) and function name.
func (p *Prog) Func(pkgSuffix, recv, name string) *ssa.Function {
	path := ModPath
	if "" != pkgSuffix {
		path += "/" + pkgSuffix
	}
	for _, f := range p.funcs {
		if nil == f.Pkg || f.Pkg.Pkg.Path() != path || f.Name() != name || nil != f.Parent() {
			continue
		}
		if "" != f.Synthetic {
			continue
		}
		r := recvTypeName(f)
		if r == recv {
			return f
		}
	}
	/* Not under that name: under another? */
	if f := p.renamedFunc(path, recv, name); nil != f {
		return f
	}
	/* Under that name in another package of the module (moved with its
	type, or the type is now an alias of one declared elsewhere): the only
	function of that receiver and name there is. */
	want := recv
	if "" != recv {
		if pk := p.ByPath[path]; nil != pk {
			if tn, ok := pk.Types.Scope().Lookup(recv).(*types.TypeName); ok && tn.IsAlias() {
				if nt, isNamed := types.Unalias(tn.Type()).(*types.Named); isNamed {
					want = nt.Obj().Name()
				}
			}
		}
	}
	var found []*ssa.Function
	for _, f := range p.funcs {
		if nil == f.Pkg || f.Name() != name || nil != f.Parent() || "" != f.Synthetic || !strings.HasPrefix(f.Pkg.Pkg.Path(), ModPath) {
			continue
		}
		if "" == recv {
			/* A plain function: only when its old package is gone or no longer has it. */
			if nil == f.Signature.Recv() && f.Pkg.Pkg.Path() != path {
				found = append(found, f)
			}
			continue
		}
		if r := recvTypeName(f); r == want || r == recv {
			found = append(found, f)
		}
	}
	if 1 == len(found) {
		return found[0]
	}
	return nil
}

// lookupObj: the package-level object of that name in pk, or — when it has
// moved — the only one of that name in the module.
func lookupObj(pk *packages.Package, name string) types.Object {
	if nil != pk {
		if o := pk.Types.Scope().Lookup(name); nil != o {
			return o
		}
	}
	if nil == theProg {
		return nil
	}
	var found []types.Object
	for _, q := range theProg.Pkgs {
		if q == pk || !strings.HasPrefix(q.PkgPath, ModPath) {
			continue
		}
		if o := q.Types.Scope().Lookup(name); nil != o {
			found = append(found, o)
		}
	}
	if 1 == len(found) {
		return found[0]
	}
	return nil
}

// recvTypeName returns the name of f's receiver's named type, or "".
func recvTypeName(f *ssa.Function) string {
	if nil == f.Signature.Recv() {
		return ""
	}
	t := f.Signature.Recv().Type()
	if pt, ok := t.(*types.Pointer); ok {
		t = pt.Elem()
	}
	if nt, ok := t.(*types.Named); ok {
		return nt.Obj().Name()
	}
	return ""
}

// fnName is a stable human-readable name for a function: pkg-relative path,
// receiver, name; closures as outer$N.
func fnName(f *ssa.Function) string {
	if nil == f {
		return "<nil>"
	}
	s := f.String()
	s = strings.ReplaceAll(s, ModPath+"/", "")
	s = strings.ReplaceAll(s, ModPath+".", "main.")
	return s
}

// inModule reports whether f is a function of the module under analysis.
func inModule(f *ssa.Function) bool {
	for nil != f && nil != f.Parent() {
		f = f.Parent()
	}
	if nil == f || nil == f.Pkg {
		/* Instantiations and wrappers have no Pkg; use the object. */
		if nil != f && nil != f.Object() && nil != f.Object().Pkg() {
			return strings.HasPrefix(f.Object().Pkg().Path(), ModPath)
		}
		return false
	}
	return strings.HasPrefix(f.Pkg.Pkg.Path(), ModPath)
}

// calleeName names what a call invokes: "fmt.Sprintf",
// "(*sync.Mutex).Lock", "(io.Writer).Write" for interface calls, "" for calls
// of function values that are not statically known.
func calleeName(c *ssa.CallCommon) string {
	if c.IsInvoke() {
		return c.Method.FullName()
	}
	if f := c.StaticCallee(); nil != f {
		if nil != f.Origin() {
			f = f.Origin()
		}
		if o := f.Object(); nil != o {
			if fo, ok := o.(*types.Func); ok {
				return fo.FullName()
			}
		}
		return f.String()
	}
	if b, ok := c.Value.(*ssa.Builtin); ok {
		return "builtin." + b.Name()
	}
	return ""
}

// callCommon returns the CallCommon of a Call, Go or Defer instruction.
func callCommon(i ssa.Instruction) *ssa.CallCommon {
	if ci, ok := i.(ssa.CallInstruction); ok {
		return ci.Common()
	}
	return nil
}

// isCall reports whether i is a plain call/go/defer of one of the named
// callees.
func isCall(i ssa.Instruction, names ...string) bool {
	c := callCommon(i)
	if nil == c {
		return false
	}
	n := calleeName(c)
	for _, w := range names {
		if n == w {
			return true
		}
	}
	return false
}

// callArgs returns the arguments of a call with the receiver (if any) first.
func callArgs(c *ssa.CallCommon) []ssa.Value {
	if c.IsInvoke() {
		return append([]ssa.Value{c.Value}, c.Args...)
	}
	return c.Args
}

// eachInstr calls f for every instruction of fn.
func eachInstr(fn *ssa.Function, f func(ssa.Instruction)) {
	for _, b := range fn.Blocks {
		for _, i := range b.Instrs {
			f(i)
		}
	}
}

// withAnons returns fn and, recursively, its anonymous functions.
func withAnons(fn *ssa.Function) []*ssa.Function {
	out := []*ssa.Function{fn}
	for _, a := range fn.AnonFuncs {
		out = append(out, withAnons(a)...)
	}
	return out
}

// constOf returns v's constant value, or nil.
func constOf(v ssa.Value) constant.Value {
	if c, ok := v.(*ssa.Const); ok {
		return c.Value /* nil for nil/zero constants */
	}
	return nil
}

func isConst(v ssa.Value) bool { _, ok := v.(*ssa.Const); return ok }

// isNilConst reports whether v is the constant nil (of a nillable type).
func isNilConst(v ssa.Value) bool {
	c, ok := v.(*ssa.Const)
	return ok && c.IsNil()
}

// constString returns the string value of a string constant.
func constString(v ssa.Value) (string, bool) {
	c, ok := v.(*ssa.Const)
	if ok && nil == c.Value {
		/* Zero value. */
		if b, isB := c.Type().Underlying().(*types.Basic); isB && 0 != b.Info()&types.IsString {
			return "", true
		}
	}
	if !ok || nil == c.Value || constant.String != c.Value.Kind() {
		return "", false
	}
	return constant.StringVal(c.Value), true
}

// constInt returns the integer value of an integer constant.
func constInt(v ssa.Value) (int64, bool) {
	c, ok := v.(*ssa.Const)
	if ok && nil == c.Value {
		if b, isB := c.Type().Underlying().(*types.Basic); isB && 0 != b.Info()&types.IsInteger {
			return 0, true
		}
	}
	if !ok || nil == c.Value || constant.Int != c.Value.Kind() {
		return 0, false
	}
	return c.Int64(), true
}

// constBool returns the value of a boolean constant.
func constBool(v ssa.Value) (bool, bool) {
	c, ok := v.(*ssa.Const)
	if ok && nil == c.Value {
		if b, isB := c.Type().Underlying().(*types.Basic); isB && 0 != b.Info()&types.IsBoolean {
			return false, true
		}
	}
	if !ok || nil == c.Value || constant.Bool != c.Value.Kind() {
		return false, false
	}
	return constant.BoolVal(c.Value), true
}

// fieldAddrOf: if v is &x.f (FieldAddr) returns the field and x.
func fieldAddrOf(v ssa.Value) (*types.Var, ssa.Value) {
	fa, ok := v.(*ssa.FieldAddr)
	if !ok {
		return nil, nil
	}
	st := derefStruct(fa.X.Type())
	if nil == st {
		return nil, nil
	}
	return st.Field(fa.Field), fa.X
}

// fieldValOf: if v is x.f (Field, on a struct value) returns the field and x.
func fieldValOf(v ssa.Value) (*types.Var, ssa.Value) {
	f, ok := v.(*ssa.Field)
	if !ok {
		return nil, nil
	}
	st := derefStruct(f.X.Type())
	if nil == st {
		return nil, nil
	}
	return st.Field(f.Field), f.X
}

// loadedField: if v is a load of x.f (through FieldAddr or Field) returns the
// field and x.
func loadedField(v ssa.Value) (*types.Var, ssa.Value) {
	if u, ok := v.(*ssa.UnOp); ok && token.MUL == u.Op {
		fv, base := fieldAddrOf(u.X)
		return canonChanField(fv), base
	}
	fv, base := fieldValOf(v)
	return canonChanField(fv), base
}

// canonChanField: a channel kept in a field which only ever receives the
// channel another field holds (a small struct made per call and given the
// broker's channel: inputProxier{lines: b.ich}) is that other field's
// channel; reads of it are reads of that field.
var chanFieldAlias map[*types.Var]*types.Var

func canonChanField(fv *types.Var) *types.Var {
	if nil == fv || nil == theProg {
		return fv
	}
	if _, isChan := fv.Type().Underlying().(*types.Chan); !isChan {
		return fv
	}
	if nil == chanFieldAlias {
		chanFieldAlias = map[*types.Var]*types.Var{}
	}
	if t, ok := chanFieldAlias[fv]; ok {
		return t
	}
	chanFieldAlias[fv] = fv /* (guards against cycles) */
	target := fv
	sts := theProg.storesToField(fv)
	var src *types.Var
	okAll := 0 != len(sts)
	for _, st := range sts {
		var g *types.Var
		if u, isLd := stripConv(st.Val, false).(*ssa.UnOp); isLd && token.MUL == u.Op {
			g, _ = fieldAddrOf(u.X)
		} else {
			g, _ = fieldValOf(stripConv(st.Val, false))
		}
		if nil == g || g == fv {
			okAll = false
			break
		}
		if _, isChan := g.Type().Underlying().(*types.Chan); !isChan {
			okAll = false
			break
		}
		if nil != src && src != g {
			okAll = false
			break
		}
		src = g
	}
	if okAll && nil != src {
		target = canonChanField(src)
	}
	chanFieldAlias[fv] = target
	return target
}

func derefStruct(t types.Type) *types.Struct {
	t = t.Underlying()
	if p, ok := t.(*types.Pointer); ok {
		t = p.Elem().Underlying()
	}
	st, _ := t.(*types.Struct)
	return st
}

// namedOf returns the named type behind t (through one pointer), or nil.
func namedOf(t types.Type) *types.Named {
	if p, ok := t.(*types.Pointer); ok {
		t = p.Elem()
	}
	n, _ := t.(*types.Named)
	return n
}

// typeIs reports whether t (through one pointer) is the named type pkg.name.
func typeIs(t types.Type, pkgPath, name string) bool {
	n := namedOf(t)
	if nil == n || nil == n.Obj() {
		return false
	}
	if n.Obj().Name() != name {
		return false
	}
	if nil == n.Obj().Pkg() {
		return "" == pkgPath
	}
	return n.Obj().Pkg().Path() == pkgPath
}

// fieldIs reports whether f is field name of struct type pkg.typ; the owner is
// found through the field's position in its package scope.
func (p *Prog) fieldIs(f *types.Var, pkgSuffix, typ, name string) bool {
	if nil == f || !f.IsField() || f.Name() != name || nil == f.Pkg() {
		return false
	}
	path := ModPath
	if "" != pkgSuffix {
		path += "/" + pkgSuffix
	}
	if f.Pkg().Path() != path {
		return false
	}
	obj := f.Pkg().Scope().Lookup(typ)
	if nil == obj {
		return false
	}
	st, ok := obj.Type().Underlying().(*types.Struct)
	if !ok {
		return false
	}
	for i := 0; i < st.NumFields(); i++ {
		if st.Field(i) == f {
			return true
		}
	}
	return false
}

// Field looks up a struct field object of a module type.
func (p *Prog) Field(pkgSuffix, typ, name string) *types.Var {
	pk := p.Pkg(pkgSuffix)
	if nil == pk {
		return nil
	}
	obj := lookupObj(pk, typ)
	if nil == obj {
		/* Under another name, in whichever package? */
		if obj = p.renamedStruct(pk.PkgPath, typ); nil == obj {
			return nil
		}
	}
	st, ok := obj.Type().Underlying().(*types.Struct)
	if !ok {
		return nil
	}
	for i := 0; i < st.NumFields(); i++ {
		if st.Field(i).Name() == name {
			return st.Field(i)
		}
	}
	return renamedField(pk.PkgPath, typ, st, name)
}

// stripConv removes value-preserving wrappers: ChangeType, MakeInterface,
// ChangeInterface, and (optionally) Convert.
func stripConv(v ssa.Value, convert bool) ssa.Value {
	for {
		switch x := v.(type) {
		case *ssa.ChangeType:
			v = x.X
		case *ssa.MakeInterface:
			v = x.X
		case *ssa.ChangeInterface:
			v = x.X
		case *ssa.Convert:
			if !convert {
				return v
			}
			v = x.X
		default:
			return v
		}
	}
}

// closureOf: if v is (or wraps) a MakeClosure or a Function, returns the
// function and its bindings.
func closureOf(v ssa.Value) (*ssa.Function, []ssa.Value) {
	v = stripConv(v, false)
	switch x := v.(type) {
	case *ssa.MakeClosure:
		if f, ok := x.Fn.(*ssa.Function); ok {
			return f, x.Bindings
		}
	case *ssa.Function:
		return x, nil
	}
	return nil, nil
}

// freeVarBinding maps a FreeVar of an anonymous function back to the value
// bound to it at the (unique) MakeClosure in its parent.
func freeVarBinding(fv *ssa.FreeVar) ssa.Value {
	fn := fv.Parent()
	par := fn.Parent()
	if nil == par {
		return nil
	}
	idx := -1
	for i, x := range fn.FreeVars {
		if x == fv {
			idx = i
		}
	}
	if idx < 0 {
		return nil
	}
	var found ssa.Value
	n := 0
	eachInstr(par, func(i ssa.Instruction) {
		if mc, ok := i.(*ssa.MakeClosure); ok && mc.Fn == fn {
			n++
			found = mc.Bindings[idx]
		}
	})
	if 1 != n {
		return nil
	}
	return found
}

// resolveFree follows FreeVars outwards to the value in the defining function.
func resolveFree(v ssa.Value) ssa.Value {
	for {
		fv, ok := v.(*ssa.FreeVar)
		if !ok {
			return v
		}
		b := freeVarBinding(fv)
		if nil == b {
			return v
		}
		v = b
	}
}

// storesTo returns every Store whose address is (after resolving free
// variables) the given Alloc, looking in the alloc's function and all of its
// closures.
func storesTo(alloc *ssa.Alloc) []*ssa.Store {
	var out []*ssa.Store
	for _, f := range withAnons(alloc.Parent()) {
		eachInstr(f, func(i ssa.Instruction) {
			if st, ok := i.(*ssa.Store); ok && resolveFree(st.Addr) == ssa.Value(alloc) {
				out = append(out, st)
			}
		})
	}
	return out
}

// paramIndex returns the index of v among fn's parameters, or -1.
func paramIndex(fn *ssa.Function, v ssa.Value) int {
	for i, p := range fn.Params {
		if ssa.Value(p) == v {
			return i
		}
	}
	return -1
}

// paramNamed returns fn's parameter called name, or nil.
func paramNamed(fn *ssa.Function, name string) *ssa.Parameter {
	for _, p := range fn.Params {
		if p.Name() == name {
			return p
		}
	}
	/* Called something else now?  The parameter in that place. */
	return refParam(fn, name)
}

// posOf gives the best position available for an instruction.
func posOf(i ssa.Instruction) token.Pos {
	if p := i.Pos(); p.IsValid() {
		return p
	}
	if v, ok := i.(ssa.Value); ok {
		for _, r := range *v.Referrers() {
			if p := r.Pos(); p.IsValid() {
				return p
			}
		}
	}
	/* Neighbouring instructions. */
	b := i.Block()
	if nil != b {
		idx := -1
		for k, x := range b.Instrs {
			if x == i {
				idx = k
			}
		}
		for k := idx - 1; k >= 0; k-- {
			if p := b.Instrs[k].Pos(); p.IsValid() {
				return p
			}
		}
		for k := idx + 1; k >= 0 && k < len(b.Instrs); k++ {
			if p := b.Instrs[k].Pos(); p.IsValid() {
				return p
			}
		}
		return b.Parent().Pos()
	}
	return token.NoPos
}

// callersOf returns every call/go/defer instruction in the module that
// statically calls fn (closures of fn's callers included).
func (p *Prog) callersOf(fn *ssa.Function) []ssa.CallInstruction {
	var out []ssa.CallInstruction
	for _, f := range p.Funcs() {
		eachInstr(f, func(i ssa.Instruction) {
			if ci, ok := i.(ssa.CallInstruction); ok {
				if ci.Common().StaticCallee() == fn {
					out = append(out, ci)
				}
			}
		})
	}
	return out
}

// usesOfFunc returns every instruction in the module that refers to fn as a
// value (calls, method values, closures).
func (p *Prog) usesOfFunc(fn *ssa.Function) []ssa.Instruction {
	var out []ssa.Instruction
	for _, f := range p.Funcs() {
		eachInstr(f, func(i ssa.Instruction) {
			for _, op := range i.Operands(nil) {
				if nil != *op && *op == ssa.Value(fn) {
					out = append(out, i)
					return
				}
			}
		})
	}
	return out
}

// retVal returns the idx'th result of a Return, looking through the spill
// slot go/ssa uses for results of functions with defers
// (*slot = v; rundefers; t = *slot; return t).
func retVal(ret *ssa.Return, idx int) ssa.Value {
	if idx >= len(ret.Results) {
		return nil
	}
	v := ret.Results[idx]
	u, ok := v.(*ssa.UnOp)
	if !ok || token.MUL != u.Op {
		return v
	}
	al, ok := u.X.(*ssa.Alloc)
	if !ok {
		return v
	}
	b := ret.Block()
	for k := len(b.Instrs) - 1; k >= 0; k-- {
		if st, ok := b.Instrs[k].(*ssa.Store); ok && st.Addr == ssa.Value(al) {
			return st.Val
		}
	}
	return v
}

// proxyRoot: the function which is the proxy that fn (the function doing the
// proxy's channel operation) belongs to: fn itself or the nearest enclosing
// function with a context parameter of its own — a proxy is run with the
// stream's context, whether it is a method or the function literal handed to
// the admission function.
func proxyRoot(fn *ssa.Function) *ssa.Function {
	top := fn
	for nil == ctxParam(top) && nil != top.Parent() {
		top = top.Parent()
	}
	if nil == ctxParam(top) {
		for nil != top.Parent() {
			top = top.Parent()
		}
	}
	return top
}

// resolveUp follows v to where it was decided: through conversions between
// function types, through a function literal's captured value to the value
// captured, and through a parameter of a private function with exactly one
// (static) caller to what that caller passes.
func (p *Prog) resolveUp(v ssa.Value) ssa.Value {
	for depth := 0; depth < 8; depth++ {
		switch x := v.(type) {
		case *ssa.ChangeType:
			v = x.X
			continue
		case *ssa.FreeVar:
			if b := resolveFree(x); b != ssa.Value(x) {
				v = b
				continue
			}
		case *ssa.Parameter:
			fn := x.Parent()
			if nil != fn && nil != fn.Parent() {
				/* A function literal handed to a module function which
				calls it: what that function passes. */
				if a := closureParamSource(x); nil != a {
					v = a
					continue
				}
				return v
			}
			if nil == fn || nil != fn.Parent() || !inModule(fn) {
				return v
			}
			if ast.IsExported(fn.Name()) {
				/* Exported, but with no callers the module does not show:
				below internal/, or standing in for a private function
				of the reference tree which moved. */
				_, img := renameImage[fn]
				if !img && (nil == fn.Pkg || !strings.Contains(fn.Pkg.Pkg.Path()+"/", "/internal/")) {
					return v
				}
			}
			cs := p.callersOf(fn)
			if 1 != len(cs) || 1 != len(p.usesOfFunc(fn)) {
				return v
			}
			idx := paramIndex(fn, x)
			if idx < 0 || idx >= len(cs[0].Common().Args) {
				return v
			}
			v = cs[0].Common().Args[idx]
			continue
		}
		return v
	}
	return v
}

// fieldBehind: the struct field v was read from, looking through interface
// conversions, local variables holding the value and function literals which
// captured it.
func fieldBehind(v ssa.Value) (*types.Var, ssa.Value) {
	for k := 0; k < 8; k++ {
		n := resolveFree(resolveCell(stripConv(v, false)))
		if n == v {
			break
		}
		v = n
	}
	return loadedField(v)
}

// constByteSlice: the bytes of a []byte whose contents are fixed where it is
// written: []byte("…") of a constant, or a slice literal of constants.
func constByteSlice(v ssa.Value) ([]byte, bool) {
	v = resolveCell(v)
	if cv, ok := v.(*ssa.Convert); ok {
		if s, ok := constString(cv.X); ok {
			return []byte(s), true
		}
	}
	if s, ok := constString(v); ok {
		return []byte(s), true
	}
	arr, ok := literalArray(v)
	if !ok {
		return nil, false
	}
	el, ok := literalElems(arr)
	if !ok {
		return nil, false
	}
	/* Nothing else writes the array. */
	for _, ref := range *arr.Referrers() {
		switch ref.(type) {
		case *ssa.IndexAddr, *ssa.Slice, *ssa.DebugRef:
		default:
			return nil, false
		}
	}
	out := make([]byte, len(el))
	for k, e := range el {
		c, ok := constInt(e)
		if !ok || k < 0 || int(k) >= len(out) {
			return nil, false
		}
		out[k] = byte(c)
	}
	return out, true
}

// literalArray: the local backing array of a slice literal []T{…} (the whole
// array sliced), or of an array literal.
func literalArray(v ssa.Value) (*ssa.Alloc, bool) {
	if sl, ok := v.(*ssa.Slice); ok && nil == sl.Low && nil == sl.High {
		v = sl.X
	}
	arr, ok := v.(*ssa.Alloc)
	if !ok {
		return nil, false
	}
	if _, isArr := arr.Type().Underlying().(*types.Pointer).Elem().Underlying().(*types.Array); !isArr {
		return nil, false
	}
	return arr, true
}

// closureParamSource: x is a parameter of a function literal which is made
// once and handed, once, to a module function G(…, f, …) which calls f in one
// place with, in x's position, one of G's own parameters: the argument the
// maker passes to G there (eg.GoContext(ectx, func(c context.Context) error
// {…}): c is ectx).  nil when any of this is not so.
func closureParamSource(x *ssa.Parameter) ssa.Value {
	fn := x.Parent()
	idx := paramIndex(fn, x)
	if idx < 0 || nil == fn.Parent() {
		return nil
	}
	var mcs []*ssa.MakeClosure
	eachInstr(fn.Parent(), func(i ssa.Instruction) {
		if mc, ok := i.(*ssa.MakeClosure); ok && mc.Fn == ssa.Value(fn) {
			mcs = append(mcs, mc)
		}
	})
	if 1 != len(mcs) {
		return nil
	}
	/* Its one use as an argument. */
	var site, direct *ssa.CallCommon
	argAt := -1
	n := 0
	var uses func(v ssa.Value, depth int)
	uses = func(v ssa.Value, depth int) {
		if depth > 3 || nil == v.Referrers() {
			return
		}
		for _, r := range *v.Referrers() {
			switch y := r.(type) {
			case *ssa.DebugRef:
			case *ssa.ChangeType:
				uses(y, depth+1)
			case ssa.CallInstruction:
				n++
				for k, a := range y.Common().Args {
					if a == v {
						site, argAt = y.Common(), k
					}
				}
				if y.Common().Value == v && !y.Common().IsInvoke() {
					direct = y.Common()
				}
			default:
				n += 2
			}
		}
	}
	uses(mcs[0], 0)
	/* The literal itself is what is called (go func(src io.Reader) { … }(x)):
	the argument. */
	if 1 == n && nil != direct && nil == site && idx < len(direct.Args) {
		return direct.Args[idx]
	}
	if 1 != n || nil == site {
		return nil
	}
	g := site.StaticCallee()
	if nil == g || nil == g.Blocks || !inModule(g) || argAt >= len(g.Params) || len(g.Params) != len(site.Args) {
		return nil
	}
	gp := g.Params[argAt]
	var calls []*ssa.CallCommon
	other := false
	for _, f := range withAnons(g) {
		eachInstr(f, func(i ssa.Instruction) {
			var ops []*ssa.Value
			for _, o := range i.Operands(ops) {
				if nil == *o || resolveFree(resolveCell(stripConv(*o, false))) != ssa.Value(gp) {
					continue
				}
				switch y := i.(type) {
				case *ssa.DebugRef, *ssa.MakeClosure, *ssa.Store, *ssa.UnOp, *ssa.ChangeType:
					/* captured, spilled or re-read: followed by the resolution above */
				case ssa.CallInstruction:
					if resolveFree(resolveCell(stripConv(y.Common().Value, false))) == ssa.Value(gp) && !y.Common().IsInvoke() {
						calls = append(calls, y.Common())
					} else {
						other = true
					}
				default:
					other = true
				}
			}
		})
	}
	if other || 1 != len(calls) || idx >= len(calls[0].Args) {
		return nil
	}
	a := resolveFree(resolveCell(stripConv(calls[0].Args[idx], false)))
	ap, ok := a.(*ssa.Parameter)
	if !ok || ap.Parent() != g {
		return nil
	}
	m := paramIndex(g, ap)
	if m < 0 || m >= len(site.Args) {
		return nil
	}
	return site.Args[m]
}
