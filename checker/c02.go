package main

// C02 — operator input reaches the attached shell intact, in order and
// promptly.

import (
	"fmt"
	"go/token"
	"go/types"
	"strings"

	"golang.org/x/tools/go/ssa"
)

func init() {
	register("C02", &propDef{
		Run:         checkC02,
		Explanation: "Static decision of the structural clauses of C02 in the input proxy (the unique function receiving from Broker.ich): (1) it is the only receive on any chan string of the module, so no second consumer can create gaps; (2) on every path from the 'line received' edge back to the next receive the line is written to the stream and then flushed — the flush function is FlushError when the writer has it, http.Flusher.Flush only when it has not, and the no-op only when it has neither; (3) the bytes written are the received line followed by exactly one newline, written whole; (4) a write or flush error leaves the loop (the receive is unreachable from the error edges), and the cancellation arm consumes nothing; (5) nothing is handed to another goroutine between receive and write; (6) Ctrl+I's ChanWriter sends its whole argument as exactly one channel entry and insert writes the payload with one Write. FIFO order of Go channels and the transport's flush are assumed. Also: the writer the handlers hand to the broker is the http.ResponseWriter itself or has FlushError in its method set; insert hands the generator's whole payload to exactly one Write call (io.Copy and the like are refuted).",
		Assumptions: []string{"Go channels are FIFO", "FlushError/Flush of the real ResponseWriter push buffered bytes to the connection"},
	})
}

// selectArmEdge returns the If and successor index whose edge is taken when
// arm idx of the select was chosen.
func selectArmEdge(s *ssa.Select, idx int) (*ssa.If, int) {
	ex := selectExtracts(s)[0]
	if nil == ex {
		return nil, 0
	}
	for _, ref := range *ex.Referrers() {
		b, ok := ref.(*ssa.BinOp)
		if !ok || token.EQL != b.Op {
			continue
		}
		var k int64 = -1
		if n, ok := constInt(b.Y); ok {
			k = n
		} else if n, ok := constInt(b.X); ok {
			k = n
		}
		if int64(idx) != k {
			continue
		}
		for _, r2 := range *b.Referrers() {
			if ifi, ok := r2.(*ssa.If); ok {
				return ifi, 0
			}
		}
	}
	return nil, 0
}

func checkC02(p *Prog, r *Report) {
	rAnch := r.Rule("anchors", "the input proxy is the unique function with a select arm receiving from Broker.ich")
	rOne := r.Rule("single-consumer", "the input proxy's select arm is the only receive on a chan string in the module")
	rCycle := r.Rule("write-then-flush", "every path from a received line to the next receive writes the line and then calls the flush function")
	rFlush := r.Rule("flush-selection", "the flush function is FlushError if the writer has it, else http.Flusher.Flush, else (only then) a no-op")
	rPayload := r.Rule("payload", "the bytes written are the received line plus exactly one newline, in one write")
	rErr := r.Rule("errors-stop", "write and flush errors leave the loop; closed input and cancellation return without consuming further lines")
	rGo := r.Rule("no-handoff", "no goroutine is started in the input proxy")
	rIns := r.Rule("insert-one-entry", "ChanWriter.Write sends its whole argument as one entry; insert hands the whole payload to one Write call")
	rTW := r.Rule("transport-writer", "what the handlers give the broker as the stream writer is the ResponseWriter itself, or a type which offers FlushError")

	fn, sel, arm := findProxyIn(p)
	if nil == fn {
		rAnch.Unproven("input-proxy", token.NoPos, "no unique function receives from Broker.ich in a select")
		return
	}
	rAnch.OK(fnName(fn), fn.Pos(), "input proxy; select arm %d receives the operator's line", arm)
	r.Saw("func " + fnName(fn))

	/* 1: single consumer over all chan string receives. */
	nrecv := 0
	for _, f := range p.Funcs() {
		eachInstr(f, func(i ssa.Instruction) {
			isStrChan := func(v ssa.Value) bool {
				/* Unnamed channel types only: the operator's channel and the
				fields holding it are plain chan string, which a named
				channel type cannot alias without a conversion. */
				ch, ok := v.Type().(*types.Chan)
				if !ok {
					return false
				}
				b, ok := ch.Elem().Underlying().(*types.Basic)
				return ok && types.String == b.Kind()
			}
			switch x := i.(type) {
			case *ssa.Select:
				for k, st := range x.States {
					if types.RecvOnly == st.Dir && isStrChan(st.Chan) {
						nrecv++
						if x == sel && k == arm {
							rOne.OK(fnName(f)+":select-arm", posOf(i), "the input proxy's receive")
						} else {
							rOne.Bad(fnName(f)+":select-arm", posOf(i), "a second receiver of operator lines: lines taken here never reach the shell")
						}
					}
				}
			case *ssa.UnOp:
				if token.ARROW == x.Op && isStrChan(x.X) {
					nrecv++
					rOne.Bad(fnName(f)+":recv", posOf(i), "a second receiver of operator lines: lines taken here never reach the shell")
				}
			case *ssa.Range:
				if isStrChan(x.X) {
					nrecv++
					rOne.Bad(fnName(f)+":range", posOf(i), "a second receiver of operator lines")
				}
			}
		})
	}
	rOne.AtLeast(1, "receives")

	/* Locate the pieces. */
	ex := selectExtracts(sel)
	recvVal := ex[2+armRecvIndex(sel, arm)] /* Received values follow index and ok. */
	okVal := ex[1]
	wParam := ioOperand(fn, "Writer")
	if nil == recvVal || nil == wParam {
		rAnch.Unproven(fnName(fn)+":pieces", fn.Pos(), "received value or io.Writer parameter not found")
		return
	}
	armIf, armSucc := selectArmEdge(sel, arm)
	if nil == armIf {
		rAnch.Unproven(fnName(fn)+":arm-edge", posOf(sel), "could not find the branch taken for the receive arm")
		return
	}
	armStart := edgeLoc(armIf.Block(), armSucc)

	/* The payload: line + "\n". */
	var payload ssa.Value
	var writes []*ssa.Call
	eachInstr(fn, func(i ssa.Instruction) {
		c, ok := i.(*ssa.Call)
		if !ok {
			return
		}
		uses := false
		for _, a := range callArgs(c.Common()) {
			if stripConv(a, false) == wParam {
				uses = true
			}
		}
		if !uses {
			return
		}
		switch calleeName(c.Common()) {
		case "io.WriteString", "(io.Writer).Write", "fmt.Fprintf", "fmt.Fprint", "fmt.Fprintln", "(io.StringWriter).WriteString":
			writes = append(writes, c)
		default:
			if _, _, isWA := writeAllCall(c.Common()); isWA {
				writes = append(writes, c)
			}
		}
	})
	if 1 != len(writes) {
		rPayload.Bad(fnName(fn)+":writes", fn.Pos(), "%d writes to the stream per line; exactly one expected so a line is never split or repeated", len(writes))
	}
	var wcall *ssa.Call
	if len(writes) > 0 {
		wcall = writes[0]
		switch calleeName(wcall.Common()) {
		case "io.WriteString":
			payload = wcall.Common().Args[1]
		case "(io.Writer).Write":
			payload = stripConv(wcall.Common().Args[0], true)
		default:
			if _, pl, isWA := writeAllCall(wcall.Common()); isWA {
				payload = stripConv(pl, true)
			}
		}
		c := fnName(fn) + ":payload"
		if b, ok := payload.(*ssa.BinOp); ok && token.ADD == b.Op && b.X == ssa.Value(recvVal) {
			if s, ok := constString(b.Y); ok && "\n" == s {
				rPayload.OK(c, posOf(wcall), "received line + \"\\n\"")
			} else {
				rPayload.Bad(c, posOf(wcall), "the line is not followed by exactly one newline")
			}
		} else if lineNLBytes(payload, recvVal) {
			rPayload.OK(c, posOf(wcall), "append(append(buf[:0], line...), '\\n'): the received line and one newline")
		} else if nil == payload {
			rPayload.Unproven(c, posOf(wcall), "write idiom %s not recognised", calleeName(wcall.Common()))
		} else {
			rPayload.Bad(c, posOf(wcall), "the written value is not the received line plus a newline (%s)", describeValue(payload))
		}
	}

	/* The flush call: a call of a function value which is a phi of closures. */
	var fcall *ssa.Call
	eachInstr(fn, func(i ssa.Instruction) {
		c, ok := i.(*ssa.Call)
		if !ok || c.Common().IsInvoke() || nil != c.Common().StaticCallee() {
			return
		}
		/* The function value may have been chosen by the function which
		made this one (a literal which captured it). */
		if _, isPhi := p.resolveUp(c.Common().Value).(*ssa.Phi); isPhi && 0 == len(c.Common().Args) {
			fcall = c
		}
	})
	isSel := func(i ssa.Instruction) bool { return i == ssa.Instruction(sel) }
	if nil != wcall {
		/* 2a: received(ok) → next select passes through the write. */
		if bad := mustPass(armStart, isSel, func(i ssa.Instruction) bool { return i == ssa.Instruction(wcall) }); nil != bad {
			rCycle.Bad(fnName(fn)+":write", posOf(bad), "a received line can be dropped: a path from the receive back to the next receive skips the write")
		} else {
			rCycle.OK(fnName(fn)+":write", posOf(wcall), "every received line is written before the next receive")
		}
	}
	if nil != wcall {
		/* 2a': nor does the proxy return with a received line in hand —
		except over the "channel closed" edge, where there is no line. */
		closed := map[Edge]bool{}
		if nil != okVal {
			for _, bt := range boolTestsOf(fn, okVal) {
				b := bt.If.Block()
				closed[Edge{b.Index, b.Succs[1-bt.TrueSucc].Index}] = true
			}
		}
		if bad := (reachQ{From: armStart, Target: isReturn, NoEdges: closed, Block: func(i ssa.Instruction) bool { return i == ssa.Instruction(wcall) }}).run(); nil != bad {
			rCycle.Bad(fnName(fn)+":write-before-leaving", posOf(bad), "a line taken off the operator's channel can be thrown away: a path from the receive to the end of the proxy (a cancellation test after the receive, say) skips the write — the next shell gets a run with a gap")
		} else {
			rCycle.OK(fnName(fn)+":write-before-leaving", posOf(wcall), "the proxy never returns with a received line unwritten")
		}
	}
	if nil == fcall {
		rCycle.Bad(fnName(fn)+":flush", fn.Pos(), "no call of a flush function found in the input proxy: lines wait in a buffer until later input")
	} else if nil != wcall {
		/* (a flush value which is nil where the writer has nothing to
		flush, called below a nil test: the way round the call is the
		no-op flush) */
		noEdges := map[Edge]bool{}
		if g, ns, ok := nilGuardOf(p, fn, fcall); ok && nil != g {
			noEdges[Edge{g.Block().Index, g.Block().Succs[ns].Index}] = true
		}
		if bad := (reachQ{From: locOf(wcall), Target: isSel, Block: func(i ssa.Instruction) bool { return i == ssa.Instruction(fcall) }, NoEdges: noEdges}).run(); nil != bad {
			rCycle.Bad(fnName(fn)+":flush", posOf(fcall), "a written line is not always flushed before the next line is taken (a path from the write to the next receive skips the flush)")
		} else {
			rCycle.OK(fnName(fn)+":flush", posOf(fcall), "every write is followed by a flush before the next receive")
		}
		if !instrDominates(wcall, fcall) {
			rCycle.Bad(fnName(fn)+":order", posOf(fcall), "flush is not preceded by the write")
		}
		checkFlushSelection(p, rFlush, fn, fcall, wParam)
	}

	/* 4: error edges. */
	checkErrEdge := func(what string, call *ssa.Call, errIdx int) {
		if nil == call {
			return
		}
		var errV ssa.Value = call
		if errIdx >= 0 {
			e := extractOf(call, errIdx)
			if nil == e {
				rErr.Bad(fnName(fn)+":"+what+"-error", posOf(call), "the %s error is discarded", what)
				return
			}
			errV = e
		}
		tests := nilTestsOf(fn, errV)
		if 0 == len(tests) {
			rErr.Bad(fnName(fn)+":"+what+"-error", posOf(call), "the %s error is not tested", what)
			return
		}
		for _, t := range tests {
			from := edgeLoc(t.If.Block(), 1-t.NilSucc)
			if t.If.Block().Succs[0] == t.If.Block().Succs[1] {
				continue
			}
			if nil != (reachQ{From: from, Target: isSel}).run() {
				rErr.Bad(fnName(fn)+":"+what+"-error", posOf(t.If), "after a failed %s the loop takes further operator lines, which are lost on the dead stream", what)
				return
			}
		}
		rErr.OK(fnName(fn)+":"+what+"-error", posOf(call), "a failed %s leaves the loop", what)
	}
	if nil != wcall {
		checkErrEdge("write", wcall, writeErrIndex(wcall))
	}
	checkErrEdge("flush", fcall, -1)
	/* Closed input: the !ok edge returns without writing. */
	if nil != okVal {
		for _, bt := range boolTestsOf(fn, okVal) {
			ifi := bt.If
			from := edgeLoc(ifi.Block(), 1-bt.TrueSucc)
			hit := reachQ{From: from, Target: func(i ssa.Instruction) bool {
				return i == ssa.Instruction(sel) || (nil != wcall && i == ssa.Instruction(wcall))
			}}.run()
			if nil != hit {
				rErr.Bad(fnName(fn)+":closed-input", posOf(ifi), "a closed input channel does not end the proxy")
			} else {
				rErr.OK(fnName(fn)+":closed-input", posOf(ifi), "closed input channel returns")
			}
		}
	}
	/* Cancellation arm writes nothing. */
	if didx, _ := hasDoneArm(sel); didx >= 0 && nil != wcall {
		if dIf, dSucc := selectArmEdge(sel, didx); nil != dIf {
			from := edgeLoc(dIf.Block(), dSucc)
			if nil != (reachQ{From: from, Target: func(i ssa.Instruction) bool { return i == ssa.Instruction(wcall) || i == ssa.Instruction(sel) }}).run() {
				rErr.Bad(fnName(fn)+":cancel-arm", posOf(dIf), "the cancellation arm continues to write or receive")
			} else {
				rErr.OK(fnName(fn)+":cancel-arm", posOf(dIf), "the cancellation arm returns without touching the stream or the input")
			}
		}
	}

	/* 5: no go statement. */
	ngo := 0
	for _, f := range withAnons(fn) {
		eachInstr(f, func(i ssa.Instruction) {
			if _, ok := i.(*ssa.Go); ok {
				ngo++
				rGo.Bad(fnName(f)+":go", posOf(i), "a goroutine is started in the input proxy: lines handed to it can overtake each other")
			}
		})
	}
	if 0 == ngo {
		rGo.OK(fnName(fn), fn.Pos(), "no go statement")
	}

	checkInsertOneEntry(p, r, rIns)
	checkTransportWriter(p, r, rTW)
	checkStreamLifetime(p, r, r.Rule("stream-lifetime", "nothing puts a clock on the stream operator input is written to (C03's rule, for the input direction)"))
	checkBidirJoined(p, r, r.Rule("bidirectional-joined", "the function admitting both directions for one /io request returns only when both have ended: a direction started with go is waited for, so nothing writes to the handler's ResponseWriter after the handler has returned"))
	checkFullDuplex(p, r, r.Rule("duplex-enabled", "every handler which attaches both directions on one request enables full-duplex HTTP on that request before it does (else the first flush waits for the client's request body and operator input is not delivered promptly)"))
}

// checkTransportWriter: the writer argument of ConnectIn / ConnectInOut in
// the route handlers.
func checkTransportWriter(p *Prog, r *Report, ru *Rule) {
	n := 0
	for _, rt := range muxRoutes(p) {
		if nil == rt.Handler {
			continue
		}
		for _, f := range withAnons(rt.Handler) {
			eachInstr(f, func(i ssa.Instruction) {
				cc := callCommon(i)
				if nil == cc || nil == cc.StaticCallee() || "Broker" != recvTypeName(cc.StaticCallee()) {
					return
				}
				if "ConnectIn" != cc.StaticCallee().Name() && "ConnectInOut" != cc.StaticCallee().Name() {
					return
				}
				for k, pa := range cc.StaticCallee().Params {
					if !typeIs(pa.Type(), "io", "Writer") {
						continue
					}
					n++
					c := fmt.Sprintf("%s→%s:writer", fnName(rt.Handler), cc.StaticCallee().Name())
					w := stripConv(cc.Args[k], false)
					if wp, ok := w.(*ssa.Parameter); ok && typeIs(wp.Type(), "net/http", "ResponseWriter") {
						ru.OK(c, posOf(i), "the handler's own http.ResponseWriter")
						continue
					}
					/* A wrapper: must itself offer FlushError() error. */
					ms := p.SSA.MethodSets.MethodSet(w.Type())
					has := false
					for m := 0; m < ms.Len(); m++ {
						if "FlushError" == ms.At(m).Obj().Name() {
							has = true
						}
					}
					if has {
						ru.OK(c, posOf(i), "a writer of type %s, which offers FlushError", w.Type())
					} else {
						ru.Bad(c, posOf(i), "the stream writer handed to the broker is a %s without a FlushError method: the input proxy falls back to http.Flusher.Flush, which cannot report failure, so a failed flush counts as delivery and the next line is lost too", w.Type())
					}
				}
			})
		}
	}
	if n < 2 {
		ru.Unproven("handlers:writer", token.NoPos, "%d stream writers found in the handlers, at least 2 expected", n)
	}
	/* And on the way to the handlers: whatever is wrapped around the mux (a
	counting or logging middleware) and hands on a writer of its own must
	hand on one which still offers FlushError — the input proxy picks its
	flush by type assertion on what it is given. */
	for _, fn := range p.Funcs() {
		if nil == fn.Pkg || !strings.HasSuffix(fn.Pkg.Pkg.Path(), hsrvPkg) {
			continue
		}
		eachInstr(fn, func(i ssa.Instruction) {
			cc := callCommon(i)
			if nil == cc || len(cc.Args) < 1 {
				return
			}
			var w ssa.Value
			switch {
			case cc.IsInvoke() && "ServeHTTP" == cc.Method.Name() && 2 == len(cc.Args):
				w = cc.Args[0]
			case !cc.IsInvoke() && strings.HasSuffix(calleeName(cc), ").ServeHTTP") && 3 == len(cc.Args):
				w = cc.Args[1]
			default:
				return
			}
			if !typeIs(w.Type(), "net/http", "ResponseWriter") {
				return
			}
			x := stripConv(resolveCell(w), false)
			if wp, ok := x.(*ssa.Parameter); ok && typeIs(wp.Type(), "net/http", "ResponseWriter") {
				return /* handed on as received */
			}
			/* Around something which is known not to be a shell's
			route (the script handler, a file server): not a
			transport of operator input. */
			var hv ssa.Value
			if cc.IsInvoke() {
				hv = cc.Value
			} else {
				hv = cc.Args[0]
			}
			if g := servedBy(p, hv); nil != g {
				shell := false
				for _, gf := range withAnons(g) {
					eachInstr(gf, func(j ssa.Instruction) {
						c2 := callCommon(j)
						if nil == c2 {
							return
						}
						if callee := c2.StaticCallee(); nil != callee && "Broker" == recvTypeName(callee) && strings.HasPrefix(callee.Name(), "Connect") {
							shell = true
						}
						if cs, _, _ := serveHTTPCalls(gf); 0 != len(cs) {
							shell = true /* hands on again: unknown */
						}
					})
				}
				if !shell {
					return
				}
			} else if hc, isCall := resolveFree(stripConv(resolveCell(resolveFree(hv)), false)).(*ssa.Call); isCall {
				switch calleeName(hc.Common()) {
				case "net/http.FileServer", "net/http.FileServerFS", "net/http.NotFoundHandler", "net/http.RedirectHandler":
					return
				}
			}
			if _, ok := resolveFree(x).(*ssa.Parameter); ok && typeIs(x.Type(), "net/http", "ResponseWriter") {
				return
			}
			c := fmt.Sprintf("%s→ServeHTTP:writer", fnName(fn))
			hasFE := func(t types.Type) bool {
				ms := p.SSA.MethodSets.MethodSet(t)
				for m := 0; m < ms.Len(); m++ {
					if "FlushError" == ms.At(m).Obj().Name() {
						return true
					}
				}
				return false
			}
			has := hasFE(x.Type())
			if !has {
				/* Chosen at run time among several wrappers: each one
				offers FlushError, or is the writer as received, or is
				used only where a type assertion found that the real
				writer has no FlushError either. */
				noFE := map[Edge]bool{}
				for _, b := range fn.Blocks {
					ifi := blockIf(b)
					if nil == ifi {
						continue
					}
					dc := decodeCond(ifi.Cond)
					ex, isEx := dc.X.(*ssa.Extract)
					if !isEx || 1 != ex.Index || nil != dc.Y {
						continue
					}
					ta, isTA := ex.Tuple.(*ssa.TypeAssert)
					if !isTA || !ta.CommaOk || !hasFE(ta.AssertedType) {
						continue
					}
					if _, isParam := resolveFree(stripConv(resolveCell(ta.X), false)).(*ssa.Parameter); !isParam {
						continue
					}
					k := 1 /* the edge on which the assertion failed */
					if !dc.Eq {
						k = 0
					}
					noFE[Edge{b.Index, b.Succs[k].Index}] = true
				}
				leaves := phiLeaves(w)
				all := len(leaves) > 1 || (1 == len(leaves) && leaves[0].V != x)
				for _, l := range leaves {
					lv := stripConv(l.V, false)
					if lp, isP := resolveFree(lv).(*ssa.Parameter); isP && typeIs(lp.Type(), "net/http", "ResponseWriter") {
						continue
					}
					if hasFE(lv.Type()) {
						continue
					}
					blk := l.From
					if li, isInstr := lv.(ssa.Instruction); isInstr && nil == blk {
						blk = li.Block()
					}
					if nil == blk || 0 == len(noFE) || blockReachableAvoiding(fn, blk, noFE) {
						all = false
					}
				}
				has = all
			}
			if has {
				ru.OK(c, posOf(i), "the wrapped writer (%s) offers FlushError", x.Type())
			} else {
				ru.Bad(c, posOf(i), "the handlers are given a %s wrapped around the real ResponseWriter, and it has no FlushError method: the input proxy falls back to http.Flusher.Flush, which cannot report failure, so a failed flush counts as delivery (and is logged as sent) and the lines after it are lost too", x.Type())
			}
		})
	}
}

// checkFullDuplex: for each route whose handler calls ConnectInOut, a call of
// (*http.ResponseController).EnableFullDuplex reaches every such call —
// in the handler (helpers folded in), or in a function wrapped around it
// which does not make the call depend on the request.
func checkFullDuplex(p *Prog, r *Report, ru *Rule) {
	isDuplex := func(i ssa.Instruction) bool {
		cc := callCommon(i)
		return nil != cc && "(*net/http.ResponseController).EnableFullDuplex" == calleeName(cc)
	}
	/* Calls outside the handlers (a wrapper around the mux or a route):
	acceptable when they do not depend on what is requested. */
	wrapperOK, wrapperCond := false, ""
	var wrapperPos token.Pos
	handlers := map[*ssa.Function]bool{}
	for _, rt := range muxRoutes(p) {
		if nil != rt.Handler {
			for _, f := range withAnons(rt.Handler) {
				handlers[f] = true
			}
		}
	}
	for _, fn := range p.Funcs() {
		if handlers[fn] || nil == fn.Pkg || !strings.HasSuffix(fn.Pkg.Pkg.Path(), hsrvPkg) {
			continue
		}
		eachInstr(fn, func(i ssa.Instruction) {
			if !isDuplex(i) {
				return
			}
			wrapperOK, wrapperPos = true, posOf(i)
			for _, b := range fn.Blocks {
				ifi := blockIf(b)
				if nil == ifi {
					continue
				}
				for k := 0; k < 2; k++ {
					if !edgeDominates(ifi, k, i) {
						continue
					}
					if operandsReach(ifi.Cond, func(v ssa.Value) bool { return typeIs(v.Type(), "net/http", "Request") }) {
						wrapperOK = false
						wrapperCond = "a condition on the request (" + p.Pos(posOf(ifi)) + ")"
					}
				}
			}
		})
	}
	n := 0
	for _, rt := range muxRoutes(p) {
		if nil == rt.Handler {
			continue
		}
		for _, f := range withAnons(rt.Handler) {
			eachInstr(f, func(i ssa.Instruction) {
				cc := callCommon(i)
				if nil == cc || nil == cc.StaticCallee() || "Broker" != recvTypeName(cc.StaticCallee()) || "ConnectInOut" != cc.StaticCallee().Name() {
					return
				}
				n++
				c := fmt.Sprintf("%s[%s]→ConnectInOut", fnName(rt.Handler), rt.Pattern)
				/* Reachable from the handler's entry without the call? */
				entry := Loc{f.Blocks[0], -1, nil}
				/* Ways taken only under `go test` (testing.Testing()) are
				not ways of the program. */
				noTest := map[Edge]bool{}
				for _, b := range f.Blocks {
					ifi := blockIf(b)
					if nil == ifi {
						continue
					}
					dc := decodeCond(ifi.Cond)
					if tc, ok := dc.X.(*ssa.Call); ok && nil == dc.Y && "testing.Testing" == calleeName(tc.Common()) {
						k := 1
						if dc.Eq {
							k = 0
						}
						noTest[Edge{b.Index, b.Succs[k].Index}] = true
					}
				}
				miss := reachQ{From: entry, Block: isDuplex, NoEdges: noTest, Target: func(j ssa.Instruction) bool { return j == i }}.run()
				switch {
				case nil == miss:
					ru.OK(c, posOf(i), "EnableFullDuplex is called on every way to the attach")
				case wrapperOK:
					ru.OK(c, wrapperPos, "EnableFullDuplex is called by a function wrapped around the handlers, whatever is requested")
				case "" != wrapperCond:
					ru.Bad(c, posOf(i), "full-duplex HTTP is enabled outside the handler and only under %s: requests routed to this handler which do not meet it attach a shell whose first flush waits for the request body — operator input is held back", wrapperCond)
				default:
					ru.Bad(c, posOf(i), "both directions are attached on this request without full-duplex HTTP having been enabled: the first flush waits for the client's request body and operator input is not delivered promptly")
				}
			})
		}
	}
	if n < 1 {
		ru.Unproven("handlers:ConnectInOut", token.NoPos, "no route handler calls ConnectInOut")
	}
}

// armRecvIndex returns the position of arm among the receive arms of sel
// (received values are returned for receive arms only, in order).
func armRecvIndex(sel *ssa.Select, arm int) int {
	n := 0
	for i, st := range sel.States {
		if i == arm {
			return n
		}
		if types.RecvOnly == st.Dir {
			n++
		}
	}
	return n
}

// ioParam returns fn's parameter of type io.<name>.
// ioOperand: the io.<name> a function works on: a parameter of that type, or
// (for a function literal) a variable of that type it captured.
func ioOperand(fn *ssa.Function, name string) ssa.Value {
	if pa := ioParam(fn, name); nil != pa {
		return pa
	}
	for _, fv := range fn.FreeVars {
		if typeIs(fv.Type(), "io", name) {
			return fv
		}
	}
	/* Kept in the receiver (a small per-call struct passed by value):
	inputProxier{lines, w}.proxy reads p.w. */
	if nil != fn.Signature.Recv() && 0 != len(fn.Params) {
		var found ssa.Value
		eachInstr(fn, func(i ssa.Instruction) {
			if fx, ok := i.(*ssa.Field); ok && nil == found && fx.X == ssa.Value(fn.Params[0]) && typeIs(fx.Type(), "io", name) {
				found = fx
			}
		})
		if nil != found {
			return found
		}
		/* The receiver captured by a goroutine literal lives in a cell:
		the first read of the field there. */
		for _, f := range withAnons(fn) {
			eachInstr(f, func(i ssa.Instruction) {
				u, ok := i.(*ssa.UnOp)
				if !ok || nil != found || token.MUL != u.Op || !typeIs(u.Type(), "io", name) {
					return
				}
				if fa, isFA := u.X.(*ssa.FieldAddr); isFA {
					if al, isAl := resolveFree(fa.X).(*ssa.Alloc); isAl {
						for _, st := range storesTo(al) {
							if st.Val == ssa.Value(fn.Params[0]) {
								found = u
							}
						}
					}
				}
			})
		}
		if nil != found {
			return found
		}
	}
	return nil
}

func ioParam(fn *ssa.Function, name string) *ssa.Parameter {
	for _, pa := range fn.Params {
		if typeIs(pa.Type(), "io", name) {
			return pa
		}
	}
	return nil
}

// checkFlushSelection inspects the phi of flush functions.
func checkFlushSelection(p *Prog, ru *Rule, fn *ssa.Function, fcall *ssa.Call, w ssa.Value) {
	phi := p.resolveUp(fcall.Common().Value).(*ssa.Phi)
	/* Type assertions on w, in the function which makes the choice. */
	w = p.resolveUp(w)
	var taFE, taFL *ssa.TypeAssert
	eachInstr(phi.Parent(), func(i ssa.Instruction) {
		ta, ok := i.(*ssa.TypeAssert)
		if !ok || p.resolveUp(ta.X) != w || !ta.CommaOk {
			return
		}
		it, ok := ta.AssertedType.Underlying().(*types.Interface)
		if !ok {
			return
		}
		for k := 0; k < it.NumMethods(); k++ {
			switch it.Method(k).Name() {
			case "FlushError":
				taFE = ta
			case "Flush":
				taFL = ta
			}
		}
	})
	okIf := func(ta *ssa.TypeAssert) *ssa.If {
		if nil == ta {
			return nil
		}
		for _, ref := range *ta.Referrers() {
			if e, ok := ref.(*ssa.Extract); ok && 1 == e.Index {
				for _, r2 := range *e.Referrers() {
					if ifi, ok := r2.(*ssa.If); ok {
						return ifi
					}
				}
			}
		}
		return nil
	}
	feIf, flIf := okIf(taFE), okIf(taFL)
	c := fnName(fn) + ":flush="
	if nil == taFE || nil == feIf {
		ru.Bad(c+"FlushError", fn.Pos(), "the writer is never asked for FlushError: flush failures of the real response writer go unnoticed")
	}
	kinds := map[string]bool{}
	for k, e := range phi.Edges {
		if e == ssa.Value(phi) {
			continue /* Loop-carried. */
		}
		pred := phi.Block().Preds[k]
		last := pred.Instrs[len(pred.Instrs)-1]
		cf, binds := closureOf(e)
		kind := "unknown"
		switch {
		case isNilConst(e):
			/* Nothing to call: the no-op, provided the call is guarded. */
			if g, _, ok := nilGuardOf(p, fn, fcall); ok && nil != g {
				kind = "no-op"
			}
		case nil == cf:
		case "" != cf.Synthetic && nil != cf.Object() && "FlushError" == cf.Object().Name():
			kind = "FlushError"
			_ = binds
		default:
			/* A source closure: calls Flush, or does nothing. */
			calls := 0
			flushes := 0
			eachInstr(cf, func(i ssa.Instruction) {
				if cc := callCommon(i); nil != cc {
					calls++
					if cc.IsInvoke() && "Flush" == cc.Method.Name() {
						flushes++
					}
					if cc.IsInvoke() && "FlushError" == cc.Method.Name() {
						flushes += 100
					}
				}
			})
			switch {
			case 0 == calls:
				kind = "no-op"
			case 1 == calls && 1 == flushes:
				kind = "Flush"
			case 1 == calls && 100 == flushes:
				kind = "FlushError"
			}
		}
		kinds[kind] = true
		cc := c + kind
		/* implied: the phi edge pred→phi.Block is only taken under the
		given outcome of the type test. */
		implied := func(ifi *ssa.If, succ int) bool {
			if nil == ifi {
				return false
			}
			if ssa.Instruction(ifi) == last {
				return pred.Succs[0] != pred.Succs[1] && pred.Succs[succ] == phi.Block()
			}
			return edgeDominates(ifi, succ, last)
		}
		switch kind {
		case "FlushError":
			if implied(feIf, 0) {
				ru.OK(cc, posOf(last), "chosen when the writer implements FlushError")
			} else {
				ru.Bad(cc, posOf(last), "FlushError chosen without the writer having been asserted to implement it")
			}
		case "Flush":
			if implied(feIf, 1) && implied(flIf, 0) {
				ru.OK(cc, posOf(last), "chosen only when FlushError is not available")
			} else {
				ru.Bad(cc, posOf(last), "http.Flusher.Flush (which cannot report failure) can be chosen for a writer that has FlushError: a failed flush is taken for a delivered line and the next line is lost too")
			}
		case "no-op":
			if implied(feIf, 1) && (nil == flIf || implied(flIf, 1)) {
				ru.OK(cc, posOf(last), "only for writers with neither FlushError nor Flush")
			} else {
				ru.Bad(cc, posOf(last), "the no-op flush can be chosen for a flushable writer")
			}
		default:
			ru.Unproven(cc, posOf(last), "flush function candidate not recognised (%s)", describeValue(e))
		}
	}
	if !kinds["FlushError"] {
		ru.Bad(c+"FlushError:missing", posOf(fcall), "FlushError is never used as the flush function")
	}
}

// checkInsertOneEntry: ChanWriter.Write and Shell.insert.
func checkInsertOneEntry(p *Prog, r *Report, ru *Rule) {
	cw := p.Func("lib/opshell", "ChanWriter", "Write")
	if nil == cw {
		ru.Unproven("opshell.ChanWriter.Write", token.NoPos, "not found")
		return
	}
	r.Saw("func " + fnName(cw))
	var sends []*ssa.Send
	for _, f := range withAnons(cw) {
		eachInstr(f, func(i ssa.Instruction) {
			if s, ok := i.(*ssa.Send); ok {
				sends = append(sends, s)
			}
			if _, ok := i.(*ssa.Select); ok {
				sends = append(sends, nil)
			}
		})
	}
	c := fnName(cw)
	switch {
	case 1 != len(sends) || nil == sends[0]:
		ru.Bad(c+":one-send", cw.Pos(), "ChanWriter.Write performs %d channel operations; one send of the whole argument expected", len(sends))
	default:
		s := sends[0]
		/* Not in a loop: the send cannot reach itself. */
		if canReach(locOf(s), s) {
			ru.Bad(c+":one-send", posOf(s), "the send is inside a loop: one Write becomes several entries, between which other input can be interleaved")
		} else if cv, ok := s.X.(*ssa.Convert); ok && cv.X == ssa.Value(cw.Params[len(cw.Params)-1]) {
			ru.OK(c+":one-send", posOf(s), "sends string(b) once")
		} else {
			ru.Bad(c+":one-send", posOf(s), "the entry sent is not the whole argument (%s)", describeValue(s.X))
		}
	}
	ins := p.Func("lib/opshell", "Shell", "insert")
	if nil == ins {
		ru.Unproven("opshell.(*Shell).insert", token.NoPos, "not found")
		return
	}
	r.Saw("func " + fnName(ins))
	nw := 0
	eachInstr(ins, func(i ssa.Instruction) {
		cc := callCommon(i)
		if nil == cc {
			return
		}
		n := calleeName(cc)
		switch n {
		case "(io.Writer).Write", "(github.com/magisterquis/curlrevshell/lib/opshell.ChanWriter).Write":
			nw++
			if canReach(locOf(i), i) {
				ru.Bad(fnName(ins)+":one-write", posOf(i), "insert writes the payload in a loop")
				return
			}
			/* The argument is the generator's whole result. */
			arg := cc.Args[len(cc.Args)-1]
			whole := false
			for _, x := range valueRoots(arg, nil) {
				if "call" == x.Kind && 0 == x.Idx {
					whole = true
				}
			}
			if _, isSlice := arg.(*ssa.Slice); isSlice {
				whole = false
			}
			if !whole {
				ru.Bad(fnName(ins)+":one-write", posOf(i), "what insert writes is not the generator's whole payload")
			}
		case "io.Copy", "io.CopyBuffer", "io.CopyN", "(*bufio.Writer).ReadFrom", "io.WriteString", "(*bytes.Buffer).WriteTo", "(*bytes.Reader).WriteTo":
			nw += 100
			ru.Bad(fnName(ins)+":one-write", posOf(i), "insert feeds the payload through %s, which may split it into several Write calls (io.Copy uses 32 KiB chunks): each becomes a separate input entry with its own newline, and other input can be interleaved", n)
		}
	})
	if 1 == nw {
		ru.OK(fnName(ins)+":one-write", ins.Pos(), "the payload is handed to a single Write call")
	} else if nw < 100 {
		ru.Bad(fnName(ins)+":one-write", ins.Pos(), "insert performs %d writes of the payload; one expected", nw)
	}
}

var _ = fmt.Sprintf

// operandsReach: some value from which v is computed (operands of operands,
// captured variables resolved) satisfies pred.
func operandsReach(v ssa.Value, pred func(ssa.Value) bool) bool {
	seen := map[ssa.Value]bool{}
	var walk func(v ssa.Value, depth int) bool
	walk = func(v ssa.Value, depth int) bool {
		v = resolveFree(v)
		if nil == v || seen[v] || depth > 12 {
			return false
		}
		seen[v] = true
		if pred(v) {
			return true
		}
		i, ok := v.(ssa.Instruction)
		if !ok {
			return false
		}
		var ops []*ssa.Value
		for _, o := range i.Operands(ops) {
			if nil != *o && walk(*o, depth+1) {
				return true
			}
		}
		return false
	}
	return walk(v, 0)
}


// blockReachableAvoiding: can blk be reached from fn's entry without taking
// one of the given edges?
func blockReachableAvoiding(fn *ssa.Function, blk *ssa.BasicBlock, avoid map[Edge]bool) bool {
	if 0 == len(fn.Blocks) {
		return true
	}
	seen := map[int]bool{0: true}
	work := []*ssa.BasicBlock{fn.Blocks[0]}
	for 0 != len(work) {
		b := work[len(work)-1]
		work = work[:len(work)-1]
		if b == blk {
			return true
		}
		for _, s := range b.Succs {
			if avoid[Edge{b.Index, s.Index}] || seen[s.Index] {
				continue
			}
			seen[s.Index] = true
			work = append(work, s)
		}
	}
	return false
}


// checkBidirJoined: see the rule's text.  net/http lets go of the
// ResponseWriter when the handler returns; a line written by an input proxy
// which is still running then is consumed, logged and lost.
func checkBidirJoined(p *Prog, r *Report, ru *Rule) {
	a := findConnect(p)
	if 0 != len(a.Errs) {
		return
	}
	admitters := map[*ssa.Function]bool{}
	for _, ci := range a.Callers {
		admitters[topFn(ci.Parent())] = true
	}
	calls := func(f *ssa.Function) bool {
		hit := false
		for _, g := range withAnons(f) {
			eachInstr(g, func(i ssa.Instruction) {
				if c := callCommon(i); nil != c && nil != c.StaticCallee() && admitters[c.StaticCallee()] {
					hit = true
				}
			})
		}
		return hit
	}
	for _, fn := range p.Funcs() {
		if nil != fn.Parent() || admitters[fn] || !calls(fn) || nil == fn.Pkg || !strings.Contains(fn.Pkg.Pkg.Path()+"/", "/"+iobPkg+"/") {
			continue
		}
		n := 0
		eachInstr(fn, func(i ssa.Instruction) {
			g, ok := i.(*ssa.Go)
			if !ok {
				return
			}
			starts := false
			if sc := g.Common().StaticCallee(); nil != sc && (admitters[sc] || calls(sc)) {
				starts = true
			}
			if cf, _ := closureOf(g.Common().Value); nil != cf && calls(cf) {
				starts = true
			}
			if !starts {
				return
			}
			n++
			c := fmt.Sprintf("%s:go#%d", fnName(fn), n)
			isWait := func(j ssa.Instruction) bool {
				if cc := callCommon(j); nil != cc && strings.HasSuffix(calleeName(cc), ").Wait") {
					return true
				}
				if u, isU := j.(*ssa.UnOp); isU && token.ARROW == u.Op {
					return true
				}
				/* defer func() { <-done }(): the wait runs when the
				function returns, before its caller goes on. */
				if d, isD := j.(*ssa.Defer); isD {
					if lit, _ := closureOf(d.Common().Value); nil != lit && 0 != len(lit.Blocks) {
						for _, k := range lit.Blocks[0].Instrs {
							if u, isU := k.(*ssa.UnOp); isU && token.ARROW == u.Op {
								return true
							}
							if cc := callCommon(k); nil != cc && strings.HasSuffix(calleeName(cc), ").Wait") {
								return true
							}
						}
					}
				}
				_, isSel := j.(*ssa.Select)
				return isSel
			}
			if miss := mustPass(locOf(i), isReturn, isWait); nil != miss {
				ru.Bad(c, posOf(i), "a direction of the /io request is started with go and the function can return without waiting for it: the handler returns while that direction still uses its ResponseWriter or body")
			} else {
				ru.OK(c, posOf(i), "waited for before the function returns")
			}
		})
	}
}

// nilGuardOf: the function value fcall calls can be nil on some ways into its
// phi ("nothing to flush") and fcall stands below the non-nil edge of a test
// of that very value: returns the test and the index of its nil successor.
// (nil, -1, true) when no candidate is nil; ok is false when a nil candidate
// exists but the call is not guarded (it would panic).
func nilGuardOf(p *Prog, fn *ssa.Function, fcall *ssa.Call) (*ssa.If, int, bool) {
	phi, isPhi := p.resolveUp(fcall.Common().Value).(*ssa.Phi)
	if !isPhi {
		return nil, -1, true
	}
	hasNil := false
	for _, e := range phi.Edges {
		if isNilConst(e) {
			hasNil = true
		}
	}
	if !hasNil {
		return nil, -1, true
	}
	for _, t := range nilTestsOf(fn, fcall.Common().Value) {
		if edgeDominates(t.If, 1-t.NilSucc, fcall) {
			return t.If, t.NilSucc, true
		}
	}
	return nil, -1, false
}


// lineNLBytes: v is append(append(b[:0], line...), '\n') (or onto nil): the
// bytes of the received line followed by exactly one newline.
func lineNLBytes(v, line ssa.Value) bool {
	outer, ok := stripConv(v, true).(*ssa.Call)
	if !ok || "builtin.append" != calleeName(outer.Common()) || 2 != len(outer.Call.Args) {
		return false
	}
	el := variadicElems(outer.Common())
	if 1 != len(el) {
		return false
	}
	if k, isK := constInt(el[0]); !isK || '\n' != k {
		return false
	}
	inner, ok := outer.Call.Args[0].(*ssa.Call)
	if !ok || "builtin.append" != calleeName(inner.Common()) || 2 != len(inner.Call.Args) {
		return false
	}
	if stripConv(inner.Call.Args[1], true) != stripConv(line, true) {
		return false
	}
	switch d := inner.Call.Args[0].(type) {
	case *ssa.Slice:
		k, isK := constInt(d.High)
		return nil != d.High && isK && 0 == k && nil == d.Low
	case *ssa.Const:
		return d.IsNil()
	}
	return false
}
