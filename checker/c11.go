package main

// C11 — the JSON log is a complete, ordered transcript of shell I/O and
// connections.

import (
	"fmt"
	"go/constant"
	"go/token"
	"go/types"
	"strings"

	"golang.org/x/tools/go/ssa"
)

func init() {
	register("C11", &propDef{
		Run:         checkC11,
		Explanation: "Static decision of the record/delivery correspondence. (1) Input: the 'Shell I/O' record of the input proxy lies below the nil edges of both the write's and the flush's error, on every path from a successful flush to the next receive, at Info level or above, and its data operand is the string that was written. (2) Output: the record of the output proxy is control-dependent exactly on the arm of the select in which the chunk was handed to the operator channel, lies on every path from that arm to the next dequeue, and carries the chunk that was handed over. (3) Connections: on every path of the admission function (all abstract states) an attached stream logs 'New connection' once before its proxy runs and exactly one 'Disconnected' record afterwards (Error iff the proxy failed), a refused attempt outside shutdown logs an Error record whose reason is true of the state, and the logger handed to the proxy carries the direction attribute. (4) Wiring: main builds the logger from slog.NewJSONHandler at the default level over io.Discard or the -log file opened O_APPEND|O_CREATE|O_WRONLY, passes it to the server, whose per-request logger adds the request attributes and is what the handlers give to the broker. slog's JSON escaping and one-object-per-line framing are trusted. Also: each shell-route handler reaches its broker call on every path from entry, except below a ResponseController error edge or after an slog Error call.",
		Assumptions: []string{"log/slog's JSON handler writes one escaped JSON object per record and line", "records below the handler's level are dropped (default level: Info)"},
	})
}

// slogCalls returns the slog.Logger level-method calls of fn with the given
// constant message.
func slogCalls(fn *ssa.Function, msg string) []*ssa.Call {
	var out []*ssa.Call
	eachInstr(fn, func(i ssa.Instruction) {
		c, ok := i.(*ssa.Call)
		if !ok {
			return
		}
		n := calleeName(c.Common())
		if !strings.HasPrefix(n, "(*log/slog.Logger).") || len(c.Common().Args) < 2 {
			return
		}
		if k := slogMsgIndex(c); k < len(c.Common().Args) {
			if s, ok := constString(c.Common().Args[k]); ok && s == msg {
				out = append(out, c)
			}
		}
	})
	return out
}

// slogMsgIndex: where the message stands among the arguments of a logging
// method of *slog.Logger (receiver included): Info(msg, …), InfoContext(ctx,
// msg, …), Log/LogAttrs(ctx, level, msg, …).
func slogMsgIndex(c *ssa.Call) int {
	n := calleeName(c.Common())
	switch m := n[strings.LastIndex(n, ".")+1:]; {
	case "Log" == m, "LogAttrs" == m:
		return 3
	case strings.HasSuffix(m, "Context"):
		return 2
	}
	return 1
}

func slogLevel(c *ssa.Call) string {
	n := calleeName(c.Common())
	m := n[strings.LastIndex(n, ".")+1:]
	if ("Log" == m || "LogAttrs" == m) && len(c.Common().Args) > 2 {
		/* The level is an argument: slog.LevelInfo and friends. */
		if k, ok := constInt(c.Common().Args[2]); ok {
			switch {
			case k >= 8:
				return "Error"
			case k >= 4:
				return "Warn"
			case k >= 0:
				return "Info"
			}
			return "Debug"
		}
		return "a level not known before run time"
	}
	return strings.TrimSuffix(m, "Context")
}

// slogAttr returns the value logged under the given constant key.
func slogAttr(c *ssa.Call, key string) ssa.Value {
	el := variadicElems(c.Common())
	/* Elements are stored in index order. */
	vals := orderedVariadic(c.Common())
	_ = el
	/* Already typed attributes: slog.String(key, v), slog.Any(key, v), … */
	for _, v := range vals {
		if ac, ok := stripConv(v, false).(*ssa.Call); ok && strings.HasPrefix(calleeName(ac.Common()), "log/slog.") && 2 == len(ac.Common().Args) {
			if s, ok := constString(ac.Common().Args[0]); ok && s == key {
				return stripConv(ac.Common().Args[1], false)
			}
		}
	}
	for i := 0; i+1 < len(vals); i += 2 {
		if s, ok := constString(stripConv(vals[i], false)); ok && s == key {
			return stripConv(vals[i+1], false)
		}
	}
	return nil
}

// orderedVariadic returns the variadic elements in index order.
func orderedVariadic(c *ssa.CallCommon) []ssa.Value {
	if 0 == len(c.Args) {
		return nil
	}
	sl, ok := c.Args[len(c.Args)-1].(*ssa.Slice)
	if !ok {
		return nil
	}
	al, ok := sl.X.(*ssa.Alloc)
	if !ok {
		return nil
	}
	byIdx := map[int64]ssa.Value{}
	var max int64 = -1
	for _, ref := range *al.Referrers() {
		ia, ok := ref.(*ssa.IndexAddr)
		if !ok {
			continue
		}
		k, ok := constInt(ia.Index)
		if !ok {
			continue
		}
		for _, r2 := range *ia.Referrers() {
			if st, ok := r2.(*ssa.Store); ok && st.Addr == ssa.Value(ia) {
				byIdx[k] = st.Val
				if k > max {
					max = k
				}
			}
		}
	}
	var out []ssa.Value
	for k := int64(0); k <= max; k++ {
		out = append(out, byIdx[k])
	}
	return out
}

func checkC11(p *Prog, r *Report) {
	rIn := r.Rule("input-record", "the input 'Shell I/O' record is emitted iff write and flush succeeded, once per line, with the written string")
	rOut := r.Rule("output-record", "the output 'Shell I/O' record is emitted iff the chunk was handed to the operator channel, with that chunk")
	rConn := r.Rule("connection-records", "every attached stream logs New connection and exactly one Disconnected record; every refusal outside shutdown logs an Error record with a true reason; the proxies' logger carries the direction")
	rWire := r.Rule("wiring", "JSON handler at default level over the append-only -log file; the per-request logger reaches the broker")
	/* An input record means delivered: the flush whose success it reports
	must be able to fail (C02's rule, under this property's input clause). */
	checkTransportWriter(p, r, r.Rule("transport-writer", "what the handlers give the broker as the stream writer is the ResponseWriter itself, or a type which offers FlushError: otherwise a failed flush still gets its 'Shell I/O' record"))

	shellIO, ok := iobConst(p, "LMShellIO")
	lkData, ok2 := iobConst(p, "LKData")
	if !ok || !ok2 {
		rIn.Unproven("constants", token.NoPos, "LMShellIO / LKData not found")
		return
	}

	/* 1: input. */
	if fn, sel, _ := findProxyIn(p); nil != fn {
		r.Saw("func " + fnName(fn))
		recs := slogCalls(fn, shellIO)
		c := fnName(fn) + ":record"
		if 1 != len(recs) {
			rIn.Bad(c, fn.Pos(), "%d 'Shell I/O' records in the input proxy, exactly one expected", len(recs))
		} else {
			rec := recs[0]
			checkLevel(rIn, c, rec)
			/* Find write and flush as C02 does. */
			w := ioOperand(fn, "Writer")
			var wcall, fcall *ssa.Call
			eachInstr(fn, func(i ssa.Instruction) {
				cc, ok := i.(*ssa.Call)
				if !ok {
					return
				}
				_, _, isWA := writeAllCall(cc.Common())
				switch nm := calleeName(cc.Common()); {
				case "io.WriteString" == nm, "(io.Writer).Write" == nm, isWA:
					for _, a := range callArgs(cc.Common()) {
						if nil != w && stripConv(a, false) == w {
							wcall = cc
						}
					}
				}
				if _, isPhi := p.resolveUp(cc.Common().Value).(*ssa.Phi); isPhi && 0 == len(cc.Common().Args) && !cc.Common().IsInvoke() {
					fcall = cc
				}
			})
			if nil == wcall || nil == fcall {
				rIn.Unproven(c+":anchors", fn.Pos(), "write or flush call not found (see C02)")
			} else {
				okAll := true
				for _, pr := range []struct {
					what string
					v    ssa.Value
				}{{"write", writeErrOf(wcall)}, {"flush", fcall}} {
					if nil == pr.v {
						rIn.Bad(c+":after-"+pr.what, posOf(rec), "the %s error is not available", pr.what)
						okAll = false
						continue
					}
					dom := false
					for _, t := range nilTestsOf(fn, pr.v) {
						if edgeDominates(t.If, t.NilSucc, rec) {
							dom = true
						}
						/* Or, for a flush which is nil where there is
						nothing to flush and is called below a nil test:
						every way from the write to the record is over the
						success edge or round the call. */
						if "flush" == pr.what && !dom {
							if g, ns, ok := nilGuardOf(p, fn, fcall); ok && nil != g {
								ne := map[Edge]bool{
									{g.Block().Index, g.Block().Succs[ns].Index}:             true,
									{t.If.Block().Index, t.If.Block().Succs[t.NilSucc].Index}: true,
								}
								if nil == (reachQ{From: locOf(wcall), NoEdges: ne, Target: func(i ssa.Instruction) bool { return i == ssa.Instruction(rec) }}).run() {
									dom = true
								}
							}
						}
					}
					if !dom {
						okAll = false
						rIn.Bad(c+":after-"+pr.what, posOf(rec), "the record is not confined to the successful-%s edge: an undelivered line would be logged as delivered", pr.what)
					}
				}
				if okAll {
					rIn.OK(c+":after-success", posOf(rec), "below the nil edges of the write and flush errors")
				}
				/* Every successful flush is logged before the next receive. */
				var from *Loc
				for _, t := range nilTestsOf(fn, fcall) {
					l := edgeLoc(t.If.Block(), t.NilSucc)
					from = &l
				}
				if nil != from {
					miss := reachQ{From: *from, Block: func(i ssa.Instruction) bool { return i == ssa.Instruction(rec) }, Target: func(i ssa.Instruction) bool {
						if i == ssa.Instruction(sel) {
							return true
						}
						_, isRet := i.(*ssa.Return)
						return isRet
					}}.run()
					if nil != miss {
						rIn.Bad(c+":every-delivery", posOf(miss), "a delivered line can go unlogged (a path from the successful flush skips the record)")
					} else {
						rIn.OK(c+":every-delivery", posOf(rec), "every delivered line is logged before the next receive")
					}
				}
				/* A flush which cannot fail would make "flush succeeded"
				meaningless: same selection rule as C02. */
				checkFlushSelection(p, rIn, fn, fcall, w)
				/* Data operand. */
				var payload ssa.Value
				switch calleeName(wcall.Common()) {
				case "io.WriteString":
					payload = wcall.Common().Args[1]
				default:
					if _, pl, isWA := writeAllCall(wcall.Common()); isWA {
						payload = pl
					} else {
						payload = stripConv(wcall.Common().Args[0], true)
					}
				}
				if d := slogAttr(rec, lkData); nil != d && (d == payload || stripConv(d, true) == stripConv(payload, true)) {
					rIn.OK(c+":data", posOf(rec), "data is the string that was written")
				} else {
					rIn.Bad(c+":data", posOf(rec), "the record's %q attribute is not the string that was written", lkData)
				}
				/* Not in a loop of its own. */
			}
		}
	} else {
		rIn.Unproven("input-proxy", token.NoPos, "not found")
	}

	/* 2: output. */
	if pout := findProxyOut(p); nil != pout {
		r.Saw("func " + fnName(pout))
		och := brokerChan(p, "CLine")
		/* Every place a Plain line is handed to the operator channel (a
		helper folded in twice gives two). */
		var hands []queueSend
		for _, s := range sendsIn(pout) {
			if fv, _ := loadedField(p.resolveUp(s.Chan)); fv == och {
				if b, ok := constBool(litFields(s.Val)["Plain"]); nil != litFields(s.Val)["Plain"] && ok && b {
					hands = append(hands, s)
				}
			}
		}
		recs := slogCalls(pout, shellIO)
		c := fnName(pout) + ":record"
		isRec := func(i ssa.Instruction) bool {
			for _, rc := range recs {
				if i == ssa.Instruction(rc) {
					return true
				}
			}
			return false
		}
		switch {
		case 0 == len(hands):
			rOut.Unproven(c, pout.Pos(), "hand-over of Plain lines not found")
		case 0 == len(recs):
			rOut.Bad(c, pout.Pos(), "no 'Shell I/O' record next to the hand-over of output")
		default:
			for _, rec := range recs {
				checkLevel(rOut, c, rec)
			}
			/* A record only where a chunk was handed over: not reachable
			without one of the hand-over edges (or sends). */
			handEdges := map[Edge]bool{}
			var plainSends []ssa.Instruction
			okArms := true
			for _, h := range hands {
				if nil == h.Sel {
					plainSends = append(plainSends, h.Instr)
					continue
				}
				aif, asucc := selectArmEdge(h.Sel, h.Arm)
				if nil == aif {
					okArms = false
					continue
				}
				handEdges[Edge{aif.Block().Index, aif.Block().Succs[asucc].Index}] = true
			}
			for k, rec := range recs {
				cc := fmt.Sprintf("%s:iff-handed-over#%d", c, k+1)
				stray := reachQ{From: entryLoc(pout), NoEdges: handEdges, Block: func(i ssa.Instruction) bool {
					for _, ps := range plainSends {
						if i == ps {
							return true
						}
					}
					return false
				}, Target: func(i ssa.Instruction) bool { return i == ssa.Instruction(rec) }}.run()
				switch {
				case !okArms:
					rOut.Unproven(cc, posOf(rec), "the branch taken when a chunk was handed over was not found")
				case nil != stray:
					rOut.Bad(cc, posOf(rec), "the record is not confined to where the chunk was handed over: a chunk dropped on cancellation would be logged as shown")
				default:
					rOut.OK(cc, posOf(rec), "only after a hand-over")
				}
			}
			/* Every hand-over is logged before the next wait or return. */
			for k, h := range hands {
				cc := fmt.Sprintf("%s:every-handover#%d", c, k+1)
				var from Loc
				if nil == h.Sel {
					from = locOf(h.Instr)
				} else {
					aif, asucc := selectArmEdge(h.Sel, h.Arm)
					if nil == aif {
						continue
					}
					from = edgeLoc(aif.Block(), asucc)
				}
				miss := reachQ{From: from, Block: isRec, Target: func(i ssa.Instruction) bool {
					switch i.(type) {
					case *ssa.Select, *ssa.Return:
						return true
					}
					return false
				}}.run()
				if nil != miss {
					rOut.Bad(cc, posOf(miss), "a handed-over chunk can go unlogged")
				} else {
					rOut.OK(cc, posOf(h.Instr), "every chunk handed over here is logged")
				}
				/* With the chunk itself. */
				line := litFields(h.Val)["Line"]
				okData := false
				for _, rec := range recs {
					if d := slogAttr(rec, lkData); nil != d && nil != line && sameFieldLoad(d, line) {
						okData = true
					}
				}
				if okData {
					rOut.OK(fmt.Sprintf("%s:data#%d", c, k+1), posOf(h.Instr), "data is the chunk handed over")
				} else {
					rOut.Bad(fmt.Sprintf("%s:data#%d", c, k+1), posOf(h.Instr), "no record's %q attribute is the chunk that was handed over", lkData)
				}
			}
		}
	} else {
		rOut.Unproven("output-proxy", token.NoPos, "not found")
	}

	/* 3: connection records from the admission model. */
	a := findConnect(p)
	if 0 != len(a.Errs) {
		rConn.Unproven("admission-function", token.NoPos, "%s", strings.Join(a.Errs, "; "))
	} else {
		m := buildConnectModel(p, a)
		bad := map[string]bool{}
		nAdm, nRef := 0, 0
		for _, cp := range m.Paths {
			v, run := cp.V, cp.R
			before, after, proxied := splitTrace(run, "proxy")
			fail := func(what, format string, args ...any) {
				bad[what] = true
				rConn.Bad(fnName(a.Fn)+":"+what, posOf(endInstr(run, a.Fn)), "state {%s}: %s", v, fmt.Sprintf(format, args...))
			}
			if proxied {
				nAdm++
				if 1 != countIn(before, "slog:Info:LMNewConnection") {
					fail("connect-record", "an attached stream logs %d 'New connection' records at Info level before its proxy runs (records: %s)", countIn(before, "slog:Info:LMNewConnection"), strings.Join(filterPrefix(before, "slog:"), " "))
				}
				nd := countPrefix(after, "slog:Error:LMDisconnected") + countPrefix(after, "slog:Info:LMDisconnected") + countPrefix(after, "slog:Warn:LMDisconnected")
				if 1 != nd && "return" == run.End {
					fail("disconnect-record", "an ending stream logs %d 'Disconnected' records at Info level or above (records: %s)", nd, strings.Join(filterPrefix(after, "slog:"), " "))
				}
				if v.ProxyErr && 0 == countIn(after, "slog:Error:LMDisconnected") && "return" == run.End {
					fail("disconnect-error", "a failed stream's Disconnected record is not an Error record")
				}
				continue
			}
			if v.NoMore || v.expectAdmit() {
				continue
			}
			nRef++
			reason := ""
			for _, t := range run.Trace {
				if strings.HasPrefix(t, "slog:Error:") {
					reason = strings.TrimPrefix(t, "slog:Error:")
				}
			}
			valid := false
			for _, vr := range v.validReasons() {
				valid = valid || vr == reason
			}
			if !valid {
				fail("refusal-record", "a refused attempt logs Error record %q (all records: %s); one of %v expected", reason, strings.Join(filterPrefix(run.Trace, "slog:"), " "), v.validReasons())
			}
		}
		for _, w := range []string{"connect-record", "disconnect-record", "disconnect-error", "refusal-record"} {
			if !bad[w] {
				rConn.OK(fnName(a.Fn)+":"+w, a.Fn.Pos(), "holds on %d attached and %d refused paths", nAdm, nRef)
			}
		}
		/* Logger with direction handed to the proxy. */
		lkDir, _ := iobConst(p, "LKDirection")
		found := false
		eachInstr(a.Fn, func(i ssa.Instruction) {
			c, ok := i.(*ssa.Call)
			if !ok || c.Common().Value != ssa.Value(a.Proxy) {
				return
			}
			for _, arg := range c.Common().Args {
				if !typeIs(arg.Type(), "log/slog", "Logger") {
					/* Or a value of a module type which carries the
					logger (a transcript writer made from sl.With(…)). */
					if n := namedOf(arg.Type()); nil != n && nil != n.Obj().Pkg() && strings.HasPrefix(n.Obj().Pkg().Path(), ModPath) {
						for _, x := range valueRoots(arg, nil) {
							wc, isCall := x.V.(*ssa.Call)
							if "call" != x.Kind || !isCall || "(*log/slog.Logger).With" != calleeName(wc.Common()) {
								continue
							}
							if vals := orderedVariadic(wc.Common()); len(vals) >= 2 {
								if s, ok := constString(stripConv(vals[0], false)); ok && s == lkDir {
									found = true
								}
							}
						}
					}
					continue
				}
				wc, ok := resolveCell(arg).(*ssa.Call)
				if ok && "(*log/slog.Logger).With" == calleeName(wc.Common()) {
					vals := orderedVariadic(wc.Common())
					if len(vals) >= 2 {
						if s, ok := constString(stripConv(vals[0], false)); ok && s == lkDir {
							found = true
						}
					}
					/* A typed attribute: With(slog.String(key, dir)). */
					for _, v := range vals {
						if ac, isC := stripConv(v, false).(*ssa.Call); isC && strings.HasPrefix(calleeName(ac.Common()), "log/slog.") && 2 == len(ac.Common().Args) {
							if s, ok := constString(ac.Common().Args[0]); ok && s == lkDir {
								found = true
							}
						}
					}
				}
				if ph, ok := arg.(*ssa.Phi); ok {
					for _, e := range ph.Edges {
						if wc, ok := e.(*ssa.Call); ok && "(*log/slog.Logger).With" == calleeName(wc.Common()) {
							found = true
						}
					}
				}
			}
		})
		if found {
			rConn.OK(fnName(a.Fn)+":direction-attr", a.Fn.Pos(), "the proxy's logger is sl.With(%q, dir)", lkDir)
		} else {
			rConn.Bad(fnName(a.Fn)+":direction-attr", a.Fn.Pos(), "the logger handed to the proxy does not carry the %q attribute: Shell I/O records would not give the direction", lkDir)
		}
	}
	/* Handlers: every request on a shell route reaches the broker (which
	logs acceptance or refusal), or fails for an infrastructure reason. */
	for _, rt := range muxRoutes(p) {
		if nil == rt.Handler {
			continue
		}
		var conn ssa.Instruction
		eachInstr(rt.Handler, func(i ssa.Instruction) {
			if cc := callCommon(i); nil != cc && nil != cc.StaticCallee() && "Broker" == recvTypeName(cc.StaticCallee()) && strings.HasPrefix(cc.StaticCallee().Name(), "Connect") {
				conn = i
			}
		})
		if nil == conn {
			continue
		}
		c := fmt.Sprintf("route %s→%s:always-reaches-broker", rt.Pattern, fnName(rt.Handler))
		/* Early returns are accepted only below the failure edge of the
		response controller (full duplex / initial flush). */
		noEdges := map[Edge]bool{}
		eachInstr(rt.Handler, func(i ssa.Instruction) {
			call, ok := i.(*ssa.Call)
			if !ok || !isErrorType(call.Type()) || !strings.HasPrefix(calleeName(call.Common()), "(*net/http.ResponseController).") {
				return
			}
			for _, t := range nilTestsOf(rt.Handler, call) {
				noEdges[Edge{t.If.Block().Index, t.If.Block().Succs[1-t.NilSucc].Index}] = true
			}
		})
		miss := reachQ{From: entryLoc(rt.Handler), Target: isReturn, Block: func(i ssa.Instruction) bool {
			if i == conn {
				return true
			}
			/* A refusal the handler records itself. */
			cc := callCommon(i)
			return nil != cc && strings.HasPrefix(calleeName(cc), "(*log/slog.Logger).Error")
		}, NoEdges: noEdges}.run()
		if nil != miss {
			rConn.Bad(c, posOf(miss), "a request on %s can be turned away by the handler itself without reaching the broker: the refused stream has no connect, disconnect or error record in the log", rt.Pattern)
		} else {
			rConn.OK(c, posOf(conn), "every request reaches the broker's admission (which logs it)")
		}
	}
	checkC11Wiring(p, r, rWire)
}

func errOf(c *ssa.Call, idx int) ssa.Value {
	if e := extractOf(c, idx); nil != e {
		return e
	}
	return nil
}

func checkLevel(ru *Rule, c string, rec *ssa.Call) {
	switch slogLevel(rec) {
	case "Info", "Warn", "Error":
		ru.OK(c+":level", posOf(rec), "logged at %s", slogLevel(rec))
	default:
		ru.Bad(c+":level", posOf(rec), "logged at %s, below the level of the -log handler: the record never reaches the file", slogLevel(rec))
	}
}

// sameFieldLoad: a and b are the same value, or loads of the same field of
// the same base.
func sameFieldLoad(a, b ssa.Value) bool {
	if a == b {
		return true
	}
	fa, ba := loadedField(a)
	fb, bb := loadedField(b)
	return nil != fa && fa == fb && ba == bb
}

// checkC11Wiring: main.
func checkC11Wiring(p *Prog, r *Report, ru *Rule) {
	rm := p.Func("", "", "rmain")
	if nil == rm {
		ru.Unproven("main.rmain", token.NoPos, "not found")
		return
	}
	r.Saw("func " + fnName(rm))
	var newLogger, jsonH, openF, hnew *ssa.Call
	for _, f := range withAnons(rm) {
		eachInstr(f, func(i ssa.Instruction) {
			c, ok := i.(*ssa.Call)
			if !ok {
				return
			}
			switch calleeName(c.Common()) {
			case "log/slog.New":
				newLogger = c
			case "log/slog.NewJSONHandler":
				jsonH = c
			case "log/slog.NewTextHandler":
				ru.Bad("main.rmain:handler", posOf(c), "the log is not written by slog's JSON handler")
			case "os.OpenFile":
				openF = c
			}
			if sc := c.Common().StaticCallee(); nil != sc && "New" == sc.Name() && nil != sc.Pkg && strings.HasSuffix(sc.Pkg.Pkg.Path(), "/internal/hsrv") {
				hnew = c
			}
		})
	}
	if nil == newLogger || nil == jsonH || stripConv(newLogger.Common().Args[0], false) != ssa.Value(jsonH) {
		ru.Bad("main.rmain:handler", rm.Pos(), "the logger is not slog.New(slog.NewJSONHandler(...))")
	} else {
		ru.OK("main.rmain:handler", posOf(jsonH), "slog.New(slog.NewJSONHandler(w, opts))")
		if isNilConst(jsonH.Common().Args[1]) {
			ru.OK("main.rmain:level", posOf(jsonH), "default handler options (level Info)")
		} else if ok, why := handlerKeepsInfo(jsonH.Common().Args[1]); ok {
			ru.OK("main.rmain:level", posOf(jsonH), "%s", why)
		} else {
			ru.Unproven("main.rmain:level", posOf(jsonH), "handler options are not nil; the level could hide Info records")
		}
	}
	/* Records reach the file as they are made: the handler writes to the
	file (or io.Discard) itself, not into a buffer flushed later — a
	process which is killed, or leaves through log.Fatal, would take the
	buffered records with it. */
	if nil != jsonH {
		buffered := ""
		for _, x := range valueRoots(jsonH.Common().Args[0], nil) {
			if "call" == x.Kind {
				switch x.Callee {
				case "bufio.NewWriter", "bufio.NewWriterSize", "bufio.NewReadWriter":
					buffered = x.Callee
				}
			}
		}
		/* A writer of the module's own between the handler and the file
		which keeps records back must not let a later record overtake
		them. */
		for _, x := range valueRoots(jsonH.Common().Args[0], nil) {
			var t types.Type
			switch x.Kind {
			case "call":
				if c, ok := x.V.(*ssa.Call); ok {
					if sc := c.Common().StaticCallee(); nil != sc && nil != sc.Pkg && strings.HasPrefix(sc.Pkg.Pkg.Path(), ModPath) {
						t = c.Type()
					}
				}
			}
			if a, ok := x.V.(*ssa.Alloc); ok {
				t = a.Type()
			}
			if nil == t {
				continue
			}
			if tu, ok := t.(*types.Tuple); ok && 0 != tu.Len() {
				t = tu.At(0).Type()
			}
			ms := p.SSA.MethodSets.MethodSet(t)
			for k := 0; k < ms.Len(); k++ {
				if "Write" != ms.At(k).Obj().Name() {
					continue
				}
				wr := p.SSA.MethodValue(ms.At(k))
				if nil == wr || nil == wr.Blocks || nil == wr.Pkg || !strings.HasPrefix(wr.Pkg.Pkg.Path(), ModPath) {
					continue
				}
				for _, pa := range wr.Params {
					if sl, ok := pa.Type().Underlying().(*types.Slice); ok && types.Identical(sl.Elem(), types.Typ[types.Byte]) {
						r.Saw("func " + fnName(wr))
						checkWriterKeepsOrder(wr, pa, ru, "the log file")
					}
				}
			}
		}
		if "" != buffered {
			ru.Bad("main.rmain:unbuffered", posOf(jsonH), "the log handler writes into %s: records of delivered lines sit in memory until a flush, and are lost when the process ends without one", buffered)
		} else {
			ru.OK("main.rmain:unbuffered", posOf(jsonH), "no buffer between the handler and the file")
		}
	}
	if nil == openF {
		ru.Bad("main.rmain:open", rm.Pos(), "the -log file is not opened with os.OpenFile")
	} else if k, ok := constInt(openF.Common().Args[1]); ok {
		need := map[string]int64{"O_APPEND": osConst(p, "O_APPEND"), "O_CREATE": osConst(p, "O_CREATE"), "O_WRONLY": osConst(p, "O_WRONLY")}
		var missing []string
		for n, bit := range need {
			if bit < 0 {
				continue
			}
			if "O_WRONLY" == n {
				if (k & 3) != bit {
					missing = append(missing, n)
				}
				continue
			}
			if 0 == k&bit {
				missing = append(missing, n)
			}
		}
		if trunc := osConst(p, "O_TRUNC"); trunc > 0 && 0 != k&trunc {
			missing = append(missing, "no O_TRUNC")
		}
		if 0 == len(missing) {
			ru.OK("main.rmain:open", posOf(openF), "O_APPEND|O_CREATE|O_WRONLY")
		} else {
			ru.Bad("main.rmain:open", posOf(openF), "log file open flags lack %s: earlier sessions' records are lost or records cannot be written", strings.Join(missing, ","))
		}
	} else {
		ru.Unproven("main.rmain:open", posOf(openF), "open flags are not constant")
	}
	if nil == hnew || nil == newLogger {
		ru.Unproven("main.rmain:server-logger", rm.Pos(), "hsrv.New call not found")
	} else if resolveCell(hnew.Common().Args[0]) == ssa.Value(newLogger) {
		ru.OK("main.rmain:server-logger", posOf(hnew), "the JSON logger is handed to the server")
	} else {
		ru.Bad("main.rmain:server-logger", posOf(hnew), "the server is not given the JSON logger")
	}
	/* Handlers pass s.requestLogger(r) to the broker. */
	rl := p.Func(hsrvPkg, "Server", "requestLogger")
	n := 0
	for _, rt := range muxRoutes(p) {
		if nil == rt.Handler {
			continue
		}
		eachInstr(rt.Handler, func(i ssa.Instruction) {
			cc := callCommon(i)
			if nil == cc || nil == cc.StaticCallee() || "Broker" != recvTypeName(cc.StaticCallee()) || !strings.HasPrefix(cc.StaticCallee().Name(), "Connect") {
				return
			}
			n++
			c := fmt.Sprintf("%s→%s:logger", fnName(rt.Handler), cc.StaticCallee().Name())
			okk := false
			for _, a := range cc.Args {
				if lc, ok := a.(*ssa.Call); ok && nil != rl && lc.Common().StaticCallee() == rl {
					/* (of the handler's own request, wherever it stands
					among the arguments) */
					for _, la := range lc.Common().Args {
						if pa, isP := la.(*ssa.Parameter); isP && "*net/http.Request" == pa.Type().String() {
							okk = true
						}
					}
				}
			}
			if okk {
				ru.OK(c, posOf(i), "per-request logger of the handler's own request")
			} else {
				ru.Bad(c, posOf(i), "the broker is not given the per-request logger: records cannot be attributed to a connection")
			}
		})
	}
	if n < 3 {
		ru.Unproven("handlers:logger", token.NoPos, "only %d broker calls found in handlers", n)
	}
	/* requestLogger derives from s.sl. */
	if nil != rl {
		sl := p.Field(hsrvPkg, "Server", "sl")
		okk := false
		eachInstr(rl, func(i ssa.Instruction) {
			/* slog.New(s.sl.Handler().WithAttrs(…)) is s.sl.With(…) with
			the attributes already typed. */
			if c, ok := i.(*ssa.Call); ok && "(*log/slog.Logger).Handler" == calleeName(c.Common()) {
				if fv, _ := loadedField(c.Common().Args[0]); fv == sl {
					for _, ref := range *c.Referrers() {
						wa, isCall := ref.(*ssa.Call)
						if !isCall || !wa.Common().IsInvoke() || wa.Common().Value != ssa.Value(c) {
							continue
						}
						if mn := wa.Common().Method.Name(); "WithAttrs" != mn && "WithGroup" != mn {
							continue
						}
						for _, r2 := range *wa.Referrers() {
							if nc, isNew := r2.(*ssa.Call); isNew && "log/slog.New" == calleeName(nc.Common()) {
								okk = true
							}
						}
					}
				}
			}
			if c, ok := i.(*ssa.Call); ok && "(*log/slog.Logger).With" == calleeName(c.Common()) {
				if fv, _ := loadedField(c.Common().Args[0]); fv == sl {
					okk = true
				}
				/* Or of the logger every caller hands in (a method made a
				plain function). */
				if pa, isP := c.Common().Args[0].(*ssa.Parameter); isP {
					if idx, cs := paramIndex(rl, pa), p.callersOf(rl); idx >= 0 && len(cs) > 0 {
						all := true
						for _, ci := range cs {
							if idx >= len(ci.Common().Args) {
								all = false
								continue
							}
							if fv, _ := loadedField(ci.Common().Args[idx]); fv != sl {
								all = false
							}
						}
						if all {
							okk = true
						}
					}
				}
			}
		})
		if okk {
			ru.OK(fnName(rl)+":derives", rl.Pos(), "s.sl.With(request attributes)")
		} else {
			ru.Bad(fnName(rl)+":derives", rl.Pos(), "the per-request logger is not derived from the server's logger")
		}
	}
}

// osConst returns the value of an integer constant of package os, or -1.
func osConst(p *Prog, name string) int64 {
	for _, pk := range p.Pkgs {
		for _, imp := range pk.Types.Imports() {
			if "os" == imp.Path() {
				if c, ok := imp.Scope().Lookup(name).(interface{ Val() constant.Value }); ok {
					if v, ok := constant.Int64Val(c.Val()); ok {
						return v
					}
				}
			}
		}
	}
	return -1
}

// handlerKeepsInfo: opts is a *slog.HandlerOptions literal of this function
// whose Level is, on every path, a constant slog.Level not above Info (or is
// left unset), and which sets no ReplaceAttr (which could rewrite or drop the
// message and data attributes).
func handlerKeepsInfo(opts ssa.Value) (bool, string) {
	al, ok := stripConv(opts, false).(*ssa.Alloc)
	if !ok {
		return false, ""
	}
	st, ok := al.Type().Underlying().(*types.Pointer).Elem().Underlying().(*types.Struct)
	if !ok {
		return false, ""
	}
	maxLevel := int64(0)
	for _, ref := range *al.Referrers() {
		switch x := ref.(type) {
		case *ssa.FieldAddr:
			fname := st.Field(x.Field).Name()
			for _, r2 := range *x.Referrers() {
				s2, isStore := r2.(*ssa.Store)
				if !isStore || s2.Addr != ssa.Value(x) {
					continue
				}
				switch fname {
				case "Level":
					for _, l := range phiLeaves(s2.Val) {
						v := stripConv(l.V, true)
						k, isC := constInt(v)
						if !isC {
							return false, ""
						}
						if k > maxLevel {
							maxLevel = k
						}
					}
				case "AddSource":
				default:
					return false, ""
				}
			}
		case *ssa.DebugRef, *ssa.Call:
		default:
			if ref != nil {
				if _, isMI := ref.(*ssa.MakeInterface); !isMI {
					return false, ""
				}
			}
		}
	}
	if maxLevel > 0 {
		return false, ""
	}
	return true, "handler options set a constant level not above Info and no ReplaceAttr"
}
