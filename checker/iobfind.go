package main

// iobfind.go: semantic anchors inside internal/iobroker shared by C02, C03,
// C04 and C11: the input proxy (the function receiving from Broker.ich), the
// output proxy (the function sending Plain CLines on Broker.och) and helpers
// about select statements and contexts.

import (
	"go/token"
	"go/types"

	"golang.org/x/tools/go/ssa"
)

// selectArm describes one state of a Select.
type selectArm struct {
	Sel   *ssa.Select
	Index int
	State *ssa.SelectState
}

// selectsIn lists the Select instructions of fn.
func selectsIn(fn *ssa.Function) []*ssa.Select {
	var out []*ssa.Select
	eachInstr(fn, func(i ssa.Instruction) {
		if s, ok := i.(*ssa.Select); ok {
			out = append(out, s)
		}
	})
	return out
}

// isCtxDone reports whether ch is the result of Done() on a context value,
// and returns that context value (free variables resolved outwards).
func isCtxDone(ch ssa.Value) (ssa.Value, bool) {
	/* (also when the channel was fetched once and kept: done :=
	ctx.Done(), possibly captured by the literal which selects on it) */
	c, ok := resolveCell(ch).(*ssa.Call)
	if !ok {
		return nil, false
	}
	if "(context.Context).Done" != calleeName(c.Common()) {
		return nil, false
	}
	return resolveCell(c.Common().Value), true
}

// resolveCell resolves free variables outwards, and loads of single-store
// local cells to the stored value.
func resolveCell(v ssa.Value) ssa.Value {
	for k := 0; k < 8; k++ {
		v = resolveFree(v)
		u, ok := v.(*ssa.UnOp)
		if !ok || token.MUL != u.Op {
			return v
		}
		a, ok := resolveFree(u.X).(*ssa.Alloc)
		if !ok {
			/* A field of a local struct variable (possibly a copy of
			another one): the value last put into that field. */
			if fa, isFA := resolveFree(u.X).(*ssa.FieldAddr); isFA {
				if w := localStructField(fa.X, fa.Field, 0); nil != w {
					v = w
					continue
				}
			}
			return v
		}
		sts := reachingStores(u, a)
		if 1 != len(sts) {
			return v
		}
		v = sts[0].Val
	}
	return v
}

// hasDoneArm reports whether the select has a receive arm on ctx.Done() and
// returns the arm index and the context.
func hasDoneArm(s *ssa.Select) (int, ssa.Value) {
	for i, st := range s.States {
		if types.RecvOnly != st.Dir {
			continue
		}
		if ctx, ok := isCtxDone(st.Chan); ok {
			return i, ctx
		}
	}
	return -1, nil
}

// findProxyIn: the function of iobroker with a select arm receiving from
// Broker.ich.
func findProxyIn(p *Prog) (*ssa.Function, *ssa.Select, int) {
	ich := brokerChan(p, "string")
	if nil == ich {
		return nil, nil, -1
	}
	var fn *ssa.Function
	var sel *ssa.Select
	idx := -1
	n := 0
	for _, f := range p.Funcs() {
		for _, s := range selectsIn(f) {
			for i, st := range s.States {
				if types.RecvOnly != st.Dir {
					continue
				}
				if fv, _ := loadedField(p.resolveUp(st.Chan)); fv == ich {
					fn, sel, idx = f, s, i
					n++
				}
			}
		}
	}
	if 1 != n {
		return nil, nil, -1
	}
	return fn, sel, idx
}

// chanFieldOps lists every receive (select arm, unary <-, range) and send on a
// channel loaded from the given field, across the module.
type chanOp struct {
	Fn    *ssa.Function
	Instr ssa.Instruction
	Recv  bool
}

func chanFieldOps(p *Prog, f *types.Var) []chanOp {
	var out []chanOp
	isF := func(v ssa.Value) bool {
		fv, _ := loadedField(p.resolveUp(stripConv(v, false)))
		return fv == f
	}
	for _, fn := range p.Funcs() {
		eachInstr(fn, func(i ssa.Instruction) {
			switch x := i.(type) {
			case *ssa.Select:
				for _, st := range x.States {
					if isF(st.Chan) {
						out = append(out, chanOp{fn, i, types.RecvOnly == st.Dir})
					}
				}
			case *ssa.UnOp:
				if token.ARROW == x.Op && isF(x.X) {
					out = append(out, chanOp{fn, i, true})
				}
			case *ssa.Send:
				if isF(x.Chan) {
					out = append(out, chanOp{fn, i, false})
				}
			case *ssa.Range:
				if isF(x.X) {
					out = append(out, chanOp{fn, i, true})
				}
			case *ssa.Next:
				/* range over channel is lowered to UnOp ARROW with
				CommaOk in go/ssa; nothing to do. */
			}
		})
	}
	return out
}

// findProxyOut: the function of iobroker that sends CLines with Plain set on
// Broker.och.
func findProxyOut(p *Prog) *ssa.Function {
	och := brokerChan(p, "CLine")
	if nil == och {
		return nil
	}
	var out *ssa.Function
	n := 0
	for _, op := range chanFieldOps(p, och) {
		if op.Recv {
			continue
		}
		var val ssa.Value
		switch x := op.Instr.(type) {
		case *ssa.Send:
			val = x.X
		case *ssa.Select:
			for _, st := range x.States {
				if fv, _ := loadedField(p.resolveUp(st.Chan)); fv == och && types.SendOnly == st.Dir {
					val = st.Send
				}
			}
		}
		if nil == val {
			continue
		}
		if pv := structLitField(val, "Plain"); nil != pv {
			if b, ok := constBool(pv); ok && b {
				if out != op.Fn {
					n++
				}
				out = op.Fn
			}
		}
	}
	if 1 != n {
		return nil
	}
	return out
}

// selectExtract returns the Extract instructions of a Select's result tuple:
// index value, recvOk, and received values by arm order.
func selectExtracts(s *ssa.Select) map[int]*ssa.Extract {
	out := map[int]*ssa.Extract{}
	for _, ref := range *s.Referrers() {
		if e, ok := ref.(*ssa.Extract); ok {
			out[e.Index] = e
		}
	}
	return out
}

// selectArmBlock returns the first block executed when arm idx of the select
// is chosen: the select's index result is compared with constants in a chain
// of Ifs.
func selectArmBlock(s *ssa.Select, idx int) *ssa.BasicBlock {
	ex := selectExtracts(s)[0]
	if nil == ex {
		/* Single-arm blocking select: falls through. */
		return nil
	}
	for _, ref := range *ex.Referrers() {
		b, ok := ref.(*ssa.BinOp)
		if !ok || token.EQL != b.Op {
			continue
		}
		var k int64 = -1
		if n, ok := constInt(b.Y); ok {
			k = n
		} else if n, ok := constInt(b.X); ok {
			k = n
		}
		if int64(idx) != k {
			continue
		}
		for _, r2 := range *b.Referrers() {
			if ifi, ok := r2.(*ssa.If); ok {
				return ifi.Block().Succs[0]
			}
		}
	}
	/* The last arm is the else of the final If. */
	var last *ssa.If
	for _, ref := range *ex.Referrers() {
		if b, ok := ref.(*ssa.BinOp); ok {
			for _, r2 := range *b.Referrers() {
				if ifi, ok := r2.(*ssa.If); ok {
					if nil == last || ifi.Block().Index > last.Block().Index {
						last = ifi
					}
				}
			}
		}
	}
	if nil != last && idx == len(s.States)-1 {
		return last.Block().Succs[1]
	}
	return nil
}

// reachingStores: the stores to cell a whose value the load can observe.  For
// a load in the cell's own function these are the stores from which the load
// is reachable without passing another store; for a load inside a function
// literal, the same with respect to the point where the literal is made.
// Stores made inside function literals are always kept.
func reachingStores(load *ssa.UnOp, a *ssa.Alloc) []*ssa.Store {
	return reachingStoresAt(load, a)
}

// reachingStoresAt is reachingStores for any instruction using the cell.
func reachingStoresAt(load ssa.Instruction, a *ssa.Alloc) []*ssa.Store {
	all := storesTo(a)
	if len(all) < 2 {
		return all
	}
	var use ssa.Instruction = load
	for f := load.Parent(); f != a.Parent(); {
		if nil == f || nil == f.Parent() {
			return all
		}
		var mk ssa.Instruction
		n := 0
		eachInstr(f.Parent(), func(i ssa.Instruction) {
			if mc, ok := i.(*ssa.MakeClosure); ok && mc.Fn == ssa.Value(f) {
				mk = mc
				n++
			}
		})
		if 1 != n {
			return all
		}
		use = mk
		f = f.Parent()
	}
	isStore := func(i ssa.Instruction) bool {
		st, ok := i.(*ssa.Store)
		return ok && resolveFree(st.Addr) == ssa.Value(a)
	}
	var out []*ssa.Store
	/* Has a deferred function possibly run by the time of the use? */
	afterDefers := false
	eachInstr(a.Parent(), func(i ssa.Instruction) {
		if _, isRun := i.(*ssa.RunDefers); isRun && canReach(locOf(i), use) {
			afterDefers = true
		}
	})
	for _, st := range all {
		if st.Parent() != a.Parent() {
			/* A store made by a function literal which is only ever
			deferred happens when the deferred calls run, not before. */
			if !afterDefers && deferredOnly(st.Parent(), a.Parent()) {
				continue
			}
			out = append(out, st)
			continue
		}
		if nil != (reachQ{From: locOf(st), Target: func(i ssa.Instruction) bool { return i == use }, Block: isStore}).run() {
			out = append(out, st)
		}
	}
	if 0 == len(out) {
		return all
	}
	return out
}

// localStructField: base is the address of a local struct variable; returns
// the one value stored into its field number f — directly, or through a
// whole-struct copy from another local struct variable — or nil.
func localStructField(base ssa.Value, f int, depth int) ssa.Value {
	al, ok := resolveFree(base).(*ssa.Alloc)
	if !ok || depth > 4 {
		return nil
	}
	if _, isStruct := al.Type().Underlying().(*types.Pointer).Elem().Underlying().(*types.Struct); !isStruct {
		return nil
	}
	var cands []ssa.Value
	for _, fn := range withAnons(al.Parent()) {
		bad := false
		eachInstr(fn, func(i ssa.Instruction) {
			st, ok := i.(*ssa.Store)
			if !ok {
				return
			}
			if fa, isFA := resolveFree(st.Addr).(*ssa.FieldAddr); isFA && resolveFree(fa.X) == ssa.Value(al) {
				if fa.Field == f {
					cands = append(cands, st.Val)
				}
				return
			}
			if resolveFree(st.Addr) != ssa.Value(al) {
				return
			}
			/* Whole-struct store. */
			switch x := st.Val.(type) {
			case *ssa.Const:
				/* zero value: nothing in the field yet */
			case *ssa.UnOp:
				if token.MUL == x.Op {
					if w := localStructField(x.X, f, depth+1); nil != w {
						cands = append(cands, w)
						return
					}
				}
				bad = true
			default:
				bad = true
			}
		})
		if bad {
			return nil
		}
	}
	if 1 != len(cands) {
		return nil
	}
	return cands[0]
}

// brokerChan returns the Broker's channel field (at any depth) whose element
// type is named elem ("string" for the operator's input lines, "CLine" for
// the operator's output), whatever the field is called.
func brokerChan(p *Prog, elem string) *types.Var {
	pk := p.Pkg(iobPkg)
	if nil == pk {
		return nil
	}
	tn, ok := lookupObj(pk, "Broker").(*types.TypeName)
	if !ok {
		return nil
	}
	var out *types.Var
	n := 0
	for _, l := range brokerLeaves(tn.Type(), "b", nil, 0) {
		ch, ok := l.Type.Underlying().(*types.Chan)
		if !ok {
			continue
		}
		name := ch.Elem().String()
		if nn := namedOf(ch.Elem()); nil != nn {
			name = nn.Obj().Name()
		}
		if name == elem {
			out = l.Var
			n++
		}
	}
	if 1 != n {
		return nil
	}
	return out
}

// deferredOnly: the function literal g of parent is made once and used only
// as the callee of a defer statement of parent.
func deferredOnly(g, parent *ssa.Function) bool {
	if nil == g || g.Parent() != parent {
		return false
	}
	n := 0
	ok := true
	eachInstr(parent, func(i ssa.Instruction) {
		mc, isMC := i.(*ssa.MakeClosure)
		if !isMC || mc.Fn != ssa.Value(g) {
			return
		}
		n++
		for _, ref := range *mc.Referrers() {
			switch x := ref.(type) {
			case *ssa.Defer:
				if x.Common().Value != ssa.Value(mc) {
					ok = false
				}
			case *ssa.DebugRef:
			default:
				ok = false
			}
		}
	})
	return ok && 1 == n
}
