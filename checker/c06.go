package main

// C06 — both halves of a bidirectional /io shell come from the same request.

import (
	"fmt"
	"go/token"
	"go/types"
	"strings"

	"golang.org/x/tools/go/ssa"
)

func init() {
	register("C06", &propDef{
		Run:         checkC06,
		Explanation: "Static decision of the pairing clause. In the function which admits both directions for one caller (ConnectInOut) the key handed to the two admitting calls is one SSA value which is fresh per call: it contains bytes produced inside this call by crypto/rand (or a math/rand top-level draw / atomic counter), of at least 8 bytes, with the generator's error checked before use; the admitting functions pass their key parameter unchanged to the admission function; and (C01's admission table, re-evaluated here) attached halves always carry keys compared in full with Broker.key, which receives the caller's key itself. Hence two halves can only be paired when they carry the same per-call token, i.e. belong to the same ConnectInOut call; the /io handler makes exactly one such call with the writer and body of its own request. At most one request becomes the shell by C01.",
		Assumptions: []string{"crypto/rand output does not repeat between calls (16 random bytes)"},
	})
}

// randomSourceCalls are callees whose result (or filled buffer) is fresh per
// call.
var randFill = map[string]bool{
	"crypto/rand.Read": true,
}
var randValue = map[string]bool{
	"math/rand.Uint64": true, "math/rand.Uint32": true, "math/rand.Int63": true, "math/rand.Int": true, "math/rand.Int31": true,
	"math/rand/v2.Uint64": true, "math/rand/v2.Uint32": true, "math/rand/v2.Int64": true, "math/rand/v2.Int": true, "math/rand/v2.N": true,
	"crypto/rand.Int": true, "crypto/rand.Text": true,
	"sync/atomic.AddUint64": true, "sync/atomic.AddInt64": true, "(*sync/atomic.Uint64).Add": true, "(*sync/atomic.Int64).Add": true,
}

func checkC06(p *Prog, r *Report) {
	rAnch := r.Rule("anchors", "the function admitting both directions of one caller is identified by its two admitting calls")
	rTok := r.Rule("pairing-token", "both halves carry one key value which is fresh per call (random bytes generated inside the call, generator error checked)")
	rPass := r.Rule("key-passed-whole", "admitting functions hand their key parameter unchanged to the admission function, which compares and stores it whole")
	rReq := r.Rule("same-request", "the /io handler makes one bidirectional admission call with the response writer and body of its own request")

	a := findConnect(p)
	if 0 != len(a.Errs) {
		for _, e := range a.Errs {
			rAnch.Unproven("admission-function", token.NoPos, "%s", e)
		}
		return
	}
	/* Admitting functions by direction. */
	admitters := map[*ssa.Function]string{} /* → entry name (one per direction) */
	keyIdx := paramIndex(a.Fn, a.Key)
	for _, ci := range a.Callers {
		top := ci.Parent()
		for nil != top.Parent() {
			top = top.Parent()
		}
		admitters[top] = fnName(top)
		/* Key passed whole. */
		k := ci.Common().Args[keyIdx]
		c := fnName(ci.Parent()) + "→" + fnName(a.Fn)
		if pa, ok := k.(*ssa.Parameter); ok && pa.Parent() == ci.Parent() {
			rPass.OK(c, posOf(ci), "key parameter %s passed unchanged", pa.Name())
		} else {
			rPass.Bad(c, posOf(ci), "the key handed to the admission function is not the caller's key parameter itself (%s)", describeValue(k))
		}
	}
	/* C01's table facts about whole-key comparison and storage. */
	m := buildConnectModel(p, a)
	badTable := 0
	for _, cp := range m.Paths {
		before, _, proxied := splitTrace(cp.R, "proxy")
		if proxied && !cp.V.expectAdmit() {
			badTable++
			rPass.Bad(fnName(a.Fn)+":admits-mismatch", a.Fn.Pos(), "state {%s}: a half whose key differs from the attached one can be attached", cp.V)
		}
		/* Check and registration are one critical section: between the
		lock under which the key was compared and the stores which register
		this half, the lock is not given up (else two halves of different
		requests can both pass the checks before either is registered). */
		if proxied && cp.V.expectAdmit() {
			firstStore := -1
			for k, t := range before {
				if strings.HasPrefix(t, "store:") {
					firstStore = k
					break
				}
			}
			if firstStore >= 0 {
				locks, unlocks := 0, 0
				for _, t := range before[:firstStore] {
					switch t {
					case "lock":
						locks++
					case "unlock":
						unlocks++
					}
				}
				if unlocks > 0 || 1 != locks {
					badTable++
					rPass.Bad(fnName(a.Fn)+":check-and-register-atomic", a.Fn.Pos(), "state {%s}: the lock is released between the admission checks and the registration of the half (%d lock, %d unlock before the first store): halves of different requests can pass the checks together and pair", cp.V, locks, unlocks)
				}
			}
		}
		if proxied && cp.V.expectAdmit() && 1 != countIn(before, "store:b.key=str:K") {
			badTable++
			rPass.Bad(fnName(a.Fn)+":stores-whole-key", a.Fn.Pos(), "state {%s}: Broker.key does not receive the caller's key itself (%s)", cp.V, strings.Join(filterPrefix(before, "store:b.key"), " "))
		}
	}
	if 0 == badTable {
		rPass.OK(fnName(a.Fn)+":whole-key", a.Fn.Pos(), "on %d paths keys are compared in full and stored unchanged", len(m.Paths))
	}

	/* The bidirectional admitter: a function with calls to admitters of
	both directions. */
	var bidir []*ssa.Function
	for _, fn := range p.Funcs() {
		if nil != fn.Parent() || "" != admitters[fn] {
			continue
		}
		dirs := map[string][]ssa.CallInstruction{}
		for _, f := range withAnons(fn) {
			eachInstr(f, func(i ssa.Instruction) {
				if c := callCommon(i); nil != c && nil != c.StaticCallee() {
					if own, ok := admitters[c.StaticCallee()]; ok {
						dirs[own] = append(dirs[own], i.(ssa.CallInstruction))
					}
				}
			})
		}
		if 2 == len(dirs) {
			bidir = append(bidir, fn)
			r.Saw("func " + fnName(fn))
			checkPairingToken(p, rTok, fn, dirs)
		}
	}
	if 0 == len(bidir) {
		rAnch.Unproven("bidirectional-admitter", token.NoPos, "no function admits both directions for one caller")
		return
	}
	for _, fn := range bidir {
		rAnch.OK(fnName(fn), fn.Pos(), "admits both directions for one caller")
	}
	checkSameRequest(p, r, rReq, bidir, admitters)
}

// checkPairingToken inspects the keys passed to the two admitting calls.
func checkPairingToken(p *Prog, ru *Rule, fn *ssa.Function, dirs map[string][]ssa.CallInstruction) {
	c := fnName(fn)
	var keys []ssa.Value
	var sites []ssa.CallInstruction
	for _, cis := range dirs {
		for _, ci := range cis {
			args := ci.Common().Args
			keys = append(keys, resolveCell(args[len(args)-1]))
			sites = append(sites, ci)
		}
	}
	if 2 != len(keys) {
		ru.Bad(c+":calls", fn.Pos(), "%d admitting calls, exactly one per direction expected", len(keys))
		return
	}
	sameField := false
	if f0, b0 := loadedField(keys[0]); nil != f0 {
		if f1, b1 := loadedField(keys[1]); f1 == f0 && resolveCell(b0) == resolveCell(b1) {
			sameField = true
		}
	}
	if keys[0] != keys[1] && !sameField {
		ru.Bad(c+":same-value", posOf(sites[0]), "the two halves are given different key values (%s / %s): they can never pair, or pair only by coincidence", describeValue(keys[0]), describeValue(keys[1]))
		return
	}
	ru.OK(c+":same-value", posOf(sites[0]), "both halves receive the same value")
	/* Freshness. */
	fresh, why, gens := freshParts(fn, keys[0])
	if !fresh {
		ru.Bad(c+":fresh-per-call", posOf(sites[0]), "the key shared by the two halves is not fresh per call (%s): halves of different requests carry equal keys and can be combined", why)
		return
	}
	ru.OK(c+":fresh-per-call", posOf(sites[0]), "%s", why)
	/* Generator error checked before the key is used. */
	for _, g := range gens {
		if !g.fill {
			continue
		}
		errV := extractOf(g.call, 1)
		checked := false
		if nil != errV {
			for _, t := range nilTestsOf(errV.Parent(), errV) {
				/* The admitting calls must be unreachable from the
				non-nil edge. */
				nonNil := 1 - t.NilSucc
				reach := false
				for _, ci := range sites {
					site := ssa.Instruction(ci)
					if ci.Parent() != fn {
						/* Call is inside a goroutine closure: use the go
						statement / closure creation in fn. */
						site = closureSite(fn, ci.Parent())
					}
					if nil == site {
						reach = true
						continue
					}
					q := reachQ{From: edgeLoc(t.If.Block(), nonNil), Target: func(i ssa.Instruction) bool { return i == site }}
					if nil != q.run() {
						reach = true
					}
				}
				if !reach {
					checked = true
				}
			}
		}
		if checked {
			ru.OK(c+":generator-error-checked", posOf(g.call), "a failed random read ends the call before any half is admitted")
		} else {
			ru.Bad(c+":generator-error-checked", posOf(g.call), "the random generator's error is not checked before the key is used: on failure every request would share the same key")
		}
	}
}

// closureSite returns the instruction in fn which creates (and starts) the
// closure inner.
func closureSite(fn, inner *ssa.Function) ssa.Instruction {
	var out ssa.Instruction
	eachInstr(fn, func(i ssa.Instruction) {
		if mc, ok := i.(*ssa.MakeClosure); ok && mc.Fn == ssa.Value(inner) {
			out = i
		}
	})
	return out
}

func extractOf(c *ssa.Call, idx int) *ssa.Extract {
	for _, ref := range *c.Referrers() {
		if e, ok := ref.(*ssa.Extract); ok && e.Index == idx {
			return e
		}
	}
	return nil
}

type genUse struct {
	call *ssa.Call
	fill bool
}

// freshParts walks the concatenation/conversion tree of v looking for a part
// produced by a random generator inside fn.
func freshParts(fn *ssa.Function, v ssa.Value) (bool, string, []genUse) {
	var gens []genUse
	var notes []string
	seen := map[ssa.Value]bool{}
	var walk func(v ssa.Value)
	walk = func(v ssa.Value) {
		v = resolveCell(v)
		if seen[v] {
			return
		}
		seen[v] = true
		switch x := v.(type) {
		case *ssa.BinOp:
			if token.ADD == x.Op {
				walk(x.X)
				walk(x.Y)
			}
		case *ssa.Convert:
			walk(x.X)
		case *ssa.ChangeType:
			walk(x.X)
		case *ssa.Phi:
			for _, e := range x.Edges {
				walk(e)
			}
		case *ssa.Slice:
			walk(x.X)
		case *ssa.MakeSlice, *ssa.Alloc, *ssa.TypeAssert:
			/* A buffer made here (or a scratch array borrowed from a
			pool): filled by a generator? */
			n := int64(-1)
			if ta, ok := x.(*ssa.TypeAssert); ok {
				pt, isP := ta.AssertedType.Underlying().(*types.Pointer)
				if !isP {
					walk(ta.X)
					return
				}
				at, isA := pt.Elem().Underlying().(*types.Array)
				if !isA {
					return
				}
				n = at.Len()
			}
			if ms, ok := x.(*ssa.MakeSlice); ok {
				if k, ok := constInt(ms.Len); ok {
					n = k
				}
			}
			if al, ok := x.(*ssa.Alloc); ok {
				if at, ok := al.Type().(*types.Pointer).Elem().Underlying().(*types.Array); ok {
					n = at.Len()
				}
			}
			for _, ref := range *x.(ssa.Value).Referrers() {
				call, ok := ref.(*ssa.Call)
				if !ok {
					/* Slices of the array. */
					if sl, ok := ref.(*ssa.Slice); ok {
						/* How much of the array this slice spans
						(make([]byte, 0, 16) is new [16]byte sliced [:0]). */
						n := n
						hi, lo := n, int64(0)
						if nil != sl.High {
							if k, isC := constInt(sl.High); isC {
								hi = k
							} else {
								hi = -1
							}
						}
						if nil != sl.Low {
							if k, isC := constInt(sl.Low); isC {
								lo = k
							} else {
								lo = -1
							}
						}
						if hi >= 0 && lo >= 0 {
							n = hi - lo
						} else if ms, isMS := x.(*ssa.MakeSlice); isMS {
							/* Bounds which are not constants but lengths:
							key[copy(key, sentinel):] of make([]byte,
							len(sentinel), …) spans nothing. */
							hv, lv := ssa.Value(ms.Len), ssa.Value(nil)
							if nil != sl.High {
								hv = sl.High
							}
							if nil != sl.Low {
								lv = sl.Low
							}
							hb, ho, hok := spanLenExpr(hv, ms)
							lb, lo2, lok := "", int64(0), true
							if nil != lv {
								lb, lo2, lok = spanLenExpr(lv, ms)
							}
							if hok && lok && hb == lb {
								n = ho - lo2
							}
						}
						for _, r2 := range *sl.Referrers() {
							if c2, ok := r2.(*ssa.Call); ok && (randFill[calleeName(c2.Common())] || ("io.ReadFull" == calleeName(c2.Common()) && isRandReader(c2.Common().Args[0])) || ("io.ReadAtLeast" == calleeName(c2.Common()) && isRandReader(c2.Common().Args[0]))) {
								if n >= 0 && n < 8 {
									notes = append(notes, fmt.Sprintf("only %d random bytes", n))
									continue
								}
								gens = append(gens, genUse{c2, true})
								notes = append(notes, fmt.Sprintf("%d bytes from %s", n, calleeName(c2.Common())))
							}
						}
					}
					continue
				}
				name := calleeName(call.Common())
				if randFill[name] || ("io.ReadFull" == name && isRandReader(call.Common().Args[0])) {
					if n >= 0 && n < 8 {
						notes = append(notes, fmt.Sprintf("only %d random bytes", n))
						continue
					}
					gens = append(gens, genUse{call, true})
					notes = append(notes, fmt.Sprintf("%d bytes from %s", n, name))
				}
			}
		case *ssa.Call:
			name := calleeName(x.Common())
			if randValue[name] {
				gens = append(gens, genUse{x, false})
				notes = append(notes, "value from "+name)
				return
			}
			/* A local builder: everything written into it. */
			if "(*strings.Builder).String" == name || "(*bytes.Buffer).String" == name {
				buf := resolveCell(x.Common().Args[0])
				eachInstr(x.Parent(), func(j ssa.Instruction) {
					c2 := callCommon(j)
					if nil == c2 || 0 == len(c2.Args) || resolveCell(c2.Args[0]) != buf {
						return
					}
					switch calleeName(c2) {
					case "(*strings.Builder).WriteString", "(*strings.Builder).Write", "(*strings.Builder).WriteByte", "(*strings.Builder).WriteRune",
						"(*bytes.Buffer).WriteString", "(*bytes.Buffer).Write", "(*bytes.Buffer).WriteByte", "(*bytes.Buffer).WriteRune":
						if len(c2.Args) > 1 {
							walk(c2.Args[1])
						}
					}
				})
				return
			}
			/* new(big.Int).SetUint64(x) and friends carry x. */
			switch name {
			case "(*math/big.Int).SetUint64", "(*math/big.Int).SetInt64", "(*math/big.Int).SetBytes", "(*math/big.Int).Set":
				for _, a := range x.Common().Args[1:] {
					walk(a)
				}
				return
			}
			/* Formatting/encoding wrappers of a fresh value. */
			switch name {
			case "strconv.FormatUint", "strconv.FormatInt", "encoding/hex.EncodeToString", "fmt.Sprintf", "fmt.Sprint", "strconv.Itoa", "(*math/big.Int).String", "(*math/big.Int).Text":
				for _, a := range x.Common().Args {
					walk(a)
				}
				for _, e := range variadicElems(x.Common()) {
					walk(e)
				}
			}
		case *ssa.Extract:
			if c, ok := x.Tuple.(*ssa.Call); ok {
				walk(c)
			}
		case *ssa.UnOp:
			if fv, _ := loadedField(x); nil != fv {
				notes = append(notes, "field "+fv.Name()+" (same for every call)")
			}
		}
	}
	walk(v)
	/* Generators must run inside fn (or its closures). */
	var inFn []genUse
	for _, g := range gens {
		top := g.call.Parent()
		for nil != top.Parent() {
			top = top.Parent()
		}
		if top == fn {
			inFn = append(inFn, g)
		}
	}
	if 0 == len(inFn) {
		if 0 == len(notes) {
			notes = append(notes, describeValue(v))
		}
		return false, "built from: " + strings.Join(notes, ", "), nil
	}
	return true, "contains " + strings.Join(notes, ", ") + " generated inside the call", inFn
}

func isRandReader(v ssa.Value) bool {
	u, ok := stripConv(v, false).(*ssa.UnOp)
	if !ok {
		return false
	}
	g, ok := u.X.(*ssa.Global)
	return ok && "crypto/rand" == g.Pkg.Pkg.Path() && "Reader" == g.Name()
}

// checkSameRequest: the /io route's handler calls the bidirectional admitter
// once, with its own ResponseWriter and its own request's Body.
func checkSameRequest(p *Prog, r *Report, ru *Rule, bidir []*ssa.Function, admitters map[*ssa.Function]string) {
	isBidir := func(f *ssa.Function) bool {
		for _, b := range bidir {
			if b == f {
				return true
			}
		}
		return false
	}
	n := 0
	for _, rt := range muxRoutes(p) {
		if nil == rt.Handler {
			continue
		}
		var calls []ssa.CallInstruction
		eachInstr(rt.Handler, func(i ssa.Instruction) {
			if c := callCommon(i); nil != c && nil != c.StaticCallee() && isBidir(c.StaticCallee()) {
				calls = append(calls, i.(ssa.CallInstruction))
			}
		})
		if 0 == len(calls) {
			continue
		}
		n++
		r.Saw("func " + fnName(rt.Handler))
		c := fmt.Sprintf("route %s→%s", rt.Pattern, fnName(rt.Handler))
		if 1 != len(calls) {
			ru.Bad(c, rt.Pos, "%d bidirectional admission calls in one handler", len(calls))
			continue
		}
		args := calls[0].Common().Args
		var wOK, rOK bool
		for _, a := range args {
			/* A pass-through meter around either half is that half. */
			if wa := stripConv(unwrapPassThrough(p, a, "Write"), false); wa != stripConv(a, false) {
				a = wa
			} else {
				a = stripConv(unwrapPassThrough(p, a, "Read"), false)
			}
			if pa, ok := a.(*ssa.Parameter); ok && typeIs(pa.Type(), "net/http", "ResponseWriter") {
				wOK = true
			}
			if fv, base := loadedField(a); nil != fv && "Body" == fv.Name() {
				if pa, ok := base.(*ssa.Parameter); ok && typeIs(pa.Type(), "net/http", "Request") {
					rOK = true
				}
			}
		}
		if wOK && rOK {
			ru.OK(c, posOf(calls[0]), "writer and body of the handler's own request")
		} else {
			ru.Bad(c, posOf(calls[0]), "the two halves are not the response writer and body of the handler's own request")
		}
		/* And no other way into the broker: a one-directional admission
		from this handler takes a key the client chose, which another
		request can present as well. */
		seen := map[*ssa.Function]bool{}
		var via ssa.Instruction
		var walk func(f *ssa.Function)
		walk = func(f *ssa.Function) {
			if nil == f || seen[f] || isBidir(f) || nil == f.Blocks {
				return
			}
			seen[f] = true
			for _, g := range withAnons(f) {
				eachInstr(g, func(i ssa.Instruction) {
					cc := callCommon(i)
					if nil == cc {
						return
					}
					callee := cc.StaticCallee()
					if nil == callee {
						if cf, _ := closureOf(cc.Value); nil != cf {
							callee = cf
						}
					}
					if nil == callee {
						return
					}
					if _, isAdm := admitters[callee]; isAdm {
						if nil == via {
							via = i
						}
						return
					}
					if nil != callee.Pkg && strings.HasPrefix(callee.Pkg.Pkg.Path(), ModPath) {
						walk(callee)
					}
				})
			}
		}
		walk(rt.Handler)
		if nil != via {
			ru.Bad(c+":only-bidirectional", posOf(via), "the handler of %s also admits a single direction (%s) with a caller-chosen key: its halves can be paired with those of other requests", rt.Pattern, calleeName(callCommon(via)))
		} else {
			ru.OK(c+":only-bidirectional", rt.Pos, "no one-directional admission is reachable from the handler")
		}
	}
	if 0 == n {
		ru.Unproven("routes", token.NoPos, "no route reaches the bidirectional admitter")
	}
}


// pairingTokenUnder runs C06's pairing-token rule under another property's
// rule (C01: two /io requests are two shells, never halves of one).
func pairingTokenUnder(p *Prog, ru *Rule, a *connectAnchors) {
	admitters := map[*ssa.Function]string{}
	for _, ci := range a.Callers {
		top := ci.Parent()
		for nil != top.Parent() {
			top = top.Parent()
		}
		admitters[top] = fnName(top)
	}
	for _, fn := range p.Funcs() {
		if nil != fn.Parent() || "" != admitters[fn] {
			continue
		}
		dirs := map[string][]ssa.CallInstruction{}
		for _, f := range withAnons(fn) {
			eachInstr(f, func(i ssa.Instruction) {
				if c := callCommon(i); nil != c && nil != c.StaticCallee() {
					if own, ok := admitters[c.StaticCallee()]; ok {
						dirs[own] = append(dirs[own], i.(ssa.CallInstruction))
					}
				}
			})
		}
		if 2 == len(dirs) {
			checkPairingToken(p, ru, fn, dirs)
		}
	}
}

// spanLenExpr renders an integer value as "length of something + constant":
// constants, len(x), copy(dst, src) where dst (the slice ms, of length
// len(src)) and src are equally long, and sums and differences with
// constants.  The base names the something (a field, or the value itself).
func spanLenExpr(v ssa.Value, ms *ssa.MakeSlice) (string, int64, bool) {
	keyOf := func(x ssa.Value) string {
		x = stripConv(resolveCell(x), true)
		if fv, base := loadedField(x); nil != fv {
			return fmt.Sprintf("field:%s@%p", fv.Name(), resolveCell(base))
		}
		return fmt.Sprintf("%p", x)
	}
	if k, ok := constInt(v); ok {
		return "", k, true
	}
	switch x := v.(type) {
	case *ssa.BinOp:
		if token.ADD == x.Op || token.SUB == x.Op {
			if k, ok := constInt(x.Y); ok {
				if b, o, ok := spanLenExpr(x.X, ms); ok {
					if token.SUB == x.Op {
						k = -k
					}
					return b, o + k, true
				}
			}
			if k, ok := constInt(x.X); ok && token.ADD == x.Op {
				if b, o, ok := spanLenExpr(x.Y, ms); ok {
					return b, o + k, true
				}
			}
		}
	case *ssa.Call:
		b, ok := x.Common().Value.(*ssa.Builtin)
		if !ok {
			return "", 0, false
		}
		switch b.Name() {
		case "len":
			return keyOf(x.Common().Args[0]), 0, true
		case "copy":
			/* min(len(dst), len(src)): decided when both are the same. */
			if nil != ms && stripConv(resolveCell(x.Common().Args[0]), false) == ssa.Value(ms) {
				if db, do, ok := spanLenExpr(ms.Len, nil); ok && 0 == do && db == keyOf(x.Common().Args[1]) {
					return db, 0, true
				}
			}
		}
	}
	return "", 0, false
}
