package main

// C10 — client-supplied text appears verbatim in operator notices, never as a
// format.

import (
	"fmt"
	"go/token"
	"go/types"
	"sort"
	"strings"

	"golang.org/x/tools/go/analysis"
	"golang.org/x/tools/go/analysis/checker"
	"golang.org/x/tools/go/analysis/passes/printf"
	"golang.org/x/tools/go/packages"
	"golang.org/x/tools/go/ssa"
)

func init() {
	register("C10", &propDef{
		Run:         checkC10,
		Explanation: "Static decision of the structural clauses of C10: (1) exhaustively, at every printf-style call site of the module's non-test code the format operand is a compile-time constant, or a concatenation of constants with the enclosing wrapper's own format parameter whose variadic is forwarded — so no computed (client-influenced) string is ever interpreted as a format; printf-style functions are discovered by forwarding analysis from the standard library's formatters, closures included; (2) the operator-channel sink prints CLine.Line through a constant \"%s\" and no CLine.Line value reaches a format position; (3) constant formats agree with their arguments (go vet's printf pass run in-process on the module with the discovered wrappers, plus a verb/argument count of our own), so no %!verb(MISSING)/EXTRA artefacts; (4) no notice format truncates a string argument with a precision. Not decided: Go-quoting by %q of IDs (data, not a format). Also: every value stored into CLine.Line is rooted in the storing call's own values; a bytes.Buffer/strings.Builder/[]byte field or package variable on the way is refuted unless a mutex of the same struct is must-held.",
		Assumptions: []string{
			"fmt interprets only the format operand; arguments are rendered as data",
			"functions outside the module count as printf-style when named *f with a trailing (string, ...any) pair or listed by go vet",
		},
	})
}

// printfLike describes a printf-style function: index of the format parameter
// (the variadic is the last parameter).
type printfInfo struct {
	fmtIdx int
	why    string
}

// extPrintfIdx decides whether a function outside the module is printf-style,
// from its signature and name.
func extPrintfIdx(name string, sig *types.Signature) int {
	if nil == sig || !sig.Variadic() || sig.Params().Len() < 2 {
		return -1
	}
	n := sig.Params().Len()
	last := sig.Params().At(n - 1).Type()
	sl, ok := last.(*types.Slice)
	if !ok {
		return -1
	}
	if it, ok := sl.Elem().Underlying().(*types.Interface); !ok || 0 != it.NumMethods() {
		return -1
	}
	ft, ok := sig.Params().At(n - 2).Type().Underlying().(*types.Basic)
	if !ok || types.String != ft.Kind() {
		return -1
	}
	base := name
	if i := strings.LastIndex(base, "."); i >= 0 {
		base = base[i+1:]
	}
	if !strings.HasSuffix(base, "f") {
		return -1
	}
	return n - 2
}

// sigOfCall returns the callee's signature and name for a call.
func sigOfCall(c *ssa.CallCommon) (string, *types.Signature) {
	if c.IsInvoke() {
		return c.Method.FullName(), c.Method.Type().(*types.Signature)
	}
	if f := c.StaticCallee(); nil != f {
		return calleeName(c), f.Signature
	}
	return "", nil
}

// findPrintfLike discovers the printf-style functions of the module by
// forwarding analysis to a fixpoint.
func findPrintfLike(p *Prog) map[*ssa.Function]printfInfo {
	out := map[*ssa.Function]printfInfo{}
	for changed := true; changed; {
		changed = false
		for _, fn := range p.Funcs() {
			if _, ok := out[fn]; ok {
				continue
			}
			sig := fn.Signature
			if !sig.Variadic() || sig.Params().Len() < 2 {
				continue
			}
			np := len(fn.Params)
			variadic := fn.Params[np-1]
			fmtP := fn.Params[np-2]
			if bt, ok := fmtP.Type().Underlying().(*types.Basic); !ok || types.String != bt.Kind() {
				continue
			}
			eachInstr(fn, func(i ssa.Instruction) {
				c := callCommon(i)
				if nil == c {
					return
				}
				idx, _ := printfIdxOf(p, out, c)
				if idx < 0 {
					return
				}
				args := c.Args
				if idx+1 >= len(args) {
					return
				}
				if formatUsesParam(args[idx], fmtP) && args[len(args)-1] == ssa.Value(variadic) {
					if _, ok := out[fn]; !ok {
						out[fn] = printfInfo{fmtIdx: np - 2, why: "forwards format and args to " + calleeName(c)}
						changed = true
					}
				}
			})
		}
	}
	return out
}

// printfIdxOf returns the index in c.Args of the format operand if c calls a
// printf-style function, else -1.
func printfIdxOf(p *Prog, known map[*ssa.Function]printfInfo, c *ssa.CallCommon) (int, string) {
	if c.IsInvoke() {
		idx := extPrintfIdx(c.Method.FullName(), c.Method.Type().(*types.Signature))
		return idx, c.Method.FullName()
	}
	f := c.StaticCallee()
	if nil == f {
		/* Call of a function value: follow to a closure if we can. */
		if cf, _ := closureOf(resolveLocalFunc(c.Value)); nil != cf {
			f = cf
		} else if mc, isMC := p.resolveUp(c.Value).(*ssa.MakeClosure); isMC {
			/* A function handed in by the only caller: s.ErrorLogf given
			to a method made a plain function. */
			bf, _ := mc.Fn.(*ssa.Function)
			if nil == bf || !strings.HasSuffix(bf.Name(), "$bound") {
				return -1, ""
			}
			mo, _ := bf.Object().(*types.Func)
			if nil == mo {
				return -1, ""
			}
			m := p.SSA.FuncValue(mo)
			if pi, ok := known[m]; ok && pi.fmtIdx >= 1 {
				return pi.fmtIdx - 1, fnName(m)
			}
			return -1, ""
		} else {
			return -1, ""
		}
	}
	if pi, ok := known[f]; ok {
		/* fmtIdx counts ssa Params, which include the receiver, as do
		the Args of a static method call. */
		return pi.fmtIdx, fnName(f)
	}
	/* s.ErrorLogf as a value (handed to a helper since folded in): the
	method, less its receiver. */
	if strings.HasSuffix(f.Name(), "$bound") {
		if mo, _ := f.Object().(*types.Func); nil != mo {
			if m := p.SSA.FuncValue(mo); nil != m {
				if pi, ok := known[m]; ok && pi.fmtIdx >= 1 {
					return pi.fmtIdx - 1, fnName(m)
				}
			}
		}
	}
	if inModule(f) {
		return -1, ""
	}
	idx := extPrintfIdx(calleeName(c), f.Signature)
	if idx >= 0 && nil != f.Signature.Recv() {
		idx++
	}
	return idx, calleeName(c)
}

// resolveLocalFunc follows a function value loaded from a local single-store
// cell (e.g. errf := func...; errf(...)) to the stored closure.
func resolveLocalFunc(v ssa.Value) ssa.Value {
	v = resolveFree(v)
	if u, ok := v.(*ssa.UnOp); ok && token.MUL == u.Op {
		if a, ok := resolveFree(u.X).(*ssa.Alloc); ok {
			sts := storesTo(a)
			if 1 == len(sts) {
				return sts[0].Val
			}
		}
	}
	return v
}

// formatUsesParam reports whether format operand v is fmtP itself or a
// concatenation of constants and fmtP.
func formatUsesParam(v ssa.Value, fmtP *ssa.Parameter) bool {
	ok, uses := formatLeaves(v, fmtP)
	return ok && uses
}

// formatLeaves walks a string-concatenation tree.  ok is false when a leaf is
// neither a constant nor the allowed parameter.
func formatLeaves(v ssa.Value, fmtP *ssa.Parameter) (ok, usesParam bool) {
	switch x := v.(type) {
	case *ssa.Const:
		return true, false
	case *ssa.Parameter:
		if nil != fmtP && x == fmtP {
			return true, true
		}
		return false, false
	case *ssa.BinOp:
		if token.ADD != x.Op {
			return false, false
		}
		ok1, u1 := formatLeaves(x.X, fmtP)
		ok2, u2 := formatLeaves(x.Y, fmtP)
		return ok1 && ok2, u1 || u2
	case *ssa.Phi:
		all := true
		uses := false
		for _, e := range x.Edges {
			o, u := formatLeaves(e, fmtP)
			all = all && o
			uses = uses || u
		}
		return all, uses
	}
	return false, false
}

// constFormat returns the constant text of a format operand when it is one
// constant (after constant folding).
func constFormat(v ssa.Value) (string, bool) { return constString(v) }

// countVerbs counts the arguments a constant format consumes; ok is false for
// formats using explicit argument indexes (not counted here).
func countVerbs(f string) (n int, truncating []string, ok bool) {
	ok = true
	for i := 0; i < len(f); i++ {
		if '%' != f[i] {
			continue
		}
		j := i + 1
		/* flags */
		for j < len(f) && strings.ContainsRune("+-# 0", rune(f[j])) {
			j++
		}
		if j < len(f) && '[' == f[j] {
			return 0, nil, false
		}
		/* width */
		if j < len(f) && '*' == f[j] {
			n++
			j++
		} else {
			for j < len(f) && '0' <= f[j] && f[j] <= '9' {
				j++
			}
		}
		prec := false
		if j < len(f) && '.' == f[j] {
			j++
			prec = true
			if j < len(f) && '*' == f[j] {
				n++
				j++
			} else {
				for j < len(f) && '0' <= f[j] && f[j] <= '9' {
					j++
				}
			}
		}
		if j < len(f) && '[' == f[j] {
			return 0, nil, false
		}
		if j >= len(f) {
			/* Trailing % : "%!(NOVERB)". */
			return n, truncating, false
		}
		if '%' == f[j] {
			i = j
			continue
		}
		n++
		if prec && strings.ContainsRune("sqvx", rune(f[j])) {
			truncating = append(truncating, f[i:j+1])
		}
		i = j
	}
	return n, truncating, ok
}

func checkC10(p *Prog, r *Report) {
	rConst := r.Rule("constant-format", "every printf-style call site passes a constant format, or the enclosing wrapper's own format parameter (possibly with constant text around it) together with its variadic")
	rWrap := r.Rule("wrappers", "printf-style wrappers discovered by forwarding analysis")
	rArgs := r.Rule("verbs-match-args", "each constant format consumes exactly the arguments given (no %!verb(MISSING) / %!(EXTRA) artefacts)")
	rTrunc := r.Rule("no-truncating-verbs", "no constant format cuts a string argument short with a precision")
	rSink := r.Rule("sink", "CLine.Line is printed through a constant \"%s\" and never reaches a format position")
	rVet := r.Rule("vet-printf", "go vet's printf pass, run in-process over the module with the discovered wrappers, has no diagnostics")

	known := findPrintfLike(p)
	var wnames []string
	for f, pi := range known {
		wnames = append(wnames, fnName(f))
		rWrap.OK(fnName(f), f.Pos(), "%s", pi.why)
	}
	sort.Strings(wnames)
	rWrap.AtLeast(6, "wrappers")
	r.Note("printf-style wrappers: %s", strings.Join(wnames, ", "))

	/* 1, 3, 4: every call site. */
	perFn := map[string]int{}
	for _, fn := range p.Funcs() {
		r.Saw("func " + fnName(fn))
		var owner *printfInfo
		if pi, ok := known[fn]; ok {
			owner = &pi
		}
		eachInstr(fn, func(i ssa.Instruction) {
			c := callCommon(i)
			if nil == c {
				return
			}
			idx, cname := printfIdxOf(p, known, c)
			if idx < 0 || idx >= len(c.Args) {
				return
			}
			perFn[fnName(fn)+"→"+cname]++
			construct := fmt.Sprintf("%s→%s#%d", fnName(fn), cname, perFn[fnName(fn)+"→"+cname])
			fv := c.Args[idx]
			var fmtP *ssa.Parameter
			if nil != owner {
				fmtP = fn.Params[len(fn.Params)-2]
			}
			ok, uses := formatLeaves(fv, fmtP)
			switch {
			case !ok:
				rConst.Bad(construct, posOf(i), "format operand %s is computed at run time (%s); text supplied by a client could be interpreted as formatting verbs", fv.Name(), describeValue(fv))
				return
			case uses:
				/* Forwarded format: the variadic must be forwarded too. */
				va := fn.Params[len(fn.Params)-1]
				if c.Args[len(c.Args)-1] != ssa.Value(va) {
					rConst.Bad(construct, posOf(i), "wrapper's format parameter is used as a format without forwarding the wrapper's arguments")
					return
				}
				rConst.OK(construct, posOf(i), "forwards own format parameter and variadic")
				return
			}
			rConst.OK(construct, posOf(i), "constant format")
			f, isC := constFormat(fv)
			if !isC {
				return
			}
			/* 3: verbs against explicit arguments. */
			nargs, explicit := explicitVariadicLen(c)
			if explicit {
				nv, trunc, cok := countVerbs(f)
				if cok {
					if nv != nargs {
						rArgs.Bad(construct, posOf(i), "format %q consumes %d argument(s), %d given", f, nv, nargs)
					} else {
						rArgs.OK(construct, posOf(i), "%d verb(s), %d argument(s)", nv, nargs)
					}
				}
				for _, t := range trunc {
					rTrunc.Bad(construct+":"+t, posOf(i), "verb %s truncates its argument", t)
				}
				if 0 == len(trunc) {
					rTrunc.OK(construct, posOf(i), "no precision on string verbs")
				}
			}
		})
	}
	rConst.AtLeast(80, "printf-style call sites")

	/* 2: the sink. */
	checkC10Sink(p, r, rSink, known)
	checkC10Scratch(p, r, r.Rule("notice-text-owned", "the text of a notice is built in memory of the call which sends it, never in a scratch buffer shared between calls"))

	checkC10Undecoded(p, r, r.Rule("undecoded", "no argument of a notice in hsrv has gone through a percent, quote or HTML decoder"), known)

	/* vet printf in-process. */
	runVetPrintf(p, r, rVet, known)
}

func describeValue(v ssa.Value) string {
	switch x := v.(type) {
	case *ssa.Call:
		return "result of " + calleeName(x.Common())
	case *ssa.Parameter:
		return "parameter " + x.Name()
	case *ssa.UnOp:
		if f, _ := loadedField(x); nil != f {
			return "field " + f.Name()
		}
	case *ssa.Field:
		if f, _ := fieldValOf(x); nil != f {
			return "field " + f.Name()
		}
	}
	return fmt.Sprintf("%T", v)
}

// explicitVariadicLen returns the number of variadic arguments when the call
// site spells them out (the SSA builder materialises them as a fresh array).
func explicitVariadicLen(c *ssa.CallCommon) (int, bool) {
	if 0 == len(c.Args) {
		return 0, false
	}
	last := c.Args[len(c.Args)-1]
	if isNilConst(last) {
		return 0, true
	}
	sl, ok := last.(*ssa.Slice)
	if !ok {
		return 0, false
	}
	al, ok := sl.X.(*ssa.Alloc)
	if !ok {
		return 0, false
	}
	pt, ok := al.Type().(*types.Pointer)
	if !ok {
		return 0, false
	}
	at, ok := pt.Elem().(*types.Array)
	if !ok {
		return 0, false
	}
	return int(at.Len()), true
}

// checkC10Sink checks the operator-terminal side: every format position fed
// from a CLine is constant (already covered by rule 1) and specifically the
// Line field is only ever passed as an argument.
func checkC10Sink(p *Prog, r *Report, ru *Rule, known map[*ssa.Function]printfInfo) {
	line := p.Field("lib/opshell", "CLine", "Line")
	if nil == line {
		ru.Unproven("opshell.CLine.Line", token.NoPos, "field not found")
		return
	}
	n := 0
	for _, fn := range p.Funcs() {
		eachInstr(fn, func(i ssa.Instruction) {
			v, ok := i.(ssa.Value)
			if !ok {
				return
			}
			f, _ := loadedField(v)
			if f != line {
				return
			}
			/* A load of CLine.Line: look at each use. */
			for _, ref := range *v.Referrers() {
				c := callCommon(ref)
				if nil == c {
					continue
				}
				idx, cname := printfIdxOf(p, known, c)
				if idx >= 0 && idx < len(c.Args) && c.Args[idx] == v {
					ru.Bad(fnName(fn)+"→"+cname, posOf(ref), "CLine.Line used as a format")
					n++
					continue
				}
			}
			n++
			ru.OK(fnName(fn)+":load", posOf(i), "CLine.Line loaded and used as data only")
		})
	}
	ru.AtLeast(1, "loads of CLine.Line")
	/* The sink itself. */
	ho := p.Func("lib/opshell", "Shell", "handleOutput")
	if nil == ho {
		ru.Unproven("opshell.(*Shell).handleOutput", token.NoPos, "function not found")
		return
	}
	found := false
	eachInstr(ho, func(i ssa.Instruction) {
		c := callCommon(i)
		if nil == c {
			return
		}
		idx, _ := printfIdxOf(p, known, c)
		if idx < 0 {
			return
		}
		if f, ok := constFormat(c.Args[idx]); ok && "%s" == f {
			found = true
			ru.OK("handleOutput:format", posOf(i), "non-plain lines are printed with the constant format \"%%s\"")
		}
	})
	if !found {
		/* Or the line is written without any formatter at all (each load
		of CLine.Line was judged above: used as data only). */
		loads := 0
		for _, f := range withAnons(ho) {
			eachInstr(f, func(i ssa.Instruction) {
				if v, ok := i.(ssa.Value); ok {
					if fv, _ := loadedField(v); nil != fv && fv == line {
						loads++
					}
				}
			})
		}
		if loads > 0 {
			ru.OK("handleOutput:format", ho.Pos(), "lines are written as data, without a formatter (%d loads of CLine.Line, none used as a format)", loads)
		} else {
			ru.Unproven("handleOutput:format", ho.Pos(), "no printf-style call with constant \"%%s\" found in handleOutput")
		}
	}
}

// runVetPrintf runs x/tools' printf analyzer over the module packages.
func runVetPrintf(p *Prog, r *Report, ru *Rule, known map[*ssa.Function]printfInfo) {
	var pkgs []*packages.Package
	pkgs = append(pkgs, p.Pkgs...)
	/* Tell the pass about closure wrappers it cannot discover (by name). */
	an := printf.Analyzer
	g, err := checker.Analyze([]*analysis.Analyzer{an}, pkgs, nil)
	if nil != err {
		ru.Unproven("vet", token.NoPos, "could not run printf pass: %s", err)
		return
	}
	n := 0
	for _, act := range g.Roots {
		if nil != act.Err {
			ru.Unproven("vet:"+act.Package.PkgPath, token.NoPos, "printf pass failed: %s", act.Err)
			continue
		}
		n++
		if 0 == len(act.Diagnostics) {
			ru.OK("vet:"+strings.TrimPrefix(act.Package.PkgPath, ModPath), token.NoPos, "no printf diagnostics")
		}
		for k, d := range act.Diagnostics {
			ru.Bad(fmt.Sprintf("vet:%s#%d", strings.TrimPrefix(act.Package.PkgPath, ModPath), k+1), d.Pos, "%s", d.Message)
		}
	}
	ru.AtLeast(8, "packages vetted")
}

// checkC10Scratch: every value stored into CLine.Line is rooted in
// parameters, constants, fresh formatting results and received values, never
// in a mutable buffer which is a struct field or package variable.
func checkC10Scratch(p *Prog, r *Report, ru *Rule) {
	through := func(n string) bool {
		switch n {
		case "fmt.Sprintf", "fmt.Sprint", "fmt.Sprintln", "(*bytes.Buffer).String", "(*bytes.Buffer).Bytes", "(*strings.Builder).String",
			"strings.TrimSpace", "strings.TrimRight", "strings.TrimSuffix", "strings.Join", "strings.Clone":
			return true
		}
		return false
	}
	mutable := func(t types.Type) bool {
		for {
			pt, ok := t.Underlying().(*types.Pointer)
			if !ok {
				break
			}
			t = pt.Elem()
		}
		switch t.String() {
		case "bytes.Buffer", "strings.Builder", "[]byte", "bufio.Writer":
			return true
		}
		if a, ok := t.Underlying().(*types.Array); ok {
			return "byte" == a.Elem().String() || "uint8" == a.Elem().String()
		}
		return false
	}
	n := 0
	for _, fn := range p.Funcs() {
		eachInstr(fn, func(i ssa.Instruction) {
			st, ok := i.(*ssa.Store)
			if !ok {
				return
			}
			fv, _ := fieldAddrOf(st.Addr)
			if nil == fv || "Line" != fv.Name() || nil == fv.Pkg() || !strings.HasSuffix(fv.Pkg().Path(), "lib/opshell") {
				return
			}
			n++
			c := fmt.Sprintf("%s:CLine.Line#%d", fnName(fn), ordinalIn(fn, i))
			bad := false
			for _, x := range valueRoots(st.Val, through) {
				switch x.Kind {
				case "field":
					/* Shared only if the struct it belongs to outlives
					the call: reached from a parameter, a receiver, another
					field or a package variable — not a value made, received
					or returned in this call. */
					shared := false
					if nil != x.Base {
						for _, b := range valueRoots(x.Base, nil) {
							switch b.Kind {
							case "param", "global", "field":
								shared = true
							}
						}
					} else {
						shared = true
					}
					if shared && mutable(x.Field.Type()) {
						bad = true
						ru.Bad(c, posOf(st), "the notice is assembled in %s, scratch space shared by every call: two notices built at the same time are spliced into each other, so an address or ID appears cut, doubled or in the wrong notice", x)
					}
				case "other":
					/* The address of a buffer (receiver of String/Bytes). */
					if fa, ok := x.V.(*ssa.FieldAddr); ok {
						if fv, _ := fieldAddrOf(fa); nil != fv && mutable(fv.Type()) {
							if heldSiblingMutex(fn, fa, st) {
								continue /* built and sent under a lock of the same object */
							}
							bad = true
							ru.Bad(c, posOf(st), "the notice is assembled in field %s, scratch space shared by every call: two notices built at the same time are spliced into each other, so an address or ID appears cut, doubled or in the wrong notice", fv.Name())
						}
					}
					if g, ok := x.V.(*ssa.Global); ok && mutable(g.Type()) {
						bad = true
						ru.Bad(c, posOf(st), "the notice is assembled in package variable %s shared by every call", g.Name())
					}
				case "global":
					if g, ok := x.V.(*ssa.Global); ok && mutable(g.Type()) {
						bad = true
						ru.Bad(c, posOf(st), "the notice is assembled in package variable %s shared by every call", g.Name())
					}
				case "call":
					/* unsafe.String: the text IS the bytes it was made
					from, so those must belong to this call alone. */
					if "builtin.String" != x.Callee {
						continue
					}
					call, ok := x.V.(*ssa.Call)
					if !ok || 0 == len(call.Call.Args) {
						continue
					}
					if why := reusedBytes(call.Call.Args[0]); "" != why {
						bad = true
						ru.Bad(c, posOf(st), "the notice's text is not a copy but the very bytes of %s (unsafe.String): it is still queued for the terminal when those bytes are handed to the next call, which overwrites the notice before it is shown", why)
					}
				}
			}
			if !bad {
				ru.OK(c, posOf(st), "text rooted in the call's own values")
			}
		})
	}
	if n < 3 {
		ru.Unproven("CLine.Line stores", token.NoPos, "%d stores to CLine.Line found, at least 3 expected", n)
	}
}

// reusedBytes says where the bytes behind pointer/slice v come from when
// that is memory which outlives the call or goes back to a pool ("" when they
// are made by the call itself).
func reusedBytes(v ssa.Value) string {
	through := func(n string) bool {
		switch n {
		case "builtin.SliceData", "builtin.StringData", "builtin.append", "fmt.Appendf", "fmt.Append", "fmt.Appendln",
			"strconv.AppendInt", "strconv.AppendUint", "strconv.AppendQuote", "strconv.AppendBool",
			"(*bytes.Buffer).Bytes", "(*bytes.Buffer).AvailableBuffer", "slices.Grow", "bytes.TrimSpace", "bytes.TrimRight":
			return true
		}
		return false
	}
	/* Only the destination operand of an append-like call is the buffer;
	what is appended is copied into it. */
	var bases []ssa.Value
	seen := map[ssa.Value]bool{}
	var walk func(v ssa.Value)
	walk = func(v ssa.Value) {
		if nil == v || seen[v] {
			return
		}
		seen[v] = true
		switch x := v.(type) {
		case *ssa.Call:
			if through(calleeName(x.Common())) {
				if args := callArgs(x.Common()); 0 != len(args) {
					walk(args[0])
					return
				}
			}
		case *ssa.Slice:
			walk(x.X)
			return
		case *ssa.TypeAssert:
			walk(x.X)
			return
		case *ssa.Extract:
			if ta, ok := x.Tuple.(*ssa.TypeAssert); ok && 0 == x.Index {
				walk(ta.X)
				return
			}
		case *ssa.UnOp:
			/* A slice loaded through a pointer which is itself a value
			(bp := pool.Get().(*[]byte); *bp). */
			if token.MUL == x.Op {
				switch x.X.(type) {
				case *ssa.Alloc, *ssa.FieldAddr, *ssa.Global, *ssa.IndexAddr, *ssa.FreeVar:
				default:
					walk(x.X)
					return
				}
			}
		case *ssa.Phi:
			for _, e := range x.Edges {
				walk(e)
			}
			return
		}
		bases = append(bases, v)
	}
	walk(v)
	var roots []Root
	for _, b := range bases {
		roots = append(roots, valueRoots(b, nil)...)
	}
	for _, x := range roots {
		switch x.Kind {
		case "call":
			switch x.Callee {
			case "(*sync.Pool).Get":
				return "a buffer taken from a sync.Pool"
			}
		case "field":
			if nil != x.Field {
				return "field " + x.Field.Name()
			}
			return "a field"
		case "global":
			if g, ok := x.V.(*ssa.Global); ok {
				return "package variable " + g.Name()
			}
		case "param":
			if _, isStr := x.V.Type().Underlying().(*types.Basic); !isStr {
				return "a buffer passed in by the caller"
			}
		case "other":
			if fa, ok := x.V.(*ssa.FieldAddr); ok {
				if fv, _ := fieldAddrOf(fa); nil != fv {
					return "field " + fv.Name()
				}
			}
		}
	}
	return ""
}

// ordinalIn numbers same-kind constructs within a function in source order.
func ordinalIn(fn *ssa.Function, target ssa.Instruction) int {
	k := 0
	found := 0
	eachInstr(fn, func(i ssa.Instruction) {
		st, ok := i.(*ssa.Store)
		if !ok {
			return
		}
		if fv, _ := fieldAddrOf(st.Addr); nil != fv && "Line" == fv.Name() {
			k++
			if i == target {
				found = k
			}
		}
	})
	return found
}

// heldSiblingMutex: at instruction at, fn definitely holds a sync.Mutex /
// RWMutex which is a field of the struct fa points into.
func heldSiblingMutex(fn *ssa.Function, fa *ssa.FieldAddr, at ssa.Instruction) bool {
	pt, ok := fa.X.Type().Underlying().(*types.Pointer)
	if !ok {
		return false
	}
	stt, ok := pt.Elem().Underlying().(*types.Struct)
	if !ok {
		return false
	}
	for k := 0; k < stt.NumFields(); k++ {
		f := stt.Field(k)
		if t := f.Type().String(); "sync.Mutex" != t && "sync.RWMutex" != t {
			continue
		}
		if mustHold(fn, f)[at] {
			return true
		}
	}
	return false
}

// reachesThroughCalls: like operandsReach, also into the results of module
// functions (two levels) and the elements of a variadic argument list.
func reachesThroughCalls(v ssa.Value, pred func(ssa.Value) bool, depth int) bool {
	return operandsReach(v, func(x ssa.Value) bool {
		if pred(x) {
			return true
		}
		switch t := x.(type) {
		case *ssa.Slice:
			if _, isAl := t.X.(*ssa.Alloc); isAl {
				for _, e := range appendedElems(t) {
					if e != ssa.Value(t) && reachesThroughCalls(e, pred, depth) {
						return true
					}
				}
			}
		case *ssa.Call:
			callee := t.Common().StaticCallee()
			if depth >= 2 || nil == callee || nil == callee.Blocks || nil == callee.Pkg || !strings.HasPrefix(callee.Pkg.Pkg.Path(), ModPath) {
				return false
			}
			hit := false
			eachInstr(callee, func(i ssa.Instruction) {
				if ret, ok := i.(*ssa.Return); ok && !hit {
					for _, rv := range ret.Results {
						if reachesThroughCalls(rv, pred, depth+1) {
							hit = true
							return
						}
					}
				}
			})
			return hit
		}
		return false
	})
}

// checkC10Undecoded: what a notice shows of the client's text is that text,
// not a decoded form of it: percent-decoding (or unquoting, or HTML
// unescaping) a header, path or parameter on its way into a notice shows
// "a b" where the client sent "a%20b".
func checkC10Undecoded(p *Prog, r *Report, ru *Rule, known map[*ssa.Function]printfInfo) {
	decoders := map[string]bool{"net/url.QueryUnescape": true, "net/url.PathUnescape": true, "html.UnescapeString": true, "strconv.Unquote": true,
		"net/url.Parse": true, "net/url.ParseRequestURI": true /* their Host, Path and Fragment are percent-decoded */}
	n := 0
	for _, fn := range p.Funcs() {
		if nil == fn.Pkg || !strings.HasSuffix(fn.Pkg.Pkg.Path(), "/"+hsrvPkg) {
			continue
		}
		eachInstr(fn, func(i ssa.Instruction) {
			c := callCommon(i)
			if nil == c {
				return
			}
			idx, cname := printfIdxOf(p, known, c)
			if idx < 0 || idx >= len(c.Args) || nil == c.StaticCallee() || nil == c.StaticCallee().Pkg || !strings.HasPrefix(c.StaticCallee().Pkg.Pkg.Path(), ModPath) {
				return
			}
			n++
			var dec ssa.Value
			var decPath *ssa.FieldAddr
			for _, a := range c.Args[idx+1:] {
				reachesThroughCalls(a, func(x ssa.Value) bool {
					if cl, ok := x.(*ssa.Call); ok && decoders[calleeName(cl.Common())] {
						dec = cl
						return true
					}
					/* URL.Path is what the server percent-decoded from
					the request line (URL.String / RequestURI /
					EscapedPath are not). */
					if fa, ok := x.(*ssa.FieldAddr); ok {
						if fv, _ := fieldAddrOf(fa); nil != fv && "Path" == fv.Name() && nil != fv.Pkg() && "net/url" == fv.Pkg().Path() {
							decPath = fa
							return true
						}
					}
					return false
				}, 0)
			}
			construct := fmt.Sprintf("%s→%s@%s", fnName(fn), cname, p.Pos(posOf(i)))
			if nil != dec {
				ru.Bad(fnName(fn)+"→"+cname+":undecoded", posOf(i), "an argument of this notice went through %s (%s): the operator is shown a decoded form, not what the client sent character for character", calleeName(dec.(*ssa.Call).Common()), p.Pos(posOf(dec.(ssa.Instruction))))
			}
			if nil != decPath {
				ru.Bad(fnName(fn)+"→"+cname+":undecoded", posOf(i), "an argument of this notice is the request URL's Path field (%s), which the server has already percent-decoded: %%20 is shown as a space and %%0A starts a new line, not what the client sent character for character", p.Pos(posOf(decPath)))
			}
			_ = construct
		})
	}
	/* Nor is the request rewritten before the handlers see it. */
	for _, fn := range p.Funcs() {
		if nil == fn.Pkg || !strings.HasSuffix(fn.Pkg.Pkg.Path(), "/"+hsrvPkg) {
			continue
		}
		eachInstr(fn, func(i ssa.Instruction) {
			if c := callCommon(i); nil != c && "net/http.AllowQuerySemicolons" == calleeName(c) {
				ru.Bad(fnName(fn)+":AllowQuerySemicolons", posOf(i), "handlers run behind http.AllowQuerySemicolons, which rewrites every ';' of the query to '&' before they (and their notices) see the request")
			}
		})
	}
	if n < 5 {
		ru.Unproven("hsrv:notices", token.NoPos, "%d notice call sites in hsrv, at least 5 expected", n)
	} else {
		ru.OK("hsrv:notices-undecoded", token.NoPos, "%d notice call sites in hsrv; none takes an argument which went through a percent/quote/HTML decoder", n)
	}
}
