package main

// routes.go: the HTTP route table of hsrv.(*Server).newMux, extracted from
// the HandleFunc / Handle calls (used by C01, C09).

import (
	"go/token"
	"go/types"
	"strings"

	"golang.org/x/tools/go/ssa"
)

const hsrvPkg = "internal/hsrv"

type muxRoute struct {
	Pattern string
	Handler *ssa.Function /* nil when not statically known */
	Cond    []*ssa.If     /* Ifs whose edge dominates the registration (conditional routes). */
	Instr   ssa.Instruction
	Anchor  ssa.Instruction /* for rows of a table: the loop's header test; the registration happens for every row whenever this executes */
	Pos     token.Pos
	In      *ssa.Function
	condAt  ssa.Instruction /* for a row added to its table on some paths only: the append which adds it */
}

// muxRoutes finds every (*http.ServeMux).HandleFunc / Handle call in the
// module.
func muxRoutes(p *Prog) []muxRoute {
	var out []muxRoute
	for _, fn := range p.Funcs() {
		eachInstr(fn, func(i ssa.Instruction) {
			c := callCommon(i)
			if nil == c {
				return
			}
			switch calleeName(c) {
			case "(*net/http.ServeMux).HandleFunc", "(*net/http.ServeMux).Handle", "net/http.HandleFunc", "net/http.Handle":
			default:
				return
			}
			args := c.Args
			if len(args) == 3 {
				args = args[1:]
			}
			rt := muxRoute{Instr: i, Pos: posOf(i), In: fn}
			if s, ok := constString(args[0]); ok {
				rt.Pattern = s
			} else if rows := tableRoutes(p, args[0], args[1]); 0 != len(rows) {
				/* Registration in a loop over a literal table of
				(pattern, handler) rows: one route per row. */
				for _, row := range rows {
					row.Instr, row.Pos, row.In = i, posOf(i), fn
					row.Anchor = loopAnchor(i)
					if pa, isPa := stripFieldParam(args[0]); isPa {
						/* Registered by the body of a range-over-func loop:
						the call which runs the loop stands for it. */
						if _, loop, ok := rofElemOf(pa); ok {
							row.Instr, row.Pos, row.In, row.Anchor = loop, posOf(loop), loop.Parent(), nil
						}
					}
					if nil != row.condAt {
						/* Registered whenever the row was appended: the
						append stands for the registration. */
						row.Instr, row.Pos, row.Anchor = row.condAt, posOf(row.condAt), nil
					}
					out = append(out, row)
				}
				return
			} else {
				rt.Pattern = "<computed>"
			}
			h := stripConv(args[1], false)
			if f, _ := closureOf(h); nil != f {
				/* Bound method value: (*Server).inputHandler$bound. */
				rt.Handler = throughMiddleware(p, unbound(p, f))
			}
			out = append(out, rt)
		})
	}
	return out
}

// servedBy: the function behind the http.Handler value h, when it is a
// function value (http.HandlerFunc(f), a bound method, a literal); nil else.
func servedBy(p *Prog, h ssa.Value) *ssa.Function {
	h = resolveFree(stripConv(resolveCell(resolveFree(h)), false))
	if f, _ := closureOf(h); nil != f {
		return unbound(p, f)
	}
	return nil
}

// serveHTTPCalls: the calls of ServeHTTP in f's own frame, with the handler
// value and the writer each is given.
func serveHTTPCalls(f *ssa.Function) (calls []ssa.Instruction, handlers, writers []ssa.Value) {
	eachInstr(f, func(i ssa.Instruction) {
		cc := callCommon(i)
		if nil == cc {
			return
		}
		switch {
		case cc.IsInvoke() && "ServeHTTP" == cc.Method.Name() && 2 == len(cc.Args):
			calls, handlers, writers = append(calls, i), append(handlers, cc.Value), append(writers, cc.Args[0])
		case !cc.IsInvoke() && strings.HasSuffix(calleeName(cc), ").ServeHTTP") && 3 == len(cc.Args):
			calls, handlers, writers = append(calls, i), append(handlers, cc.Args[0]), append(writers, cc.Args[1])
		}
	})
	return
}

// throughMiddleware: a handler which does its own thing around exactly one
// next.ServeHTTP(…), next being a function known here (a metering or logging
// wrapper around one route), stands for that function: the route's rules are
// about what serves the request.  What the wrapper does to the writer is the
// transport-writer rule's business.
func throughMiddleware(p *Prog, f *ssa.Function) *ssa.Function {
	for depth := 0; depth < 3 && nil != f; depth++ {
		calls, hs, _ := serveHTTPCalls(f)
		if 1 != len(calls) {
			return f
		}
		g := servedBy(p, hs[0])
		if nil == g || g == f || nil == g.Blocks {
			return f
		}
		f = g
	}
	return f
}

// unbound maps a bound-method or thunk wrapper to the method it wraps.
func unbound(p *Prog, f *ssa.Function) *ssa.Function {
	if "" == f.Synthetic || nil == f.Object() {
		return f
	}
	if tf, ok := f.Object().(*types.Func); ok {
		if m := p.SSA.FuncValue(tf); nil != m {
			return m
		}
	}
	return f
}

// elemFieldOfLiteral: v is the value of field f of the element of a
// slice/array literal at the loop's index (for _, row := range literal); it
// returns the literal's backing array and the field number.
func elemFieldOfLiteral(v ssa.Value) (*ssa.Alloc, int, bool) {
	/* row.f where row is the element value itself (a copy split into its
	fields): Field(load(&literal[i]), f). */
	if fx, ok := stripConv(v, false).(*ssa.Field); ok {
		if ld, ok := fx.X.(*ssa.UnOp); ok && token.MUL == ld.Op {
			if ia, ok := ld.X.(*ssa.IndexAddr); ok {
				if _, isConst := ia.Index.(*ssa.Const); !isConst {
					x := ia.X
					if sl, ok := x.(*ssa.Slice); ok && nil == sl.Low && nil == sl.High {
						x = sl.X
					}
					if arr, ok := x.(*ssa.Alloc); ok {
						if _, isArr := arr.Type().Underlying().(*types.Pointer).Elem().Underlying().(*types.Array); isArr {
							return arr, fx.Field, true
						}
					}
				}
			}
		}
		return nil, 0, false
	}
	u, ok := stripConv(v, false).(*ssa.UnOp)
	if !ok || token.MUL != u.Op {
		return nil, 0, false
	}
	fa, ok := u.X.(*ssa.FieldAddr)
	if !ok {
		return nil, 0, false
	}
	base := fa.X
	if al, ok := base.(*ssa.Alloc); ok {
		sts := storesTo(al)
		if 1 != len(sts) {
			return nil, 0, false
		}
		ld, ok := sts[0].Val.(*ssa.UnOp)
		if !ok || token.MUL != ld.Op {
			return nil, 0, false
		}
		base = ld.X
	}
	ia, ok := base.(*ssa.IndexAddr)
	if !ok {
		return nil, 0, false
	}
	x := ia.X
	if sl, ok := x.(*ssa.Slice); ok && nil == sl.Low && nil == sl.High {
		x = sl.X
	}
	arr, ok := x.(*ssa.Alloc)
	if !ok {
		return nil, 0, false
	}
	if _, isArr := arr.Type().Underlying().(*types.Pointer).Elem().Underlying().(*types.Array); !isArr {
		return nil, 0, false
	}
	/* The index is the loop's own counter (not a constant selection). */
	if _, isConst := ia.Index.(*ssa.Const); isConst {
		return nil, 0, false
	}
	return arr, fa.Field, true
}

// literalColumn returns, per row of the array literal, the value stored into
// field f; ok is false when a row is missing or written twice.
func literalColumn(arr *ssa.Alloc, f int) (map[int64]ssa.Value, bool) {
	n := arr.Type().Underlying().(*types.Pointer).Elem().Underlying().(*types.Array).Len()
	out := map[int64]ssa.Value{}
	ok := true
	for _, ref := range *arr.Referrers() {
		ia, isIA := ref.(*ssa.IndexAddr)
		if !isIA {
			continue
		}
		k, isC := constInt(ia.Index)
		if !isC {
			continue
		}
		for _, r2 := range *ia.Referrers() {
			fa, isFA := r2.(*ssa.FieldAddr)
			if !isFA || fa.Field != f {
				continue
			}
			for _, r3 := range *fa.Referrers() {
				if st, isSt := r3.(*ssa.Store); isSt && st.Addr == ssa.Value(fa) {
					if _, dup := out[k]; dup {
						ok = false
					}
					out[k] = st.Val
				}
			}
		}
	}
	return out, ok && int64(len(out)) == n
}

// tableRoutes expands mux.HandleFunc(row.pattern, row.handler) inside a loop
// over a literal table.
func tableRoutes(p *Prog, pat, h ssa.Value) []muxRoute {
	/* A table assembled from literals, some rows appended on some paths. */
	if cp, okP := cellReadOf(pat); okP {
		if ch, okH := cellReadOf(h); okH && cp.Index == ch.Index && sameTable(cp.Container, ch.Container) && cp.Field >= 0 && ch.Field >= 0 {
			_, isPhi := resolveCell(cp.Container).(*ssa.Phi)
			if isPhi || cp.Index == allRows {
				if runs, ok := p.tablesOf(cp.Container, 0); ok && rangesOverAll(cp.Index, cp.Container, -1) {
					var out []muxRoute
					for _, run := range runs {
						pats, ok1 := run.T.Column(cp.Field)
						hs, ok2 := run.T.Column(ch.Field)
						if !ok1 || !ok2 {
							return nil
						}
						for k := range pats {
							s, isC := constString(pats[k])
							if !isC {
								return nil
							}
							rt := muxRoute{Pattern: s, Cond: nil}
							if f, _ := closureOf(stripConv(hs[k], false)); nil != f {
								rt.Handler = unbound(p, f)
							}
							rt.condAt = run.Cond
							out = append(out, rt)
						}
					}
					return out
				}
			}
		}
	}
	arrP, fP, ok1 := elemFieldOfLiteral(pat)
	arrH, fH, ok2 := elemFieldOfLiteral(h)
	if !ok1 || !ok2 || arrP != arrH {
		return nil
	}
	pats, okP := literalColumn(arrP, fP)
	hs, okH := literalColumn(arrH, fH)
	if !okP || !okH {
		return nil
	}
	var out []muxRoute
	for k := int64(0); k < int64(len(pats)); k++ {
		s, ok := constString(pats[k])
		if !ok {
			return nil
		}
		rt := muxRoute{Pattern: s}
		if f, _ := closureOf(stripConv(hs[k], false)); nil != f {
			rt.Handler = unbound(p, f)
		}
		out = append(out, rt)
	}
	return out
}

// loopAnchor: reg sits in the body of a range loop and is executed on every
// iteration (every path from the body's entry back to the loop header passes
// it); returns the header's terminating If, or nil.
func loopAnchor(reg ssa.Instruction) ssa.Instruction {
	fn := reg.Parent()
	for _, h := range fn.Blocks {
		ifi := blockIf(h)
		if nil == ifi || 0 == len(h.Instrs) {
			continue
		}
		if _, isPhi := h.Instrs[0].(*ssa.Phi); !isPhi || !strings.HasPrefix(h.Comment, "rangeindex") {
			continue
		}
		body := h.Succs[0]
		if !body.Dominates(reg.Block()) && body != reg.Block() {
			continue
		}
		/* From the body's entry, the header is not reachable without reg. */
		skip := reachQ{From: Loc{body, -1, nil}, Target: func(i ssa.Instruction) bool { return i == ssa.Instruction(ifi) || isReturn(i) }, Block: func(i ssa.Instruction) bool { return i == reg }}.run()
		if nil == skip {
			return ifi
		}
	}
	return nil
}

// elemOfLiteral: v is the element, at the loop's index, of a slice/array
// literal (for _, x := range []T{a, b}); returns the literal's backing array.
func elemOfLiteral(v ssa.Value) (*ssa.Alloc, bool) {
	u, ok := stripConv(resolveCell(v), false).(*ssa.UnOp)
	if !ok || token.MUL != u.Op {
		return nil, false
	}
	ia, ok := u.X.(*ssa.IndexAddr)
	if !ok {
		return nil, false
	}
	if _, isConst := ia.Index.(*ssa.Const); isConst {
		return nil, false
	}
	x := ia.X
	if sl, ok := x.(*ssa.Slice); ok && nil == sl.Low && nil == sl.High {
		x = sl.X
	}
	/* The slice may sit in a local variable. */
	x = resolveCell(x)
	if sl, ok := x.(*ssa.Slice); ok && nil == sl.Low && nil == sl.High {
		x = sl.X
	}
	arr, ok := x.(*ssa.Alloc)
	if !ok {
		return nil, false
	}
	if _, isArr := arr.Type().Underlying().(*types.Pointer).Elem().Underlying().(*types.Array); !isArr {
		return nil, false
	}
	return arr, true
}

// literalElems returns the values stored into the elements of an array
// literal; ok is false when an element is missing or written twice.
func literalElems(arr *ssa.Alloc) (map[int64]ssa.Value, bool) {
	n := arr.Type().Underlying().(*types.Pointer).Elem().Underlying().(*types.Array).Len()
	out := map[int64]ssa.Value{}
	ok := true
	for _, ref := range *arr.Referrers() {
		ia, isIA := ref.(*ssa.IndexAddr)
		if !isIA {
			continue
		}
		k, isC := constInt(ia.Index)
		if !isC {
			continue
		}
		for _, r2 := range *ia.Referrers() {
			if st, isSt := r2.(*ssa.Store); isSt && st.Addr == ssa.Value(ia) {
				if _, dup := out[k]; dup {
					ok = false
				}
				out[k] = st.Val
			}
		}
	}
	return out, ok && int64(len(out)) == n
}

// stripFieldParam: v is (a field of) a parameter.
func stripFieldParam(v ssa.Value) (*ssa.Parameter, bool) {
	v = stripConv(v, false)
	if f, ok := v.(*ssa.Field); ok {
		v = f.X
	}
	pa, ok := v.(*ssa.Parameter)
	return pa, ok
}
