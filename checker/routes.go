package main

// routes.go: the HTTP route table of hsrv.(*Server).newMux, extracted from
// the HandleFunc / Handle calls (used by C01, C09).

import (
	"go/token"
	"go/types"

	"golang.org/x/tools/go/ssa"
)

const hsrvPkg = "internal/hsrv"

type muxRoute struct {
	Pattern string
	Handler *ssa.Function /* nil when not statically known */
	Cond    []*ssa.If     /* Ifs whose edge dominates the registration (conditional routes). */
	Instr   ssa.Instruction
	Pos     token.Pos
	In      *ssa.Function
}

// muxRoutes finds every (*http.ServeMux).HandleFunc / Handle call in the
// module.
func muxRoutes(p *Prog) []muxRoute {
	var out []muxRoute
	for _, fn := range p.Funcs() {
		eachInstr(fn, func(i ssa.Instruction) {
			c := callCommon(i)
			if nil == c {
				return
			}
			switch calleeName(c) {
			case "(*net/http.ServeMux).HandleFunc", "(*net/http.ServeMux).Handle", "net/http.HandleFunc", "net/http.Handle":
			default:
				return
			}
			args := c.Args
			if len(args) == 3 {
				args = args[1:]
			}
			rt := muxRoute{Instr: i, Pos: posOf(i), In: fn}
			if s, ok := constString(args[0]); ok {
				rt.Pattern = s
			} else {
				rt.Pattern = "<computed>"
			}
			h := stripConv(args[1], false)
			if f, _ := closureOf(h); nil != f {
				/* Bound method value: (*Server).inputHandler$bound. */
				rt.Handler = unbound(p, f)
			}
			out = append(out, rt)
		})
	}
	return out
}

// unbound maps a bound-method or thunk wrapper to the method it wraps.
func unbound(p *Prog, f *ssa.Function) *ssa.Function {
	if "" == f.Synthetic || nil == f.Object() {
		return f
	}
	if tf, ok := f.Object().(*types.Func); ok {
		if m := p.SSA.FuncValue(tf); nil != m {
			return m
		}
	}
	return f
}
