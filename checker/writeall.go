package main

// writeall.go: "write it all" helpers.  A function
//
//	func writeWhole(w io.Writer, s string) error      (or (int, error))
//
// which loops around one write to w, each time handing it what the previous
// write did not take (a suffix of s), gives up with the write's own error, and
// reports success only below a comparison of a length with what was written,
// is to the rules what io.WriteString(w, s) is: one write of the whole value
// with one error.  Such helpers are not folded into their callers (the loop
// would hide the write); the rules take a call of one for the write itself.

import (
	"go/token"
	"go/types"
	"strings"

	"golang.org/x/tools/go/ssa"
)

var writeAllMemo = map[*ssa.Function]bool{}

// isWriteAllFunc recognises the helpers described above (on the SSA as
// built, before normalisation).
func isWriteAllFunc(f *ssa.Function) bool {
	if nil == f || nil == f.Blocks || nil != f.Parent() || 2 != len(f.Params) || nil != f.Signature.Recv() {
		return false
	}
	if r, ok := writeAllMemo[f]; ok {
		return r
	}
	res := writeAllShape(f)
	writeAllMemo[f] = res
	return res
}

func writeAllShape(f *ssa.Function) bool {
	w, s := f.Params[0], f.Params[1]
	if !typeIs(w.Type(), "io", "Writer") {
		return false
	}
	switch t := s.Type().Underlying().(type) {
	case *types.Basic:
		if 0 == t.Info()&types.IsString {
			return false
		}
	case *types.Slice:
		if !types.Identical(t.Elem(), types.Typ[types.Byte]) {
			return false
		}
	default:
		return false
	}
	rs := f.Signature.Results()
	if rs.Len() < 1 || rs.Len() > 2 || !isErrorType(rs.At(rs.Len()-1).Type()) {
		return false
	}
	/* The one write. */
	var call *ssa.Call
	n := 0
	var payload ssa.Value
	eachInstr(f, func(i ssa.Instruction) {
		c, ok := i.(*ssa.Call)
		if !ok {
			return
		}
		cc := c.Common()
		switch {
		case "io.WriteString" == calleeName(cc) && 2 == len(cc.Args) && stripConv(cc.Args[0], false) == ssa.Value(w):
			n++
			call, payload = c, cc.Args[1]
		case cc.IsInvoke() && "Write" == cc.Method.Name() && stripConv(cc.Value, false) == ssa.Value(w) && 1 == len(cc.Args):
			n++
			call, payload = c, cc.Args[0]
		case nil != cc.StaticCallee() && nil != cc.StaticCallee().Pkg && strings.HasPrefix(cc.StaticCallee().Pkg.Pkg.Path(), ModPath):
			n += 2 /* does more than write */
		}
	})
	if 1 != n || nil == call || !canReach(locOf(call), call) {
		return false
	}
	/* What is written: s, or what is left of it. */
	seen := map[ssa.Value]bool{}
	var suffixOf func(v ssa.Value) bool
	suffixOf = func(v ssa.Value) bool {
		v = stripConv(v, false)
		if seen[v] {
			return true
		}
		seen[v] = true
		switch t := v.(type) {
		case *ssa.Parameter:
			return t == s
		case *ssa.Phi:
			for _, e := range t.Edges {
				if !suffixOf(e) {
					return false
				}
			}
			return true
		case *ssa.Slice:
			return nil != t.Low && nil == t.High && suffixOf(t.X)
		}
		return false
	}
	if !suffixOf(payload) {
		return false
	}
	if _, same := stripConv(payload, false).(*ssa.Parameter); same {
		return false /* every turn starts from the beginning again */
	}
	nV, errV := extractOf(call, 0), extractOf(call, 1)
	if nil == nV || nil == errV {
		return false
	}
	/* A failed write is not tried again. */
	tests := nilTestsOf(f, errV)
	if 0 == len(tests) {
		return false
	}
	for _, t := range tests {
		if canReach(edgeLoc(t.If.Block(), 1-t.NilSucc), call) {
			return false
		}
	}
	/* Success is claimed only below a comparison of a length with what was
	written. */
	var cmps []*ssa.If
	for _, b := range f.Blocks {
		ifi := blockIf(b)
		if nil == ifi {
			continue
		}
		bo, ok := ifi.Cond.(*ssa.BinOp)
		if !ok {
			continue
		}
		switch bo.Op {
		case token.LSS, token.LEQ, token.GTR, token.GEQ, token.EQL, token.NEQ:
		default:
			continue
		}
		hasLen := operandsReach(bo, func(x ssa.Value) bool {
			c, isCall := x.(*ssa.Call)
			if !isCall {
				return false
			}
			b, isB := c.Common().Value.(*ssa.Builtin)
			return isB && "len" == b.Name()
		})
		hasN := operandsReach(bo, func(x ssa.Value) bool { return x == ssa.Value(nV) })
		if hasLen && hasN {
			cmps = append(cmps, ifi)
		}
	}
	if 0 == len(cmps) {
		return false
	}
	okAll, nret := true, 0
	eachInstr(f, func(i ssa.Instruction) {
		ret, ok := i.(*ssa.Return)
		if !ok {
			return
		}
		for _, l := range phiLeaves(ret.Results[len(ret.Results)-1]) {
			if !isNilConst(l.V) {
				continue
			}
			nret++
			at := ssa.Instruction(ret)
			if nil != l.From {
				at = l.From.Instrs[len(l.From.Instrs)-1]
			}
			dom := false
			for _, ifi := range cmps {
				if ifi == at || edgeDominates(ifi, 0, at) || edgeDominates(ifi, 1, at) {
					dom = true
				}
			}
			if !dom {
				okAll = false
			}
		}
	})
	return okAll && nret > 0
}

// writeAllCall: c calls a write-all helper; the writer and what is written.
func writeAllCall(c *ssa.CallCommon) (w, payload ssa.Value, ok bool) {
	if nil == c || nil == c.StaticCallee() || 2 != len(c.Args) || !isWriteAllFunc(c.StaticCallee()) {
		return nil, nil, false
	}
	return c.Args[0], c.Args[1], true
}

// writeErrIndex: where the error of a write call is: the tuple index, or -1
// when the call's value is the error itself.
func writeErrIndex(c *ssa.Call) int {
	if f := c.Common().StaticCallee(); nil != f && isWriteAllFunc(f) && 1 == f.Signature.Results().Len() {
		return -1
	}
	return 1
}

// writeErrOf: the error value of a write call (of either kind).
func writeErrOf(c *ssa.Call) ssa.Value {
	if k := writeErrIndex(c); k >= 0 {
		return errOf(c, k)
	}
	return c
}
