package main

// C08 — certificate cache: stable identity, safe under torn writes,
// owner-only.

import (
	"fmt"
	"go/token"
	"go/types"
	"strings"

	"golang.org/x/tools/go/ssa"
)

func init() {
	register("C08", &propDef{
		Run:         checkC08,
		Explanation: "Static decision of the structural clauses of C08. (1) In GetCertificate a failed load reaches certificate generation only over the true edge of errors.Is(err, fs.ErrNotExist) on that load's error; every other load error returns an error. (2) The loader can only report not-exist for the cache file itself: every error it returns either wraps the error of the one call that opens/reads the cache file, or wraps errors of calls that cannot yield fs.ErrNotExist (tls.X509KeyPair, x509.ParseCertificate), or wraps nothing; and every success return is the result of tls.X509KeyPair over the certificate and key members of the same parsed archive (a mismatched pair cannot be served). (3) The cache is written only by SaveCertificate, which has a single caller, on the generation path (dominated by the generation call); no other function of sstls writes, renames or removes files. (4) Every directory-creating and file-writing call of sstls has constant permission bits without group/other access. (5) The -tls-certificate-cache flag value flows unchanged through hsrv.New and sstls.Listen to GetCertificate. The behaviour of txtar/pem parsing on each torn prefix and the atomicity of os.WriteFile are outside.",
		Assumptions: []string{"tls.X509KeyPair rejects a private key which does not match the certificate", "os.WriteFile/MkdirAll apply the given permission bits modulo umask"},
	})
}

func checkC08(p *Prog, r *Report) {
	rNE := r.Rule("only-not-exist-regenerates", "generation is reachable after a failed load only when the load's error is fs.ErrNotExist")
	rLoad := r.Rule("loader-errors", "the loader reports not-exist only for the cache file itself, and succeeds only with an X509KeyPair-checked pair from one archive")
	rWrite := r.Rule("never-rewritten", "the cache file is written only by SaveCertificate, called once, on the generation path; nothing else writes or removes files")
	rPerm := r.Rule("owner-only", "every directory and file created by sstls gets constant owner-only permission bits")
	rWire := r.Rule("wiring", "the -tls-certificate-cache flag value reaches GetCertificate unchanged")

	get := p.Func(sstlsPkg, "", "GetCertificate")
	load := p.Func(sstlsPkg, "", "LoadCachedCertificate")
	save := p.Func(sstlsPkg, "", "SaveCertificate")
	if nil == get || nil == load || nil == save {
		rNE.Unproven("sstls", token.NoPos, "GetCertificate, LoadCachedCertificate or SaveCertificate not found")
		return
	}
	for _, f := range []*ssa.Function{get, load, save} {
		r.Saw("func " + fnName(f))
	}

	/* 1. The functions which decide between the cached certificate and a
	new one: those which call the generator (GetCertificate; a caller it was
	written into counts as well). */
	isGen := func(c *ssa.Call) bool {
		sc := c.Common().StaticCallee()
		return nil != sc && inModule(sc) && strings.HasPrefix(strings.ToLower(sc.Name()), "generate")
	}
	isCacheRead := func(c *ssa.Call) bool {
		switch calleeName(c.Common()) {
		case "golang.org/x/tools/txtar.ParseFile", "os.ReadFile", "os.Open", "io/ioutil.ReadFile":
			return true
		}
		return c.Common().StaticCallee() == load
	}
	type manager struct {
		fn      *ssa.Function
		genCall *ssa.Call
	}
	var managers []manager
	genOf := map[*ssa.Function]*ssa.Call{}
	for _, fn := range p.Funcs() {
		if nil != fn.Parent() || nil == fn.Pkg || !strings.HasSuffix(fn.Pkg.Pkg.Path(), "/"+sstlsPkg) {
			continue
		}
		var gc *ssa.Call
		reads := false
		eachInstr(fn, func(i ssa.Instruction) {
			if c, ok := i.(*ssa.Call); ok && isGen(c) {
				gc = c
			}
			if c, ok := i.(*ssa.Call); ok && isCacheRead(c) {
				reads = true
			}
		})
		if nil != gc && reads {
			managers = append(managers, manager{fn, gc})
			genOf[fn] = gc
		}
	}
	if 0 == len(managers) {
		rNE.Unproven(fnName(get)+":calls", get.Pos(), "no function of sstls calls the certificate generator")
	}
	for _, m := range managers {
		mfn, gc := m.fn, m.genCall
		r.Saw("func " + fnName(mfn))
		/* The "nothing cached yet" tests, and the error they examine. */
		ne := map[Edge]bool{}
		var errVs []ssa.Value
		var readCalls []*ssa.Call
		for _, b := range mfn.Blocks {
			ifi := blockIf(b)
			if nil == ifi {
				continue
			}
			dc := decodeCond(ifi.Cond)
			call, ok := dc.X.(*ssa.Call)
			if !ok || nil != dc.Y {
				continue
			}
			switch calleeName(call.Common()) {
			case "errors.Is":
				if !globalLoad(call.Common().Args[1], "io/fs", "ErrNotExist") && !globalLoad(call.Common().Args[1], "os", "ErrNotExist") {
					continue
				}
			case "os.IsNotExist":
			default:
				continue
			}
			/* The error examined is (a wrapping of) the cache read's. */
			fromRead := false
			for _, src := range errorSources(call.Common().Args[0], 0) {
				if nil != src.Call && isCacheRead(src.Call) && src.Call.Parent() == mfn {
					fromRead = true
					readCalls = append(readCalls, src.Call)
				}
			}
			if !fromRead {
				continue
			}
			errVs = append(errVs, call.Common().Args[0])
			k := 1
			if dc.Eq {
				k = 0
			}
			ne[Edge{b.Index, b.Succs[k].Index}] = true
		}
		switch {
		case 0 == len(ne):
			rNE.Bad(fnName(mfn)+":not-exist-test", posOf(gc), "the error of reading the cache is never compared with fs.ErrNotExist before a new key is generated: any damaged cache would be silently replaced by a new key")
			continue
		}
		falls := false
		for _, rc := range readCalls {
			if nil != (reachQ{From: locOf(rc), NoEdges: ne, Target: func(i ssa.Instruction) bool { return i == ssa.Instruction(gc) }}).run() {
				falls = true
			}
		}
		switch {
		case falls:
			rNE.Bad(fnName(mfn)+":only-not-exist", posOf(gc), "once the cache has been read, a new key can be generated (and served) without the read having failed with not-exist: a load error other than that can fall through to generation")
		default:
			rNE.OK(fnName(mfn)+":only-not-exist", posOf(gc), "generation is reachable only over errors.Is(err, fs.ErrNotExist) on the cache read's error")
		}
		/* A successful load returns the loaded certificate. */
		for _, errV := range errVs {
			for _, t := range nilTestsOf(mfn, errV) {
				from := edgeLoc(t.If.Block(), t.NilSucc)
				if hit := (reachQ{From: from, Target: func(i ssa.Instruction) bool {
					if i == ssa.Instruction(gc) {
						return true
					}
					c, ok := i.(*ssa.Call)
					return ok && (c.Common().StaticCallee() == save || cacheWriters[calleeName(c.Common())])
				}}).run(); nil != hit {
					rNE.Bad(fnName(mfn)+":loaded-is-served", posOf(hit), "after a successful load the function can still generate or save a certificate")
				} else {
					rNE.OK(fnName(mfn)+":loaded-is-served", posOf(t.If), "a successful load returns without generating or saving")
				}
			}
		}
	}

	/* 2. Loader. */
	checkC08Loader(p, r, rLoad, load)

	/* 3. Writers. */
	n := 0
	for _, ci := range p.callersOf(save) {
		c := fnName(ci.Parent()) + "→SaveCertificate"
		gc := genOf[ci.Parent()]
		switch {
		case nil == gc:
			rWrite.Bad(c, posOf(ci), "SaveCertificate is called outside the function which decides on generation")
		case instrDominates(gc, ci):
			n++
			rWrite.OK(c, posOf(ci), "only after a certificate was generated in this call")
		default:
			rWrite.Bad(c, posOf(ci), "the cache can be saved without a certificate having been generated in this call: an existing cache file would be rewritten")
		}
	}
	writers := cacheWriters
	nw := 0
	for _, fn := range p.Funcs() {
		if nil == fn.Pkg || !strings.HasSuffix(fn.Pkg.Pkg.Path(), "/"+sstlsPkg) {
			continue
		}
		top := fn
		for nil != top.Parent() {
			top = top.Parent()
		}
		eachInstr(fn, func(i ssa.Instruction) {
			c := callCommon(i)
			if nil == c || !writers[calleeName(c)] {
				return
			}
			nw++
			name := calleeName(c)
			cc := fmt.Sprintf("%s→%s", fnName(fn), name)
			switch gc := genOf[top]; {
			case top == save:
				rWrite.OK(cc, posOf(i), "inside SaveCertificate")
			case nil != gc && fn == top && instrDominates(gc, i):
				n++
				rWrite.OK(cc, posOf(i), "written out where SaveCertificate would be called: only after a certificate was generated in this call")
			default:
				rWrite.Bad(cc, posOf(i), "%s outside SaveCertificate: the cache (or its directory) is modified on a path other than first generation", name)
			}
			/* 4. Permission bits. */
			var perm ssa.Value
			switch name {
			case "os.WriteFile", "io/ioutil.WriteFile", "os.OpenFile":
				perm = c.Args[2]
			case "os.Mkdir", "os.MkdirAll", "os.Chmod":
				perm = c.Args[1]
			}
			if nil != perm {
				if k, ok := constInt(perm); !ok {
					rPerm.Unproven(cc+":perm", posOf(i), "permission bits are not constant")
				} else if 0 != k&0o077 {
					rPerm.Bad(cc+":perm", posOf(i), "permission %#o gives group/other access to the private key's %s", k, map[bool]string{true: "directory", false: "file"}[strings.Contains(name, "Mkdir")])
				} else {
					rPerm.OK(cc+":perm", posOf(i), "%#o", k)
				}
			}
			if "os.Create" == name {
				rPerm.Bad(cc+":perm", posOf(i), "%s creates files with mode 0666", name)
			}
			/* "At any nesting depth": every missing directory on the way
			is made, not just the last. */
			if "os.Mkdir" == name && top == save {
				rWrite.Bad(cc+":all-levels", posOf(i), "the cache's directory is made with os.Mkdir: when more than one level is missing nothing is saved, and every start generates (and serves) a new key")
			}
		})
	}
	checkC08Outside(p, r, rPerm)
	if 0 == n {
		rWrite.Bad("SaveCertificate:callers", save.Pos(), "a generated certificate is never saved: every start would serve a new key")
	}
	if nw < 2 {
		rWrite.Unproven("sstls:writers", save.Pos(), "%d file-system writing calls found in sstls, at least MkdirAll and WriteFile expected", nw)
	}
	rPerm.AtLeast(2, "permission constants")

	/* 5. Wiring. */
	checkC08Wiring(p, r, rWire, get)
}

// checkC08Loader checks LoadCachedCertificate's returns.
func checkC08Loader(p *Prog, r *Report, ru *Rule, load *ssa.Function) {
	certParam := load.Params[0]
	/* The call reading the cache file: takes the path parameter. */
	var readCall *ssa.Call
	eachInstr(load, func(i ssa.Instruction) {
		c, ok := i.(*ssa.Call)
		if !ok {
			return
		}
		for _, a := range c.Common().Args {
			if stripConv(a, true) == ssa.Value(certParam) {
				switch calleeName(c.Common()) {
				case "golang.org/x/tools/txtar.ParseFile", "os.ReadFile", "os.Open", "io/ioutil.ReadFile":
					readCall = c
				}
			}
		}
	})
	if nil == readCall {
		ru.Unproven(fnName(load)+":read", load.Pos(), "the call reading the cache file was not found")
		return
	}
	readErr := extractOf(readCall, 1)
	cannotBeNotExist := map[string]bool{"crypto/tls.X509KeyPair": true, "crypto/x509.ParseCertificate": true, "encoding/pem.Decode": true}
	nerr, nok := 0, 0
	var judgeErr func(ev ssa.Value, c string, ret *ssa.Return)
	judgeErr = func(ev ssa.Value, c string, ret *ssa.Return) {
		call, ok := ev.(*ssa.Call)

		if !ok {
			/* A package-level error made once (var errX = errors.New(…)). */
			if once := p.globalOnce(ev); nil != once {
				if mi, isMI := once.(*ssa.MakeInterface); isMI {
					once = mi.X
				}
				if _, isCall := once.(*ssa.Call); isCall {
					judgeErr(once, c, ret)
					return
				}
			}
			if ev == ssa.Value(readErr) {
				ru.OK(c, posOf(ret), "returns the file read's own error")
				return
			}
			/* A structured error of the module: judged by what its Unwrap
			hands back, as %w would be. */
			if al, isAl := stripConv(ev, false).(*ssa.Alloc); isAl {
				if srcs, ok := structuredErrorSources(al, 0); ok {
					for _, src := range srcs {
						switch {
						case src.Call == readCall && nil != readCall:
							ru.OK(c, posOf(ret), "carries the error of reading the cache file itself (%s)", src.Name)
						case "fresh" == src.Name:
							ru.OK(c, posOf(ret), "a structured error which carries a fresh error or none")
						case cannotBeNotExist[src.Name]:
							ru.OK(c, posOf(ret), "carries an error of %s, which is never fs.ErrNotExist", src.Name)
						case nil == src.Call && "?" != src.Name:
							ru.OK(c, posOf(ret), "carries the module's own sentinel %s", src.Name)
						default:
							ru.Bad(c, posOf(ret), "carries (Unwrap) an error of %s: if that is fs.ErrNotExist (e.g. a member missing from a torn archive) the caller takes the damaged cache for a missing one, regenerates and overwrites it", src.Name)
						}
					}
					return
				}
			}
			ru.Unproven(c, posOf(ret), "error value not understood (%s)", describeValue(ev))
			return
		}
		switch calleeName(call.Common()) {
		case "errors.New":
			ru.OK(c, posOf(ret), "a fresh error, wraps nothing")
		case "fmt.Errorf":
			f, _ := constString(call.Common().Args[0])
			if !strings.Contains(f, "%w") {
				ru.OK(c, posOf(ret), "a fresh error, wraps nothing")
				return
			}
			wrapped := false
			for _, e := range variadicElems(call.Common()) {
				if !typeIsError(e) {
					continue
				}
				wrapped = true
				for _, src := range errorSources(e, 0) {
					switch {
					case src.Call == readCall && nil != readCall:
						ru.OK(c, posOf(ret), "wraps the error of reading the cache file itself (%s)", src.Name)
					case "fresh" == src.Name:
						ru.OK(c, posOf(ret), "wraps a fresh error")
					case cannotBeNotExist[src.Name]:
						ru.OK(c, posOf(ret), "wraps an error of %s, which is never fs.ErrNotExist", src.Name)
					default:
						ru.Bad(c, posOf(ret), "wraps (%%w) an error of %s: if that is fs.ErrNotExist (e.g. a member missing from a torn archive) the caller takes the damaged cache for a missing one, regenerates and overwrites it", src.Name)
					}
				}
			}
			if !wrapped {
				ru.OK(c, posOf(ret), "a fresh error")
			}
		default:
			ru.Unproven(c, posOf(ret), "error built by %s", calleeName(call.Common()))
		}
	}
	eachInstr(load, func(i ssa.Instruction) {
		ret, ok := i.(*ssa.Return)
		if !ok || 2 != len(ret.Results) {
			return
		}
		ev := retVal(ret, 1)
		if isNilConst(ev) {
			/* Success return. */
			nok++
			c := fmt.Sprintf("%s:success#%d", fnName(load), nok)
			rs := valueRoots(retVal(ret, 0), nil)
			pair := false
			var others []string
			var kp *ssa.Call
			for _, x := range rs {
				switch {
				case "call" == x.Kind && "crypto/tls.X509KeyPair" == x.Callee && 0 == x.Idx:
					pair = true
					kp = x.V.(*ssa.Call)
				case "call" == x.Kind && "crypto/x509.ParseCertificate" == x.Callee:
					/* The Leaf store (checked by C05). */
				default:
					others = append(others, x.String())
				}
			}
			if !pair || 0 != len(others) {
				ru.Bad(c, posOf(ret), "a certificate is returned which is not (only) the result of tls.X509KeyPair: %s — a key not matching the certificate could be served", rootsString(rs))
				return
			}
			/* Both operands come from the archive read from the file. */
			through := func(n string) bool {
				switch n {
				case "io/fs.ReadFile", "golang.org/x/tools/txtar.FS", "golang.org/x/tools/txtar.Parse", "bytes.TrimSpace", "bytes.Clone":
					return true
				}
				return false
			}
			okOps := true
			for _, a := range kp.Common().Args {
				ars := valueRoots(a, through)
				fromArchive := false
				for _, x := range ars {
					if "field" == x.Kind && ("Data" == x.Field.Name() || "Files" == x.Field.Name()) {
						fromArchive = true
					} else if "call" == x.Kind && x.V == ssa.Value(readCall) {
						fromArchive = true
					} else if "const" == x.Kind {
					} else {
						okOps = false
					}
				}
				if !fromArchive {
					okOps = false
				}
			}
			if okOps {
				ru.OK(c, posOf(ret), "X509KeyPair(cert member, key member) of the parsed archive")
			} else {
				ru.Bad(c, posOf(ret), "the operands of X509KeyPair are not both members of the archive read from the cache file")
			}
			return
		}
		nerr++
		/* What does the returned error wrap?  (One verdict per value the
		returned variable can hold.) */
		leaves := phiLeaves(ev)
		for k, lf := range leaves {
			if isNilConst(lf.V) {
				continue
			}
			c := fmt.Sprintf("%s:error#%d", fnName(load), nerr)
			if len(leaves) > 1 {
				c = fmt.Sprintf("%s.%d", c, k+1)
			}
			judgeErr(lf.V, c, ret)
		}
	})
	if 0 == nok {
		ru.Bad(fnName(load)+":success", load.Pos(), "the loader has no success return")
	}
	if nerr < 2 {
		ru.Unproven(fnName(load)+":errors", load.Pos(), "%d error returns found", nerr)
	}
}

func typeIsError(v ssa.Value) bool {
	t := v.Type()
	if mi, ok := v.(*ssa.MakeInterface); ok {
		t = mi.X.Type()
	}
	if ci, ok := v.(*ssa.ChangeInterface); ok {
		t = ci.X.Type()
	}
	if "error" == t.String() {
		return true
	}
	/* A concrete error value (&fs.PathError{…}, a module error type): what
	is left of it once the conversions to error and any are stripped. */
	if ei, ok := types.Universe.Lookup("error").Type().Underlying().(*types.Interface); ok {
		if _, isIface := t.Underlying().(*types.Interface); !isIface && types.Implements(t, ei) {
			return true
		}
	}
	return false
}

// checkC08Wiring follows the flag value: main → hsrv.New → sstls.Listen →
// GetCertificate.
func checkC08Wiring(p *Prog, r *Report, ru *Rule, get *ssa.Function) {
	rm := p.Func("", "", "rmain")
	hnew := p.Func(hsrvPkg, "", "New")
	listen := p.Func(sstlsPkg, "", "Listen")
	if nil == rm || nil == hnew || nil == listen {
		ru.Unproven("wiring", token.NoPos, "rmain, hsrv.New or sstls.Listen not found")
		return
	}
	/* Parameter → argument identity along the chain, by parameter name. */
	step := func(caller, callee *ssa.Function, calleeParam string, want func(v ssa.Value) (bool, string)) {
		c := fmt.Sprintf("%s→%s(%s)", fnName(caller), fnName(callee), calleeParam)
		idx := -1
		if pa := paramNamed(callee, calleeParam); nil != pa {
			idx = paramIndex(callee, pa)
		}
		if idx < 0 {
			ru.Unproven(c, callee.Pos(), "%s has no parameter %s", fnName(callee), calleeParam)
			return
		}
		n := 0
		for _, f := range withAnons(caller) {
			eachInstr(f, func(i ssa.Instruction) {
				cc := callCommon(i)
				if nil == cc || cc.StaticCallee() != callee {
					return
				}
				n++
				if ok, why := want(cc.Args[idx]); ok {
					ru.OK(c, posOf(i), "%s", why)
				} else {
					ru.Bad(c, posOf(i), "%s", why)
				}
			})
		}
		if 0 == n {
			ru.Unproven(c, caller.Pos(), "call not found")
		}
	}
	isParam := func(fn *ssa.Function, name string) func(v ssa.Value) (bool, string) {
		return func(v ssa.Value) (bool, string) {
			if pa, ok := resolveCell(v).(*ssa.Parameter); ok && pa.Parent() == fn && pa == paramNamed(fn, name) {
				return true, "passes its own " + name + " unchanged"
			}
			return false, "the cache file name handed on is " + rootsString(valueRoots(v, nil)) + ", not the " + name + " it was given"
		}
	}
	step(rm, hnew, "certFile", func(v ssa.Value) (bool, string) {
		if n := flagNameOf(v); "tls-certificate-cache" == n {
			return true, "value of flag -tls-certificate-cache"
		}
		return false, "hsrv.New's certFile is not the value of -tls-certificate-cache"
	})
	step(hnew, listen, "certFile", isParam(hnew, "certFile"))
	/* Listen hands its certFile to GetCertificate — or, GetCertificate's
	work being written out in Listen itself, to the loader and the saver. */
	viaGet := false
	for _, f := range withAnons(listen) {
		eachInstr(f, func(i ssa.Instruction) {
			if cc := callCommon(i); nil != cc && cc.StaticCallee() == get {
				viaGet = true
			}
		})
	}
	if viaGet {
		step(listen, get, "certFile", isParam(listen, "certFile"))
		return
	}
	load := p.Func(sstlsPkg, "", "LoadCachedCertificate")
	save := p.Func(sstlsPkg, "", "SaveCertificate")
	if nil == load || nil == save {
		ru.Unproven(fnName(listen)+"→"+fnName(get)+"(certFile)", listen.Pos(), "call not found")
		return
	}
	step(listen, load, "certFile", isParam(listen, "certFile"))
	step(listen, save, "certFile", isParam(listen, "certFile"))
}

// flagNameOf: if v is a load of the pointer returned by flag.String/Bool/...
// returns the flag's constant name.
func flagNameOf(v ssa.Value) string {
	/* (through a conversion to a named type of the same kind:
	oneshell.Mode(*oneShell) is the flag's value) */
	v = resolveCell(stripConv(resolveCell(v), false))
	if n := flagFieldNameOf(v); "" != n {
		return n
	}
	u, ok := v.(*ssa.UnOp)
	if !ok || token.MUL != u.Op {
		return ""
	}
	c, ok := resolveCell(u.X).(*ssa.Call)
	if !ok || !strings.HasPrefix(calleeName(c.Common()), "flag.") {
		/* var x T; flag.TVar(&x, name, ...): the variable is written by
		flag.Parse only. */
		al, isAl := resolveFree(u.X).(*ssa.Alloc)
		if !isAl {
			return ""
		}
		name, n := "", 0
		for _, f := range withAnons(al.Parent()) {
			eachInstr(f, func(i ssa.Instruction) {
				cc := callCommon(i)
				if nil == cc || 0 == len(cc.Args) {
					return
				}
				cn := calleeName(cc)
				if strings.HasPrefix(cn, "flag.") && strings.HasSuffix(cn, "Var") && len(cc.Args) >= 2 && resolveFree(cc.Args[0]) == ssa.Value(al) {
					n++
					name, _ = constString(cc.Args[1])
				}
			})
		}
		if 1 != n {
			return ""
		}
		/* No other store than the zero initialisation. */
		for _, st := range storesTo(al) {
			if _, isC := st.Val.(*ssa.Const); !isC {
				return ""
			}
		}
		return name
	}
	/* The pointer flag.T() returned: nothing but the flag package writes
	through it, and it is not put anywhere from where somebody could (a
	table of pointers walked by a "normalise all paths" loop). */
	for _, ref := range *c.Referrers() {
		if st, isSt := ref.(*ssa.Store); isSt {
			if st.Addr == ssa.Value(c) {
				return "" /* written through */
			}
			if _, isCell := resolveFree(st.Addr).(*ssa.Alloc); !isCell {
				return "" /* put into a table or a field */
			}
		}
	}
	s, _ := constString(c.Common().Args[0])
	return s
}

// errSource is where an error value comes from.
type errSource struct {
	Name string /* callee name, "fresh", or "?" */
	Call *ssa.Call
}

// errorSources resolves an error value through phis, cells, conversions and
// %w wrapping to the calls which produced it.
func errorSources(e ssa.Value, depth int) []errSource {
	if depth > 6 {
		return []errSource{{Name: "?"}}
	}
	e = stripConv(resolveCell(e), false)
	switch x := e.(type) {
	case *ssa.Phi:
		var out []errSource
		seen := map[string]bool{}
		for _, ed := range x.Edges {
			for _, s := range errorSources(ed, depth+1) {
				k := fmt.Sprintf("%s/%p", s.Name, s.Call)
				if !seen[k] {
					seen[k] = true
					out = append(out, s)
				}
			}
		}
		return out
	case *ssa.Extract:
		if sc, ok := x.Tuple.(*ssa.Call); ok {
			return []errSource{{Name: calleeName(sc.Common()), Call: sc}}
		}
	case *ssa.Call:
		switch n := calleeName(x.Common()); n {
		case "errors.New":
			return []errSource{{Name: "fresh"}}
		case "fmt.Errorf":
			f, _ := constString(x.Common().Args[0])
			if !strings.Contains(f, "%w") {
				return []errSource{{Name: "fresh"}}
			}
			var out []errSource
			for _, a := range variadicElems(x.Common()) {
				if typeIsError(a) {
					out = append(out, errorSources(a, depth+1)...)
				}
			}
			if 0 == len(out) {
				return []errSource{{Name: "fresh"}}
			}
			return out
		default:
			return []errSource{{Name: n, Call: x}}
		}
	case *ssa.Const:
		if x.IsNil() {
			return nil
		}
	case *ssa.UnOp:
		/* var ErrX = errors.New(…) of the module, never reassigned: an
		error of its own, which wraps nothing. */
		if g, ok := x.X.(*ssa.Global); ok && token.MUL == x.Op && nil != theProg && theProg.sentinelError(g) {
			if once := theProg.globalOnce(x); nil != once {
				if c, isCall := stripConv(once, false).(*ssa.Call); isCall && "errors.New" == calleeName(c.Common()) {
					return []errSource{{Name: "fresh"}}
				}
			}
		}
	case *ssa.Alloc:
		/* &fs.PathError{Op: …, Path: …, Err: e} and the like from the
		standard library: they unwrap to their Err field. */
		if n := namedOf(x.Type()); nil != n && nil != n.Obj().Pkg() && !strings.HasPrefix(n.Obj().Pkg().Path(), ModPath) {
			if st, isSt := n.Underlying().(*types.Struct); isSt {
				var out []errSource
				for _, ref := range *x.Referrers() {
					fa, isFA := ref.(*ssa.FieldAddr)
					if !isFA || "Err" != st.Field(fa.Field).Name() {
						continue
					}
					for _, r2 := range *fa.Referrers() {
						if s2, isSt := r2.(*ssa.Store); isSt && s2.Addr == ssa.Value(fa) {
							if u, isLd := stripConv(s2.Val, false).(*ssa.UnOp); isLd && token.MUL == u.Op {
								if g, isG := u.X.(*ssa.Global); isG {
									out = append(out, errSource{Name: g.Pkg.Pkg.Name() + "." + g.Name()})
									continue
								}
							}
							out = append(out, errorSources(s2.Val, depth+1)...)
						}
					}
				}
				if 0 != len(out) {
					return out
				}
			}
		}
		/* &T{Op: …, Err: err}: a structured error of the module.  What its
		Unwrap hands back is the cause it carries (what %w would have
		wrapped); without an Unwrap it is an error of its own. */
		if srcs, ok := structuredErrorSources(x, depth); ok {
			return srcs
		}
	}
	return []errSource{{Name: "?"}}
}

// structuredErrorSources: al is a freshly made value of a module struct type
// which is an error.  Its sources are those of the values stored into the
// field(s) its Unwrap method returns (a sentinel returned as it is counts as
// itself), or "fresh" when it has no Unwrap.
func structuredErrorSources(al *ssa.Alloc, depth int) ([]errSource, bool) {
	if nil == theProg {
		return nil, false
	}
	n := namedOf(al.Type())
	if nil == n || nil == n.Obj().Pkg() || !strings.HasPrefix(n.Obj().Pkg().Path(), ModPath) {
		return nil, false
	}
	if _, isSt := n.Underlying().(*types.Struct); !isSt {
		return nil, false
	}
	ms := theProg.SSA.MethodSets.MethodSet(types.NewPointer(n))
	if nil == ms.Lookup(nil, "Error") {
		return nil, false
	}
	sel := ms.Lookup(n.Obj().Pkg(), "Unwrap")
	if nil == sel {
		sel = ms.Lookup(nil, "Unwrap")
	}
	if nil == sel {
		return []errSource{{Name: "fresh"}}, true
	}
	un := theProg.SSA.MethodValue(sel)
	if nil == un || nil == un.Blocks {
		return nil, false
	}
	/* A value-receiver method is reached through a wrapper. */
	if "" != un.Synthetic {
		if vsel := theProg.SSA.MethodSets.MethodSet(n).Lookup(n.Obj().Pkg(), "Unwrap"); nil != vsel {
			if vm := theProg.SSA.MethodValue(vsel); nil != vm && nil != vm.Blocks {
				un = vm
			}
		}
	}
	var out []errSource
	okAll := true
	eachInstr(un, func(i ssa.Instruction) {
		ret, ok := i.(*ssa.Return)
		if !ok || 1 != len(ret.Results) {
			return
		}
		rv := stripConv(ret.Results[0], false)
		if fv, _ := loadedField(rv); nil != fv {
			/* The stores into that field of this value. */
			found := false
			for _, ref := range *al.Referrers() {
				fa, isFA := ref.(*ssa.FieldAddr)
				if !isFA || derefStruct(fa.X.Type()).Field(fa.Field) != fv {
					continue
				}
				for _, r2 := range *fa.Referrers() {
					if st, isSt := r2.(*ssa.Store); isSt && st.Addr == ssa.Value(fa) {
						found = true
						out = append(out, errorSources(st.Val, depth+1)...)
					}
				}
			}
			if !found {
				/* Left nil: nothing is wrapped. */
				out = append(out, errSource{Name: "fresh"})
			}
			return
		}
		if u, isLd := rv.(*ssa.UnOp); isLd && token.MUL == u.Op {
			if g, isG := u.X.(*ssa.Global); isG {
				out = append(out, errSource{Name: g.Name()})
				return
			}
		}
		if c, isC := rv.(*ssa.Const); isC && c.IsNil() {
			out = append(out, errSource{Name: "fresh"})
			return
		}
		okAll = false
	})
	if !okAll || 0 == len(out) {
		return nil, false
	}
	return out, true
}

// cacheWriters: calls which create or change files.
var cacheWriters = map[string]bool{
	"os.WriteFile": true, "os.Create": true, "os.OpenFile": true, "os.Rename": true, "os.Remove": true, "os.RemoveAll": true,
	"os.Mkdir": true, "os.MkdirAll": true, "os.Chmod": true, "os.Truncate": true, "io/ioutil.WriteFile": true, "os.CreateTemp": true, "os.Symlink": true, "os.Link": true,
}


// checkC08Outside: outside sstls, too, nothing makes the cache's directories
// with wider permissions.  A caller which prepares the place beforehand
// (a pre-flight check which creates missing parents) decides the mode of
// those directories: SaveCertificate's own MkdirAll then finds them made.
func checkC08Outside(p *Prog, r *Report, ru *Rule) {
	isPathFn := func(n string) bool { return strings.HasPrefix(n, "path/filepath.") || strings.HasPrefix(n, "strings.Trim") }
	for _, top := range p.Funcs() {
		if nil == top.Pkg || nil != top.Parent() || strings.HasSuffix(top.Pkg.Pkg.Path(), "/"+sstlsPkg) {
			continue
		}
		/* What this function hands sstls as the cache file's name. */
		certRoots := map[ssa.Value]bool{}
		for _, fn := range withAnons(top) {
			eachInstr(fn, func(i ssa.Instruction) {
				c := callCommon(i)
				if nil == c || nil == c.StaticCallee() || nil == c.StaticCallee().Pkg || !strings.HasSuffix(c.StaticCallee().Pkg.Pkg.Path(), "/"+sstlsPkg) {
					return
				}
				for k, pa := range c.StaticCallee().Params {
					if "certFile" != pa.Name() || k >= len(c.Args) {
						continue
					}
					for _, x := range valueRoots(c.Args[k], isPathFn) {
						if nil != x.V {
							certRoots[x.V] = true
						}
					}
				}
			})
		}
		if 0 == len(certRoots) {
			continue
		}
		for _, fn := range withAnons(top) {
			eachInstr(fn, func(i ssa.Instruction) {
				c := callCommon(i)
				if nil == c {
					return
				}
				name := calleeName(c)
				if "os.Mkdir" != name && "os.MkdirAll" != name && "os.Chmod" != name {
					return
				}
				related := false
				for _, x := range valueRoots(c.Args[0], isPathFn) {
					if nil != x.V && certRoots[x.V] {
						related = true
					}
				}
				if !related {
					return
				}
				cc := fmt.Sprintf("%s→%s:perm", fnName(fn), name)
				if k, ok := constInt(c.Args[1]); !ok {
					ru.Unproven(cc, posOf(i), "permission bits are not constant")
				} else if 0 != k&0o077 {
					ru.Bad(cc, posOf(i), "a directory on the way to the certificate cache is made with permission %#o before sstls gets to it: the private key's directory is open to group/others", k)
				} else {
					ru.OK(cc, posOf(i), "%#o", k)
				}
			})
		}
	}
}

// flagFieldNameOf: v is field k of a local struct variable (read after the
// whole struct was loaded, or through the field's address) which
// flag.TVar(&s.k, name, …) registered, and which nothing else writes: the
// flag's constant name.
func flagFieldNameOf(v ssa.Value) string {
	var al *ssa.Alloc
	k := -1
	switch x := v.(type) {
	case *ssa.Field:
		if ld, ok := x.X.(*ssa.UnOp); ok && token.MUL == ld.Op {
			al, _ = resolveFree(ld.X).(*ssa.Alloc)
			k = x.Field
		}
	case *ssa.UnOp:
		if token.MUL == x.Op {
			if fa, ok := x.X.(*ssa.FieldAddr); ok {
				al, _ = resolveFree(fa.X).(*ssa.Alloc)
				k = fa.Field
			}
		}
	}
	if nil == al || k < 0 {
		return ""
	}
	name, n, bad := "", 0, false
	for _, f := range withAnons(al.Parent()) {
		eachInstr(f, func(i ssa.Instruction) {
			switch y := i.(type) {
			case *ssa.Store:
				/* The whole variable, or this field, written by hand. */
				if resolveFree(y.Addr) == ssa.Value(al) {
					if _, isC := y.Val.(*ssa.Const); !isC {
						bad = true
					}
				}
				if fa, ok := y.Addr.(*ssa.FieldAddr); ok && fa.Field == k && resolveFree(fa.X) == ssa.Value(al) {
					if _, isC := y.Val.(*ssa.Const); !isC {
						bad = true
					}
				}
				return
			}
			cc := callCommon(i)
			if nil == cc || len(cc.Args) < 2 {
				return
			}
			fa, ok := cc.Args[0].(*ssa.FieldAddr)
			if !ok || fa.Field != k || resolveFree(fa.X) != ssa.Value(al) {
				return
			}
			cn := calleeName(cc)
			if strings.HasPrefix(cn, "flag.") && strings.HasSuffix(cn, "Var") {
				n++
				name, _ = constString(cc.Args[1])
			} else {
				bad = true /* the field's address handed to something else */
			}
		})
	}
	if bad || 1 != n {
		return ""
	}
	return name
}
