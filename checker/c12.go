package main

// C12 — -one-shell closes the listener at the first full shell and exits
// after it.

import (
	"fmt"
	"go/token"
	"go/types"
	"sort"
	"strings"

	"golang.org/x/tools/go/ssa"
)

func init() {
	register("C12", &propDef{
		Run:         checkC12,
		Explanation: "Static decision of the structural clauses of C12. (1) Wiring table: at the hsrv.New call in main each flag's value reaches the parameter of the same meaning (listen-address→addr, serve-files-from→fdir, callback-template→tmplf, tls-certificate-cache→certFile, ipv6-one-liners→printIPv6, one-shell→oneShell), New stores oneShell into Server.oneShell and nothing else writes that field. (2) Who closes the listener: Close on the server's listener is called only on New's error paths and in the event consumer below the 'connected' case and the true edge of Server.oneShell; by C04's tables the connected event exists only for a fully attached shell. The event loop returns only on cancellation or a closed event channel, never from an event case, so a half-attached attempt which comes and goes cannot stop it watching. (3) Clean exit: serveHTTP turns net.ErrClosed into ErrOneShellClosed under a test of Server.oneShell itself; Shutdown follows Serve's return; in main every non-zero return after the subsystems end lies below the false edge of errors.Is(err, hsrv.ErrOneShellClosed). (4) The callback help is re-printed on the disconnected event only when oneShell is false (C04.event-switch). Refusal of TCP connects by the kernel, traffic through the surviving shell and exit timing are outside. Also: http.Server.BaseContext returns serveHTTP's own context (or a child cancelled only by serveHTTP's own defer / after Shutdown); no unclosed File() duplicate of a listening socket exists in the module.",
		Assumptions: []string{"closing a net.Listener makes Accept fail with net.ErrClosed and leaves established connections alone; http.Server.Shutdown waits for active handlers"},
	})
}

func checkC12(p *Prog, r *Report) {
	rWire := r.Rule("flag-wiring", "each flag value reaches the hsrv.New parameter of the same meaning; Server.oneShell has one writer")
	rClose := r.Rule("who-closes-listener", "the listener is closed only on New's error paths and on the connected event under oneShell; the event loop keeps watching")
	rExit := r.Rule("clean-exit", "net.ErrClosed becomes ErrOneShellClosed under oneShell itself, Shutdown follows Serve, and main treats ErrOneShellClosed as success")

	/* No second handle on the listening socket. */
	{
		n := 0
		for _, fn := range p.Funcs() {
			eachInstr(fn, func(i ssa.Instruction) {
				cc := callCommon(i)
				if nil == cc {
					return
				}
				switch name := calleeName(cc); name {
				case "(*net.TCPListener).File", "(*net.UnixListener).File", "net.FileListener", "(*net.TCPConn).File":
					/* A copy which is closed again in the same function is fine. */
					closed := false
					if call, ok := i.(*ssa.Call); ok {
						f0 := valueOrExtract(call, 0)
						eachInstr(fn, func(j ssa.Instruction) {
							if c2 := callCommon(j); nil != c2 && "(*os.File).Close" == calleeName(c2) && 0 != len(c2.Args) && resolveCell(c2.Args[0]) == f0 {
								closed = true
							}
						})
					}
					if closed {
						return
					}
					n++
					rClose.Bad(fnName(fn)+":duplicate-descriptor", posOf(i), "%s duplicates the socket's descriptor: closing the listener leaves the copy listening, so the port keeps accepting connections after the one shell", name)
				}
			})
		}
		if 0 == n {
			rClose.OK("listener:single-handle", token.NoPos, "no File()/FileListener duplicate of a listening socket is left open anywhere in the module")
		}
	}
	checkC12ReqCtx(p, r, r.Rule("shell-undisturbed", "closing the listener does not cancel the attached shell: request contexts derive from the server's own context and nothing cancels them when Serve returns"))

	rm := p.Func("", "", "rmain")
	hnew := p.Func(hsrvPkg, "", "New")
	if nil == rm || nil == hnew {
		rWire.Unproven("main/hsrv.New", token.NoPos, "rmain or hsrv.New not found")
		return
	}
	r.Saw("func " + fnName(rm))
	r.Saw("func " + fnName(hnew))

	/* 1. Wiring table. */
	oneShellFlag := "one-shell"
	if pk := p.Pkg(hsrvPkg); nil != pk {
		if c, ok := lookupObj(pk, "OneShellFlag").(*types.Const); ok {
			oneShellFlag = strings.Trim(c.Val().ExactString(), `"`)
		}
	}
	table := map[string]string{
		"addr": "listen-address", "fdir": "serve-files-from", "tmplf": "callback-template",
		"certFile": "tls-certificate-cache", "printIPv6": "ipv6-one-liners", "oneShell": oneShellFlag,
	}
	var newCall *ssa.Call
	eachInstr(rm, func(i ssa.Instruction) {
		if c, ok := i.(*ssa.Call); ok && c.Common().StaticCallee() == hnew {
			newCall = c
		}
	})
	if nil == newCall {
		rWire.Unproven("main.rmain→hsrv.New", rm.Pos(), "call not found")
	} else {
		var tnames []string
		for pn := range table {
			tnames = append(tnames, pn)
		}
		sort.Strings(tnames)
		for _, pn := range tnames {
			pa := paramNamed(hnew, pn)
			if nil == pa {
				continue
			}
			k := paramIndex(hnew, pa)
			want := table[pn]
			c := "main.rmain→hsrv.New(" + pn + ")"
			got := flagNameOf(newCall.Common().Args[k])
			switch {
			case "" == got:
				rWire.Bad(c, posOf(newCall), "parameter %s is not given a flag's value (%s)", pa.Name(), rootsString(valueRoots(newCall.Common().Args[k], nil)))
			case got != want:
				rWire.Bad(c, posOf(newCall), "parameter %s receives the value of -%s, expected -%s", pa.Name(), got, want)
			default:
				rWire.OK(c, posOf(newCall), "-%s", got)
			}
		}
		for pn := range table {
			if nil == paramNamed(hnew, pn) {
				rWire.Unproven("hsrv.New("+pn+")", hnew.Pos(), "hsrv.New has no parameter %s", pn)
			}
		}
	}
	oneShell := p.Field(hsrvPkg, "Server", "oneShell")
	if nil == oneShell {
		rWire.Unproven("Server.oneShell", token.NoPos, "field not found")
		return
	}
	sts := p.storesToField(oneShell)
	for _, st := range sts {
		c := fnName(st.Parent()) + ":Server.oneShell"
		if pa, ok := stripBoolConv(st.Val).(*ssa.Parameter); ok && st.Parent() == hnew && pa == paramNamed(hnew, "oneShell") {
			rWire.OK(c, posOf(st), "set from New's oneShell parameter")
		} else {
			rWire.Bad(c, posOf(st), "Server.oneShell is written from %s in %s", rootsString(valueRoots(st.Val, nil)), fnName(st.Parent()))
		}
	}
	if 0 == len(sts) {
		rWire.Bad("Server.oneShell", hnew.Pos(), "Server.oneShell is never set")
	}

	/* 2. Who closes the listener. */
	lF := p.Field(hsrvPkg, "Server", "l")
	w := p.Func(hsrvPkg, "Server", "watchIOBEvents")
	conn, _ := iobConst(p, "EventTypeConnected")
	nclose := 0
	for _, fn := range p.Funcs() {
		if nil == fn.Pkg || !strings.HasSuffix(fn.Pkg.Pkg.Path(), "/"+hsrvPkg) {
			continue
		}
		eachInstr(fn, func(i ssa.Instruction) {
			c := callCommon(i)
			if nil == c || !strings.HasSuffix(calleeName(c), ".Close") {
				return
			}
			recv := callArgs(c)[0]
			isListener := false
			viaServer := false
			for _, x := range valueRoots(recv, nil) {
				if "field" == x.Kind && x.Field == lF {
					isListener, viaServer = true, true
				}
				if "call" == x.Kind && "Listen" == lastName(x.Callee) {
					isListener = true
				}
				if "field" == x.Kind && "Listener" == x.Field.Name() {
					isListener = true
					/* The embedded net.Listener of a sstls.Listener. */
					for _, y := range valueRoots(x.Base, nil) {
						if "field" == y.Kind && y.Field == lF {
							viaServer = true
						}
					}
					if u, ok := x.Base.(*ssa.UnOp); ok {
						if fv, _ := fieldAddrOf(u.X); fv == lF {
							viaServer = true
						}
					}
					if fv, _ := fieldAddrOf(x.Base); fv == lF {
						viaServer = true
					}
				}
			}
			if !isListener {
				return
			}
			nclose++
			cc := fmt.Sprintf("%s→Close#%d", fnName(fn), nclose)
			switch {
			case fn == hnew:
				/* Must be followed by an error return. */
				bad := reachQ{From: locOf(i), Target: func(j ssa.Instruction) bool {
					ret, ok := j.(*ssa.Return)
					return ok && len(ret.Results) == 2 && isNilConst(ret.Results[1])
				}}.run()
				if nil != bad {
					rClose.Bad(cc, posOf(i), "New closes the listener on a path which then returns success")
				} else {
					rClose.OK(cc, posOf(i), "error path of New")
				}
			case fn == w && viaServer:
				var connIf *ssa.If
				eachInstr(w, func(j ssa.Instruction) {
					ifi, ok := j.(*ssa.If)
					if !ok {
						return
					}
					dc := decodeCond(ifi.Cond)
					if nil != dc.Y {
						if s, ok := constString(dc.Y); ok && s == conn {
							connIf = ifi
						}
					}
				})
				okConn := false
				if nil != connIf {
					dc := decodeCond(connIf.Cond)
					k := 1
					if dc.Eq {
						k = 0
					}
					okConn = edgeDominates(connIf, k, i)
				}
				okOne := nil != guardingFieldTestTrue(w, i, oneShell)
				switch {
				case !okConn:
					rClose.Bad(cc, posOf(i), "the listener is closed outside the 'connected' event case: it could close before a shell is fully attached, or on its departure")
				case !okOne:
					rClose.Bad(cc, posOf(i), "the listener is closed on the connected event without testing Server.oneShell")
				default:
					rClose.OK(cc, posOf(i), "connected event ∧ oneShell")
				}
				/* And on nothing else: the event says a shell was fully
				attached, which is all the property asks; a further
				test of state which has moved on since (is it still
				attached?) lets a shell which came and went keep the
				listener open. */
				if okConn && okOne {
					dcc := decodeCond(connIf.Cond)
					k := 1
					if dcc.Eq {
						k = 0
					}
					noSel := func(j ssa.Instruction) bool { _, is := j.(*ssa.Select); return is }
					hits := func(from Loc) bool {
						return nil != reachQ{From: from, Block: noSel, Target: func(j ssa.Instruction) bool { return j == i }}.run()
					}
					var extra *ssa.If
					what := ""
					reachQ{From: edgeLoc(connIf.Block(), k), Block: noSel, Target: func(j ssa.Instruction) bool {
						ifi, ok := j.(*ssa.If)
						if !ok || nil != extra {
							return false
						}
						if hits(edgeLoc(ifi.Block(), 0)) == hits(edgeLoc(ifi.Block(), 1)) {
							return false
						}
						if wh, is := mutableStateRead(p, ifi.Cond, 0); is {
							extra, what = ifi, wh
						}
						return false
					}}.run()
					if nil != extra {
						rClose.Bad(cc+":only-on-event-and-flag", posOf(extra), "on the connected event under -one-shell the listener is closed only if a further test of %s allows it: that state has moved on since the event was queued, so a shell which was fully attached and ended quickly leaves the listener open", what)
					} else {
						rClose.OK(cc+":only-on-event-and-flag", posOf(i), "nothing but the event type and Server.oneShell decides")
					}
				}
			case nil != hnew && fn.Parent() == hnew && newClosesOnlyOnError(hnew, i):
				rClose.OK(cc, posOf(i), "a deferred function of New closes the listener unless New is about to return successfully")
			default:
				rClose.Bad(cc, posOf(i), "the listener is closed in %s: only New's error paths and the connected-event case may do that", fnName(fn))
			}
		})
	}
	if nil != w {
		r.Saw("func " + fnName(w))
		var closeInW bool
		eachInstr(w, func(i ssa.Instruction) {
			if c := callCommon(i); nil != c && strings.HasSuffix(calleeName(c), ".Close") {
				closeInW = true
			}
		})
		if !closeInW {
			rClose.Bad(fnName(w)+":closes", w.Pos(), "the event consumer never closes the listener: -one-shell has no effect")
		}
		/* Once an event has been recognised (an edge on which its type equals
		an EventType constant) the consumer goes back to waiting: no return
		is reachable from there without passing a select again. */
		sels := selectsIn(w)
		evT := types.Type(nil)
		if pk := p.Pkg(iobPkg); nil != pk {
			if o := lookupObj(pk, "EventType"); nil != o {
				evT = o.Type()
			}
		}
		if 0 == len(sels) {
			rClose.Unproven(fnName(w)+":loop", w.Pos(), "no select found in the event consumer")
		} else if nil == evT {
			rClose.Unproven(fnName(w)+":loop", w.Pos(), "iobroker.EventType not found")
		} else {
			ncase, bad := 0, 0
			isSel := func(i ssa.Instruction) bool { _, ok := i.(*ssa.Select); return ok }
			eachInstr(w, func(i ssa.Instruction) {
				ifi, ok := i.(*ssa.If)
				if !ok {
					return
				}
				c := decodeCond(ifi.Cond)
				if nil == c.Y || !types.Identical(c.Y.Type(), evT) {
					return
				}
				if _, isC := constString(c.Y); !isC {
					return
				}
				ncase++
				succ := 1
				if c.Eq {
					succ = 0
				}
				if ret := (reachQ{From: edgeLoc(ifi.Block(), succ), Target: isReturn, Block: isSel}).run(); nil != ret {
					bad++
					rClose.Bad(fnName(w)+":keeps-watching", posOf(ret), "the event consumer can return from an event case: after that no connected event is handled and the listener never closes")
				}
			})
			switch {
			case 0 == ncase:
				rClose.Unproven(fnName(w)+":keeps-watching", w.Pos(), "no test of an event's type found in the consumer")
			case 0 == bad:
				rClose.OK(fnName(w)+":keeps-watching", posOf(sels[0]), "after each of %d event cases the consumer waits again; it returns only from the wait itself (cancellation or closed channel)", ncase)
			}
		}
	} else {
		rClose.Unproven("watchIOBEvents", token.NoPos, "event consumer not found")
	}

	/* 2b. The consumer ends when serving does: the context it waits on is
	the one the error group cancels when one of its functions returns (not the
	caller's, which nothing cancels when the listener is closed on purpose) —
	otherwise Do, and with it the program, never returns after -one-shell. */
	if do := p.Func(hsrvPkg, "Server", "Do"); nil != do && nil != w {
		var gctx ssa.Value
		eachInstr(do, func(i ssa.Instruction) {
			if c, ok := i.(*ssa.Call); ok && strings.HasSuffix(calleeName(c.Common()), "errgroup.WithContext") {
				gctx = extractOf(c, 1)
			}
		})
		if nil == gctx {
			rClose.Unproven(fnName(do)+":group-context", do.Pos(), "no error group with its own context found in Do")
		} else {
			n := 0
			check := func(at ssa.Instruction, ctxArg ssa.Value) {
				n++
				c := fmt.Sprintf("%s:consumer-ends-with-serving#%d", fnName(do), n)
				if p.resolveUp(resolveCell(ctxArg)) == gctx {
					rClose.OK(c, posOf(at), "the event consumer waits on the error group's context")
				} else {
					rClose.Bad(c, posOf(at), "the event consumer waits on %s, not on the error group's context: when the listener has been closed on purpose and serving returns, the consumer keeps waiting and Do never returns", describeValue(ctxArg))
				}
			}
			if w == do || w.Parent() == do {
				/* Written out in Do (or in a literal of Do): the context
				of its waits. */
				for _, sel := range selectsIn(w) {
					if idx, cx := hasDoneArm(sel); idx >= 0 {
						check(sel, cx)
					}
				}
			} else {
				for _, f := range withAnons(do) {
					eachInstr(f, func(i ssa.Instruction) {
						cc := callCommon(i)
						if nil == cc {
							return
						}
						/* s.watch(ctx, …) or eg.GoContext(ctx, s.watch…). */
						if cc.StaticCallee() == w {
							for _, a := range cc.Args {
								if typeIs(a.Type(), "context", "Context") {
									check(i, a)
								}
							}
							return
						}
						for k, a := range cc.Args {
							if cf, _ := closureOf(a); nil != cf && unbound(p, cf) == w && k > 0 {
								for _, b := range cc.Args[:k] {
									if typeIs(b.Type(), "context", "Context") {
										check(i, b)
									}
								}
							}
						}
					})
				}
			}
			if 0 == n {
				rClose.Unproven(fnName(do)+":consumer-ends-with-serving", do.Pos(), "how the event consumer is started was not recognised")
			}
		}
	}

	/* 2c. The operator's next line ends the program: the loop which reads
	the operator's lines looks at its context, without a choice being
	involved, on every way round (ReadLine itself cannot be interrupted, so
	this is the "at the latest"). */
	checkC12InputLoop(p, r, rExit)
	/* With -one-shell nothing offers a second shell: the help is re-printed
	on a disconnect only when the flag is off (C04's rule about the event
	consumer, under this property's clause). */
	checkEventSwitch(p, r, r.Rule("event-switch", "the event consumer re-prints the callback help on disconnect only without -one-shell, and handles every event type"))
	checkC12HandlersReturn(p, r, r.Rule("handlers-return", "once the broker's Connect* has returned the shell handlers read no more of the request: Shutdown is not kept waiting by the far end"))

	/* 3. Clean exit. */
	sh := p.Func(hsrvPkg, "Server", "serveHTTP")
	/* The sentinel under its reference name, or — when the tree no longer
	has a variable of that name — the only never-reassigned module error
	variable which serveHTTP hands out. */
	oneShellErrs := p.globalAliases("ErrOneShellClosed")
	if nil != sh && 0 == len(oneShellErrs) {
		seen := map[*ssa.Global]bool{}
		for _, f := range withAnons(sh) {
			eachInstr(f, func(i ssa.Instruction) {
				if u, ok := i.(*ssa.UnOp); ok && token.MUL == u.Op {
					if g, ok := u.X.(*ssa.Global); ok && p.sentinelError(g) {
						seen[g] = true
					}
				}
			})
		}
		if 1 == len(seen) {
			for g := range seen {
				oneShellErrs = p.globalAliases(g.Name())
			}
		}
	}
	if nil == sh {
		rExit.Unproven("serveHTTP", token.NoPos, "not found")
	} else {
		r.Saw("func " + fnName(sh))
		nmap := 0
		for _, f := range withAnons(sh) {
			eachInstr(f, func(i ssa.Instruction) {
				/* A use of ErrOneShellClosed as a value — or the making
				of an error value which unwraps to it. */
				isSentinelLoad := func(j ssa.Instruction) bool {
					u, ok := j.(*ssa.UnOp)
					if !ok || token.MUL != u.Op {
						return false
					}
					g, ok := u.X.(*ssa.Global)
					return ok && p.ownGlobal(g) && oneShellErrs[g.Name()]
				}
				wraps := false
				if al, ok := i.(*ssa.Alloc); ok && al.Heap {
					if n := namedOf(al.Type()); nil != n && nil != n.Obj().Pkg() && strings.HasPrefix(n.Obj().Pkg().Path(), ModPath) {
						for _, mn := range []string{"Unwrap", "Is"} {
							sel := p.SSA.MethodSets.MethodSet(types.NewPointer(n)).Lookup(n.Obj().Pkg(), mn)
							if nil == sel {
								continue
							}
							if m := p.SSA.MethodValue(sel); nil != m && nil != m.Blocks {
								eachInstr(m, func(j ssa.Instruction) {
									if isSentinelLoad(j) {
										wraps = true
									}
								})
							}
						}
					}
				}
				if !isSentinelLoad(i) && !wraps {
					return
				}
				nmap++
				c := fnName(f) + ":ErrClosed→ErrOneShellClosed"
				/* Guarded by errors.Is(err, net.ErrClosed) and oneShell. */
				okClosed := false
				for _, b := range f.Blocks {
					ifi := blockIf(b)
					if nil == ifi {
						continue
					}
					dc := decodeCond(ifi.Cond)
					call, isCall := dc.X.(*ssa.Call)
					if isCall && nil == dc.Y && "errors.Is" == calleeName(call.Common()) && globalLoad(call.Common().Args[1], "net", "ErrClosed") {
						k := 1
						if dc.Eq {
							k = 0
						}
						if edgeDominates(ifi, k, i) {
							okClosed = true
						}
					}
				}
				okOne := nil != guardingFieldTestTrue(f, i, oneShell)
				switch {
				case !okClosed:
					rExit.Bad(c, posOf(i), "ErrOneShellClosed is produced without errors.Is(err, net.ErrClosed) having held")
				case !okOne:
					rExit.Bad(c, posOf(i), "the mapping to ErrOneShellClosed is not decided by Server.oneShell itself (which never changes after New) but by other state: it can be read before or after it changes, leaving the raw 'use of closed network connection' error, which main reports as fatal")
				default:
					rExit.OK(c, posOf(i), "errors.Is(err, net.ErrClosed) ∧ oneShell")
				}
			})
		}
		if 0 == nmap {
			rExit.Bad(fnName(sh)+":ErrClosed→ErrOneShellClosed", sh.Pos(), "serveHTTP never produces ErrOneShellClosed")
		}
		/* Shutdown after the serve goroutine's result or cancellation. */
		var shut, sel ssa.Instruction
		eachInstr(sh, func(i ssa.Instruction) {
			if c := callCommon(i); nil != c && "(*net/http.Server).Shutdown" == calleeName(c) {
				shut = i
			}
			if _, ok := i.(*ssa.Select); ok {
				sel = i
			}
		})
		if nil != shut && nil != sel && instrDominates(sel, shut) {
			rExit.OK(fnName(sh)+":shutdown-after-serve", posOf(shut), "Shutdown is called after Serve returned or the context ended")
		} else {
			rExit.Bad(fnName(sh)+":shutdown-after-serve", sh.Pos(), "Shutdown does not follow the wait for Serve")
		}
	}
	/* main. */
	var isCall *ssa.Call
	var allIs []*ssa.Call /* every test which asks whether the final error is ErrOneShellClosed */
	eachInstr(rm, func(i ssa.Instruction) {
		c, ok := i.(*ssa.Call)
		if ok && "errors.Is" == calleeName(c.Common()) {
			if oneShellErrs[ownGlobalLoadName(c.Common().Args[1])] {
				isCall = c
				allIs = append(allIs, c)
			}
			/* Or one of a fixed table of errors which lists it. */
			for _, n := range tableElemNames(p, c.Common().Args[1]) {
				if oneShellErrs[n] {
					isCall = c
					allIs = append(allIs, c)
				}
			}
		}
		/* slices.ContainsFunc(table, func(t error) bool { return
		errors.Is(err, t) }): the same question asked of every row. */
		if ok && strings.HasPrefix(calleeName(c.Common()), "slices.ContainsFunc") && 2 == len(c.Common().Args) {
			pred, _ := closureOf(c.Common().Args[1])
			if nil == pred || 1 != len(pred.Params) || !isErrorsIsOfParam(pred) {
				return
			}
			for _, n := range tableNames(p, c.Common().Args[0]) {
				if oneShellErrs[n] {
					isCall = c
				}
			}
		}
	})
	if nil == isCall {
		rExit.Bad("main.rmain:ErrOneShellClosed", rm.Pos(), "main never compares the final error with hsrv.ErrOneShellClosed: the clean end of -one-shell is reported as a fatal error")
	} else {
		var ifi *ssa.If
		for _, ref := range *isCall.Referrers() {
			switch x := ref.(type) {
			case *ssa.If:
				ifi = x
			case *ssa.UnOp:
				for _, r2 := range *x.Referrers() {
					if y, ok := r2.(*ssa.If); ok {
						ifi = y
					}
				}
			}
		}
		if nil == ifi {
			rExit.Unproven("main.rmain:ErrOneShellClosed", posOf(isCall), "the comparison's result is not branched on")
		} else {
			dc := decodeCond(ifi.Cond)
			trueEdge := 1
			if dc.Eq {
				trueEdge = 0
			}
			/* From the edge "is ErrOneShellClosed", no non-zero return —
			on the ways on which the same question, asked of the same
			error elsewhere (a reason for the log, say), gets the same
			answer, and the error is not nil. */
			consistent := map[Edge]bool{}
			errV := isCall.Common().Args[0]
			for _, oc := range allIs {
				if oc == isCall || oc.Common().Args[0] != errV {
					continue
				}
				for _, ref := range *oc.Referrers() {
					var oif *ssa.If
					neg := false
					switch x := ref.(type) {
					case *ssa.If:
						oif = x
					case *ssa.UnOp:
						for _, r2 := range *x.Referrers() {
							if y, ok := r2.(*ssa.If); ok && token.NOT == x.Op {
								oif, neg = y, true
							}
						}
					}
					if nil == oif {
						continue
					}
					falseEdge := 1
					if neg {
						falseEdge = 0
					}
					consistent[Edge{oif.Block().Index, oif.Block().Succs[falseEdge].Index}] = true
				}
			}
			for _, t := range nilTestsOf(rm, errV) {
				consistent[Edge{t.If.Block().Index, t.If.Block().Succs[t.NilSucc].Index}] = true
			}
			bad := reachQ{From: edgeLoc(ifi.Block(), trueEdge), NoEdges: consistent, TargetF: func(i ssa.Instruction, facts nilFacts) bool {
				ret, ok := i.(*ssa.Return)
				if !ok || 1 != len(ret.Results) {
					return false
				}
				k, isC := retIntOnPath(retVal(ret, 0), facts)
				return !isC || 0 != k
			}}.run()
			if nil != bad {
				rExit.Bad("main.rmain:one-shell-is-success", posOf(bad), "when the subsystems end with ErrOneShellClosed main can still return a non-zero status")
			} else {
				rExit.OK("main.rmain:one-shell-is-success", posOf(ifi), "ErrOneShellClosed leads to exit status 0")
			}
		}
	}
}

func lastName(n string) string {
	if i := strings.LastIndex(n, "."); i >= 0 {
		return n[i+1:]
	}
	return n
}

func globalLoadName(v ssa.Value) string {
	u, ok := stripConv(v, false).(*ssa.UnOp)
	if !ok || token.MUL != u.Op {
		return ""
	}
	if g, ok := u.X.(*ssa.Global); ok {
		return g.Name()
	}
	return ""
}

// ownGlobalLoadName: the same, with the variables of other modules qualified
// by their package ("io.EOF"), so that a name of the module's own is matched
// by nothing else.
func ownGlobalLoadName(v ssa.Value) string {
	u, ok := stripConv(v, false).(*ssa.UnOp)
	if !ok || token.MUL != u.Op {
		return ""
	}
	if g, ok := u.X.(*ssa.Global); ok {
		if nil != g.Pkg && !strings.HasPrefix(g.Pkg.Pkg.Path(), ModPath) {
			return g.Pkg.Pkg.Name() + "." + g.Name()
		}
		return g.Name()
	}
	return ""
}

// checkC12ReqCtx: http.Server.BaseContext.
func checkC12ReqCtx(p *Prog, r *Report, ru *Rule) {
	/* After the listener has closed the shell is left to Shutdown, which
	waits for it however long it lasts: no deadline on Shutdown's context,
	and no Server.Close (which drops live connections). */
	for _, fn := range p.Funcs() {
		if nil == fn.Pkg || !strings.HasSuffix(fn.Pkg.Pkg.Path(), hsrvPkg) {
			continue
		}
		eachInstr(fn, func(i ssa.Instruction) {
			c := callCommon(i)
			if nil == c {
				return
			}
			switch calleeName(c) {
			case "(*net/http.Server).Close":
				ru.Bad(fnName(fn)+":Server.Close", posOf(i), "http.Server.Close is called: it closes the connections of requests still being served — the attached shell's — instead of waiting for them")
			case "(*net/http.Server).Shutdown":
				v := c.Args[1]
				for depth := 0; depth < 8 && nil != v; depth++ {
					v = stripConv(resolveCell(v), false)
					if ex, isEx := v.(*ssa.Extract); isEx {
						v = ex.Tuple
					}
					cl, isCall := v.(*ssa.Call)
					if !isCall {
						break
					}
					switch nm := calleeName(cl.Common()); nm {
					case "context.WithTimeout", "context.WithDeadline", "context.WithTimeoutCause", "context.WithDeadlineCause":
						ru.Bad(fnName(fn)+":Shutdown-deadline", posOf(i), "Shutdown is given a context from %s: with -one-shell it starts when the listener closes, so the attached shell is cut off when that clock runs out", nm)
						v = nil
					case "context.WithCancel", "context.WithCancelCause", "context.WithValue", "context.WithoutCancel":
						v = cl.Common().Args[0]
					default:
						v = nil
					}
				}
			case "(*net/http.Server).Serve":
				/* Serve gives up on the first Accept error which is not
				temporary: the listener's Accept is the socket's own (or
				passes it through), so that one bad client cannot end
				serving while no shell is attached. */
				lv := c.Args[1]
				x := stripConv(resolveCell(lv), false)
				ms := p.SSA.MethodSets.MethodSet(x.Type())
				for k := 0; k < ms.Len(); k++ {
					if "Accept" != ms.At(k).Obj().Name() {
						continue
					}
					af := p.SSA.MethodValue(ms.At(k))
					if nil == af || "" != af.Synthetic || !inModule(af) || nil == af.Blocks {
						continue
					}
					if in := unwrapPassThrough(p, lv, "Accept"); in == lv {
						ru.Bad(fnName(fn)+":Serve:accept", posOf(i), "the listener Serve runs on has an Accept of the module's own (%s) which does more than pass the socket's result on: an error it returns for one client (a failed handshake) ends Serve, and the listener closes although no shell is attached", fnName(af))
					}
				}
			}
		})
	}
	n := 0
	for _, fn := range p.Funcs() {
		if nil == fn.Pkg || !strings.HasSuffix(fn.Pkg.Pkg.Path(), hsrvPkg) {
			continue
		}
		eachInstr(fn, func(i ssa.Instruction) {
			st, ok := i.(*ssa.Store)
			if !ok {
				return
			}
			fv, _ := fieldAddrOf(st.Addr)
			if nil == fv || "BaseContext" != fv.Name() || nil == fv.Pkg() || "net/http" != fv.Pkg().Path() {
				return
			}
			n++
			c := fnName(fn) + ":BaseContext"
			cl, _ := closureOf(stripConv(st.Val, false))
			if nil == cl {
				ru.Unproven(c, posOf(st), "BaseContext is not a function literal")
				return
			}
			/* Shutdown call of the same function, for ordering. */
			var shutdown ssa.Instruction
			eachInstr(fn, func(j ssa.Instruction) {
				if cc := callCommon(j); nil != cc && "(*net/http.Server).Shutdown" == calleeName(cc) {
					shutdown = j
				}
			})
			bad := false
			through := func(n string) bool { return "context.WithValue" == n || "context.WithoutCancel" == n }
			eachInstr(cl, func(j ssa.Instruction) {
				ret, ok := j.(*ssa.Return)
				if !ok {
					return
				}
				for _, x := range valueRoots(resolveCell(retVal(ret, 0)), through) {
					v := resolveCell(x.V)
					if pa, ok := v.(*ssa.Parameter); ok && pa.Parent() == fn {
						continue
					}
					var call *ssa.Call
					switch y := v.(type) {
					case *ssa.Call:
						call = y
					case *ssa.Extract:
						call, _ = y.Tuple.(*ssa.Call)
					}
					if nil == call {
						bad = true
						ru.Bad(c, posOf(ret), "request contexts derive from %s, not from the server's own context", x)
						continue
					}
					switch name := calleeName(call.Common()); name {
					case "context.Background", "context.TODO":
					case "context.WithCancel", "context.WithCancelCause":
						/* Who calls the cancel function, and when? */
						for _, u := range cancelUses(call) {
							top := u.Parent()
							if top != fn {
								bad = true
								ru.Bad(c, posOf(u), "the context requests run under is cancelled from %s: when Serve returns because the listener was closed (-one-shell) the attached shell is cut off, instead of being waited for by Shutdown", fnName(top))
								continue
							}
							if _, isDefer := u.(*ssa.Defer); isDefer {
								continue
							}
							if nil == shutdown || !instrDominates(shutdown, u) {
								bad = true
								ru.Bad(c, posOf(u), "the context requests run under is cancelled before Shutdown has waited for the attached shell")
							}
						}
					default:
						bad = true
						ru.Bad(c, posOf(ret), "request contexts come from %s: the attached shell is cut off at a time unrelated to the operator ending the program", name)
					}
				}
			})
			if !bad {
				ru.OK(c, posOf(st), "request contexts are the server's own context (or one cancelled only after Shutdown returned)")
			}
		})
	}
	if 0 == n {
		ru.OK("BaseContext:default", token.NoPos, "no BaseContext set: requests use the background context")
	}
}

// cancelUses: instructions which invoke (call, defer, go) result 1 of a
// context.WithCancel-like call, in the function or its closures.
func cancelUses(with *ssa.Call) []ssa.Instruction {
	var cancel ssa.Value
	for _, ref := range *with.Referrers() {
		if e, ok := ref.(*ssa.Extract); ok && 1 == e.Index {
			cancel = e
		}
	}
	if nil == cancel {
		return nil
	}
	var out []ssa.Instruction
	for _, f := range withAnons(with.Parent()) {
		eachInstr(f, func(i ssa.Instruction) {
			cc := callCommon(i)
			if nil == cc || cc.IsInvoke() {
				return
			}
			if resolveCell(cc.Value) == cancel {
				out = append(out, i)
				return
			}
			/* Passed on, e.g. context.AfterFunc(x, cancel) or go helper(cancel). */
			for _, a := range cc.Args {
				if resolveCell(a) == cancel {
					out = append(out, i)
				}
			}
		})
	}
	return out
}

// tableElemNames: v is an element, at a non-constant index, of a package
// variable of the module holding a slice literal of loads of package
// variables (var cleanErrors = []error{io.EOF, hsrv.ErrOneShellClosed}),
// which nothing else writes; returns the names of the listed variables.
func tableElemNames(p *Prog, v ssa.Value) []string {
	u, ok := stripConv(resolveCell(v), false).(*ssa.UnOp)
	if !ok || token.MUL != u.Op {
		return nil
	}
	ia, ok := u.X.(*ssa.IndexAddr)
	if !ok {
		return nil
	}
	return tableNames(p, ia.X)
}

// tableNames: the names of the package-level variables listed in the fixed
// table (a package-level slice literal never written again) tbl is a load of.
func tableNames(p *Prog, tbl ssa.Value) []string {
	tl, ok := stripConv(resolveCell(tbl), false).(*ssa.UnOp)
	if !ok || token.MUL != tl.Op {
		return nil
	}
	g, ok := tl.X.(*ssa.Global)
	if !ok || nil == g.Pkg || !strings.HasPrefix(g.Pkg.Pkg.Path(), ModPath) {
		return nil
	}
	/* Exactly one store to the variable, in init, of a slice literal. */
	var lit *ssa.Alloc
	n := 0
	scan := func(fn *ssa.Function) {
		eachInstr(fn, func(i ssa.Instruction) {
			switch x := i.(type) {
			case *ssa.Store:
				if x.Addr == ssa.Value(g) {
					n++
					if sl, ok := x.Val.(*ssa.Slice); ok && nil == sl.Low && nil == sl.High {
						lit, _ = sl.X.(*ssa.Alloc)
					}
				}
				/* Writes through the variable's elements. */
				if ia2, ok := x.Addr.(*ssa.IndexAddr); ok {
					if l2, ok := ia2.X.(*ssa.UnOp); ok && token.MUL == l2.Op && l2.X == ssa.Value(g) {
						n += 2
					}
				}
			}
		})
	}
	if ini := g.Pkg.Func("init"); nil != ini {
		scan(ini)
	}
	for _, fn := range p.Funcs() {
		scan(fn)
	}
	if 1 != n || nil == lit {
		return nil
	}
	var out []string
	for _, ref := range *lit.Referrers() {
		ea, ok := ref.(*ssa.IndexAddr)
		if !ok {
			continue
		}
		for _, r2 := range *ea.Referrers() {
			if st, ok := r2.(*ssa.Store); ok && st.Addr == ssa.Value(ea) {
				if nm := ownGlobalLoadName(st.Val); "" != nm {
					out = append(out, nm)
				} else {
					return nil
				}
			}
		}
	}
	return out
}

// isErrorsIsOfParam: pred is func(t error) bool { return errors.Is(x, t) }.
func isErrorsIsOfParam(pred *ssa.Function) bool {
	if 1 != len(pred.Blocks) {
		return false
	}
	var is *ssa.Call
	okShape := true
	eachInstr(pred, func(i ssa.Instruction) {
		switch x := i.(type) {
		case *ssa.Call:
			if "errors.Is" == calleeName(x.Common()) && x.Common().Args[1] == ssa.Value(pred.Params[0]) {
				is = x
			} else {
				okShape = false
			}
		case *ssa.Return:
			if 1 != len(x.Results) || nil == is || x.Results[0] != ssa.Value(is) {
				okShape = false
			}
		case *ssa.UnOp, *ssa.DebugRef:
		default:
			okShape = false
		}
	})
	return okShape && nil != is
}

// newClosesOnlyOnError: the Close call (in a function literal of New) is run
// by a defer of New and skipped exactly when a flag is set, which happens
// only on the way to New's successful return.
func newClosesOnlyOnError(hnew *ssa.Function, closeCall ssa.Instruction) bool {
	return flagGuardedBy(hnew, func(i ssa.Instruction) bool { return i == closeCall }, nil)
}

// checkC12InputLoop: in lib/opshell, every way from a ReadLine which returned
// a line to the next ReadLine passes a test of the context's Err() whose
// "done" side does not read again.  (A select between handing the line on and
// ctx.Done() does not do: with room in the channel both are ready and the
// choice is random.)
func checkC12InputLoop(p *Prog, r *Report, ru *Rule) {
	isReadLine := func(i ssa.Instruction) bool {
		cc := callCommon(i)
		if nil == cc {
			return false
		}
		if strings.HasSuffix(calleeName(cc), "goxterm.Terminal).ReadLine") {
			return true
		}
		/* Through an interface or adapter of the package's own. */
		nm := ""
		if cc.IsInvoke() {
			nm = cc.Method.Name()
		} else if sc := cc.StaticCallee(); nil != sc {
			nm = sc.Name()
		}
		return "ReadLine" == nm && 2 == cc.Signature().Results().Len() && isErrorType(cc.Signature().Results().At(1).Type())
	}
	n := 0
	for _, fn := range p.Funcs() {
		if nil == fn.Pkg || !strings.HasSuffix(fn.Pkg.Pkg.Path(), "lib/opshell") {
			continue
		}
		var rls []ssa.Instruction
		eachInstr(fn, func(i ssa.Instruction) {
			if isReadLine(i) {
				rls = append(rls, i)
			}
		})
		for _, rl := range rls {
			/* Only loops: can this ReadLine be reached again? */
			if nil == (reachQ{From: locOf(rl), Target: isReadLine}).run() {
				continue
			}
			n++
			c := fmt.Sprintf("%s:input-loop#%d", fnName(fn), n)
			/* The checks: ctx.Err() calls whose not-nil edge cannot reach a ReadLine. */
			good := map[ssa.Instruction]bool{}
			eachInstr(fn, func(i ssa.Instruction) {
				cc := callCommon(i)
				v, isVal := i.(ssa.Value)
				if nil == cc || !isVal || !cc.IsInvoke() || "Err" != cc.Method.Name() || !typeIs(cc.Value.Type(), "context", "Context") {
					return
				}
				tests := nilTestsOf(fn, v)
				if 0 == len(tests) {
					return
				}
				for _, t := range tests {
					if nil != (reachQ{From: edgeLoc(t.If.Block(), 1-t.NilSucc), Target: isReadLine}).run() {
						return
					}
				}
				good[i] = true
			})
			/* Or a poll: select { case <-ctx.Done(): …; default: }. */
			eachInstr(fn, func(i ssa.Instruction) {
				if sel, ok := i.(*ssa.Select); ok && !sel.Blocking {
					if idx, _ := hasDoneArm(sel); idx >= 0 {
						good[i] = true
					}
				}
			})
			miss := reachQ{From: locOf(rl), Target: isReadLine, Block: func(i ssa.Instruction) bool { return good[i] }}.run()
			if nil == miss {
				ru.OK(c, posOf(rl), "every way back to ReadLine tests the context's Err() first, and does not read again once it is done")
			} else {
				ru.Bad(c, posOf(rl), "the operator's lines are read again without the context having been tested (a select between sending the line and ctx.Done() chooses at random when both are ready): after the listener has closed and the shell has gone the program may outlive the operator's next line")
			}
		}
	}
	if 0 == n {
		ru.Unproven("opshell:input-loop", token.NoPos, "no loop reading the operator's lines (goxterm ReadLine) found in lib/opshell")
	}
}

// checkC12HandlersReturn: once the broker has let go of a stream (Connect*
// returned: the shell's direction has ended) the handler goes home.  A
// handler which goes on reading the request body — draining it, say — is
// bound by nothing: the far end decides when that ends, http.Server.Shutdown
// waits for the handler, and under -one-shell the program then never exits.
func checkC12HandlersReturn(p *Prog, r *Report, ru *Rule) {
	n := 0
	seen := map[*ssa.Call]bool{}
	for _, rt := range muxRoutes(p) {
		if nil == rt.Handler {
			continue
		}
		for _, f := range withAnons(rt.Handler) {
			eachInstr(f, func(i ssa.Instruction) {
				call, ok := i.(*ssa.Call)
				if !ok || seen[call] {
					return
				}
				cc := call.Common()
				if nil == cc.StaticCallee() || "Broker" != recvTypeName(cc.StaticCallee()) || !strings.HasPrefix(cc.StaticCallee().Name(), "Connect") {
					return
				}
				seen[call] = true
				n++
				c := fmt.Sprintf("%s→%s:then-returns", fnName(rt.Handler), cc.StaticCallee().Name())
				isBody := func(v ssa.Value) bool {
					return operandsReach(v, func(x ssa.Value) bool {
						fv, base := loadedField(x)
						return nil != fv && "Body" == fv.Name() && typeIs(base.Type(), "net/http", "Request")
					})
				}
				bad := reachQ{From: locOf(call), Target: func(j ssa.Instruction) bool {
					c2 := callCommon(j)
					if nil == c2 || j == ssa.Instruction(call) {
						return false
					}
					if _, isDefer := j.(*ssa.Defer); isDefer {
						return false
					}
					if strings.HasSuffix(calleeName(c2), ".Close") {
						return false
					}
					for _, a := range callArgs(c2) {
						if isBody(a) {
							return true
						}
					}
					return false
				}}.run()
				if nil != bad {
					ru.Bad(c, posOf(bad), "after the broker has returned the handler still reads the request body (%s): nothing bounds that read, so Shutdown — and with -one-shell the program's exit — waits for the far end", calleeName(callCommon(bad)))
				} else {
					ru.OK(c, posOf(call), "nothing reads the request body once the broker has returned")
				}
			})
		}
	}
	if n < 3 {
		ru.Unproven("handlers", token.NoPos, "%d calls of the broker's Connect* found in the handlers, 3 expected", n)
	}
}
