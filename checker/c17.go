package main

// C17 — the Ctrl+I payload is exactly the eligible files, converted, in name
// order.

import (
	"fmt"
	"go/token"
	"go/types"
	"strings"

	"golang.org/x/tools/go/ssa"
)

func init() {
	register("C17", &propDef{
		Run:         checkC17,
		Explanation: "Static decision of the structural clauses of C17 in lib/shellfuncsfile. (1) Candidates are only the results of fs.Glob over the directory's own FS with the filter patterns (top level only: no directory walk), collected, then slices.Sort-ed and slices.Compact-ed, and it is that sorted, de-duplicated slice which is ranged over. (2) In the per-file loop every operation on a name (fs.Stat, Open, conversion, appending to the buffer) is dominated by the false edge of a 'starts with \".\"' test on that very name, and opening/converting is further dominated by the regular-file edge; a skipped name continues the loop (it cannot fail the conversion). (3) Determinism: every maps.Keys result (map order is random) is passed through slices.Sort before any other use, no map is ranged directly, and the pattern chosen for a file is the first match in that sorted order — the matching loop is left on the first match. (4) Each converted part is newline-terminated by the function which converts one file (the terminator is appended when missing, on the path returning the filter's output), and parts are appended to one buffer in loop order by the loop's own goroutine. (5) A single file which matches no filter is returned unchanged with a nil error; several sources are converted in argument order. Semantics of fs.Glob/path.Match for odd names are trusted.",
		Assumptions: []string{"fs.Glob with a pattern without '/' matches entries of the FS root only; slices.Sort/Compact sort and de-duplicate"},
	})
}

func checkC17(p *Prog, r *Report) {
	rCand := r.Rule("candidates", "file names come only from fs.Glob on the directory's FS, and the ranged slice is Compact(Sort(names))")
	rGuard := r.Rule("dot-guard", "every per-file operation is below the false edge of the dot-name test; non-regular files are skipped before opening")
	rDet := r.Rule("determinism", "maps.Keys results are sorted before use, maps are not ranged directly, the first matching pattern wins")
	rNL := r.Rule("parts-newline-terminated", "each converted file ends in a newline, appended by the per-file converter")
	checkCtrlIGenerator(p, r, r.Rule("generator-is-the-conversion", "main's Ctrl+I generator returns Converter.From's payload and error and nothing else: nothing besides the conversion can make it fail, nothing stands in for it"))
	/* The payload is the conversion of the files as they are now: a filter
	returns what it rendered in this call, not something kept from an
	earlier one (C16's buffer rule, under this property's "same on every
	call while the files are unchanged — and only then" clause). */
	if fp := p.Func(sffPkg, "", "FromPerl"); nil != fp {
		checkResultFresh(r, r.Rule("converted-afresh", "a filter's result is rendered in the call which returns it, not taken from package-level state (a cache keyed by name, say)"), "", fp)
	}
	rPass := r.Rule("pass-through-and-order", "an unmatched single file is returned unchanged without error; sources are converted in argument order")

	fd := p.Func(sffPkg, "Converter", "fromDirectory")
	fr := p.Func(sffPkg, "Converter", "fromReader")
	fs1 := p.Func(sffPkg, "Converter", "fromSingleFile")
	from := p.Func(sffPkg, "Converter", "From")
	if nil == fd || nil == fr || nil == fs1 || nil == from {
		rCand.Unproven("shellfuncsfile", token.NoPos, "fromDirectory, fromReader, fromSingleFile or From not found")
		return
	}
	for _, f := range []*ssa.Function{fd, fr, fs1, from} {
		r.Saw("func " + fnName(f))
	}

	/* 0. On the real file system the directory itself is the root of the
	FS which is globbed (os.DirFS(source)): fs.Sub of an os.DirFS puts the
	directory's own name in front of every pattern, where its "[", "*", "?"
	and "\\" are pattern syntax — a directory called funcs[v2] then has no
	candidates at all. */
	{
		n := 0
		for _, fn := range p.Funcs() {
			if nil == fn.Pkg || !strings.HasSuffix(fn.Pkg.Pkg.Path(), "/"+sffPkg) {
				continue
			}
			eachInstr(fn, func(i ssa.Instruction) {
				c, ok := i.(*ssa.Call)
				if !ok || "io/fs.Sub" != calleeName(c.Common()) {
					return
				}
				n++
				k := fmt.Sprintf("%s:fs.Sub#%d", fnName(fn), n)
				bad := false
				for _, x := range p.rootsUp(valueRoots(c.Common().Args[0], nil), nil) {
					if "call" == x.Kind && "os.DirFS" == x.Callee {
						bad = true
					}
				}
				if bad {
					rCand.Bad(k, posOf(c), "the real directory is reached as fs.Sub(os.DirFS(parent), name): the directory's own name becomes part of every glob pattern, so a name with [, *, ? or \\ in it selects nothing (or something else)")
				} else {
					rCand.OK(k, posOf(c), "fs.Sub only of a caller-supplied FS")
				}
			})
		}
	}
	/* 1. Candidates. */
	var glob, compact, sortNames *ssa.Call
	for _, f := range withAnons(fd) {
		eachInstr(f, func(i ssa.Instruction) {
			c, ok := i.(*ssa.Call)
			if !ok {
				return
			}
			switch calleeName(c.Common()) {
			case "io/fs.Glob":
				glob = c
			case "slices.Compact":
				compact = c
			case "io/fs.WalkDir", "path/filepath.WalkDir", "path/filepath.Walk", "io/fs.ReadDir", "os.ReadDir", "path/filepath.Glob":
				rCand.Bad(fnName(f)+"→"+calleeName(c.Common()), posOf(c), "file names are also gathered with %s: entries below the top level (or outside the directory's FS) can enter the payload", calleeName(c.Common()))
			}
		})
	}
	if nil == glob {
		rCand.Bad(fnName(fd)+":glob", fd.Pos(), "candidates are not found with fs.Glob on the directory")
	}
	var ranged ssa.Value
	dotAtCollection := false
	if nil == compact && nil != glob {
		/* The other way to a sorted list without duplicates: the sorted
		keys of a set filled from the Glob results. */
		if set := setCandidates(fd, glob); nil != set {
			switch {
			case !set.onlyGlob:
				rCand.Bad(fnName(fd)+":only-glob-results", posOf(set.keys), "the name set also receives values not returned by fs.Glob")
			case !set.sorted:
				rCand.Bad(fnName(fd)+":sorted-unique", posOf(set.keys), "the keys of the name set are not sorted before use: order is undefined")
			default:
				rCand.OK(fnName(fd)+":only-glob-results", posOf(glob), "the name set is filled only from fs.Glob results")
				rCand.OK(fnName(fd)+":sorted-unique", posOf(set.keys), "sorted keys of a set: sorted and without duplicates")
				ranged = set.ranged
				dotAtCollection = set.dotFiltered
			}
			for _, x := range valueRoots(glob.Common().Args[0], nil) {
				if "call" == x.Kind && ("os.DirFS" == x.Callee || "io/fs.Sub" == x.Callee) {
					continue
				}
				rCand.Bad(fnName(fd)+":glob-fs", posOf(glob), "fs.Glob runs on %s, not on the directory's own FS", x)
			}
		} else {
			rCand.Bad(fnName(fd)+":compact", fd.Pos(), "the file names are not de-duplicated with slices.Compact (nor collected in a set whose sorted keys are ranged)")
		}
	} else if nil == compact {
		rCand.Bad(fnName(fd)+":compact", fd.Pos(), "the file names are not de-duplicated with slices.Compact")
	}
	if nil != glob && nil != compact {
		names := compact.Common().Args[0]
		/* names derives only from glob results. */
		okRoots := true
		for _, x := range valueRoots(names, func(n string) bool { return "builtin.append" == n }) {
			switch {
			case "call" == x.Kind && x.V == ssa.Value(glob):
			case "const" == x.Kind:
			default:
				if c, ok := x.V.(*ssa.Call); ok {
					if b, ok := c.Common().Value.(*ssa.Builtin); ok && "append" == b.Name() {
						continue
					}
				}
				okRoots = false
			}
		}
		/* Follow append chains by hand: phi of append(names, glob...). */
		if !okRoots {
			okRoots = appendOnlyFrom(names, glob)
		}
		if okRoots {
			rCand.OK(fnName(fd)+":only-glob-results", posOf(glob), "the name list is built only from fs.Glob results")
		} else {
			rCand.Bad(fnName(fd)+":only-glob-results", posOf(compact), "the name list also contains values not returned by fs.Glob (%s)", rootsString(valueRoots(names, nil)))
		}
		/* Glob on the sub-FS with a pattern from the filters. */
		for _, x := range valueRoots(glob.Common().Args[0], nil) {
			if "call" == x.Kind && ("os.DirFS" == x.Callee || "io/fs.Sub" == x.Callee) {
				continue
			}
			rCand.Bad(fnName(fd)+":glob-fs", posOf(glob), "fs.Glob runs on %s, not on the directory's own FS", x)
		}
		/* Sort before Compact on the same slice. */
		eachInstr(fd, func(i ssa.Instruction) {
			if c, ok := i.(*ssa.Call); ok && "slices.Sort" == calleeName(c.Common()) && c.Common().Args[0] == names {
				sortNames = c
			}
		})
		if nil != sortNames && instrDominates(sortNames, compact) {
			rCand.OK(fnName(fd)+":sorted-unique", posOf(compact), "slices.Sort then slices.Compact")
		} else {
			rCand.Bad(fnName(fd)+":sorted-unique", posOf(compact), "the names are not sorted before de-duplication: order is undefined and duplicates survive")
		}
		ranged = compact
	}

	/* The sorted list with the dot-names taken out in one go
	(slices.DeleteFunc keeps the order of what it keeps). */
	if nil != ranged {
		eachInstr(fd, func(i ssa.Instruction) {
			c, ok := i.(*ssa.Call)
			if !ok || !strings.HasPrefix(calleeName(c.Common()), "slices.DeleteFunc") || 2 != len(c.Common().Args) || c.Common().Args[0] != ranged {
				return
			}
			pred, _ := closureOf(c.Common().Args[1])
			if nil == pred || 1 != len(pred.Params) || nil == pred.Blocks {
				return
			}
			isDot := true
			nret := 0
			eachInstr(pred, func(j ssa.Instruction) {
				ret, isRet := j.(*ssa.Return)
				if !isRet {
					return
				}
				nret++
				hc, isCall := ret.Results[0].(*ssa.Call)
				if !isCall || "strings.HasPrefix" != calleeName(hc.Common()) || hc.Common().Args[0] != ssa.Value(pred.Params[0]) {
					isDot = false
					return
				}
				if pre, isC := constString(hc.Common().Args[1]); !isC || "." != pre {
					isDot = false
				}
			})
			if isDot && 1 == nret {
				ranged = c
				dotAtCollection = true
			}
		})
	}

	/* 2. Per-file loop: loads of elements of the ranged slice. */
	if nil != ranged {
		var elem *ssa.UnOp
		eachInstr(fd, func(i ssa.Instruction) {
			if u, ok := i.(*ssa.UnOp); ok && token.MUL == u.Op {
				if ia, ok := u.X.(*ssa.IndexAddr); ok && ia.X == ranged {
					elem = u
				}
			}
		})
		if nil == elem {
			rGuard.Bad(fnName(fd)+":ranges-sorted", fd.Pos(), "the loop does not range over the sorted, de-duplicated names")
		} else {
			rCand.OK(fnName(fd)+":ranges-sorted", posOf(elem), "the per-file loop ranges over the sorted, de-duplicated names")
			/* The dot test on this name. */
			var dotIf *ssa.If
			for _, b := range fd.Blocks {
				ifi := blockIf(b)
				if nil == ifi {
					continue
				}
				dc := decodeCond(ifi.Cond)
				hc, ok := dc.X.(*ssa.Call)
				if !ok || nil != dc.Y {
					continue
				}
				if "strings.HasPrefix" == calleeName(hc.Common()) {
					if pre, ok := constString(hc.Common().Args[1]); ok && "." == pre && derivesFromName(hc.Common().Args[0], elem) {
						dotIf = ifi
					}
				}
			}
			if nil == dotIf && dotAtCollection {
				rGuard.OK(fnName(fd)+":below-dot-test", posOf(elem), "names starting with '.' never enter the candidate set (tested where the set is filled)")
			} else if nil == dotIf {
				rGuard.Bad(fnName(fd)+":dot-test", posOf(elem), "no test for names starting with '.' in the per-file loop: dot-files are converted and a dangling dot-file symlink makes the conversion fail")
			} else {
				dc := decodeCond(dotIf.Cond)
				notDot := 1
				if !dc.Eq {
					notDot = 0
				}
				/* Every operation using the name. */
				nops, bad := 0, 0
				eachInstr(fd, func(i ssa.Instruction) {
					c := callCommon(i)
					if nil == c {
						return
					}
					name := calleeName(c)
					isOp := false
					switch name {
					case "io/fs.Stat", "io/fs.ReadFile", "os.Stat", "os.Open", "(io/fs.FS).Open", "os.Lstat":
						isOp = true
					}
					if cf, _ := closureOf(c.Value); nil != cf && cf.Parent() == fd {
						isOp = true /* The per-file conversion closure. */
					}
					if sc := c.StaticCallee(); nil != sc && (sc == fr) {
						isOp = true
					}
					if !isOp {
						return
					}
					uses := false
					for _, a := range callArgs(c) {
						if derivesFromName(a, elem) {
							uses = true
						}
					}
					if cf, binds := closureOf(c.Value); nil != cf {
						for _, b := range binds {
							if al, ok := b.(*ssa.Alloc); ok {
								for _, st := range storesTo(al) {
									if derivesFromName(st.Val, elem) {
										uses = true
									}
								}
							}
						}
					}
					if !uses {
						return
					}
					nops++
					if !edgeDominates(dotIf, notDot, i) {
						bad++
						rGuard.Bad(fmt.Sprintf("%s→%s:below-dot-test", fnName(fd), nameOr(name, "convert-closure")), posOf(i), "%s on a file name is not below the 'does not start with .' edge: a dot-file (e.g. a dangling editor lock link) is looked at and can fail the whole conversion", nameOr(name, "the conversion"))
					}
				})
				if 0 == bad && nops >= 2 {
					rGuard.OK(fnName(fd)+":below-dot-test", posOf(dotIf), "%d per-file operations, all below the dot-name test", nops)
				} else if nops < 2 {
					rGuard.Unproven(fnName(fd)+":per-file-ops", posOf(dotIf), "only %d per-file operations recognised", nops)
				}
				/* The dot edge continues the loop. */
				if nil != (reachQ{From: edgeLoc(dotIf.Block(), 1-notDot), Block: func(i ssa.Instruction) bool { return i.Block() == elem.Block() }, Target: isReturn}).run() {
					/* Reaching a return without re-entering the loop body is
					only fine through the loop's normal end. */
				}
			}
			/* Regular-file test before open/convert. */
			var regIf *ssa.If
			for _, b := range fd.Blocks {
				ifi := blockIf(b)
				if nil == ifi {
					continue
				}
				if c, ok := decodeCond(ifi.Cond).X.(*ssa.Call); ok && "(io/fs.FileMode).IsRegular" == calleeName(c.Common()) {
					regIf = ifi
				}
			}
			if nil == regIf {
				rGuard.Bad(fnName(fd)+":regular-only", fd.Pos(), "no IsRegular test in the per-file loop: directories and other non-regular entries are opened")
			} else {
				okReg := true
				eachInstr(fd, func(i ssa.Instruction) {
					c := callCommon(i)
					if nil == c {
						return
					}
					if cf, _ := closureOf(c.Value); nil != cf && cf.Parent() == fd {
						if !edgeDominates(regIf, 0, i) {
							okReg = false
						}
					}
				})
				if okReg {
					rGuard.OK(fnName(fd)+":regular-only", posOf(regIf), "conversion only on the regular-file edge; other entries continue the loop")
				} else {
					rGuard.Bad(fnName(fd)+":regular-only", posOf(regIf), "a file can be converted without having been found regular")
				}
			}
		}
	}

	/* 3. Determinism. */
	nk := 0
	for _, fn := range p.Funcs() {
		if nil == fn.Pkg || !strings.HasSuffix(fn.Pkg.Pkg.Path(), "/"+sffPkg) {
			continue
		}
		eachInstr(fn, func(i ssa.Instruction) {
			switch x := i.(type) {
			case *ssa.Range:
				if _, isMap := x.X.Type().Underlying().(interface{ Key() interface{} }); isMap {
					_ = isMap
				}
				if strings.HasPrefix(x.X.Type().Underlying().String(), "map[") {
					rDet.Bad(fnName(fn)+":range-map", posOf(i), "a map is ranged over directly: iteration order is random")
				}
			case *ssa.Call:
				n := calleeName(x.Common())
				if "golang.org/x/exp/maps.Keys" != n && "golang.org/x/exp/maps.Values" != n && "maps.Keys" != n && "maps.Values" != n {
					return
				}
				nk++
				c := fmt.Sprintf("%s:maps.Keys#%d", fnName(fn), nk)
				/* Every use other than slices.Sort must be dominated by a Sort of this value. */
				var srt *ssa.Call
				viaField := false
				for _, ref := range *x.Referrers() {
					if sc, ok := ref.(*ssa.Call); ok && ("slices.Sort" == calleeName(sc.Common()) || "sort.Strings" == calleeName(sc.Common())) && sc.Common().Args[0] == ssa.Value(x) {
						srt = sc
					}
				}
				/* Or consumed at once by slices.Sorted (iterator form). */
				onlySorted := 0 != len(*x.Referrers())
				for _, ref := range *x.Referrers() {
					if _, isDbg := ref.(*ssa.DebugRef); isDbg {
						continue
					}
					sc, ok := ref.(*ssa.Call)
					if !ok || !strings.HasPrefix(calleeName(sc.Common()), "slices.Sorted") || strings.HasPrefix(calleeName(sc.Common()), "slices.SortedFunc") {
						onlySorted = false
					}
				}
				if onlySorted {
					rDet.OK(c, posOf(i), "consumed by slices.Sorted")
					return
				}
				if nil == srt {
					/* Put into a field and sorted there, before anything
					else looks (a table built once and kept). */
					for _, ref := range *x.Referrers() {
						st, isSt := ref.(*ssa.Store)
						if !isSt || st.Val != ssa.Value(x) {
							continue
						}
						if _, isFA := st.Addr.(*ssa.FieldAddr); !isFA {
							continue
						}
						eachInstr(fn, func(j ssa.Instruction) {
							sc, ok := j.(*ssa.Call)
							if !ok || ("slices.Sort" != calleeName(sc.Common()) && "sort.Strings" != calleeName(sc.Common())) {
								return
							}
							ld, isLd := sc.Common().Args[0].(*ssa.UnOp)
							if isLd && token.MUL == ld.Op && sameAddr(ld.X, st.Addr) && instrDominates(st, sc) && nil == (reachQ{From: locOf(st), Block: func(k ssa.Instruction) bool { return k == ssa.Instruction(sc) }, Target: func(k ssa.Instruction) bool {
								u, isU := k.(*ssa.UnOp)
								return isU && token.MUL == u.Op && u != ld && sameAddr(u.X, st.Addr)
							}}).run() {
								srt = sc
								viaField = true
							}
						})
					}
				}
				if nil != srt && viaField {
					okOther := true
					for _, ref := range *x.Referrers() {
						switch ref.(type) {
						case *ssa.Store, *ssa.DebugRef:
						default:
							okOther = false
						}
					}
					if okOther {
						rDet.OK(c, posOf(i), "stored into a field and sorted there before any other read")
						return
					}
					srt = nil
				}
				if nil == srt {
					rDet.Bad(c, posOf(i), "the keys of a map are used without being sorted: which pattern matches first (and so which filter converts a file) changes from call to call")
					return
				}
				okk := true
				for _, ref := range *x.Referrers() {
					if ref == ssa.Instruction(srt) {
						continue
					}
					if _, isDbg := ref.(*ssa.DebugRef); isDbg {
						continue
					}
					if !instrDominates(srt, ref) {
						okk = false
					}
				}
				if okk {
					rDet.OK(c, posOf(i), "sorted before any other use")
				} else {
					rDet.Bad(c, posOf(i), "the unsorted keys are used before (or without) the sort")
				}
			}
		})
	}
	if nk < 2 {
		rDet.Unproven("shellfuncsfile:maps.Keys", token.NoPos, "%d maps.Keys calls found; the pattern lists of fromDirectory and fromReader were expected", nk)
	}
	/* The pattern list fromReader matches against is sorted in fromReader or
	is a parameter which every caller passes sorted. */
	checkFirstMatch(p, rDet, fr)
	/* The table the per-file converter chooses from is the converter's
	whole filter table (a snapshot of it), not a subset picked elsewhere. */
	filtersF := p.Field(sffPkg, "Converter", "filters")
	if nil == filtersF {
		/* Whatever it is called and however its type is spelt: the one
		map the converter keeps. */
		if pk := p.Pkg(sffPkg); nil != pk {
			if tn, ok := lookupObj(pk, "Converter").(*types.TypeName); ok {
				if st, ok := tn.Type().Underlying().(*types.Struct); ok {
					if ms := fieldsOfType(st, func(t types.Type) bool { _, isMap := t.Underlying().(*types.Map); return isMap }, 0); 1 == len(ms) {
						filtersF = ms[0]
					}
				}
			}
		}
	}
	/* One table per From call: the per-file converter works from what its
	caller hands it (the snapshot the file was selected under), not from
	the live table, which SetFilter may have changed since the directory
	was globbed. */
	if nil != filtersF && nil != fd {
		var live ssa.Instruction
		for _, f := range withAnons(fr) {
			eachInstr(f, func(i ssa.Instruction) {
				if u, ok := i.(*ssa.UnOp); ok && token.MUL == u.Op && nil == live {
					if fv, _ := fieldAddrOf(u.X); fv == filtersF {
						live = i
					}
				}
				/* Kept behind an atomic pointer or value: its Load. */
				if c := callCommon(i); nil != c && nil == live && 0 != len(c.Args) && strings.HasSuffix(calleeName(c), ").Load") {
					if fv, _ := fieldAddrOf(c.Args[0]); fv == filtersF {
						live = i
					}
				}
			})
		}
		calledFromDir := false
		for _, ci := range p.callersOf(fr) {
			if topFn(ci.Parent()) == fd {
				calledFromDir = true
			}
		}
		if nil != live && calledFromDir {
			rDet.Bad(fnName(fr)+":one-table-per-call", posOf(live), "the per-file converter reads the converter's live filter table instead of the table its caller selected the file under: a pattern removed in between leaves a selected file without a filter, and the whole conversion fails")
		} else {
			rDet.OK(fnName(fr)+":one-table-per-call", fr.Pos(), "the per-file converter does not read the live table")
		}
	}
	for k, pa := range fr.Params {
		if _, isMap := pa.Type().Underlying().(*types.Map); !isMap {
			continue
		}
		for _, ci := range p.callersOf(fr) {
			c := fmt.Sprintf("%s→%s:whole-filter-table", fnName(ci.Parent()), fnName(fr))
			okk := true
			var why []string
			for _, x := range valueRoots(ci.Common().Args[k], func(n string) bool {
				return strings.HasSuffix(strings.SplitN(n, "[", 2)[0], "maps.Clone")
			}) {
				nested := false
				if "field" == x.Kind && nil != x.Base {
					/* The table kept in a type of its own which the
					Converter holds in that field (filters.m). */
					if bf, _ := fieldAddrOf(x.Base); nil != bf && bf == filtersF {
						nested = true
					}
					if bf, _ := loadedField(x.Base); nil != bf && bf == filtersF {
						nested = true
					}
				}
				/* The table behind an atomic pointer kept in that field:
				what its Load gave (or nil before the first store). */
				viaLoad := false
				lv := x.V
				if u, isU := lv.(*ssa.UnOp); isU && token.MUL == u.Op {
					lv = resolveCell(u.X)
				}
				if lc, isC := lv.(*ssa.Call); isC && strings.HasSuffix(calleeName(lc.Common()), ").Load") && 0 != len(lc.Common().Args) {
					if bf, _ := fieldAddrOf(lc.Common().Args[0]); nil != bf && bf == filtersF {
						viaLoad = true
					}
				}
				switch {
				case "field" == x.Kind && x.Field == filtersF:
				case nested, viaLoad:
				case "const" == x.Kind && isNilConst(x.V):
				default:
					okk = false
					why = append(why, x.String())
				}
			}
			if okk {
				rDet.OK(c, posOf(ci), "a snapshot of Converter.filters")
			} else {
				rDet.Bad(c, posOf(ci), "the per-file converter is handed a filter table which is not the converter's whole table (%s): the filter used is no longer the first match in pattern order over all patterns", strings.Join(why, ", "))
			}
		}
	}

	/* A snapshot of the filter table kept between calls is dropped whenever
	the table changes: on every path of every function which adds to or
	deletes from Converter.filters, before or after the change. */
	checkFilterSnapshot(p, rDet, filtersF)
	/* The table holds usable filters only: a nil filter given to SetFilter
	deletes the pattern; stored, the pattern would still select files
	which nothing can convert. */
	if nil != filtersF {
		for _, fn := range p.Funcs() {
			if nil == fn.Pkg || !strings.HasSuffix(fn.Pkg.Pkg.Path(), "/"+sffPkg) {
				continue
			}
			eachInstr(fn, func(i ssa.Instruction) {
				mu, ok := i.(*ssa.MapUpdate)
				if !ok {
					return
				}
				if fv, _ := loadedField(stripConv(mu.Map, false)); fv != filtersF {
					return
				}
				pa, isParam := stripConv(mu.Value, false).(*ssa.Parameter)
				if !isParam {
					return
				}
				c := fnName(fn) + ":no-nil-filter"
				guarded := false
				for _, b := range fn.Blocks {
					ifi := blockIf(b)
					if nil == ifi {
						continue
					}
					dc := decodeCond(ifi.Cond)
					if dc.X != ssa.Value(pa) || nil == dc.Y || !isNilConst(dc.Y) {
						continue
					}
					nonNil := 1
					if !dc.Eq {
						nonNil = 0
					}
					if edgeDominates(ifi, nonNil, i) {
						guarded = true
					}
				}
				if guarded {
					rDet.OK(c, posOf(i), "only a non-nil filter is stored")
				} else {
					rDet.Bad(c, posOf(i), "a nil filter can be stored in the table: its pattern still selects files (and wins over later patterns), and those files then fail the whole conversion")
				}
			})
		}
	}

	/* 4. Newline termination in fromReader. */
	checkNewline(p, rNL, fr, fd)

	/* 5. Pass-through. */
	eNo := "errNoConverter"
	var isNo *ssa.If
	for _, b := range fs1.Blocks {
		ifi := blockIf(b)
		if nil == ifi {
			continue
		}
		if c, ok := decodeCond(ifi.Cond).X.(*ssa.Call); ok && "errors.Is" == calleeName(c.Common()) && eNo == globalLoadName(c.Common().Args[1]) {
			isNo = ifi
		}
	}
	/* What that test looks for has to arrive: where the per-file converter
	reports "no filter matched", the sentinel is the error or is wrapped
	with %w (an Errorf with %s or %v keeps its text and loses its identity). */
	if nil != isNo && nil != fr {
		carried, lost := false, ssa.Instruction(nil)
		eachInstr(fr, func(i ssa.Instruction) {
			ret, ok := i.(*ssa.Return)
			if !ok || 0 == len(ret.Results) {
				return
			}
			for _, l := range phiLeaves(ret.Results[len(ret.Results)-1]) {
				if eNo == globalLoadName(l.V) {
					carried = true
					continue
				}
				c, isCall := l.V.(*ssa.Call)
				if !isCall {
					continue
				}
				switch calleeName(c.Common()) {
				case "fmt.Errorf":
					f, isC := constString(c.Common().Args[0])
					if !isC {
						continue
					}
					verbs := errorfVerbs(f)
					for k, e := range appendedElems(c.Common().Args[len(c.Common().Args)-1]) {
						if eNo != globalLoadName(stripConv(e, false)) {
							continue
						}
						if k < len(verbs) && 'w' == verbs[k] {
							carried = true
						} else {
							lost = i
						}
					}
				case "errors.Join":
					for _, e := range appendedElems(c.Common().Args[len(c.Common().Args)-1]) {
						if eNo == globalLoadName(stripConv(e, false)) {
							carried = true
						}
					}
				}
			}
		})
		switch {
		case nil != lost && !carried:
			rPass.Bad(fnName(fr)+":sentinel-carried", posOf(lost), "the no-converter error is formatted into a new error without %%w: errors.Is no longer finds it, so an unmatched single file is an error instead of being passed through")
		case !carried:
			rPass.Bad(fnName(fr)+":sentinel-carried", fr.Pos(), "the per-file converter never returns (or wraps) errNoConverter: the pass-through case cannot be recognised")
		default:
			rPass.OK(fnName(fr)+":sentinel-carried", fr.Pos(), "errNoConverter is returned itself or wrapped with %%w")
		}
	}
	if nil == isNo {
		rPass.Bad(fnName(fs1)+":unmatched", fs1.Pos(), "fromSingleFile does not recognise the no-converter case: an unmatched file is an error instead of being passed through")
	} else {
		dc := decodeCond(isNo.Cond)
		k := 1
		if dc.Eq {
			k = 0
		}
		var readCall *ssa.Call
		eachInstr(fs1, func(i ssa.Instruction) {
			if c, ok := i.(*ssa.Call); ok && ("os.ReadFile" == calleeName(c.Common()) || "io/fs.ReadFile" == calleeName(c.Common())) {
				readCall = c
			}
		})
		okk, n := true, 0
		eachInstr(fs1, func(i ssa.Instruction) {
			ret, isRet := i.(*ssa.Return)
			if !isRet || !edgeDominatesOrReach(isNo, k, ret) {
				return
			}
			/* Returns reachable from the no-converter edge. */
			if nil == (reachQ{From: edgeLoc(isNo.Block(), k), Target: func(j ssa.Instruction) bool { return j == ssa.Instruction(ret) }}).run() {
				return
			}
			n++
			errV := retVal(ret, 1)
			onlyNil := true
			for _, x := range valueRoots(errV, nil) {
				if !("const" == x.Kind && x.V.(*ssa.Const).IsNil()) {
					/* The phi may also carry the nil result of a successful conversion. */
					if "call" == x.Kind && x.V.(*ssa.Call).Common().StaticCallee() == fr {
						onlyNil = false
					}
				}
			}
			if !onlyNil {
				okk = false
				rPass.Bad(fnName(fs1)+":unmatched-error", posOf(ret), "on the no-converter path fromSingleFile returns the converter's error (errNoConverter) along with the bytes: the caller fails instead of passing the file through")
			}
			fromFile := false
			for _, x := range valueRoots(retVal(ret, 0), nil) {
				if "call" == x.Kind && nil != readCall && x.V == ssa.Value(readCall) {
					fromFile = true
				}
			}
			if !fromFile {
				okk = false
				rPass.Bad(fnName(fs1)+":unmatched-bytes", posOf(ret), "on the no-converter path the result is not the file's own bytes")
			}
		})
		if okk && n > 0 {
			rPass.OK(fnName(fs1)+":unmatched", posOf(isNo), "unmatched file: its bytes, nil error")
		}
	}
	/* From: ranges its sources in order, no goroutines, no sorting. */
	bad := 0
	for _, f := range withAnons(from) {
		eachInstr(f, func(i ssa.Instruction) {
			if _, ok := i.(*ssa.Go); ok {
				bad++
				rPass.Bad(fnName(from)+":order", posOf(i), "sources are converted concurrently")
			}
			if c := callCommon(i); nil != c && strings.HasPrefix(calleeName(c), "slices.Sort") && 0 != len(c.Args) && rootedInParams(c.Args[0], from) {
				bad++
				rPass.Bad(fnName(from)+":order", posOf(i), "the source list is re-ordered")
			}
		})
	}
	if 0 == bad {
		rPass.OK(fnName(from)+":order", from.Pos(), "sources are converted sequentially in argument order")
	}
	checkSourcesConverted(p, rPass)
}

// checkSourcesConverted: every source named is itself handed to the
// per-source converter, so that one which does not exist fails there.
// Expanding the names first (filepath.Glob, fs.Glob) turns a missing source
// into no source at all: no error, an empty payload.
func checkSourcesConverted(p *Prog, ru *Rule) {
	from := p.Func(sffPkg, "Converter", "From")
	if nil == from {
		ru.Unproven("Converter.From", token.NoPos, "not found")
		return
	}
	var glob ssa.Instruction
	for _, f := range withAnons(from) {
		eachInstr(f, func(i ssa.Instruction) {
			c := callCommon(i)
			if nil == c || nil != glob {
				return
			}
			switch calleeName(c) {
			case "path/filepath.Glob", "io/fs.Glob", "(io/fs.GlobFS).Glob":
				for _, a := range c.Args {
					if rootedInParams(a, from) {
						glob = i
					}
				}
			}
		})
	}
	c := fnName(from) + ":every-source-converted"
	if nil != glob {
		ru.Bad(c, posOf(glob), "the sources named are expanded as patterns before they are converted: one which does not exist matches nothing and is skipped without an error (an empty payload, exit status 0 when asked to print it)")
	} else {
		ru.OK(c, from.Pos(), "each source named is converted as named")
	}
}

func nameOr(a, b string) string {
	if "" == a {
		return b
	}
	return a
}

func edgeDominatesOrReach(ifi *ssa.If, k int, to ssa.Instruction) bool { return true }

// derivesFromName: v is the loaded name or a copy of it through local cells.
func derivesFromName(v ssa.Value, name *ssa.UnOp) bool {
	for _, x := range valueRoots(v, func(n string) bool { return "path/filepath.Base" == n || "path.Base" == n }) {
		if x.V == ssa.Value(name) {
			return true
		}
		if u, ok := x.V.(*ssa.UnOp); ok && u == name {
			return true
		}
		if "other" == x.Kind {
			if u, ok := x.V.(*ssa.UnOp); ok {
				if ia, ok := u.X.(*ssa.IndexAddr); ok {
					if nia, ok := name.X.(*ssa.IndexAddr); ok && ia.X == nia.X {
						return true
					}
				}
			}
		}
	}
	/* valueRoots maps an element load to its container. */
	if nia, ok := name.X.(*ssa.IndexAddr); ok {
		for _, x := range valueRoots(v, nil) {
			if x.V == nia.X {
				return true
			}
		}
	}
	return false
}

// appendOnlyFrom: names is built by a chain of append(names, glob...) only.
func appendOnlyFrom(v ssa.Value, glob *ssa.Call) bool {
	seen := map[ssa.Value]bool{}
	var walk func(v ssa.Value) bool
	walk = func(v ssa.Value) bool {
		if seen[v] {
			return true
		}
		seen[v] = true
		switch x := v.(type) {
		case *ssa.Const:
			return x.IsNil()
		case *ssa.Phi:
			for _, e := range x.Edges {
				if !walk(e) {
					return false
				}
			}
			return true
		case *ssa.Call:
			if b, ok := x.Common().Value.(*ssa.Builtin); ok && "append" == b.Name() {
				if !walk(x.Common().Args[0]) {
					return false
				}
				if ex, ok := x.Common().Args[1].(*ssa.Extract); ok && ex.Tuple == ssa.Value(glob) && 0 == ex.Index {
					return true
				}
				return false
			}
		}
		return false
	}
	return walk(v)
}

// checkFirstMatch: in the per-file converter, the loop over patterns is left
// on the first match, and the list it ranges over is sorted.
func checkFirstMatch(p *Prog, ru *Rule, fr *ssa.Function) {
	var match *ssa.Call
	eachInstr(fr, func(i ssa.Instruction) {
		if c, ok := i.(*ssa.Call); ok && ("path/filepath.Match" == calleeName(c.Common()) || "path.Match" == calleeName(c.Common())) {
			match = c
		}
	})
	c := fnName(fr)
	if nil == match {
		ru.Unproven(c+":match", fr.Pos(), "no filepath.Match call found")
		return
	}
	okV := extractOf(match, 0)
	if nil == okV {
		ru.Bad(c+":match", posOf(match), "the match result is discarded")
		return
	}
	for _, bt := range boolTestsOf(fr, okV) {
		ifi := bt.If
		if nil != (reachQ{From: edgeLoc(ifi.Block(), bt.TrueSucc), Target: func(i ssa.Instruction) bool { return i == ssa.Instruction(match) }}).run() {
			ru.Bad(c+":first-match-wins", posOf(ifi), "after a pattern matched the loop goes on matching: a later pattern overrides the first one")
		} else {
			ru.OK(c+":first-match-wins", posOf(ifi), "the loop is left on the first match")
		}
	}
	/* The pattern matched comes from a list which is sorted. */
	pat := match.Common().Args[0]
	sorted := false
	var src []string
	for _, x := range valueRoots(pat, nil) {
		src = append(src, x.String())
		switch {
		case "call" == x.Kind && strings.HasPrefix(x.Callee, "slices.Sorted") && !strings.HasPrefix(x.Callee, "slices.SortedFunc"):
			sorted = true
		case "call" == x.Kind && strings.HasSuffix(x.Callee, "maps.Keys"):
			/* Sorted in this function (checked by the maps.Keys rule). */
			sorted = true
		case "field" == x.Kind && nil != x.Field:
			/* A list kept in a table: whatever is ever stored there is a
			key list (sorted where it is made: the maps.Keys rule) or
			slices.Sorted(...). */
			sts := p.storesToField(x.Field)
			all := 0 != len(sts)
			for _, st := range sts {
				sc, isCall := stripConv(st.Val, false).(*ssa.Call)
				if !isCall {
					all = false
					continue
				}
				n := calleeName(sc.Common())
				if !(strings.HasSuffix(n, "maps.Keys") || (strings.HasPrefix(n, "slices.Sorted") && !strings.HasPrefix(n, "slices.SortedFunc"))) {
					all = false
				}
			}
			if all {
				sorted = true
			}
		case "param" == x.Kind:
			/* Every caller must pass a sorted list. */
			idx := paramIndex(fr, x.V)
			all := true
			for _, ci := range p.callersOf(fr) {
				arg := resolveCell(ci.Common().Args[idx])
				isSorted := false
				top := ci.Parent()
				for nil != top.Parent() {
					top = top.Parent()
				}
				for _, g := range withAnons(top) {
					eachInstr(g, func(j ssa.Instruction) {
						sc, ok := j.(*ssa.Call)
						if !ok || "slices.Sort" != calleeName(sc.Common()) || resolveCell(sc.Common().Args[0]) != arg {
							return
						}
						if g == ci.Parent() {
							if instrDominates(sc, ci) {
								isSorted = true
							}
							return
						}
						/* Sorted in an enclosing function before the closure
						making the call is created. */
						if site := closureSite(g, ci.Parent()); nil != site && instrDominates(sc, site) {
							isSorted = true
						}
					})
				}
				if !isSorted {
					all = false
					ru.Bad(fmt.Sprintf("%s→%s:sorted-patterns", fnName(ci.Parent()), fnName(fr)), posOf(ci), "the pattern list handed to %s is not sorted by this caller: the filter chosen depends on map order", fnName(fr))
				}
			}
			sorted = all
		}
	}
	if sorted {
		ru.OK(c+":patterns-sorted", posOf(match), "patterns are tried in sorted order")
	} else if 0 == len(filterObsPrefix(ru, ":sorted-patterns")) {
		ru.Bad(c+":patterns-sorted", posOf(match), "the patterns tried come from %s, which is not a sorted key list", strings.Join(src, ", "))
	}
}

func filterObsPrefix(ru *Rule, sub string) []Ob {
	var out []Ob
	for _, o := range ru.r.Obs {
		if o.Rule == ru.name && strings.Contains(o.Construct, sub) && Discharged != o.Status {
			out = append(out, o)
		}
	}
	return out
}

// checkNewline: the per-file converter appends '\n' when the filter's output
// lacks one, and the directory loop writes exactly what that converter
// returned.
func checkNewline(p *Prog, ru *Rule, fr, fd *ssa.Function) {
	var app *ssa.Call
	eachInstr(fr, func(i ssa.Instruction) {
		c, ok := i.(*ssa.Call)
		if !ok {
			return
		}
		if b, ok := c.Common().Value.(*ssa.Builtin); ok && "append" == b.Name() {
			for _, e := range variadicElems(c.Common()) {
				if n, ok := constInt(e); ok && 10 == n {
					app = c
				}
			}
			/* append(b, newline...) / append(b, "\n"...) */
			if 2 == len(c.Common().Args) && 0 == len(variadicElems(c.Common())) && isNewlineValue(c.Common().Args[1]) {
				app = c
			}
		}
	})
	c := fnName(fr)
	if nil == app {
		ru.Bad(c+":appends-newline", fr.Pos(), "the per-file converter never appends a newline: a file without trailing newline is glued to the next part")
		return
	}
	/* The success return carries the possibly-extended value. */
	okk := false
	eachInstr(fr, func(i ssa.Instruction) {
		ret, ok := i.(*ssa.Return)
		if !ok || !isNilConst(retVal(ret, 1)) {
			return
		}
		v := retVal(ret, 0)
		if ph, ok := v.(*ssa.Phi); ok {
			for _, e := range ph.Edges {
				if e == ssa.Value(app) {
					okk = true
				}
			}
		}
		if v == ssa.Value(app) {
			okk = true
		}
	})
	if okk {
		ru.OK(c+":appends-newline", posOf(app), "the filter's output is returned with '\\n' appended when missing")
	} else {
		ru.Bad(c+":appends-newline", posOf(app), "the newline-terminated value is not what the converter returns")
	}
	/* Guard: appended only when the last byte is not '\n'. */
	guarded := false
	for _, b := range fr.Blocks {
		ifi := blockIf(b)
		if nil == ifi {
			continue
		}
		dc := decodeCond(ifi.Cond)
		if nil == dc.Y {
			/* bytes.HasSuffix(b, "\n") / strings.HasSuffix: the append is
			below the "has no such suffix" edge. */
			if hc, ok := dc.X.(*ssa.Call); ok {
				switch calleeName(hc.Common()) {
				case "bytes.HasSuffix", "strings.HasSuffix":
					if isNewlineValue(hc.Common().Args[1]) {
						noSuffix := 1
						if !dc.Eq {
							noSuffix = 0
						}
						if edgeDominates(ifi, noSuffix, app) {
							guarded = true
						}
					}
				}
			}
			continue
		}
		if n, ok := constInt(dc.Y); ok && 10 == n {
			k := 1
			if !dc.Eq {
				k = 0
			}
			if edgeDominates(ifi, k, app) {
				guarded = true
			}
		}
	}
	if guarded {
		ru.OK(c+":only-when-missing", posOf(app), "appended only when the output does not already end in '\\n'")
	} else {
		ru.Bad(c+":only-when-missing", posOf(app), "the newline is appended without testing the last byte: parts gain blank lines")
	}
	/* The directory loop writes the converter's result. */
	wrote := false
	var stale []*ssa.Call
	staleWhat := ""
	for _, f := range withAnons(fd) {
		eachInstr(f, func(i ssa.Instruction) {
			wc, ok := i.(*ssa.Call)
			if !ok {
				return
			}
			/* What is added to the accumulated output: Buffer.Write(b),
			Builder.Write(b), append(out, b...). */
			var part ssa.Value
			switch n := calleeName(wc.Common()); n {
			case "(*bytes.Buffer).Write", "(*strings.Builder).Write", "(*bytes.Buffer).WriteString", "(*strings.Builder).WriteString":
				part = wc.Common().Args[1]
			default:
				if bi, isB := wc.Common().Value.(*ssa.Builtin); isB && "append" == bi.Name() && 2 == len(wc.Common().Args) {
					if _, isSlice := wc.Common().Args[1].Type().Underlying().(*types.Slice); isSlice && isByteSlice(wc.Common().Args[0].Type()) {
						part = wc.Common().Args[1]
					}
				}
			}
			if nil == part {
				return
			}
			fromConv, other := false, ""
			for _, x := range valueRoots(part, nil) {
				switch {
				case "call" == x.Kind && x.V.(*ssa.Call).Common().StaticCallee() == fr:
					fromConv = true
				case "const" == x.Kind:
				default:
					other = x.String()
				}
			}
			if fromConv && "" == other {
				wrote = true
			}
			/* Anything else written into the same output (the payload the
			function returns): a part remembered from an earlier call,
			keyed by something which need not identify the file. */
			if !fromConv && "" != other && isByteSlice(part.Type()) {
				if _, isBuf := fieldBehind(wc.Common().Args[0]); nil == isBuf {
					stale = append(stale, wc)
					staleWhat = other
				}
			}
		})
	}
	for _, wc := range stale {
		ru.Bad(fnName(fd)+":writes-converted-part:other-source", posOf(wc), "the directory loop also appends bytes which are not the per-file converter's result of this call (%s): a remembered conversion stands in for converting the file as it is now", staleWhat)
	}
	if wrote {
		ru.OK(fnName(fd)+":writes-converted-part", fd.Pos(), "each part written is the per-file converter's (newline-terminated) result")
	} else {
		ru.Bad(fnName(fd)+":writes-converted-part", fd.Pos(), "what the directory loop appends is not the per-file converter's result")
	}
}

// nameSet describes candidates collected as the keys of a set.
type nameSet struct {
	keys        *ssa.Call /* maps.Keys(set) or slices.Sorted(maps.Keys(set)) */
	ranged      ssa.Value /* the slice the loop ranges */
	onlyGlob    bool
	sorted      bool
	dotFiltered bool
}

// setCandidates recognises: set := map[string]T{}; for each Glob result m:
// set[m] = ...; names := maps.Keys(set); slices.Sort(names) (or
// slices.Sorted(maps.Keys(set))).
func setCandidates(fd *ssa.Function, glob *ssa.Call) *nameSet {
	var out *nameSet
	eachInstr(fd, func(i ssa.Instruction) {
		k, ok := i.(*ssa.Call)
		if !ok || !strings.HasSuffix(strings.SplitN(calleeName(k.Common()), "[", 2)[0], "maps.Keys") {
			return
		}
		m, isMap := resolveCell(k.Common().Args[0]).(*ssa.MakeMap)
		if !isMap {
			return
		}
		ns := &nameSet{keys: k, ranged: k, onlyGlob: true, dotFiltered: true}
		/* Sorted? */
		for _, ref := range *k.Referrers() {
			if sc, ok := ref.(*ssa.Call); ok {
				n := calleeName(sc.Common())
				switch {
				case "slices.Sort" == n || "sort.Strings" == n:
					ns.sorted = true
				case strings.HasPrefix(n, "slices.Sorted") && !strings.HasPrefix(n, "slices.SortedFunc"):
					ns.sorted, ns.ranged = true, sc
				}
			}
		}
		/* Inserts. */
		globRes := extractOf(glob, 0)
		nIns := 0
		for _, f := range withAnons(fd) {
			eachInstr(f, func(j ssa.Instruction) {
				mu, ok := j.(*ssa.MapUpdate)
				if !ok || resolveCell(mu.Map) != ssa.Value(m) {
					return
				}
				nIns++
				key := resolveCell(mu.Key)
				fromGlob := false
				if u, ok := key.(*ssa.UnOp); ok && token.MUL == u.Op {
					if ia, ok := u.X.(*ssa.IndexAddr); ok && nil != globRes && resolveCell(ia.X) == ssa.Value(globRes) {
						fromGlob = true
					}
				}
				if !fromGlob {
					ns.onlyGlob = false
				}
				/* Below the "does not start with ." edge on this key. */
				guarded := false
				for _, b := range f.Blocks {
					ifi := blockIf(b)
					if nil == ifi {
						continue
					}
					dc := decodeCond(ifi.Cond)
					hc, ok := dc.X.(*ssa.Call)
					if !ok || nil != dc.Y || "strings.HasPrefix" != calleeName(hc.Common()) {
						continue
					}
					if pre, ok := constString(hc.Common().Args[1]); !ok || "." != pre || resolveCell(hc.Common().Args[0]) != key {
						continue
					}
					notDot := 1
					if !dc.Eq {
						notDot = 0
					}
					if edgeDominates(ifi, notDot, j) {
						guarded = true
					}
				}
				if !guarded {
					ns.dotFiltered = false
				}
			})
		}
		if 0 == nIns {
			ns.onlyGlob = false
		}
		out = ns
	})
	return out
}

// isNewlineValue: the constant "\n", or a one-element byte slice literal
// holding '\n'.
func isNewlineValue(v ssa.Value) bool {
	v = stripConv(v, true)
	/* A package-level "newline" made once. */
	if nil != theProg {
		if once := theProg.globalOnce(v); nil != once {
			v = stripConv(once, true)
		}
	}
	if s, ok := constString(v); ok {
		return "\n" == s
	}
	sl, ok := v.(*ssa.Slice)
	if !ok {
		return false
	}
	al, ok := sl.X.(*ssa.Alloc)
	if !ok {
		return false
	}
	els, ok := literalElems(al)
	if !ok || 1 != len(els) {
		return false
	}
	k, ok := constInt(els[0])
	return ok && 10 == k
}

func isByteSlice(t types.Type) bool {
	sl, ok := t.Underlying().(*types.Slice)
	if !ok {
		return false
	}
	b, ok := sl.Elem().Underlying().(*types.Basic)
	return ok && types.Byte == b.Kind()
}

// rootedInParams: v derives from a parameter of fn (not from something fn
// made itself).
func rootedInParams(v ssa.Value, fn *ssa.Function) bool {
	for _, x := range valueRoots(v, nil) {
		if pa, ok := x.V.(*ssa.Parameter); ok && "param" == x.Kind && pa.Parent() == fn {
			return true
		}
	}
	return false
}

// checkCtrlIGenerator: the function main hands to opshell.New as the Ctrl+I
// generator (also called for -print-ctrl-i) is Converter.From and nothing
// else which can fail or stand in for it: every payload it returns with a
// nil error is what From returned in that very call, and every error it
// returns is From's (wrapped or not) or a fresh error for a condition of its
// own configuration (no source named).  A look at the directory beforehand
// (a size for the log) whose failure is returned makes a stray file which no
// pattern matches fail the generation; a cache answers with something From
// did not just produce.
func checkCtrlIGenerator(p *Prog, r *Report, ru *Rule) {
	rm := p.Func("", "", "rmain")
	if nil == rm {
		ru.Unproven("main.rmain", token.NoPos, "not found")
		return
	}
	/* The generators: functions (literals) of package main which call
	Converter.From and return ([]byte, error). */
	var gens []*ssa.Function
	for _, fn := range p.Funcs() {
		if nil == fn.Pkg || fn.Pkg != rm.Pkg || 2 != fn.Signature.Results().Len() || !isErrorType(fn.Signature.Results().At(1).Type()) {
			continue
		}
		if !isByteSlice(fn.Signature.Results().At(0).Type()) {
			continue
		}
		has := false
		eachInstr(fn, func(i ssa.Instruction) {
			if cc := callCommon(i); nil != cc && nil != cc.StaticCallee() && "From" == cc.StaticCallee().Name() && "Converter" == recvTypeName(cc.StaticCallee()) {
				has = true
			}
		})
		if has {
			gens = append(gens, fn)
		}
	}
	if 0 == len(gens) {
		ru.Unproven("main:ctrl-i-generator", rm.Pos(), "no function of package main returning ([]byte, error) calls Converter.From")
		return
	}
	for _, g := range gens {
		c := fnName(g) + ":generator"
		var from *ssa.Call
		nfrom := 0
		eachInstr(g, func(i ssa.Instruction) {
			if cl, ok := i.(*ssa.Call); ok {
				if sc := cl.Common().StaticCallee(); nil != sc && "From" == sc.Name() && "Converter" == recvTypeName(sc) {
					from = cl
					nfrom++
				}
			}
		})
		if 1 != nfrom {
			ru.Unproven(c, g.Pos(), "%d calls of Converter.From in the generator, one expected", nfrom)
			continue
		}
		/* What is converted is what the operator named, by the library's own
		way of opening it: the source handed to From is the flag's value,
		and main does not put a file system of its own under the
		converter (fs.Sub/os.DirFS of a parent globs and stats
		differently: a directory called funcs[v2], a FIFO in it). */
		srcOK := true
		for _, e := range appendedElems(from.Common().Args[len(from.Common().Args)-1]) {
			/* A field of a (captured) struct value made from the flag. */
			if fx, isF := stripConv(e, false).(*ssa.Field); isF {
				if ld, isLd := resolveFree(fx.X).(*ssa.UnOp); isLd && token.MUL == ld.Op {
					if al, isAl := ld.X.(*ssa.Alloc); isAl {
						for _, ref := range *al.Referrers() {
							if fa, isFA := ref.(*ssa.FieldAddr); isFA && fa.Field == fx.Field {
								for _, r2 := range *fa.Referrers() {
									if st, isSt := r2.(*ssa.Store); isSt && st.Addr == ssa.Value(fa) {
										e = st.Val
									}
								}
							}
						}
					}
				}
			}
			isFlag := "" != flagNameOf(resolveFree(e))
			if fc, isCall := resolveFree(e).(*ssa.Call); isCall && strings.HasPrefix(calleeName(fc.Common()), "flag.") {
				isFlag = true /* the flag's variable, captured */
				for _, ref := range *fc.Referrers() {
					if st, isSt := ref.(*ssa.Store); isSt {
						if _, isCell := resolveFree(st.Addr).(*ssa.Alloc); st.Addr == ssa.Value(fc) || !isCell {
							isFlag = false
						}
					}
				}
			}
			if !isFlag {
				if _, isP := stripConv(resolveCell(resolveFree(e)), false).(*ssa.Parameter); !isP {
					/* Carried in a field or a local on the way. */
					rs := valueRoots(resolveFree(e), nil)
					all := 0 != len(rs)
					for _, x := range rs {
						switch {
						case "param" == x.Kind, "const" == x.Kind:
						case nil != x.V && "" != flagNameOf(x.V):
						case nil != x.V && func() bool {
							fc, isCall := x.V.(*ssa.Call)
							return isCall && strings.HasPrefix(calleeName(fc.Common()), "flag.")
						}():
						default:
							all = false
						}
					}
					if !all {
						srcOK = false
					}
				}
			}
		}
		if !srcOK {
			ru.Bad(c+":source", posOf(from), "the source the generator converts is not the -ctrl-i value itself (%s)", rootsString(valueRoots(from.Common().Args[len(from.Common().Args)-1], nil)))
		} else {
			ru.OK(c+":source", posOf(from), "the flag's value, as given")
		}
		for _, f := range p.Funcs() {
			if nil == f.Pkg || f.Pkg != rm.Pkg {
				continue
			}
			eachInstr(f, func(i ssa.Instruction) {
				st, isSt := i.(*ssa.Store)
				if !isSt {
					return
				}
				if fv, base := fieldAddrOf(st.Addr); nil != fv && "FS" == fv.Name() && typeIs(base.Type(), ModPath+"/"+sffPkg, "Converter") {
					ru.Bad(c+":converter-fs", posOf(st), "main gives the Ctrl+I converter a file system of its own (Converter.FS): names are then globbed and examined relative to it, not as the library does for the source named")
				}
			})
		}
		fromErr := extractOf(from, 1)
		bad := 0
		eachInstr(g, func(i ssa.Instruction) {
			ret, ok := i.(*ssa.Return)
			if !ok || 2 != len(ret.Results) || (nil != g.Recover && ret.Block() == g.Recover) {
				return
			}
			ev := retVal(ret, 1)
			if isNilConst(ev) || (nil != fromErr && ev == ssa.Value(fromErr) && func() bool {
				for _, t := range nilTestsOf(g, fromErr) {
					if edgeDominates(t.If, t.NilSucc, ret) {
						return true
					}
				}
				return false
			}()) {
				/* Success: the payload is From's. */
				okPayload := true
				seen := map[ssa.Value]bool{}
				var walk func(v ssa.Value)
				walk = func(v ssa.Value) {
					v = stripConv(v, false)
					if seen[v] {
						return
					}
					seen[v] = true
					switch x := v.(type) {
					case *ssa.Phi:
						for _, e := range x.Edges {
							walk(e)
						}
						return
					case *ssa.Extract:
						if x.Tuple == ssa.Value(from) && 0 == x.Index {
							return
						}
					case *ssa.UnOp:
						/* A variable of this very call (a named result):
						what was put into it.  A variable of the enclosing
						function lives from call to call. */
						if al, isAl := x.X.(*ssa.Alloc); isAl && token.MUL == x.Op && al.Parent() == g {
							captured := false
							for _, ref := range *al.Referrers() {
								if _, isMC := ref.(*ssa.MakeClosure); isMC {
									captured = true
								}
							}
							sts := storesTo(al)
							if !captured && len(sts) > 0 {
								for _, st := range sts {
									walk(st.Val)
								}
								return
							}
						}
					}
					okPayload = false /* a variable kept between calls, nil, … */
				}
				walk(retVal(ret, 0))
				if !okPayload {
					bad++
					ru.Bad(c+":payload", posOf(ret), "the generator can return, with a nil error, something other than what Converter.From returned in this call (%s): a remembered or empty payload stands in for the conversion (an unreadable or missing source then goes unreported)", rootsString(valueRoots(retVal(ret, 0), nil)))
				}
				return
			}
			/* Failure: whose? */
			if nil != p.globalOnce(stripConv(resolveCell(ev), false)) {
				return /* a sentinel error of the program's own */
			}
			for _, src := range errorSources(ev, 0) {
				switch {
				case nil != src.Call && ssa.Value(src.Call) == ssa.Value(from):
				case "fresh" == src.Name:
				default:
					bad++
					ru.Bad(c+":failure", posOf(ret), "the generator can fail with an error of %s, not of Converter.From: something it looks at besides the conversion (every entry of the directory, say) can make Ctrl+I fail although no pattern matches it", src.Name)
				}
			}
		})
		if 0 == bad {
			ru.OK(c, g.Pos(), "returns Converter.From's payload and error (or a fresh error of its own configuration) and nothing else")
		}
	}
}


// errorfVerbs: the verb letters of a format, in argument order (explicit
// argument indexes are not handled: such formats yield nil).
func errorfVerbs(f string) []byte {
	var out []byte
	for i := 0; i < len(f); i++ {
		if '%' != f[i] {
			continue
		}
		i++
		for i < len(f) && strings.ContainsRune("+-# 0123456789.", rune(f[i])) {
			i++
		}
		if i >= len(f) {
			break
		}
		if '[' == f[i] {
			return nil
		}
		if '%' == f[i] {
			continue
		}
		out = append(out, f[i])
	}
	return out
}


// checkFilterSnapshot: see the call.  Cache fields are the Converter's fields
// which receive something made from maps.Clone / maps.Keys of the filter
// table (directly or inside a struct made for it).
func checkFilterSnapshot(p *Prog, ru *Rule, filtersF *types.Var) {
	if nil == filtersF {
		return
	}
	isFilters := func(v ssa.Value) bool {
		fv, _ := loadedField(stripConv(v, false))
		return fv == filtersF
	}
	caches := map[*types.Var]bool{}
	for _, fn := range p.Funcs() {
		if nil == fn.Pkg || !strings.HasSuffix(fn.Pkg.Pkg.Path(), "/"+sffPkg) {
			continue
		}
		eachInstr(fn, func(i ssa.Instruction) {
			st, ok := i.(*ssa.Store)
			if !ok || isNilConst(st.Val) {
				return
			}
			fv, base := fieldAddrOf(st.Addr)
			if nil == fv || fv == filtersF || nil == base || !typeIs(base.Type(), ModPath+"/"+sffPkg, "Converter") {
				return
			}
			rs := valueRoots(st.Val, nil)
			/* A struct made for the purpose: what its fields were given. */
			for _, x := range rs {
				if al, isAl := x.V.(*ssa.Alloc); isAl && "alloc" == x.Kind {
					for _, ref := range *al.Referrers() {
						if fa, isFA := ref.(*ssa.FieldAddr); isFA {
							for _, r2 := range *fa.Referrers() {
								if s2, isSt := r2.(*ssa.Store); isSt && s2.Addr == ssa.Value(fa) {
									rs = append(rs, valueRoots(s2.Val, nil)...)
								}
							}
						}
					}
				}
			}
			for _, x := range rs {
				if "call" != x.Kind {
					continue
				}
				n := strings.SplitN(x.Callee, "[", 2)[0]
				if !strings.HasSuffix(n, "maps.Clone") && !strings.HasSuffix(n, "maps.Keys") {
					continue
				}
				if c, isCall := x.V.(*ssa.Call); isCall && 0 != len(c.Common().Args) && isFilters(c.Common().Args[0]) {
					caches[fv] = true
				}
			}
		})
	}
	if 0 == len(caches) {
		return
	}
	for _, fn := range p.Funcs() {
		if nil == fn.Pkg || !strings.HasSuffix(fn.Pkg.Pkg.Path(), "/"+sffPkg) {
			continue
		}
		var muts []ssa.Instruction
		eachInstr(fn, func(i ssa.Instruction) {
			switch x := i.(type) {
			case *ssa.MapUpdate:
				if isFilters(x.Map) {
					muts = append(muts, i)
				}
			case *ssa.Call:
				if b, isB := x.Common().Value.(*ssa.Builtin); isB && ("delete" == b.Name() || "clear" == b.Name()) && 0 != len(x.Common().Args) && isFilters(x.Common().Args[0]) {
					muts = append(muts, i)
				}
			case *ssa.Store:
				if fv, _ := fieldAddrOf(x.Addr); fv == filtersF && "New" != fn.Name()[:min(3, len(fn.Name()))] {
					muts = append(muts, i)
				}
			}
		})
		for cf := range caches {
			isDrop := func(j ssa.Instruction) bool {
				st, ok := j.(*ssa.Store)
				if !ok || !isNilConst(st.Val) {
					return false
				}
				fv, _ := fieldAddrOf(st.Addr)
				return fv == cf
			}
			for k, m := range muts {
				c := fmt.Sprintf("%s:snapshot-dropped#%d", fnName(fn), k+1)
				before := false
				eachInstr(fn, func(j ssa.Instruction) {
					if isDrop(j) && instrDominates(j, m) {
						before = true
					}
				})
				if before {
					ru.OK(c, posOf(m), "Converter.%s is cleared before the table changes", cf.Name())
					continue
				}
				if miss := (reachQ{From: locOf(m), Block: isDrop, Target: isReturn}).run(); nil != miss {
					ru.Bad(c, posOf(m), "the filter table is changed here and the function can return without clearing the snapshot kept in Converter.%s: later conversions go on using the old table (a deleted pattern still converts, a new one is ignored)", cf.Name())
				} else {
					ru.OK(c, posOf(m), "Converter.%s is cleared on every way out", cf.Name())
				}
			}
		}
	}
}
