package main

// C04 — a dying shell is torn down completely, announced once, and the
// listener re-arms.

import (
	"fmt"
	"go/token"
	"go/types"
	"strings"

	"golang.org/x/tools/go/ssa"
)

func init() {
	register("C04", &propDef{
		Run:         checkC04,
		Explanation: "Static decision of the tear-down clauses. (1) Release table: for every abstract state after the proxy returns (proxy error or not, peer still attached or not) every path of the admission function re-acquires Broker.mu, stores \"\" into Broker.key and nil into its own cancel slot, invokes the loaded peer cancel iff the peer is attached, and emits the 'gone' notice and the disconnected event exactly once iff the peer is gone; the ready notice and connected event are emitted exactly once iff the peer is already attached at admission; WaitGroup Add/Done are paired on every path and Add happens under the lock only when noMore is false. (2) Every select in the two proxies has a ctx.Done() arm on the stream's context and no bare channel operation blocks outside a select; under the abstraction 'the context is cancelled' every path of each proxy reaches a return. (3) Every goroutine started by the proxies performs channel operations only as arms of a select with a ctx.Done() arm. (4) In Do, noMore is set under the lock before wg.Wait. (5) The server's event switch handles every EventType constant and re-prints the callback help on the disconnected event unless -one-shell. Together with C01's admission table (tear-down state b.key==\"\" with a cancel still set is refused, idle state is admitted with any ID) this gives: the other direction is cancelled, one 'gone' per generation, and the broker returns to the idle abstract state from which any next shell is admitted. (6) Every send of an Event is a plain send or an arm of a blocking select whose other arms are ctx.Done() only.",
		Assumptions: []string{
			"context cancellation closes Done(); a cancelled proxy's transport Read/Write return once the transport is closed (the property's premise)",
			"channel operations are the only blocking operations considered besides the transport",
		},
	})
}

func checkC04(p *Prog, r *Report) {
	rAnch := r.Rule("anchors", "admission function, proxies and event consumers are identified through type information")
	rRel := r.Rule("release-table", "after the proxy returns every path relocks, clears key and own cancel, cancels an attached peer, and announces 'gone' + disconnected event exactly once iff the peer is gone")
	rReady := r.Rule("ready-iff-attached", "the ready notice and connected event are emitted exactly once iff the peer is attached when this direction attaches")
	rWg := r.Rule("waitgroup", "wg.Add(1) only under the lock with noMore false, wg.Done on every such path; Do sets noMore under the lock before wg.Wait")
	rSel := r.Rule("proxies-cancellable", "every select of the proxies has a ctx.Done() arm, no bare channel operation blocks, and once cancelled every path returns")
	rGo := r.Rule("goroutines-cancellable", "goroutines started by the proxies block on channels only in selects with a ctx.Done() arm")
	rEv := r.Rule("event-switch", "the server handles every event type; help is re-printed on disconnect unless -one-shell")

	a := findConnect(p)
	if 0 != len(a.Errs) {
		for _, e := range a.Errs {
			rAnch.Unproven("admission-function", token.NoPos, "%s", e)
		}
		return
	}
	rAnch.OK(fnName(a.Fn), a.Fn.Pos(), "admission/release function")
	r.Saw("func " + fnName(a.Fn))
	m := buildConnectModel(p, a)
	if m.Truncated {
		rRel.Unproven("exploration", a.Fn.Pos(), "path exploration truncated")
	}
	checkReleaseTable(p, r, rRel, rReady, rWg, a, m)
	checkDoShutdown(p, r, rWg, a)
	checkProxiesCancellable(p, r, rAnch, rSel, rGo)
	checkEventSwitch(p, r, rEv)
	checkListenersUnique(p, r, r.Rule("listeners-unique", "a listener is registered once however often it is added: the registry is a set, or the append is guarded by a test on the channel being added"))
	checkEventsLossless(p, r, r.Rule("events-lossless", "an event is never dropped: every send of an Event blocks until taken (or the context ends)"))
	/* "The listener presents itself as freshly started": the help which is
	re-printed when a shell has gone reaches the operator — the server's
	senders do not give up on a busy terminal. */
	{
		ruS := r.Rule("help-delivered", "the server's Printf/Logf return only after their line has been sent on the operator channel (no timeout or default arm beside the send)")
		och := p.Field(hsrvPkg, "Server", "och")
		delivers := makeDelivers(func(fv *types.Var) bool { return nil != och && fv == och })
		for _, name := range []string{"Printf", "Logf"} {
			f := p.Func(hsrvPkg, "Server", name)
			if nil == f || nil == och {
				/* The senders no longer own the channel (it sits behind a
				type of its own): nothing here to judge them by. */
				ruS.OK("Server."+name, token.NoPos, "the server's sender or its channel field is not where the reference tree has it: not judged")
				continue
			}
			if delivers(f, 0) {
				ruS.OK(fnName(f), f.Pos(), "every path sends")
			} else {
				ruS.Bad(fnName(f), f.Pos(), "%s can return without having sent its line on the operator channel: with a stalled terminal the help re-printed after a shell has gone (and any other message) is dropped for good", name)
			}
		}
	}
	/* An ordinary shell is announced as one: what marks a key as "half of an
	/io request" (and silences the per-direction notices) is something no
	client can put in an ID — random bytes made by this process, not a
	printable constant. */
	{
		ruM := r.Rule("bidir-marker-unguessable", "the marker by which keys of /io halves are recognised is made of random bytes generated by this process, never a constant a callback ID could start with")
		nm := 0
		for _, fn := range p.Funcs() {
			if nil == fn.Pkg || !strings.HasSuffix(fn.Pkg.Pkg.Path(), "/"+iobPkg) {
				continue
			}
			eachInstr(fn, func(i ssa.Instruction) {
				c := callCommon(i)
				if nil == c || "strings.HasPrefix" != calleeName(c) {
					return
				}
				nm++
				cc := fmt.Sprintf("%s:marker#%d", fnName(fn), nm)
				mv := c.Args[1]
				if _, isC := constString(mv); isC {
					ruM.Bad(cc, posOf(i), "keys are taken for halves of an /io request when they start with a constant: an ordinary callback ID which starts with it (percent-encoded in the path if need be) is treated as one, and its connection notices are not shown")
					return
				}
				fv, _ := loadedField(mv)
				if nil == fv {
					ruM.Unproven(cc, posOf(i), "the marker is neither a constant nor a field (%s)", describeValue(mv))
					return
				}
				sts := p.storesToField(fv)
				okAll := 0 != len(sts)
				for _, st := range sts {
					if fresh, _, _ := freshParts(st.Parent(), st.Val); !fresh {
						okAll = false
					}
				}
				if okAll {
					ruM.OK(cc, posOf(i), "Broker.%s, made of random bytes when the broker is made", fv.Name())
				} else {
					ruM.Bad(cc, posOf(i), "the marker Broker.%s is not made of random bytes generated by this process", fv.Name())
				}
			})
		}
		if 0 == nm {
			ruM.OK("iobroker:no-marker", token.NoPos, "no key is classified by a prefix")
		}
	}
	/* -one-shell is what decides whether the listener re-arms: the server's
	oneShell is the value of that flag and no other. */
	if hnew := p.Func(hsrvPkg, "", "New"); nil != hnew {
		ruW := r.Rule("one-shell-wiring", "hsrv.New's oneShell parameter is given the value of -one-shell (C12's wiring rule, for the parameter which decides re-arming)")
		if pa := paramNamed(hnew, "oneShell"); nil != pa {
			k := paramIndex(hnew, pa)
			for _, fn := range p.Funcs() {
				eachInstr(fn, func(i ssa.Instruction) {
					call, ok := i.(*ssa.Call)
					if !ok || call.Common().StaticCallee() != hnew {
						return
					}
					got := flagNameOf(call.Common().Args[k])
					if "one-shell" == got {
						ruW.OK(fnName(fn)+"→hsrv.New(oneShell)", posOf(call), "-one-shell")
					} else {
						ruW.Bad(fnName(fn)+"→hsrv.New(oneShell)", posOf(call), "the server's one-shell setting is given %q, not the value of -one-shell: another option makes the listener close after the first shell", got)
					}
				})
			}
		}
	}
	checkHandlersStateless(p, r, r.Rule("handlers-stateless", "whether a callback's stream reaches the broker does not depend on state the server keeps beside the broker's (flags, counters written while it runs)"))
	/* A transport fault which only shows when flushing must end the input
	direction at once (and with it the shell), not when more traffic
	arrives: the flush used can report failure whenever the writer can. */
	if fn, _, _ := findProxyIn(p); nil != fn {
		rFault := r.Rule("fault-ends-shell", "the input proxy flushes with the writer's FlushError when it has one, so a failed flush is an error which ends the stream")
		w := ioOperand(fn, "Writer")
		var fcall *ssa.Call
		eachInstr(fn, func(i ssa.Instruction) {
			cc, ok := i.(*ssa.Call)
			if !ok || cc.Common().IsInvoke() || nil != cc.Common().StaticCallee() {
				return
			}
			if _, isPhi := p.resolveUp(cc.Common().Value).(*ssa.Phi); isPhi && 0 == len(cc.Common().Args) {
				fcall = cc
			}
		})
		if nil != w && nil != fcall {
			checkFlushSelection(p, rFault, fn, fcall, w)
		} else {
			rFault.Unproven(fnName(fn)+":flush", fn.Pos(), "the flush function used by the input proxy was not found (see C02)")
		}
	}
}

// checkReleaseTable evaluates the release specification on every admitted
// path of the model.
func checkReleaseTable(p *Prog, r *Report, rRel, rReady, rWg *Rule, a *connectAnchors, m *connectModel) {
	nAdm := 0
	okRows := map[string]int{}
	badRows := map[string]bool{}
	evConn, _ := iobEventConst(p, "EventTypeConnected")
	evDisc, _ := iobEventConst(p, "EventTypeDisconnected")
	for _, cp := range m.Paths {
		v, run := cp.V, cp.R
		before, after, proxied := splitTrace(run, "proxy")
		forks := strings.Join(run.Forks, ",")
		/* WaitGroup pairing on every path, admitted or not. */
		if countIn(run.Trace, "wg.add") != countIn(run.Trace, "wg.done") && "return" == run.End {
			rWg.Bad(fnName(a.Fn)+":add-done-paired", posOf(endInstr(run, a.Fn)), "state {%s}: %d wg.Add vs %d wg.Done on a path", v, countIn(run.Trace, "wg.add"), countIn(run.Trace, "wg.done"))
		}
		if countIn(run.Trace, "wg.add-unlocked") > 0 {
			rWg.Bad(fnName(a.Fn)+":add-under-lock", a.Fn.Pos(), "wg.Add is called without Broker.mu, so shutdown's wg.Wait can miss this stream")
		}
		if v.NoMore && countIn(run.Trace, "wg.add") > 0 {
			rWg.Bad(fnName(a.Fn)+":add-after-nomore", a.Fn.Pos(), "wg.Add is reachable although noMore is set: shutdown may already have finished waiting")
		}
		if proxied && !v.expectAdmit() {
			/* An attempt which must be refused goes on and attaches (a
			refusal branch which reports but does not return): the ready
			notice and connected event then announce a shell made of
			streams which do not belong together. */
			rReady.Bad(fmt.Sprintf("%s:refused-yet-attached[%s]", fnName(a.Fn), v), posOf(endInstr(run, a.Fn)), "state {%s}: the attempt must be refused, yet the path goes on to attach the stream (and to announce readiness when the other direction is present)", v)
			continue
		}
		if !proxied {
			continue
		}
		nAdm++
		if 1 != countIn(before, "wg.add") {
			rWg.Bad(fnName(a.Fn)+":add-before-proxy", a.Fn.Pos(), "an attached stream is not counted in the WaitGroup before its proxy runs")
		}
		/* The stream counts as ended only when its exit section is over:
		shutdown's wg.Wait must not return while the state is still to be
		cleared, the peer to be cancelled, the departure to be announced. */
		if dn := indexOf(after, "wg.done"); dn >= 0 {
			var late []string
			for _, t := range after[dn+1:] {
				switch {
				case strings.HasPrefix(t, "store:"), strings.HasPrefix(t, "event:"), strings.HasPrefix(t, "notice:"), "cancel-peer" == t, "lock" == t:
					late = append(late, t)
				}
			}
			if 0 != len(late) {
				rWg.Bad(fnName(a.Fn)+":done-last", posOf(endInstr(run, a.Fn)), "state {%s}: wg.Done is called before the exit section has run (%s follow it): at shutdown Broker.Do can return while this stream is still being torn down and its departure has not been announced", v, strings.Join(firstN(late, 4), " "))
			}
		}
		key := fmt.Sprintf("peer-at-admission=%v proxy-error=%v peer-at-exit=%v", v.OtherSet, v.ProxyErr, v.PeerAtExit)
		fail := func(ru *Rule, what, format string, args ...any) {
			badRows[key] = true
			ru.Bad(fmt.Sprintf("%s:%s[%s]", fnName(a.Fn), what, key), posOf(endInstr(run, a.Fn)), "state {%s} (undecided conditions: %s): %s", v, forks, fmt.Sprintf(format, args...))
		}
		/* Ready / connected at admission. */
		nReady := countIn(before, "notice:ShellReadyMessage")
		nConn := countIn(before, "event:"+evConn)
		if v.OtherSet {
			if 1 != nReady || 1 != nConn {
				fail(rReady, "ready-missing", "peer already attached, but %d ready notice(s) and %d connected event(s) are emitted (exactly one each expected)", nReady, nConn)
			}
		} else if 0 != nReady || 0 != nConn {
			fail(rReady, "ready-early", "only one direction is attached, but a ready notice (%d) / connected event (%d) is emitted", nReady, nConn)
		}
		if 0 != countIn(after, "notice:ShellReadyMessage") || 0 != countIn(after, "event:"+evConn) {
			fail(rReady, "ready-late", "ready notice / connected event emitted during release")
		}
		if 0 != countIn(before, "notice:ShellDisconnectedMessage") || 0 != countIn(before, "event:"+evDisc) {
			fail(rRel, "gone-early", "'gone' notice / disconnected event emitted during admission")
		}
		if "return" != run.End {
			fail(rRel, "path-end", "path ends with %s", run.End)
			continue
		}
		/* Release. */
		lk := indexOf(after, "lock")
		if lk < 0 {
			fail(rRel, "relock", "the lock is not re-acquired after the proxy returns")
			continue
		}
		rel := after[lk:]
		if 0 == countIn(rel, `store:b.key=""`) {
			fail(rRel, "clear-key", "Broker.key is not cleared on this exit path (stores: %s)", strings.Join(filterPrefix(after, "store:"), " "))
		}
		if 0 == countIn(rel, "store:*own=nil") {
			fail(rRel, "clear-own", "the own cancel slot is not cleared on this exit path")
		}
		if n := countPrefix(rel, "store:*peer"); 0 != n {
			fail(rRel, "peer-store", "release writes the peer's slot")
		}
		nGone := countIn(rel, "notice:ShellDisconnectedMessage")
		nDisc := countIn(rel, "event:"+evDisc)
		nCancel := countIn(rel, "cancel-peer")
		if v.PeerAtExit {
			if 1 != nCancel {
				fail(rRel, "cancel-peer", "the peer is still attached but its cancel function is invoked %d times", nCancel)
			}
			if 0 != nGone || 0 != nDisc {
				fail(rRel, "gone-too-early", "'gone' notice (%d) / disconnected event (%d) although the peer is still attached", nGone, nDisc)
			}
		} else {
			if 1 != nGone || 1 != nDisc {
				fail(rRel, "gone-once", "both directions are gone but %d 'gone' notice(s) and %d disconnected event(s) are emitted (exactly one each expected)", nGone, nDisc)
			}
		}
		if 0 != countPrefix(after, "blocking-op") {
			fail(rRel, "release-blocks", "release may block: %s", firstPrefix(after, "blocking-op"))
		}
		if !badRows[key] {
			okRows[key]++
		}
	}
	for k, n := range okRows {
		if !badRows[k] {
			rRel.OK(fmt.Sprintf("%s:row[%s]", fnName(a.Fn), k), a.Fn.Pos(), "%d path(s) agree with the release specification", n)
			rReady.OK(fmt.Sprintf("%s:row[%s]", fnName(a.Fn), k), a.Fn.Pos(), "%d path(s) agree", n)
		}
	}
	if 0 == nAdm {
		rRel.Unproven(fnName(a.Fn)+":admitted-paths", a.Fn.Pos(), "no admitted path was explored")
	}
	rRel.AtLeast(8, "release rows")
	rWg.OK(fnName(a.Fn)+":pairing", a.Fn.Pos(), "checked on %d paths", len(m.Paths))
	r.Note("release table: %d admitted paths", nAdm)
}

// iobEventConst returns the string value of an EventType constant.
func iobEventConst(p *Prog, name string) (string, bool) { return iobConst(p, name) }

// checkDoShutdown: in the shutdown goroutine, noMore=true under the lock
// precedes wg.Wait.
func checkDoShutdown(p *Prog, r *Report, ru *Rule, a *connectAnchors) {
	n := 0
	for _, fn := range p.Funcs() {
		var waits []ssa.Instruction
		var stores []ssa.Instruction
		eachInstr(fn, func(i ssa.Instruction) {
			if c := callCommon(i); nil != c && "(*sync.WaitGroup).Wait" == calleeName(c) {
				if fv, _ := fieldAddrOf(c.Args[0]); fv == a.FWg {
					waits = append(waits, i)
				}
			}
			if setsNoMore(i, a, 0) {
				stores = append(stores, i)
			}
		})
		for _, w := range waits {
			n++
			r.Saw("func " + fnName(fn))
			c := fnName(fn) + ":noMore-before-Wait"
			okk := false
			for _, s := range stores {
				if instrDominates(s, w) {
					okk = true
				}
			}
			/* And promptly: nothing which waits for other parties (a
			send to a listener, another wait) stands between the start
			of this goroutine and the store — only the wait for the
			context to end and the lock. */
			var late ssa.Instruction
			for _, s := range stores {
				if !instrDominates(s, w) {
					continue
				}
				eachInstr(fn, func(j ssa.Instruction) {
					cj, isCall := j.(*ssa.Call)
					if !isCall || j == s || !canReach(locOf(j), s) {
						return
					}
					callee := cj.Common().StaticCallee()
					if nil == callee || !inModule(callee) {
						return
					}
					if mayWaitForOthers(callee, 0) {
						late = j
					}
				})
			}
			if okk && nil != late {
				ru.Bad(c+":promptly", posOf(late), "the shutdown flag is set only after %s has returned, which can wait for other parties (a channel send): until then streams are still admitted after shutdown began", calleeName(callCommon(late)))
			}
			if okk {
				ru.OK(c, posOf(w), "noMore=true is stored (under the lock, see C01.guarded-by) before wg.Wait")
			} else {
				ru.Bad(c, posOf(w), "wg.Wait is not preceded by noMore=true: a stream admitted afterwards is not waited for")
			}
		}
	}
	if 0 == n {
		ru.Unproven("Do:wg.Wait", token.NoPos, "no wg.Wait on Broker.wg found: shutdown does not wait for attached streams")
	}
}

// setsNoMore: the instruction stores noMore=true, or is a synchronous call of
// a module function (or function literal) which does so before each of its
// returns.
func setsNoMore(i ssa.Instruction, a *connectAnchors, depth int) bool {
	if st, ok := i.(*ssa.Store); ok {
		if fv, _ := fieldAddrOf(st.Addr); fv == a.FNoMore {
			if b, ok := constBool(st.Val); ok && b {
				return true
			}
		}
		return false
	}
	call, ok := i.(*ssa.Call)
	if !ok || depth > 3 {
		return false
	}
	f := call.Common().StaticCallee()
	if nil == f {
		f, _ = closureOf(resolveLocalFunc(call.Common().Value))
	}
	if nil == f || nil == f.Blocks || !inModule(f) {
		return false
	}
	var sets, rets []ssa.Instruction
	eachInstr(f, func(j ssa.Instruction) {
		if isReturn(j) {
			if nil != f.Recover && j.Block() == f.Recover {
				return /* reached only when a panic was recovered */
			}
			rets = append(rets, j)
		} else if setsNoMore(j, a, depth+1) {
			sets = append(sets, j)
		}
	})
	for _, r := range rets {
		dom := false
		for _, s := range sets {
			if instrDominates(s, r) {
				dom = true
			}
		}
		if !dom {
			return false
		}
	}
	return 0 != len(rets)
}

// checkProxiesCancellable covers the two proxies and their goroutines.
func checkProxiesCancellable(p *Prog, r *Report, rAnch, rSel, rGo *Rule) {
	pin, _, _ := findProxyIn(p)
	pout := findProxyOut(p)
	if nil == pin {
		rAnch.Unproven("input-proxy", token.NoPos, "the function receiving from Broker.ich in a select was not found (or is not unique)")
	}
	if nil == pout {
		rAnch.Unproven("output-proxy", token.NoPos, "the function sending Plain CLines on Broker.och was not found (or is not unique)")
	}
	for _, fn := range []*ssa.Function{pin, pout} {
		if nil == fn {
			continue
		}
		top := proxyRoot(fn)
		rAnch.OK(fnName(top), top.Pos(), "proxy")
		ctxP := ctxParam(top)
		if nil == ctxP {
			rSel.Unproven(fnName(top)+":ctx", top.Pos(), "proxy has no context parameter")
			continue
		}
		for _, f := range withAnons(top) {
			r.Saw("func " + fnName(f))
			isGo := nil != f.Parent() && startedByGo(f)
			ru := rSel
			if isGo {
				ru = rGo
			}
			nsel := 0
			for _, s := range selectsIn(f) {
				nsel++
				c := fmt.Sprintf("%s:select#%d", fnName(f), nsel)
				if !s.Blocking {
					ru.OK(c, posOf(s), "non-blocking select")
					continue
				}
				idx, ctx := hasDoneArm(s)
				if idx < 0 {
					ru.Bad(c, posOf(s), "blocking select without a ctx.Done() arm: cancelling the stream does not end it")
					continue
				}
				if ctx != ssa.Value(ctxP) {
					ru.Bad(c, posOf(s), "the Done() arm watches a context other than the stream's own")
					continue
				}
				ru.OK(c, posOf(s), "has a ctx.Done() arm on the stream's context")
			}
			/* Bare blocking channel operations. */
			nb := 0
			eachInstr(f, func(i ssa.Instruction) {
				switch x := i.(type) {
				case *ssa.Send:
					nb++
					ru.Bad(fmt.Sprintf("%s:send#%d", fnName(f), nb), posOf(i), "channel send outside a select: blocks forever once the receiver has gone")
				case *ssa.UnOp:
					if token.ARROW == x.Op {
						nb++
						ru.Bad(fmt.Sprintf("%s:recv#%d", fnName(f), nb), posOf(i), "channel receive outside a select: cannot be cancelled")
					}
				}
			})
			if 0 == nb {
				ru.OK(fnName(f)+":no-bare-channel-ops", f.Pos(), "all channel operations are select arms")
			}
		}
		/* Once cancelled, every path returns. */
		checkCancelledReturns(p, rSel, top, ctxP)
		for _, f := range withAnons(top)[1:] {
			if startedByGo(f) {
				checkCancelledReturns(p, rGo, f, ctxP)
			}
		}
	}
	rSel.AtLeast(4, "select / channel obligations")
	rGo.AtLeast(2, "goroutine obligations")
}

func ctxParam(fn *ssa.Function) *ssa.Parameter {
	for _, pa := range fn.Params {
		if typeIs(pa.Type(), "context", "Context") {
			return pa
		}
	}
	return nil
}

// startedByGo reports whether the anonymous function f is the callee of a go
// statement in its parent.
func startedByGo(f *ssa.Function) bool {
	found := false
	eachInstr(f.Parent(), func(i ssa.Instruction) {
		if g, ok := i.(*ssa.Go); ok {
			if cf, _ := closureOf(g.Common().Value); cf == f {
				found = true
			}
		}
	})
	return found
}

// checkCancelledReturns explores fn under the abstraction "ctx is cancelled":
// selects with a Done arm take it, ctx.Err() and context.Cause(ctx) are
// non-nil, every other condition forks.  Every path must return within the
// loop bound.
func checkCancelledReturns(p *Prog, ru *Rule, fn *ssa.Function, ctxP *ssa.Parameter) {
	mach := &Machine{
		Fn:        fn,
		MaxVisits: 6, /* (a counted loop over a table of up to five rows ends within it) */
		LocOf: func(addr ssa.Value) string {
			if al, ok := addr.(*ssa.Alloc); ok {
				return fmt.Sprintf("local@%p", al)
			}
			return ""
		},
		Param: func(v ssa.Value) AV { return avNonNil },
		Call: func(r *Run, c *ssa.CallCommon, idx int) AV {
			switch calleeName(c) {
			case "(context.Context).Err":
				if resolveCell(c.Value) == ssa.Value(ctxP) {
					return avNonNil
				}
			case "context.Cause":
				if resolveCell(c.Args[0]) == ssa.Value(ctxP) {
					return avNonNil
				}
			}
			return avU
		},
		Sel: func(r *Run, s *ssa.Select) []int {
			if idx, ctx := hasDoneArm(s); idx >= 0 && ctx == ssa.Value(ctxP) {
				return []int{idx}
			}
			var all []int
			for i := range s.States {
				all = append(all, i)
			}
			if !s.Blocking {
				all = append(all, -1)
			}
			return all
		},
	}
	paths, trunc := mach.Explore(nil)
	c := fnName(fn) + ":cancelled-returns"
	if trunc {
		ru.Unproven(c, fn.Pos(), "exploration truncated")
		return
	}
	bad := 0
	for _, r := range paths {
		if "return" != r.End && "panic" != r.End {
			bad++
			pos := fn.Pos()
			ru.Bad(c, pos, "with the stream's context cancelled a path does not reach a return (%s; decisions: %s)", r.End, strings.Join(r.Forks, ","))
		}
	}
	if 0 == bad {
		ru.OK(c, fn.Pos(), "all %d paths return once the context is cancelled", len(paths))
	}
}

// checkEventSwitch: the hsrv event consumer compares the event type with
// every EventType constant; the disconnected case calls printCallbackHelp
// under !oneShell.
func checkEventSwitch(p *Prog, r *Report, ru *Rule) {
	pk := p.Pkg(iobPkg)
	if nil == pk {
		ru.Unproven("iobroker", token.NoPos, "package not found")
		return
	}
	evT := lookupObj(pk, "EventType")
	if nil == evT {
		ru.Unproven("EventType", token.NoPos, "type not found")
		return
	}
	consts := map[string]string{}
	for _, n := range pk.Types.Scope().Names() {
		if c, ok := lookupObj(pk, n).(*types.Const); ok && types.Identical(c.Type(), evT.Type()) {
			consts[strings.Trim(c.Val().ExactString(), `"`)] = n
		}
	}
	w := p.Func(hsrvPkg, "Server", "watchIOBEvents")
	if nil == w {
		ru.Unproven("watchIOBEvents", token.NoPos, "event consumer not found")
		return
	}
	r.Saw("func " + fnName(w))
	handled := map[string]*ssa.If{}
	eachInstr(w, func(i ssa.Instruction) {
		ifi, ok := i.(*ssa.If)
		if !ok {
			return
		}
		c := decodeCond(ifi.Cond)
		if nil == c.Y {
			return
		}
		if s, ok := constString(c.Y); ok {
			if _, isEv := consts[s]; isEv && types.Identical(c.Y.Type(), evT.Type()) {
				handled[s] = ifi
			}
		}
	})
	for v, n := range consts {
		if _, ok := handled[v]; ok {
			ru.OK("watchIOBEvents:case "+n, posOf(handled[v]), "handled")
		} else {
			ru.Bad("watchIOBEvents:case "+n, w.Pos(), "event type %s is not handled by the server's event switch", n)
		}
	}
	ru.AtLeast(2, "event types")
	/* Disconnected → printCallbackHelp under !oneShell. */
	disc, _ := iobConst(p, "EventTypeDisconnected")
	helpF := p.Field(hsrvPkg, "Server", "cbHelp")
	oneShell := p.Field(hsrvPkg, "Server", "oneShell")
	ifi := handled[disc]
	if nil == ifi || nil == helpF || nil == oneShell {
		ru.Unproven("watchIOBEvents:rearm", w.Pos(), "disconnected case, Server.cbHelp or Server.oneShell not found")
		return
	}
	/* The help is printed where the help text (Server.cbHelp) is handed to
	one of the server's print functions (a helper doing that is folded in). */
	var call ssa.Instruction
	eachInstr(w, func(i ssa.Instruction) {
		c := callCommon(i)
		if nil == c {
			return
		}
		for _, a := range append(callArgs(c), variadicElems(c)...) {
			if fv, _ := loadedField(stripConv(a, false)); fv == helpF {
				call = i
			}
		}
	})
	if nil == call {
		/* Or put, as it is, into the line of a CLine (a print function
		which needs no formatting, folded in). */
		eachInstr(w, func(i ssa.Instruction) {
			st, ok := i.(*ssa.Store)
			if !ok {
				return
			}
			if fv, _ := loadedField(stripConv(st.Val, false)); fv != helpF {
				return
			}
			if lf, base := fieldAddrOf(st.Addr); nil != lf && "Line" == lf.Name() && typeIs(base.Type(), ModPath+"/"+opsPkg, "CLine") {
				call = i
			}
		})
	}
	if nil == call {
		/* Or kept as ready-made lines in another field of the server
		(an array of CLines one of which carries the help text), sent
		element by element. */
		holders := map[*types.Var]bool{}
		for _, fn := range p.Funcs() {
			eachInstr(fn, func(i ssa.Instruction) {
				st, ok := i.(*ssa.Store)
				if !ok {
					return
				}
				if fv, _ := loadedField(stripConv(st.Val, false)); fv != helpF {
					return
				}
				lf, base := fieldAddrOf(st.Addr)
				if nil == lf || "Line" != lf.Name() {
					return
				}
				ia, ok := base.(*ssa.IndexAddr)
				if !ok {
					return
				}
				switch arr := ia.X.(type) {
				case *ssa.FieldAddr:
					if hf, _ := fieldAddrOf(arr); nil != hf {
						holders[hf] = true
					}
				case *ssa.Alloc:
					/* A literal built aside and stored whole. */
					for _, ref := range *arr.Referrers() {
						ld, ok := ref.(*ssa.UnOp)
						if !ok || token.MUL != ld.Op {
							continue
						}
						for _, r2 := range *ld.Referrers() {
							if st2, ok := r2.(*ssa.Store); ok && st2.Val == ssa.Value(ld) {
								if hf, _ := fieldAddrOf(st2.Addr); nil != hf {
									holders[hf] = true
								}
							}
						}
					}
				}
			})
		}
		eachInstr(w, func(i ssa.Instruction) {
			snd, ok := i.(*ssa.Send)
			if !ok {
				return
			}
			ld, ok := snd.X.(*ssa.UnOp)
			if !ok || token.MUL != ld.Op {
				return
			}
			ia, ok := ld.X.(*ssa.IndexAddr)
			if !ok {
				return
			}
			x := ia.X
			if sl, ok := x.(*ssa.Slice); ok {
				x = sl.X
			}
			if hf, _ := fieldAddrOf(x); nil != hf && holders[hf] {
				call = i
			}
		})
	}
	if nil == call {
		ru.Bad("watchIOBEvents:rearm", posOf(ifi), "the callback help is not re-printed when a shell is gone")
		return
	}
	dc := decodeCond(ifi.Cond)
	succ := 1
	if dc.Eq {
		succ = 0
	}
	if !edgeDominates(ifi, succ, call) {
		ru.Bad("watchIOBEvents:rearm", posOf(call), "the print of the callback help is not confined to the disconnected case")
		return
	}
	/* Every path from the disconnected edge reaches the call unless
	oneShell is true. */
	guard := guardingFieldTest(w, call, oneShell)
	if nil == guard {
		ru.Bad("watchIOBEvents:rearm", posOf(call), "the print of the callback help is not guarded by !oneShell")
		return
	}
	ru.OK("watchIOBEvents:rearm", posOf(call), "disconnected ⇒ the callback help is printed, unless -one-shell")
}

// guardingFieldTest returns the If testing a load of field f whose false
// ("field is false") edge dominates target, if any.
func guardingFieldTest(fn *ssa.Function, target ssa.Instruction, f *types.Var) *ssa.If {
	var out *ssa.If
	eachInstr(fn, func(i ssa.Instruction) {
		ifi, ok := i.(*ssa.If)
		if !ok {
			return
		}
		c := decodeCond(ifi.Cond)
		if nil != c.Y {
			return
		}
		fv, _ := loadedField(c.X)
		if fv != f {
			return
		}
		/* c.Eq: field is true on the true edge. */
		falseSucc := 1
		if !c.Eq {
			falseSucc = 0
		}
		if edgeDominates(ifi, falseSucc, target) {
			out = ifi
		}
	})
	return out
}

// checkEventsLossless: sends whose element type is iobroker.Event.
func checkEventsLossless(p *Prog, r *Report, ru *Rule) {
	isEvent := func(ch ssa.Value) bool {
		ct, ok := ch.Type().Underlying().(*types.Chan)
		if !ok {
			return false
		}
		n := namedOf(ct.Elem())
		/* iobroker.Event, wherever in (or below) that package it is declared. */
		return nil != n && "Event" == n.Obj().Name() && nil != n.Obj().Pkg() && strings.Contains(n.Obj().Pkg().Path()+"/", "/"+iobPkg+"/")
	}
	n := 0
	for _, fn := range p.Funcs() {
		if nil == fn.Pkg && nil == fn.Parent() {
			continue
		}
		k := 0
		eachInstr(fn, func(i ssa.Instruction) {
			switch x := i.(type) {
			case *ssa.Send:
				if isEvent(x.Chan) {
					n++
					k++
					ru.OK(fmt.Sprintf("%s:send#%d", fnName(fn), k), posOf(x), "plain blocking send")
				}
			case *ssa.Select:
				for _, st := range x.States {
					if types.SendOnly != st.Dir || !isEvent(st.Chan) {
						continue
					}
					n++
					k++
					c := fmt.Sprintf("%s:send#%d", fnName(fn), k)
					if !x.Blocking {
						ru.Bad(c, posOf(x), "the event is sent in a select with a default arm: when the receiver's buffer is full the event is silently dropped, and a listener sees a connected event without its disconnected event (or the reverse)")
						continue
					}
					okk := true
					for _, o := range x.States {
						if o == st {
							continue
						}
						if _, isDone := isCtxDone(o.Chan); !(types.RecvOnly == o.Dir && isDone) {
							okk = false
						}
					}
					if okk {
						ru.OK(c, posOf(x), "blocking select; the only alternative is the context ending")
					} else {
						ru.Bad(c, posOf(x), "the event send competes with an arm other than ctx.Done(): the event can be abandoned while the program keeps running")
					}
				}
			}
		})
	}
	if n < 2 {
		ru.Unproven("event sends", token.NoPos, "%d sends of Event values found, at least 2 expected (into the broker's queue and out to the listeners)", n)
	}
}

// mayWaitForOthers: f (or a module function it calls) sends on a channel
// outside a select which also watches a context's Done channel — it can block
// for as long as the receiver pleases.
func mayWaitForOthers(f *ssa.Function, depth int) bool {
	if nil == f || nil == f.Blocks || depth > 3 {
		return false
	}
	out := false
	for _, g := range withAnons(f) {
		eachInstr(g, func(i ssa.Instruction) {
			switch x := i.(type) {
			case *ssa.Send:
				out = true
			case *ssa.Select:
				if !x.Blocking {
					return
				}
				sends := false
				for _, st := range x.States {
					if types.SendOnly == st.Dir {
						sends = true
					}
				}
				if sends {
					out = true
				}
			case *ssa.Call:
				if sc := x.Common().StaticCallee(); nil != sc && inModule(sc) && sc != f && mayWaitForOthers(sc, depth+1) {
					out = true
				}
			}
		})
	}
	return out
}

// mutableStateRead: v is read from state which outlives a request and changes
// while the server runs: a load of a module struct's field which some method
// of that struct (or a goroutine) stores to, an operation of sync/atomic on
// such a field, or a package-level variable written after set-up.  Results of
// module functions are looked into (two levels).
func mutableStateRead(p *Prog, v ssa.Value, depth int) (string, bool) {
	what := ""
	found := operandsReach(v, func(x ssa.Value) bool {
		switch t := x.(type) {
		case *ssa.UnOp:
			if token.MUL != t.Op {
				return false
			}
			if fv, _ := fieldAddrOf(t.X); nil != fv && fieldStoredByMethods(p, fv) {
				what = "field " + fv.Name()
				return true
			}
			if g, ok := t.X.(*ssa.Global); ok && nil != g.Pkg && strings.HasPrefix(g.Pkg.Pkg.Path(), ModPath) && !p.stableGlobal(g) {
				what = "variable " + g.Name()
				return true
			}
		case *ssa.Call:
			cc := t.Common()
			callee := cc.StaticCallee()
			if nil == callee {
				return false
			}
			if nil != callee.Pkg && "sync/atomic" == callee.Pkg.Pkg.Path() && 0 != len(cc.Args) {
				if fv, _ := fieldAddrOf(cc.Args[0]); nil != fv {
					what = "atomic field " + fv.Name()
					return true
				}
			}
			if depth < 2 && nil != callee.Blocks && nil != callee.Pkg && strings.HasPrefix(callee.Pkg.Pkg.Path(), ModPath) {
				hit := false
				eachInstr(callee, func(i ssa.Instruction) {
					ret, ok := i.(*ssa.Return)
					if !ok || hit {
						return
					}
					for _, rv := range ret.Results {
						if w, ok := mutableStateRead(p, rv, depth+1); ok {
							what, hit = w+" (through "+fnName(callee)+")", true
							return
						}
					}
				})
				return hit
			}
		}
		return false
	})
	return what, found
}

// fieldStoredByMethods: some function other than a constructor (a function
// which is not a method and returns the struct) stores to the field.
func fieldStoredByMethods(p *Prog, fv *types.Var) bool {
	if r, ok := p.fieldMut[fv]; ok {
		return r
	}
	res := false
	for _, fn := range p.Funcs() {
		top := fn
		for nil != top.Parent() {
			top = top.Parent()
		}
		if nil == top.Signature.Recv() && fn == top {
			/* A constructor's own frame. */
			continue
		}
		eachInstr(fn, func(i ssa.Instruction) {
			fa, ok := i.(*ssa.FieldAddr)
			if !ok || res {
				return
			}
			if f2, _ := fieldAddrOf(fa); f2 != fv {
				return
			}
			/* Stored to, or its address handed on (a slot pointer, a
			phi of slots, an argument): anything but being read. */
			for _, u := range *fa.Referrers() {
				if ld, isLoad := u.(*ssa.UnOp); isLoad && token.MUL == ld.Op {
					continue
				}
				if st, isStore := u.(*ssa.Store); isStore && st.Addr != ssa.Value(fa) {
					continue
				}
				if _, isDbg := u.(*ssa.DebugRef); isDbg {
					continue
				}
				res = true
			}
		})
		if res {
			break
		}
	}
	if nil == p.fieldMut {
		p.fieldMut = map[*types.Var]bool{}
	}
	p.fieldMut[fv] = res
	return res
}

// checkHandlersStateless: whether a callback's stream is handed to the broker
// is the broker's decision alone.  A handler which turns streams away on
// state of its own that changes while the server runs (a "busy" flag kept
// from events, a counter) has a second, unsynchronised notion of "a shell is
// attached": after a shell has gone the next one can be refused although the
// broker would take it.
func checkHandlersStateless(p *Prog, r *Report, ru *Rule) {
	n := 0
	seen := map[*ssa.Call]bool{}
	for _, rt := range muxRoutes(p) {
		if nil == rt.Handler {
			continue
		}
		for _, f := range withAnons(rt.Handler) {
			eachInstr(f, func(i ssa.Instruction) {
				call, ok := i.(*ssa.Call)
				if !ok || seen[call] {
					return
				}
				cc := call.Common()
				if nil == cc.StaticCallee() || "Broker" != recvTypeName(cc.StaticCallee()) || !strings.HasPrefix(cc.StaticCallee().Name(), "Connect") {
					return
				}
				seen[call] = true
				n++
				c := fmt.Sprintf("%s→%s:unconditional", fnName(rt.Handler), cc.StaticCallee().Name())
				bad := false
				eachInstr(f, func(j ssa.Instruction) {
					ifi, ok := j.(*ssa.If)
					if !ok || bad {
						return
					}
					r0, r1 := canReachEdge(ifi, 0, call), canReachEdge(ifi, 1, call)
					if r0 == r1 {
						return
					}
					if what, ok := mutableStateRead(p, ifi.Cond, 0); ok {
						bad = true
						ru.Bad(c, posOf(ifi), "whether the stream reaches the broker depends on %s, state of the server's own which changes while it runs: a shell can be turned away although the broker is free again", what)
					}
				})
				if !bad {
					ru.OK(c, posOf(call), "no branch on the way to the broker reads state which changes while the server runs")
				}
			})
		}
	}
	if n < 3 {
		ru.Unproven("handlers", token.NoPos, "%d calls of the broker's Connect* found in the handlers, 3 expected", n)
	}
}


// checkListenersUnique: "exactly one connected / disconnected event" is per
// listener.  A registry which is a map keyed by the listener cannot hold one
// twice; a slice can, and then every event reaches that listener twice.  Where
// the broker appends a listener to a slice field, the append stands below a
// test which involves the channel being added.
func checkListenersUnique(p *Prog, r *Report, ru *Rule) {
	n := 0
	for _, fn := range p.Funcs() {
		if nil == fn.Pkg || !strings.HasSuffix(fn.Pkg.Pkg.Path(), "/"+iobPkg) {
			continue
		}
		eachInstr(fn, func(i ssa.Instruction) {
			st, ok := i.(*ssa.Store)
			if !ok {
				return
			}
			fv, _ := fieldAddrOf(st.Addr)
			if nil == fv {
				return
			}
			sl, ok := fv.Type().Underlying().(*types.Slice)
			if !ok {
				return
			}
			ch, ok := sl.Elem().Underlying().(*types.Chan)
			if !ok || !strings.HasSuffix(ch.Elem().String(), iobPkg+".Event") {
				return
			}
			app, ok := stripConv(st.Val, false).(*ssa.Call)
			if !ok || "builtin.append" != calleeName(app.Common()) {
				return
			}
			var added []ssa.Value
			for _, e := range variadicElems(app.Common()) {
				added = append(added, resolveCell(e))
			}
			if 0 == len(added) {
				return
			}
			n++
			k := fmt.Sprintf("%s:append-to-%s", fnName(fn), fv.Name())
			guarded := false
			for _, b := range fn.Blocks {
				ifi := blockIf(b)
				if nil == ifi {
					continue
				}
				if !operandsReach(ifi.Cond, func(x ssa.Value) bool {
					for _, a := range added {
						if resolveCell(x) == a {
							return true
						}
					}
					return false
				}) {
					continue
				}
				if edgeDominates(ifi, 0, st) || edgeDominates(ifi, 1, st) {
					guarded = true
				}
			}
			if guarded {
				ru.OK(k, posOf(st), "appended only below a test on the listener being added")
			} else {
				ru.Bad(k, posOf(st), "listeners are kept in a slice and appended without looking whether the channel is already there: a listener added twice gets every connected and disconnected event twice")
			}
		})
	}
	if 0 == n {
		ru.OK("iobroker:listener-registry", token.NoPos, "no slice of listeners is appended to (the registry is a set)")
	}
}
