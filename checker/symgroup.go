package main

// symgroup.go: symbolic evaluation of the encoder's per-group code with bit
// provenance and case splits.  The function which handles one group of up to
// three input bytes is interpreted, for each group length 1..3, over symbolic
// input bits; where the code tests a symbolic byte against zero the
// evaluation forks and remembers the assumption.  What is appended to the
// output accumulator on each path is then compared with uuencode's
// definition: symbol k is '`' when the k-th 6-bit group of the zero-padded
// input is zero and 32 + that group otherwise.  This decides the regrouping,
// the padding and the alphabet of the encoder in one go, whatever way the
// code is written, as long as the interpreter can follow it.

import (
	"fmt"
	"go/constant"
	"go/token"
	"go/types"
	"sort"
	"strings"

	"golang.org/x/tools/go/ssa"
)

// sv is a symbolic value.
type sv struct {
	K    int /* 0 unknown, 1 int, 2 byte with bit provenance (+Plus), 3 array value, 4 element pointer, 5 array pointer, 6 slice view */
	N    int64
	Bits [8]pbit
	Plus int64 /* K==2: the byte is Bits + Plus (mod 256) */
	Arr  int   /* array id for K 3..6 */
	Off  int   /* K 4: element index; K 6: start */
	Len  int   /* K 6 */
}

func svInt(n int64) sv { return sv{K: 1, N: n} }

func svByte(n int64) sv {
	v := sv{K: 2}
	for i := 0; i < 8; i++ {
		if 0 != (n>>(7-i))&1 {
			v.Bits[i] = pOne
		} else {
			v.Bits[i] = pZero
		}
	}
	return v
}

func (v sv) conc() (int64, bool) {
	switch v.K {
	case 1:
		return v.N, true
	case 2:
		var n int64
		for i := 0; i < 8; i++ {
			switch v.Bits[i] {
			case pOne:
				n |= 1 << (7 - i)
			case pZero:
			default:
				return 0, false
			}
		}
		return (n + v.Plus) & 0xff, true
	}
	return 0, false
}

func (v sv) bits() (sv, bool) {
	switch v.K {
	case 2:
		return v, true
	case 1:
		return svByte(v.N & 0xff), true
	}
	return sv{}, false
}

func (v sv) String() string {
	switch v.K {
	case 1:
		return fmt.Sprint(v.N)
	case 2:
		if n, ok := v.conc(); ok {
			return fmt.Sprintf("0x%02x", n)
		}
		var sb strings.Builder
		for i := 0; i < 8; i++ {
			sb.WriteString(v.Bits[i].String())
			if i < 7 {
				sb.WriteByte(' ')
			}
		}
		if 0 != v.Plus {
			return fmt.Sprintf("[%s]+%d", sb.String(), v.Plus)
		}
		return "[" + sb.String() + "]"
	}
	return fmt.Sprintf("kind%d", v.K)
}

// symState is one path.
type symState struct {
	vals    map[ssa.Value]sv
	arrs    map[int][]sv
	allocID map[*ssa.Alloc]int
	nextArr int
	zero    map[pbit]bool /* input bits assumed 0 */
	nonzero [][]pbit      /* groups of input bits assumed not all 0 */
	out     [][]sv        /* values appended to the accumulator, per append */
	steps   int
}

func (s *symState) clone() *symState {
	n := &symState{vals: map[ssa.Value]sv{}, arrs: map[int][]sv{}, allocID: map[*ssa.Alloc]int{}, nextArr: s.nextArr, zero: map[pbit]bool{}, steps: s.steps}
	for k, v := range s.vals {
		n.vals[k] = v
	}
	for k, v := range s.arrs {
		n.arrs[k] = append([]sv(nil), v...)
	}
	for k, v := range s.allocID {
		n.allocID[k] = v
	}
	for k, v := range s.zero {
		n.zero[k] = v
	}
	for _, g := range s.nonzero {
		n.nonzero = append(n.nonzero, append([]pbit(nil), g...))
	}
	for _, o := range s.out {
		n.out = append(n.out, append([]sv(nil), o...))
	}
	return n
}

func (s *symState) newArr(vals []sv) int {
	s.nextArr++
	s.arrs[s.nextArr] = vals
	return s.nextArr
}

// symRun explores fn.
type symRun struct {
	fn *ssa.Function
	// isAcc reports whether v is the output accumulator (appends to it are
	// recorded, its value is not tracked).
	isAcc func(v ssa.Value) bool
	// param gives initial values for parameters / free variables.
	param func(s *symState, v ssa.Value) (sv, bool)
	paths []*symState
	fail  string
	pos   token.Pos
}

func (r *symRun) eval(s *symState, v ssa.Value) sv {
	if x, ok := s.vals[v]; ok {
		return x
	}
	switch c := v.(type) {
	case *ssa.Const:
		if nil == c.Value {
			if _, _, isInt := isUnsigned(c.Type()); isInt {
				return svInt(0)
			}
			if b, ok := c.Type().Underlying().(*types.Basic); ok && 0 != b.Info()&types.IsBoolean {
				return svInt(0)
			}
			return sv{}
		}
		switch c.Value.Kind() {
		case constant.Int:
			if n, ok := constant.Int64Val(c.Value); ok {
				return svInt(n)
			}
		case constant.Bool:
			if constant.BoolVal(c.Value) {
				return svInt(1)
			}
			return svInt(0)
		}
	case *ssa.Parameter, *ssa.FreeVar:
		if nil != r.param {
			if x, ok := r.param(s, v); ok {
				s.vals[v] = x
				return x
			}
		}
	}
	return sv{}
}

// applyZero substitutes bits assumed zero.
func (s *symState) applyZero(v sv) sv {
	if 2 != v.K {
		return v
	}
	for i := 0; i < 8; i++ {
		if v.Bits[i] >= 0 && s.zero[v.Bits[i]] {
			v.Bits[i] = pZero
		}
	}
	return v
}

func (r *symRun) binop(s *symState, x *ssa.BinOp) sv {
	a, b := s.applyZero(r.eval(s, x.X)), s.applyZero(r.eval(s, x.Y))
	ca, aok := a.conc()
	cb, bok := b.conc()
	if aok && bok {
		var rr int64
		switch x.Op {
		case token.ADD:
			rr = ca + cb
		case token.SUB:
			rr = ca - cb
		case token.MUL:
			rr = ca * cb
		case token.AND:
			rr = ca & cb
		case token.OR:
			rr = ca | cb
		case token.XOR:
			rr = ca ^ cb
		case token.AND_NOT:
			rr = ca &^ cb
		case token.SHL:
			if cb < 0 || cb > 63 {
				return sv{}
			}
			rr = ca << uint(cb)
		case token.SHR:
			if cb < 0 || cb > 63 {
				return sv{}
			}
			if _, uns, _ := isUnsigned(x.X.Type()); uns {
				rr = int64(uint64(ca) >> uint(cb))
			} else {
				rr = ca >> uint(cb)
			}
		case token.QUO:
			if 0 == cb {
				return sv{}
			}
			rr = ca / cb
		case token.REM:
			if 0 == cb {
				return sv{}
			}
			rr = ca % cb
		case token.EQL:
			return svInt(b2i(ca == cb))
		case token.NEQ:
			return svInt(b2i(ca != cb))
		case token.LSS:
			return svInt(b2i(ca < cb))
		case token.LEQ:
			return svInt(b2i(ca <= cb))
		case token.GTR:
			return svInt(b2i(ca > cb))
		case token.GEQ:
			return svInt(b2i(ca >= cb))
		default:
			return sv{}
		}
		if bits, _, ok := isUnsigned(x.Type()); ok && 8 == bits {
			return svByte(wrap(rr, x.Type()) & 0xff)
		}
		return svInt(wrap(rr, x.Type()))
	}
	if bits, _, ok := isUnsigned(x.Type()); !ok || 8 != bits {
		return sv{}
	}
	av, ok1 := a.bits()
	bw, ok2 := b.bits()
	switch x.Op {
	case token.SHL, token.SHR:
		if !ok1 || !bok || 0 != av.Plus {
			return sv{}
		}
		out := sv{K: 2}
		for i := 0; i < 8; i++ {
			out.Bits[i] = pZero
		}
		k := int(cb)
		for i := 0; i < 8; i++ {
			j := i + k
			if token.SHL == x.Op {
				j = i - k
			}
			if j >= 0 && j < 8 {
				out.Bits[j] = av.Bits[i]
			}
		}
		return out
	case token.OR, token.AND, token.XOR:
		if !ok1 || !ok2 || 0 != av.Plus || 0 != bw.Plus {
			return sv{}
		}
		out := sv{K: 2}
		for i := 0; i < 8; i++ {
			switch x.Op {
			case token.OR:
				out.Bits[i] = bitOr(av.Bits[i], bw.Bits[i])
			case token.AND:
				out.Bits[i] = bitAnd(av.Bits[i], bw.Bits[i])
			case token.XOR:
				if pZero != av.Bits[i] && pZero != bw.Bits[i] {
					return sv{}
				}
				out.Bits[i] = bitOr(av.Bits[i], bw.Bits[i])
			}
		}
		return out
	case token.ADD:
		if !ok1 || !ok2 {
			return sv{}
		}
		/* Symbolic + constant: disjoint bits merge, otherwise the
		constant is carried along. */
		sym, k := av, bw
		if _, isC := av.conc(); isC {
			sym, k = bw, av
		}
		kc, isC := k.conc()
		if !isC {
			return sv{}
		}
		disjoint := 0 == sym.Plus
		for i := 0; i < 8; i++ {
			if 0 != (kc>>(7-i))&1 && pZero != sym.Bits[i] {
				disjoint = false
			}
		}
		if disjoint {
			out := sym
			for i := 0; i < 8; i++ {
				if 0 != (kc>>(7-i))&1 {
					out.Bits[i] = pOne
				}
			}
			return out
		}
		out := sym
		out.Plus = (sym.Plus + kc) & 0xff
		return out
	case token.EQL, token.NEQ:
		/* Left to the branch logic (case split). */
		return sv{}
	}
	return sv{}
}

func b2i(b bool) int64 {
	if b {
		return 1
	}
	return 0
}

// zeroTest: cond is (x == 0) or (x != 0) for a symbolic byte x; returns x and
// whether the true edge means "x is zero".
func (r *symRun) zeroTest(s *symState, cond ssa.Value) (sv, bool, bool) {
	neg := false
	for {
		u, ok := cond.(*ssa.UnOp)
		if !ok || token.NOT != u.Op {
			break
		}
		neg = !neg
		cond = u.X
	}
	bo, ok := cond.(*ssa.BinOp)
	if !ok || (token.EQL != bo.Op && token.NEQ != bo.Op) {
		return sv{}, false, false
	}
	a, b := s.applyZero(r.eval(s, bo.X)), s.applyZero(r.eval(s, bo.Y))
	if n, isC := a.conc(); isC && 0 == n {
		a, b = b, a
	}
	if n, isC := b.conc(); !isC || 0 != n {
		return sv{}, false, false
	}
	if 2 != a.K || 0 != a.Plus {
		return sv{}, false, false
	}
	isZeroOnTrue := (token.EQL == bo.Op) != neg
	return a, isZeroOnTrue, true
}

func symBits(v sv) []pbit {
	var out []pbit
	for i := 0; i < 8; i++ {
		if v.Bits[i] >= 0 {
			out = append(out, v.Bits[i])
		}
	}
	sort.Slice(out, func(i, j int) bool { return out[i] < out[j] })
	return out
}

func (r *symRun) failf(i ssa.Instruction, format string, a ...any) {
	if "" == r.fail {
		r.fail = fmt.Sprintf(format, a...)
		r.pos = posOf(i)
	}
}

// explore runs one path from block b; forks are explored recursively.
func (r *symRun) explore(s *symState, b, prev *ssa.BasicBlock) {
	for {
		for _, in := range b.Instrs {
			s.steps++
			if s.steps > 5000 || len(r.paths) > 256 || "" != r.fail {
				r.failf(in, "evaluation did not finish (step or path limit)")
				return
			}
			switch x := in.(type) {
			case *ssa.Phi:
				for k, p := range b.Preds {
					if p == prev {
						s.vals[x] = r.eval(s, x.Edges[k])
					}
				}
			case *ssa.BinOp:
				s.vals[x] = r.binop(s, x)
			case *ssa.UnOp:
				switch x.Op {
				case token.MUL:
					p := r.eval(s, x.X)
					switch p.K {
					case 4:
						arr := s.arrs[p.Arr]
						if p.Off < 0 || p.Off >= len(arr) {
							r.failf(in, "index %d outside an array of %d", p.Off, len(arr))
							return
						}
						s.vals[x] = arr[p.Off]
					case 5:
						s.vals[x] = sv{K: 3, Arr: s.newArr(append([]sv(nil), s.arrs[p.Arr]...))}
					default:
						if fv, isFV := x.X.(*ssa.FreeVar); isFV && strings.HasPrefix(fv.Name(), "jump$") {
							/* The range-over-func state cell: 0 while the
							loop body may be called. */
							s.vals[x] = svInt(0)
						} else if nil != r.isAcc && r.isAcc(x) {
							s.vals[x] = sv{K: 7}
						}
					}
				case token.NOT:
					if n, ok := r.eval(s, x.X).conc(); ok {
						s.vals[x] = svInt(b2i(0 == n))
					}
				}
			case *ssa.Alloc:
				pt, _ := x.Type().(*types.Pointer)
				if at, ok := pt.Elem().Underlying().(*types.Array); ok {
					vals := make([]sv, at.Len())
					zero := svInt(0)
					if eb, isB := at.Elem().Underlying().(*types.Basic); isB && types.Uint8 == eb.Kind() {
						zero = svByte(0)
					}
					for i := range vals {
						vals[i] = zero
					}
					id := s.newArr(vals)
					s.allocID[x] = id
					s.vals[x] = sv{K: 5, Arr: id}
				}
			case *ssa.Slice:
				base := r.eval(s, x.X)
				lo, hi := 0, -1
				if nil != x.Low {
					n, ok := r.eval(s, x.Low).conc()
					if !ok {
						continue
					}
					lo = int(n)
				}
				if nil != x.High {
					n, ok := r.eval(s, x.High).conc()
					if !ok {
						continue
					}
					hi = int(n)
				}
				switch base.K {
				case 5:
					if hi < 0 {
						hi = len(s.arrs[base.Arr])
					}
					s.vals[x] = sv{K: 6, Arr: base.Arr, Off: lo, Len: hi - lo}
				case 6:
					if hi < 0 {
						hi = base.Len
					}
					if lo < 0 || hi < lo || hi > base.Len {
						r.failf(in, "slice bounds [%d:%d] outside a slice of length %d", lo, hi, base.Len)
						return
					}
					s.vals[x] = sv{K: 6, Arr: base.Arr, Off: base.Off + lo, Len: hi - lo}
				}
			case *ssa.IndexAddr:
				base := r.eval(s, x.X)
				idx, ok := r.eval(s, x.Index).conc()
				if !ok {
					continue
				}
				switch base.K {
				case 5:
					s.vals[x] = sv{K: 4, Arr: base.Arr, Off: int(idx)}
				case 6:
					if idx < 0 || int(idx) >= base.Len {
						r.failf(in, "index %d outside a slice of length %d", idx, base.Len)
						return
					}
					s.vals[x] = sv{K: 4, Arr: base.Arr, Off: base.Off + int(idx)}
				}
			case *ssa.Index:
				base := r.eval(s, x.X)
				idx, ok := r.eval(s, x.Index).conc()
				if 3 == base.K && ok && idx >= 0 && int(idx) < len(s.arrs[base.Arr]) {
					s.vals[x] = s.arrs[base.Arr][idx]
				}
			case *ssa.Store:
				p := r.eval(s, x.Addr)
				v := r.eval(s, x.Val)
				switch p.K {
				case 4:
					arr := s.arrs[p.Arr]
					if p.Off >= 0 && p.Off < len(arr) {
						if 1 == v.K {
							if eb, isB := x.Val.Type().Underlying().(*types.Basic); isB && types.Uint8 == eb.Kind() {
								v = svByte(v.N & 0xff)
							}
						}
						arr[p.Off] = v
					}
				case 5:
					if 3 == v.K && len(s.arrs[v.Arr]) == len(s.arrs[p.Arr]) {
						copy(s.arrs[p.Arr], s.arrs[v.Arr])
					}
				}
			case *ssa.Convert:
				v := r.eval(s, x.X)
				if bits, _, ok := isUnsigned(x.Type()); ok && 8 == bits {
					if n, isC := v.conc(); isC {
						s.vals[x] = svByte(wrap(n, x.Type()) & 0xff)
					} else if 2 == v.K {
						s.vals[x] = v
					}
				} else if n, isC := v.conc(); isC {
					s.vals[x] = svInt(wrap(n, x.Type()))
				}
			case *ssa.ChangeType:
				s.vals[x] = r.eval(s, x.X)
			case *ssa.Call:
				bi, isB := x.Common().Value.(*ssa.Builtin)
				if !isB {
					continue /* unknown call: its result stays unknown */
				}
				args := x.Common().Args
				switch bi.Name() {
				case "len", "cap":
					a := r.eval(s, args[0])
					switch {
					case 6 == a.K && "len" == bi.Name():
						s.vals[x] = svInt(int64(a.Len))
					case 3 == a.K, 5 == a.K:
						s.vals[x] = svInt(int64(len(s.arrs[a.Arr])))
					default:
						if at, ok := args[0].Type().Underlying().(*types.Array); ok {
							s.vals[x] = svInt(at.Len())
						}
					}
				case "copy":
					d, sr := r.eval(s, args[0]), r.eval(s, args[1])
					if 6 != d.K || 6 != sr.K {
						r.failf(in, "copy between values the evaluation does not track")
						return
					}
					n := d.Len
					if sr.Len < n {
						n = sr.Len
					}
					tmp := append([]sv(nil), s.arrs[sr.Arr][sr.Off:sr.Off+n]...)
					copy(s.arrs[d.Arr][d.Off:d.Off+n], tmp)
					s.vals[x] = svInt(int64(n))
				case "append":
					base := r.eval(s, args[0])
					els := r.eval(s, args[1])
					var vals []sv
					if 6 == els.K {
						vals = append(vals, s.arrs[els.Arr][els.Off:els.Off+els.Len]...)
					} else if c, isC := args[1].(*ssa.Const); !isC || !c.IsNil() {
						r.failf(in, "append of elements the evaluation does not track")
						return
					}
					switch {
					case 6 == base.K:
						na := append(append([]sv(nil), s.arrs[base.Arr][base.Off:base.Off+base.Len]...), vals...)
						s.vals[x] = sv{K: 6, Arr: s.newArr(na), Off: 0, Len: len(na)}
					case 7 == base.K || (nil != r.isAcc && r.isAcc(args[0])):
						s.out = append(s.out, vals)
						s.vals[x] = sv{K: 7}
					default:
						r.failf(in, "append to a slice the evaluation does not track")
						return
					}
				}
			case *ssa.If:
				c, ok := s.applyZero(r.eval(s, x.Cond)).conc()
				if ok {
					prev = b
					if 0 != c {
						b = b.Succs[0]
					} else {
						b = b.Succs[1]
					}
					goto next
				}
				v, zeroOnTrue, isZT := r.zeroTest(s, x.Cond)
				if !isZT {
					r.failf(in, "a branch on a value the evaluation cannot decide or split on")
					return
				}
				sb := symBits(v)
				for i := 0; i < 8; i++ {
					if pOne == v.Bits[i] {
						sb = nil /* cannot be zero */
					}
				}
				zSucc, nzSucc := b.Succs[0], b.Succs[1]
				if !zeroOnTrue {
					zSucc, nzSucc = nzSucc, zSucc
				}
				hasOne := false
				for i := 0; i < 8; i++ {
					if pOne == v.Bits[i] {
						hasOne = true
					}
				}
				if !hasOne {
					/* x == 0: every symbolic bit of x is zero. */
					z := s.clone()
					for _, pb := range symBits(v) {
						z.zero[pb] = true
					}
					feasible := true
					for _, g := range z.nonzero {
						all := true
						for _, pb := range g {
							if !z.zero[pb] {
								all = false
							}
						}
						if all {
							feasible = false
						}
					}
					if feasible {
						r.explore(z, zSucc, b)
					}
				}
				/* x != 0 */
				s.nonzero = append(s.nonzero, symBits(v))
				prev = b
				b = nzSucc
				_ = sb
				goto next
			case *ssa.Jump:
				prev = b
				b = b.Succs[0]
				goto next
			case *ssa.Return:
				r.paths = append(r.paths, s)
				return
			case *ssa.Panic:
				if ssa.IsUnreachableMarker(in) || "yield-invalid" == b.Comment || strings.HasPrefix(b.Comment, "rangefunc.") {
					return
				}
				r.failf(in, "the group code can panic")
				return
			}
		}
		return
	next:
	}
}

// groupSpec: what uuencode appends for a group of n input bytes (bits 8k+i of
// byte k), as four (sextet bits, ...) descriptions.
func sextetBits(k, nbytes int) [6]pbit {
	var out [6]pbit
	for i := 0; i < 6; i++ {
		bit := 6*k + i
		if bit/8 < nbytes {
			out[i] = pbit(bit)
		} else {
			out[i] = pZero
		}
	}
	return out
}

// checkEncoderGroup evaluates the per-group function f (a yield closure over
// slices.Chunk(line, 3)) and compares with the definition.  Returns "" when
// it agrees, or a description of the first disagreement.
func checkEncoderGroup(f *ssa.Function, isAcc func(ssa.Value) bool, offset int64) (string, token.Pos, int) {
	if 0 == len(f.Params) {
		return "the group function has no chunk parameter", f.Pos(), 0
	}
	chunk := f.Params[len(f.Params)-1]
	npaths := 0
	for n := 3; n >= 1; n-- {
		run := &symRun{fn: f, isAcc: isAcc}
		run.param = func(s *symState, v ssa.Value) (sv, bool) {
			if v != ssa.Value(chunk) {
				return sv{}, false
			}
			vals := make([]sv, n)
			for k := range vals {
				b := sv{K: 2}
				for i := 0; i < 8; i++ {
					b.Bits[i] = pbit(8*k + i)
				}
				vals[k] = b
			}
			return sv{K: 6, Arr: s.newArr(vals), Off: 0, Len: n}, true
		}
		st := &symState{vals: map[ssa.Value]sv{}, arrs: map[int][]sv{}, allocID: map[*ssa.Alloc]int{}, zero: map[pbit]bool{}}
		run.explore(st, f.Blocks[0], nil)
		if "" != run.fail {
			return fmt.Sprintf("for a group of %d byte(s): %s", n, run.fail), run.pos, npaths
		}
		if 0 == len(run.paths) {
			return fmt.Sprintf("for a group of %d byte(s) no path reaches the end of the group code", n), f.Pos(), npaths
		}
		sawZero, sawNon := [4]bool{}, [4]bool{}
		for _, p := range run.paths {
			npaths++
			var got []sv
			for _, o := range p.out {
				got = append(got, o...)
			}
			if 4 != len(got) {
				return fmt.Sprintf("for a group of %d byte(s) %d bytes are appended to the output, 4 expected", n, len(got)), f.Pos(), npaths
			}
			for k := 0; k < 4; k++ {
				want := sextetBits(k, n)
				/* Is the sextet zero / non-zero on this path? */
				allZero, known := true, true
				var syms []pbit
				for _, pb := range want {
					if pb >= 0 && !p.zero[pb] {
						allZero = false
						syms = append(syms, pb)
					}
				}
				nonZero := false
				for _, g := range p.nonzero {
					sub := 0 != len(g)
					for _, pb := range g {
						in := false
						for _, w := range want {
							if w == pb {
								in = true
							}
						}
						if !in {
							sub = false
						}
					}
					if sub {
						nonZero = true
					}
				}
				if !allZero && !nonZero {
					known = false
				}
				v := p.applyZero(got[k])
				switch {
				case allZero:
					sawZero[k] = true
					if c, ok := v.conc(); !ok || '`' != c {
						return fmt.Sprintf("for a group of %d byte(s): symbol %d is %s where its six bits are zero; uuencode writes '`' (0x60)", n, k, v), f.Pos(), npaths
					}
				case nonZero:
					sawNon[k] = true
					okBits := 2 == v.K && offset == v.Plus && pZero == v.Bits[0] && pZero == v.Bits[1]
					for i := 0; okBits && i < 6; i++ {
						w := want[i]
						if w >= 0 && p.zero[w] {
							w = pZero
						}
						if v.Bits[2+i] != w {
							okBits = false
						}
					}
					if !okBits {
						return fmt.Sprintf("for a group of %d byte(s): symbol %d is %s, not %d + input bits %d..%d (most significant first)", n, k, v, offset, 6*k, 6*k+5), f.Pos(), npaths
					}
				case !known:
					return fmt.Sprintf("for a group of %d byte(s): symbol %d (%s) is produced without the code distinguishing a zero group from a non-zero one", n, k, v), f.Pos(), npaths
				}
				_ = syms
			}
		}
		for k := 0; k < 4; k++ {
			symbolic := false
			for _, pb := range sextetBits(k, n) {
				if pb >= 0 {
					symbolic = true
				}
			}
			if symbolic && (!sawZero[k] || !sawNon[k]) {
				return fmt.Sprintf("for a group of %d byte(s): symbol %d was not seen both for a zero and for a non-zero group", n, k), f.Pos(), npaths
			}
		}
	}
	return "", token.NoPos, npaths
}
