package main

// thorough.go: what the thorough tier adds on top of the quick rules.

// thorough runs the whole overlay-mutant battery, re-loads the module in the
// other build configurations, and records cross-reference tool output.
func thorough(prop, repo string, p *Prog, r *Report, extra map[string]any) {
	summarise(runMutants(prop, repo, mutantsFor(prop)), extra, "selftest_mutants")
	altLoads(repo, extra)
}

// altLoads re-loads the module with tests and for other GOOS values to make
// sure the single analysed configuration is the whole build.
func altLoads(repo string, extra map[string]any) {
	var out []map[string]any
	for _, c := range []struct {
		name  string
		tests bool
		env   []string
	}{
		{"linux+tests", true, nil},
		{"darwin", false, []string{"GOOS=darwin", "GOARCH=arm64", "CGO_ENABLED=0"}},
		{"openbsd", false, []string{"GOOS=openbsd", "GOARCH=amd64", "CGO_ENABLED=0"}},
	} {
		p, err := Load(LoadOpts{Repo: repo, Tests: c.tests, Env: c.env})
		m := map[string]any{"config": c.name}
		if nil != err {
			m["error"] = err.Error()
		} else {
			m["module_packages"] = len(p.Pkgs)
			m["module_functions"] = len(p.Funcs())
		}
		out = append(out, m)
	}
	extra["alternate_configurations"] = out
}
