package main

// thorough.go: what the thorough tier adds on top of the quick rules.

import (
	"encoding/json"
	"fmt"
	"os"
	"os/exec"
	"path/filepath"
	"sort"
	"strings"
	"sync"
)

// thorough runs the whole overlay-mutant battery, replays the kept seeded
// changes of this property against scratch copies of the current working
// tree, re-loads the module in the other build configurations, and records
// cross-reference tool output.  None of this changes the verdict on the tree
// itself (that is the quick rules' job, already run); it measures whether the
// rules still fire where they must and stay silent where they must.
func thorough(prop, repo string, p *Prog, r *Report, extra map[string]any) {
	summarise(runMutants(prop, repo, mutantsFor(prop)), extra, "selftest_mutants")
	seedBattery(prop, repo, extra)
	benignBattery(prop, repo, extra)
	altLoads(repo, extra)
	crossReference(prop, repo, extra)
}

// altLoads re-loads the module with tests and for other GOOS values to make
// sure the single analysed configuration is the whole build.
func altLoads(repo string, extra map[string]any) {
	var out []map[string]any
	for _, c := range []struct {
		name  string
		tests bool
		env   []string
	}{
		{"linux+tests", true, nil},
		{"darwin", false, []string{"GOOS=darwin", "GOARCH=arm64", "CGO_ENABLED=0"}},
		{"openbsd", false, []string{"GOOS=openbsd", "GOARCH=amd64", "CGO_ENABLED=0"}},
	} {
		p, err := Load(LoadOpts{Repo: repo, Tests: c.tests, Env: c.env})
		m := map[string]any{"config": c.name}
		if nil != err {
			m["error"] = err.Error()
		} else {
			m["module_packages"] = len(p.Pkgs)
			m["module_functions"] = len(p.Funcs())
		}
		out = append(out, m)
	}
	extra["alternate_configurations"] = out
}

// seedBattery applies each kept seeded change of this property to a scratch
// copy of the repository's current working tree (outside /repo and /verif,
// removed straight afterwards) and records whether the check reports it.
func seedBattery(prop, repo string, extra map[string]any) {
	self, err := os.Executable()
	if nil != err {
		return
	}
	seedDir := filepath.Join(filepath.Dir(filepath.Dir(self)), "seeded")
	ents, err := os.ReadDir(seedDir)
	if nil != err {
		return
	}
	type res struct {
		Seed     string   `json:"seed"`
		Outcome  string   `json:"outcome"` /* detected, MISSED, skipped */
		Findings []string `json:"findings,omitempty"`
		Breaks   string   `json:"breaks,omitempty"`
	}
	var names []string
	for _, e := range ents {
		b, err := os.ReadFile(filepath.Join(seedDir, e.Name(), "meta.json"))
		if nil != err {
			continue
		}
		var m struct {
			Property   string              `json:"property"`
			DetectedBy map[string][]string `json:"detected_by"`
		}
		if nil != json.Unmarshal(b, &m) {
			continue
		}
		/* Seeds written against this property, and seeds written
		against another which this property's rules were seen to
		catch. */
		if _, also := m.DetectedBy[prop]; m.Property != prop && !also {
			continue
		}
		names = append(names, e.Name())
	}
	sort.Strings(names)
	out := make([]res, len(names))
	var wg sync.WaitGroup
	sem := make(chan struct{}, 6)
	for i, n := range names {
		wg.Add(1)
		go func(i int, n string) {
			defer wg.Done()
			sem <- struct{}{}
			defer func() { <-sem }()
			out[i] = res{Seed: n}
			var meta struct {
				Breaks     string              `json:"breaks"`
				DetectedBy map[string][]string `json:"detected_by"`
			}
			if b, err := os.ReadFile(filepath.Join(seedDir, n, "meta.json")); nil == err {
				json.Unmarshal(b, &meta)
				if len(meta.Breaks) > 200 {
					meta.Breaks = meta.Breaks[:200] + "…"
				}
				out[i].Breaks = meta.Breaks
			}
			tmp, err := os.MkdirTemp("", "crs-seed-")
			if nil != err {
				out[i].Outcome = "skipped"
				return
			}
			defer os.RemoveAll(tmp)
			if o, err := exec.Command("rsync", "-a", "--exclude=.git", repo+"/", tmp+"/").CombinedOutput(); nil != err {
				out[i].Outcome, out[i].Findings = "skipped", []string{"copy failed: " + string(o)}
				return
			}
			pc := exec.Command("patch", "-p1", "-s", "-F3", "--no-backup-if-mismatch", "-i", filepath.Join(seedDir, n, "patch.diff"))
			pc.Dir = tmp
			if o, err := pc.CombinedOutput(); nil != err {
				out[i].Outcome, out[i].Findings = "skipped", []string{"patch does not apply to the current tree: " + firstLine(string(o))}
				return
			}
			cc := exec.Command(self, "-property", prop, "-repo", tmp)
			cc.Env = append(os.Environ(), "CRS_NOSELFTEST=1", "CRS_NOREPLAY=1")
			o, _ := cc.CombinedOutput()
			code := -1
			if nil != cc.ProcessState {
				code = cc.ProcessState.ExitCode()
			}
			for _, l := range strings.Split(string(o), "\n") {
				if strings.Contains(l, "] ") && strings.Contains(l, " — ") {
					l = strings.ReplaceAll(l, tmp+"/", "")
					if len(l) > 260 {
						l = l[:260] + "…"
					}
					out[i].Findings = append(out[i].Findings, l)
				}
			}
			if len(out[i].Findings) > 4 {
				out[i].Findings = out[i].Findings[:4]
			}
			switch code {
			case 1:
				out[i].Outcome = "detected"
			case 0:
				out[i].Outcome = "MISSED"
				var others []string
				for k := range meta.DetectedBy {
					if k != prop {
						others = append(others, k)
					}
				}
				sort.Strings(others)
				if 0 != len(others) {
					out[i].Outcome = "caught-by-" + strings.Join(others, "+")
				}
			default:
				out[i].Outcome = "skipped"
				out[i].Findings = []string{fmt.Sprintf("checker exit %d: %s", code, firstLine(string(o)))}
			}
		}(i, n)
	}
	wg.Wait()
	counts := map[string]int{}
	for _, x := range out {
		counts[x.Outcome]++
	}
	extra["seeded_changes"] = map[string]any{"counts": counts, "results": out,
		"note": "each kept change (see /verif/seeded/<name>/meta.json: made by an independent agent, compiles, passes the existing suite, breaks the property with a failing demonstration) is applied to a scratch copy of the current working tree and the quick rules are run on it"}
}

func firstLine(s string) string {
	s = strings.TrimSpace(s)
	if i := strings.Index(s, "\n"); i >= 0 {
		s = s[:i]
	}
	return s
}

// crossReference runs generic tools whose reports touch this property; the
// output is recorded, it never decides.
func crossReference(prop, repo string, extra map[string]any) {
	type tool struct {
		name string
		args []string
	}
	var tools []tool
	switch prop {
	case "C10":
		tools = append(tools, tool{"go vet (printf)", []string{"go", "vet", "-printf", "./..."}})
	case "C20":
		tools = append(tools, tool{"nilaway", []string{"nilaway", "./..."}})
	case "C01", "C04", "C19":
		tools = append(tools, tool{"go vet (copylocks, lostcancel)", []string{"go", "vet", "-copylocks", "-lostcancel", "./..."}})
	}
	var out []map[string]any
	for _, t := range tools {
		if _, err := exec.LookPath(t.args[0]); nil != err {
			out = append(out, map[string]any{"tool": t.name, "skipped": "not installed"})
			continue
		}
		c := exec.Command(t.args[0], t.args[1:]...)
		c.Dir = repo
		c.Env = goEnv(nil)
		o, err := c.CombinedOutput()
		lines := strings.Split(strings.TrimSpace(string(o)), "\n")
		if len(lines) > 12 {
			lines = append(lines[:12], "…")
		}
		m := map[string]any{"tool": t.name, "output": lines}
		if nil != err {
			m["exit"] = err.Error()
		}
		out = append(out, m)
	}
	if 0 != len(out) {
		extra["cross_reference"] = out
	}
}

// benignBattery replays the kept behaviour-preserving changes written against
// this property (/verif/benign/<name>: refactorings by independent agents
// after which the property still holds) on scratch copies of the current tree;
// the rules must stay silent on each.
func benignBattery(prop, repo string, extra map[string]any) {
	self, err := os.Executable()
	if nil != err {
		return
	}
	dir := filepath.Join(filepath.Dir(filepath.Dir(self)), "benign")
	ents, err := os.ReadDir(dir)
	if nil != err {
		return
	}
	type res struct {
		Name     string   `json:"name"`
		Outcome  string   `json:"outcome"` /* silent-as-expected, FALSE-ALARM, skipped */
		Findings []string `json:"findings,omitempty"`
		Summary  string   `json:"summary,omitempty"`
	}
	var names []string
	for _, e := range ents {
		b, err := os.ReadFile(filepath.Join(dir, e.Name(), "meta.json"))
		if nil != err {
			continue
		}
		var m struct {
			Property string `json:"property"`
		}
		if nil != json.Unmarshal(b, &m) || m.Property != prop {
			continue
		}
		names = append(names, e.Name())
	}
	sort.Strings(names)
	out := make([]res, len(names))
	var wg sync.WaitGroup
	sem := make(chan struct{}, 6)
	for i, n := range names {
		wg.Add(1)
		go func(i int, n string) {
			defer wg.Done()
			sem <- struct{}{}
			defer func() { <-sem }()
			out[i] = res{Name: n}
			var meta struct {
				Summary string `json:"summary"`
			}
			if b, err := os.ReadFile(filepath.Join(dir, n, "meta.json")); nil == err {
				json.Unmarshal(b, &meta)
				if len(meta.Summary) > 200 {
					meta.Summary = meta.Summary[:200] + "…"
				}
				out[i].Summary = meta.Summary
			}
			tmp, err := os.MkdirTemp("", "crs-benign-")
			if nil != err {
				out[i].Outcome = "skipped"
				return
			}
			defer os.RemoveAll(tmp)
			if o, err := exec.Command("rsync", "-a", "--exclude=.git", repo+"/", tmp+"/").CombinedOutput(); nil != err {
				out[i].Outcome, out[i].Findings = "skipped", []string{"copy failed: " + string(o)}
				return
			}
			pc := exec.Command("patch", "-p1", "-s", "-F3", "--no-backup-if-mismatch", "-i", filepath.Join(dir, n, "patch.diff"))
			pc.Dir = tmp
			if o, err := pc.CombinedOutput(); nil != err {
				out[i].Outcome, out[i].Findings = "skipped", []string{"patch does not apply to the current tree: " + firstLine(string(o))}
				return
			}
			cc := exec.Command(self, "-property", prop, "-repo", tmp)
			cc.Env = append(os.Environ(), "CRS_NOSELFTEST=1", "CRS_NOREPLAY=1")
			o, _ := cc.CombinedOutput()
			code := -1
			if nil != cc.ProcessState {
				code = cc.ProcessState.ExitCode()
			}
			switch code {
			case 0:
				out[i].Outcome = "silent-as-expected"
			case 1:
				out[i].Outcome = "FALSE-ALARM"
				for _, l := range strings.Split(string(o), "\n") {
					if strings.Contains(l, "] ") && strings.Contains(l, " — ") {
						l = strings.ReplaceAll(l, tmp+"/", "")
						if len(l) > 260 {
							l = l[:260] + "…"
						}
						out[i].Findings = append(out[i].Findings, l)
					}
				}
			default:
				out[i].Outcome = "skipped"
				out[i].Findings = []string{fmt.Sprintf("checker exit %d: %s", code, firstLine(string(o)))}
			}
		}(i, n)
	}
	wg.Wait()
	counts := map[string]int{}
	for _, x := range out {
		counts[x.Outcome]++
	}
	extra["benign_changes"] = map[string]any{"counts": counts, "results": out,
		"note": "each kept behaviour-preserving change (see /verif/benign/<name>/meta.json: made by an independent agent, compiles, passes the existing suite, with an argument why the property still holds) is applied to a scratch copy of the current working tree; the rules must report nothing"}
}
