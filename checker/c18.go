package main

// C18 — the generated tab_list function lists the documented functions and is
// quote-safe.

import (
	"fmt"
	"go/constant"
	"go/token"
	"go/types"
	"strings"

	"golang.org/x/tools/go/ssa"
)

func init() {
	register("C18", &propDef{
		Run:         checkC18,
		Explanation: "Static decision of the structural clauses of C18 (sanitizer-last taint rule with a computed quoting context). (1) The value executed against the list template is a []string every element of which was last assigned strings.ReplaceAll(that element, \"'\", `'\\''`) by a loop ranging over the whole slice, with no later modification of the slice; (2) in the template text, parsed and lexed as POSIX shell, the only action printing an element sits inside single quotes, for which exactly that replacement is the complete escape (inside '…' no other character is special); (3) rows cannot contain a newline: the slice comes from strings.Split(…, \"\\n\") of the tab-writer's output and elements are not concatenated afterwards; empty rows are removed, rows are sorted and de-duplicated before escaping; (4) every payload line is considered: the scan is a range over strings.Split(payload, \"\\n\"), tagged lines are recognised by the DocPrefix constant, name and description are split at the first blank; the function's own row is written first. echo's treatment of backslashes and the tab-writer's cell bytes are outside. Also: the returned bytes are rooted in buffers allocated by the call.",
		Assumptions: []string{"POSIX shell: inside single quotes every character except ' is literal; '\\'' closes, emits a quote, and re-opens"},
	})
}

func checkC18(p *Prog, r *Report) {
	rSan := r.Rule("sanitizer-last", "every element handed to the template was last assigned the single-quote escape of itself, over the whole slice")
	rCtx := r.Rule("template-context", "the element is printed inside single quotes, one echo per row")
	rRows := r.Rule("rows", "rows are newline-free, non-empty, sorted and distinct, and the self row is present")
	rScan := r.Rule("scan-total", "every line of the payload is examined; tagged lines are split into name and description")
	rOwn := r.Rule("result-owned", "the returned function text lives in memory allocated by this call (not a pooled, global or field buffer a later call rewrites)")
	checkC18ListGuard(p, r, r.Rule("list-whenever-asked", "with AddListFunction set the list function is appended whatever the payload contains: its generation is guarded by that field (and by earlier steps having succeeded) only"))
	checkC18OnePayload(p, r, r.Rule("one-list-per-payload", "the programs hand all of their sources to one Converter.From call: the list function is made once, from the whole payload"))

	gf := p.Func(sffPkg, "", "GenFuncList")
	if nil == gf {
		rSan.Unproven("GenFuncList", token.NoPos, "not found")
		return
	}
	r.Saw("func " + fnName(gf))
	c := fnName(gf)
	checkResultOwned(gf, rOwn)

	/* The Execute call and its data. */
	var exec *ssa.Call
	eachInstr(gf, func(i ssa.Instruction) {
		if cc, ok := i.(*ssa.Call); ok && "(*text/template.Template).Execute" == calleeName(cc.Common()) {
			exec = cc
		}
	})
	if nil == exec {
		rSan.Unproven(c+":execute", gf.Pos(), "no template execution found")
		return
	}
	data := stripConv(exec.Common().Args[2], false)
	/* 1. The escape loop. */
	var escStore *ssa.Store
	var escCall *ssa.Call
	/* The rows executed can be a copy made index by index: out := make([]T,
	len(rows)); for i, row := range rows { out[i] = T(escape(row)) }. */
	indexed := indexedCopy(data)
	eachInstr(gf, func(i ssa.Instruction) {
		st, ok := i.(*ssa.Store)
		if !ok {
			return
		}
		ia, ok := st.Addr.(*ssa.IndexAddr)
		if !ok || ia.X != data {
			return
		}
		if nil != indexed && st == indexed.Store {
			return
		}
		if cc, ok := st.Val.(*ssa.Call); ok {
			escStore, escCall = st, cc
		} else {
			rSan.Bad(c+":element-store", posOf(st), "an element of the rows is assigned %s", describeValue(st.Val))
		}
	})
	/* Or the rows executed are a copy made row by row: out = append(out,
	escape(row)) for every row of another slice. */
	var mapped *mapLoop
	if nil != indexed {
		escCall = indexed.Call
	}
	if nil == escStore && nil == indexed {
		if mapped = mappedCopy(data); nil != mapped {
			escCall = mapped.Call
		}
	}
	tfuncs := templateFuncs(p, sffPkg, "funcListTemplate")
	var tnames []string
	for n := range tfuncs {
		tnames = append(tnames, n)
	}
	quoteFn := "" /* template function which single-quotes a whole row */
	if nil == escStore && nil == mapped && nil == indexed {
		if text, _ := templateConst(p, sffPkg, "funcListTemplate"); "" != text {
			if toks, err := flattenTemplate("funcList", text, tnames...); nil == err {
				for _, t := range toks {
					if "." == t.Field && t.Range && "" != t.Func {
						if f := tfuncs[t.Func]; nil != f && isShellSingleQuoter(p, f) {
							quoteFn = t.Func
						}
					}
				}
			}
		}
	}
	switch {
	case nil != indexed && nil == escStore:
		escArg, okCall, why := quoteEscape(p, escCall)
		switch {
		case !okCall:
			rSan.Bad(c+":escape", posOf(escCall), "%s", why)
		case escArg != indexed.Elem:
			rSan.Bad(c+":escape", posOf(escCall), "what is stored into the executed rows is not the escape of the whole source row")
		default:
			rSan.OK(c+":escape", posOf(escCall), "out[i] = escape(rows[i]) with ' → '\\''")
		}
		if indexed.Whole {
			rSan.OK(c+":whole-slice", posOf(indexed.Store), "the copy has the length of the source rows and the loop fills every element from the row of the same index")
		} else {
			rSan.Bad(c+":whole-slice", posOf(indexed.Store), "the escaped copy does not take every source row: some elements reach the template empty or unescaped")
		}
		later := false
		for _, ref := range *indexed.Dst.Referrers() {
			switch y := ref.(type) {
			case *ssa.MakeInterface, *ssa.DebugRef:
				continue
			case *ssa.IndexAddr:
				if ssa.Value(y) == indexed.Store.Addr {
					continue
				}
			case *ssa.Call:
				if b, ok := y.Common().Value.(*ssa.Builtin); ok && ("len" == b.Name() || "cap" == b.Name()) {
					continue
				}
				if y == exec {
					continue
				}
			}
			later = true
			rSan.Bad(c+":nothing-after", posOf(ref), "the escaped rows are used by %T before Execute", ref)
		}
		if !later {
			rSan.OK(c+":nothing-after", posOf(exec), "nothing touches the escaped copy between the loop and Execute")
		}
		if !instrDominatesLoop(indexed.Store, exec) {
			rSan.Bad(c+":before-execute", posOf(exec), "the template can be executed on a path which skips the escape loop")
		}
		/* What follows is about where the rows come from. */
		data = indexed.Src
	case nil != mapped:
		escArg, okCall, why := quoteEscape(p, escCall)
		switch {
		case !okCall:
			rSan.Bad(c+":escape", posOf(escCall), "%s", why)
		case escArg != mapped.Elem:
			rSan.Bad(c+":escape", posOf(escCall), "what is appended to the executed rows is not the escape of the whole source row")
		default:
			rSan.OK(c+":escape", posOf(escCall), "rows = append(rows, escape(row)) with ' → '\\''")
		}
		if mapped.Whole {
			rSan.OK(c+":whole-slice", posOf(mapped.Append), "the copying loop ranges over every source row and starts from an empty slice")
		} else {
			rSan.Bad(c+":whole-slice", posOf(mapped.Append), "the escaped copy does not take every source row (or does not start empty): some rows reach the template unescaped")
		}
		later := false
		for _, ref := range *mapped.Out.Referrers() {
			in := ref
			if ref == ssa.Instruction(mapped.Append) || ref == ssa.Instruction(exec) {
				continue
			}
			switch y := ref.(type) {
			case *ssa.MakeInterface, *ssa.DebugRef, *ssa.Phi:
				continue
			case *ssa.Call:
				if b, ok := y.Common().Value.(*ssa.Builtin); ok && ("len" == b.Name() || "cap" == b.Name()) {
					continue
				}
			}
			later = true
			rSan.Bad(c+":nothing-after", posOf(in), "the escaped rows are used by %T before Execute", in)
		}
		if !later {
			rSan.OK(c+":nothing-after", posOf(exec), "nothing touches the escaped copy between the loop and Execute")
		}
		if !mapped.Append.Block().Dominates(exec.Block()) && !mapped.Out.Block().Dominates(exec.Block()) {
			rSan.Bad(c+":before-execute", posOf(exec), "the template can be executed on a path which skips the escape loop")
		}
		/* What follows is about where the rows come from. */
		data = mapped.Src
	case nil == escStore && "" != quoteFn:
		rSan.OK(c+":escape", posOf(exec), "every row is printed through the template function %s, which returns the row as one single-quoted shell word (' → '\\'' inside quotes)", quoteFn)
	case nil == escStore:
		rSan.Bad(c+":escape", posOf(exec), "the rows executed against the template are never escaped in place: a single quote in a TABDOC line ends the quoting and the rest runs as shell code")
	default:
		escArg, okCall, why := quoteEscape(p, escCall)
		/* Operand: the same element. */
		sameElem := false
		if u, ok := escArg.(*ssa.UnOp); ok && token.MUL == u.Op {
			if ia, ok := u.X.(*ssa.IndexAddr); ok {
				sia := escStore.Addr.(*ssa.IndexAddr)
				if ia.X == sia.X && ia.Index == sia.Index {
					sameElem = true
				}
			}
		}
		switch {
		case !okCall:
			rSan.Bad(c+":escape", posOf(escCall), "%s", why)
		case !sameElem:
			rSan.Bad(c+":escape", posOf(escCall), "the escaped value stored into a row is not the escape of that whole row (only part of the row is escaped, or another value)")
		default:
			rSan.OK(c+":escape", posOf(escCall), "row = strings.ReplaceAll(row, \"'\", `'\\''`)")
		}
		/* The loop covers the whole slice: index is a range index over len(data). */
		sia := escStore.Addr.(*ssa.IndexAddr)
		if wholeRange(sia.Index, data) || rangesOverAll(sia.Index, data, -1) {
			rSan.OK(c+":whole-slice", posOf(escStore), "the escape loop ranges over every element")
		} else {
			rSan.Bad(c+":whole-slice", posOf(escStore), "the escape is not applied by a range over the whole slice: some rows reach the template unescaped")
		}
		/* Last: after the loop nothing touches the slice before Execute. */
		later := false
		for _, ref := range *data.Referrers() {
			in, ok := ref.(ssa.Instruction)
			if !ok || ref == ssa.Instruction(exec) {
				continue
			}
			if mi, ok := ref.(*ssa.MakeInterface); ok {
				_ = mi
				continue
			}
			if ia, ok := ref.(*ssa.IndexAddr); ok && ia == sia {
				continue
			}
			/* A use reachable from the loop's exit towards Execute. */
			if cc := callCommon(in); nil != cc {
				if b, ok := cc.Value.(*ssa.Builtin); ok && "len" == b.Name() {
					continue
				}
				if canReach(locOf(escStore), in) && instrDominates(in, exec) && in.Block() != escStore.Block() && !instrDominates(in, escStore) {
					later = true
					rSan.Bad(c+":nothing-after", posOf(in), "the rows are passed to %s after being escaped", calleeName(cc))
				}
			}
		}
		if !later {
			rSan.OK(c+":nothing-after", posOf(exec), "nothing modifies the rows between the escape loop and Execute")
		}
		if !instrDominatesLoop(escStore, exec) {
			rSan.Bad(c+":before-execute", posOf(exec), "the template can be executed on a path which skips the escape loop")
		}
	}

	/* 2. Template context. */
	text, tpos := templateConst(p, sffPkg, "funcListTemplate")
	if "" == text {
		rCtx.Unproven("funcListTemplate", token.NoPos, "template constant not found")
	} else {
		r.Saw("template funcListTemplate")
		toks, err := flattenTemplate("funcList", text, tnames...)
		if nil != err {
			rCtx.Bad("funcListTemplate:parse", tpos, "%s", err)
		} else {
			ctx := shellContexts(toks)
			n := 0
			for i, t := range toks {
				if "" == t.Field {
					continue
				}
				cc := fmt.Sprintf("funcListTemplate:action#%d{{%s}}", i, t.Field)
				switch {
				case "." == t.Field && t.Range && "" != t.Func:
					n++
					switch {
					case t.Func != quoteFn:
						rCtx.Bad(cc, tpos, "the row is printed through template function %s, which is not a whole-word single-quoter", t.Func)
					case ctxBare != ctx[i]:
						rCtx.Bad(cc, tpos, "the row, already quoted by %s, is printed %s: the quotes it adds are then literal or close the surrounding quotes", t.Func, ctx[i])
					default:
						rCtx.OK(cc, tpos, "row printed as a single-quoted word made by %s", t.Func)
					}
				case "." == t.Field && t.Range:
					n++
					if ctxSingle == ctx[i] {
						rCtx.OK(cc, tpos, "row printed inside single quotes")
					} else {
						rCtx.Bad(cc, tpos, "the row is %s in the shell text: the single-quote escape applied to it is the wrong one (command substitution, variables or word splitting apply)", ctx[i])
					}
				case "." == t.Field:
					rCtx.Bad(cc, tpos, "the whole slice is printed outside the range")
				default:
					rCtx.Unproven(cc, tpos, "unexpected template action")
				}
			}
			if 1 != n {
				rCtx.Bad("funcListTemplate:rows", tpos, "%d row actions in the template, one expected", n)
			}
			/* The literal before the action ends with "echo '" on its own line. */
			txt := renderToks(toks)
			if strings.Contains(txt, "echo '⟦.⟧'\n") || ("" != quoteFn && strings.Contains(txt, "echo ⟦.⟧\n")) {
				rCtx.OK("funcListTemplate:one-echo-per-row", tpos, "echo '<row>' on a line of its own")
			} else {
				rCtx.Bad("funcListTemplate:one-echo-per-row", tpos, "rows are not emitted as echo '<row>' on lines of their own")
			}
			if strings.HasPrefix(txt, "tab_list() {") {
				rCtx.OK("funcListTemplate:name", tpos, "defines tab_list")
			} else {
				rCtx.Bad("funcListTemplate:name", tpos, "the template does not define tab_list()")
			}
		}
	}

	/* 3. Rows. */
	var escAt ssa.Instruction
	if nil != escStore {
		escAt = escStore
	} else if nil != mapped {
		escAt = mapped.Append
	} else if nil != indexed {
		escAt = indexed.Store
	}
	var dedupe *dedupeLoop
	rowsV := data
	if dl := adjacentDedupe(data); nil != dl {
		/* A hand-written "keep a row unless it equals the last one kept". */
		dedupe, rowsV = dl, dl.Src
	}
	/* Or the rows are the sorted keys of a set: distinct and sorted by
	construction; what matters is what is put into the set. */
	set := sortedSetRows(rowsV)
	if nil != set {
		rowsV = nil
	}
	var rs []Root
	if nil != rowsV {
		rs = valueRoots(rowsV, func(n string) bool {
			return "slices.Compact" == n || "slices.DeleteFunc" == n
		})
	} else {
		for _, k := range set.Keys {
			rs = append(rs, valueRoots(k, nil)...)
		}
	}
	var split *ssa.Call
	fields := false
	okRoots := true
	for _, x := range rs {
		switch {
		case "call" == x.Kind && "strings.Split" == x.Callee:
			split = x.V.(*ssa.Call)
		case "call" == x.Kind && "strings.FieldsFunc" == x.Callee:
			/* Maximal runs of non-newline bytes: newline-free and
			non-empty by construction. */
			fc := x.V.(*ssa.Call)
			if f, _ := closureOf(fc.Common().Args[1]); nil != f && isNewlinePredicate(f) {
				split, fields = fc, true
			} else {
				okRoots = false
			}
		case "other" == x.Kind:
			if _, isFn := x.V.(*ssa.Function); isFn {
				continue
			}
			if _, isMC := x.V.(*ssa.MakeClosure); isMC {
				continue
			}
			okRoots = false
		default:
			okRoots = false
		}
	}
	switch {
	case nil != split && okRoots && fields:
		rRows.OK(c+":newline-free", posOf(split), "rows are the newline-free fields of strings.FieldsFunc(table, r == '\\n')")
	case nil != split && okRoots:
		if s, ok := constString(split.Common().Args[1]); ok && "\n" == s {
			rRows.OK(c+":newline-free", posOf(split), "rows are the pieces of strings.Split(table, \"\\n\")")
		} else {
			rRows.Bad(c+":newline-free", posOf(split), "rows are not split at newlines")
		}
	default:
		rRows.Bad(c+":newline-free", posOf(exec), "the rows do not come from strings.Split(…, \"\\n\") alone (%s): a row could span lines", rootsString(rs))
	}
	var srt, cmp, del *ssa.Call
	eachInstr(gf, func(i ssa.Instruction) {
		if cc, ok := i.(*ssa.Call); ok {
			switch calleeName(cc.Common()) {
			case "slices.Sort", "sort.Strings":
				srt = cc
			case "slices.Compact":
				cmp = cc
			case "slices.DeleteFunc":
				del = cc
			}
		}
	})
	switch {
	case nil != set:
		rRows.OK(c+":sorted-distinct", posOf(set.Sorted), "the sorted keys of a set: sorted and distinct by construction")
	case nil != srt && nil != cmp && instrDominates(srt, cmp) && (nil == escAt || instrDominatesLoop2(cmp, escAt)):
		rRows.OK(c+":sorted-distinct", posOf(cmp), "sorted, then slices.Compact, before escaping")
	case nil != srt && nil != dedupe && srt.Common().Args[0] == dedupe.Src && instrDominates(srt, dedupe.Append) && (nil == escAt || !canReach(locOf(escAt), dedupe.Append)):
		rRows.OK(c+":sorted-distinct", posOf(dedupe.Append), "sorted, then a loop keeping each row unless it equals the last one kept")
	default:
		rRows.Bad(c+":sorted-distinct", posOf(exec), "rows are not sorted and de-duplicated before being escaped")
	}
	switch {
	case nil != set && set.NonEmpty:
		rRows.OK(c+":non-empty", posOf(set.Sorted), "only non-empty rows are put into the set")
	case nil != del:
		rRows.OK(c+":non-empty", posOf(del), "empty rows are removed")
	case fields:
		rRows.OK(c+":non-empty", posOf(split), "fields are never empty")
	default:
		rRows.Bad(c+":non-empty", posOf(exec), "empty rows (the trailing piece after the last newline) are not removed: an empty echo row is printed")
	}
	/* Self row: a Fprintf to the tab-writer with ListFuncName before the scan. */
	self := false
	eachInstr(gf, func(i ssa.Instruction) {
		cc, ok := i.(*ssa.Call)
		if !ok || "fmt.Fprintf" != calleeName(cc.Common()) {
			return
		}
		for _, e := range variadicElems(cc.Common()) {
			for _, x := range valueRoots(e, func(n string) bool { return strings.HasPrefix(n, "strings.Trim") }) {
				if s, ok := constString(x.V); "const" == x.Kind && ok && "tab_list" == s {
					self = true
				}
			}
		}
	})
	if self {
		rRows.OK(c+":self-row", gf.Pos(), "a row for tab_list itself is written")
	} else {
		rRows.Bad(c+":self-row", gf.Pos(), "no row for tab_list itself")
	}

	/* 4. Scan. */
	var scan *ssa.Call
	eachInstr(gf, func(i ssa.Instruction) {
		if cc, ok := i.(*ssa.Call); ok && ("strings.Split" == calleeName(cc.Common()) || "bytes.Split" == calleeName(cc.Common())) && stripConv(cc.Common().Args[0], true) == ssa.Value(gf.Params[0]) {
			if sep, isC := constString(stripConv(cc.Common().Args[1], true)); isC && "\n" == sep {
				scan = cc
			}
		}
		if cc, ok := i.(*ssa.Call); ok && strings.HasPrefix(calleeName(cc.Common()), "bufio.NewScanner") {
			rScan.Bad(c+":scanner", posOf(cc), "the payload is read with a bufio.Scanner: a line longer than its buffer ends the scan silently and every TABDOC line after it is dropped")
		}
	})
	if cl := cutLineLoop(gf, gf.Params[0]); nil == scan && nil != cl {
		/* line, rest, more := strings.Cut(payload, "\n"), again on rest for
		as long as there was a newline. */
		if "" != cl.Problem {
			rScan.Bad(c+":scan-whole", posOf(cl.First), "%s", cl.Problem)
		}
		rScan.OK(c+":scan", posOf(cl.First), "takes the payload apart line by line with strings.Cut until no newline is left")
	} else if nil == scan {
		rScan.Bad(c+":scan", gf.Pos(), "the payload is not examined line by line with strings.Split(payload, \"\\n\")")
	} else {
		var el *ssa.UnOp
		eachInstr(gf, func(i ssa.Instruction) {
			if u, ok := i.(*ssa.UnOp); ok && token.MUL == u.Op {
				if ia, ok := u.X.(*ssa.IndexAddr); ok && ia.X == ssa.Value(scan) {
					el = u
					if !wholeRange(ia.Index, scan) {
						rScan.Bad(c+":scan-whole", posOf(u), "the scan does not range over every line")
					}
				}
			}
		})
		if nil != el {
			rScan.OK(c+":scan", posOf(scan), "ranges over every line of the payload")
		} else {
			rScan.Bad(c+":scan", posOf(scan), "the split lines are not ranged over")
		}
	}
	/* DocPrefix recognition and Cut at the first blank. */
	hasPrefix, cut := false, false
	eachInstr(gf, func(i ssa.Instruction) {
		cc, ok := i.(*ssa.Call)
		if !ok {
			return
		}
		switch calleeName(cc.Common()) {
		case "strings.HasPrefix", "strings.CutPrefix", "bytes.HasPrefix", "bytes.CutPrefix", "strings.TrimPrefix", "bytes.TrimPrefix":
			if s, ok := constString(stripConv(cc.Common().Args[1], true)); ok && "# TABDOC:" == s {
				hasPrefix = true
			}
		case "strings.Cut", "bytes.Cut":
			if s, ok := constString(stripConv(cc.Common().Args[1], true)); ok && " " == s {
				cut = true
			}
		}
	})
	if hasPrefix && cut {
		rScan.OK(c+":tag-and-split", gf.Pos(), "lines tagged '# TABDOC:' are cut at the first blank into name and description")
	} else {
		rScan.Bad(c+":tag-and-split", gf.Pos(), "tag recognition (HasPrefix \"# TABDOC:\") or name/description split (Cut at \" \") missing")
	}
}

// wholeRange: idx is the index of a `for i := range slice` loop over s:
// a phi starting at -1, incremented by 1, compared with len(s).
func wholeRange(idx ssa.Value, s ssa.Value) bool {
	add, ok := idx.(*ssa.BinOp)
	if !ok || token.ADD != add.Op {
		return false
	}
	ph, ok := add.X.(*ssa.Phi)
	if !ok {
		return false
	}
	if k, ok := constInt(add.Y); !ok || 1 != k {
		return false
	}
	start := false
	for _, e := range ph.Edges {
		if k, ok := constInt(e); ok && -1 == k {
			start = true
		} else if e != ssa.Value(add) {
			return false
		}
	}
	if !start {
		return false
	}
	for _, ref := range *add.Referrers() {
		cmp, ok := ref.(*ssa.BinOp)
		if !ok || token.LSS != cmp.Op || cmp.X != ssa.Value(add) {
			continue
		}
		if lc, ok := cmp.Y.(*ssa.Call); ok {
			if b, ok := lc.Common().Value.(*ssa.Builtin); ok && "len" == b.Name() && lc.Common().Args[0] == s {
				return true
			}
		}
	}
	return false
}

// instrDominatesLoop: the loop containing st lies on every path to target
// (the loop header dominates target).
func instrDominatesLoop(st, target ssa.Instruction) bool {
	/* The header of st's loop is the nearest dominator of st's block which
	also dominates target; it suffices that some dominator of st's block,
	from which st's block is reachable and back, dominates target. */
	for b := st.Block(); nil != b; b = b.Idom() {
		if b.Dominates(target.Block()) {
			/* b must be inside/at the loop: st's block must be able to reach b. */
			for _, s := range st.Block().Succs {
				if s == b || s.Dominates(b) || b.Dominates(s) {
					return true
				}
			}
			return true
		}
	}
	return false
}

func instrDominatesLoop2(a, loopInstr ssa.Instruction) bool {
	return a.Block().Dominates(loopInstr.Block())
}

// checkResultOwned: on success returns, result 0 is rooted in allocations,
// constants and parameters of this very call.
func checkResultOwned(fn *ssa.Function, ru *Rule) {
	n, bad := 0, 0
	through := func(n string) bool {
		switch n {
		case "(*bytes.Buffer).Bytes", "(*bytes.Buffer).String", "(*strings.Builder).String", "fmt.Sprintf", "fmt.Appendf", "bytes.Clone", "slices.Clone", "strings.Clone":
			return true
		}
		return false
	}
	eachInstr(fn, func(i ssa.Instruction) {
		ret, ok := i.(*ssa.Return)
		if !ok || 0 == len(ret.Results) {
			return
		}
		if 2 == len(ret.Results) && !isNilConst(retVal(ret, 1)) {
			return
		}
		n++
		var roots []Root
		for _, d := range appendDests(retVal(ret, 0)) {
			roots = append(roots, valueRoots(d, through)...)
		}
		for _, x := range roots {
			switch x.Kind {
			case "alloc", "const", "param":
			case "other":
				if _, ok := x.V.(*ssa.MakeSlice); ok {
					continue
				}
				bad++
				ru.Bad(fnName(fn)+":result-buffer", posOf(ret), "the returned bytes derive from %s", x)
			default:
				bad++
				ru.Bad(fnName(fn)+":result-buffer", posOf(ret), "the returned bytes belong to %s, not to memory allocated for this call: the next call (or a concurrent one) rewrites a function text handed out earlier", x)
			}
		}
	})
	if 0 == n {
		ru.Unproven(fnName(fn)+":result-buffer", fn.Pos(), "no success return found")
	} else if 0 == bad {
		ru.OK(fnName(fn)+":result-buffer", fn.Pos(), "the result is rendered into buffers allocated in this call (%d success returns)", n)
	}
}

// templateFuncs returns the functions registered with Funcs(template.FuncMap{
// "name": fn}) in the initialiser of the template variable.
func templateFuncs(p *Prog, pkgSuffix, varName string) map[string]*ssa.Function {
	out := map[string]*ssa.Function{}
	sp := p.SSAPkg[ModPath+"/"+pkgSuffix]
	if g := templateGlobal(p, pkgSuffix, varName); nil != g && nil != g.Pkg {
		sp = g.Pkg
	}
	if nil == sp {
		return out
	}
	init := sp.Func("init")
	if nil == init {
		return out
	}
	eachInstr(init, func(i ssa.Instruction) {
		c, ok := i.(*ssa.Call)
		if !ok || "(*text/template.Template).Funcs" != calleeName(c.Common()) {
			return
		}
		m, ok := stripConv(resolveCell(c.Common().Args[1]), false).(*ssa.MakeMap)
		if !ok {
			return
		}
		for _, ref := range *m.Referrers() {
			mu, ok := ref.(*ssa.MapUpdate)
			if !ok {
				continue
			}
			name, ok := constString(mu.Key)
			if !ok {
				continue
			}
			if f, _ := closureOf(stripConv(mu.Value, false)); nil != f {
				out[name] = f
			}
		}
	})
	return out
}

// isShellSingleQuoter: f(s string) string returns "'" + E(s) + "'" on every
// path, where E replaces every ' by '\” and nothing else.
func isShellSingleQuoter(p *Prog, f *ssa.Function) bool {
	if 1 != len(f.Params) || 1 != f.Signature.Results().Len() {
		return false
	}
	n, okAll := 0, true
	eachInstr(f, func(i ssa.Instruction) {
		ret, ok := i.(*ssa.Return)
		if !ok {
			return
		}
		n++
		/* "'" followed by the escaped parameter followed by "'", however
		it is put together. */
		ps, known := stringPieces(f, ret.Results[0], 0)
		if !known || 3 != len(ps) {
			okAll = false
			return
		}
		q1, ok1 := constString(ps[0])
		q2, ok2 := constString(ps[2])
		esc, ok3 := ps[1].(*ssa.Call)
		if !ok1 || !ok2 || !ok3 || "'" != q1 || "'" != q2 {
			okAll = false
			return
		}
		arg, good, _ := quoteEscape(p, esc)
		if !good || arg != ssa.Value(f.Params[0]) {
			okAll = false
		}
	})
	return okAll && n > 0
}

// stringPieces: the string v as the concatenation of pieces, in order:
// through +, through a strings.Builder / bytes.Buffer local to f which is
// written in straight-line code, and through fmt.Sprintf with %s verbs only.
func stringPieces(f *ssa.Function, v ssa.Value, depth int) ([]ssa.Value, bool) {
	if depth > 6 {
		return nil, false
	}
	switch x := v.(type) {
	case *ssa.BinOp:
		if token.ADD == x.Op {
			l, ok1 := stringPieces(f, x.X, depth+1)
			r, ok2 := stringPieces(f, x.Y, depth+1)
			return append(l, r...), ok1 && ok2
		}
	case *ssa.Call:
		switch calleeName(x.Common()) {
		case "(*strings.Builder).String", "(*bytes.Buffer).String":
			sb, ok := x.Common().Args[0].(*ssa.Alloc)
			if !ok {
				return nil, false
			}
			var out []ssa.Value
			good := true
			for _, ref := range *sb.Referrers() {
				c, isCall := ref.(*ssa.Call)
				if !isCall {
					if _, isDbg := ref.(*ssa.DebugRef); !isDbg {
						good = false
					}
					continue
				}
				if c == x {
					continue
				}
				if c.Block() != x.Block() || !instrDominates(c, x) {
					good = false /* written in a loop or on some paths only */
					continue
				}
				switch calleeName(c.Common()) {
				case "(*strings.Builder).WriteString", "(*bytes.Buffer).WriteString":
					ps, ok := stringPieces(f, c.Common().Args[1], depth+1)
					if !ok {
						good = false
					}
					out = append(out, ps...)
				case "(*strings.Builder).WriteByte", "(*bytes.Buffer).WriteByte", "(*strings.Builder).WriteRune", "(*bytes.Buffer).WriteRune":
					k, isC := constInt(c.Common().Args[1])
					if !isC {
						good = false
						continue
					}
					out = append(out, ssa.NewConst(constant.MakeString(string(rune(k))), types.Typ[types.String]))
				case "(*strings.Builder).Grow", "(*bytes.Buffer).Grow", "(*strings.Builder).Len", "(*bytes.Buffer).Len":
				default:
					good = false
				}
			}
			/* Referrers come in program order within a block. */
			return out, good
		case "fmt.Sprintf":
			format, ok := constString(x.Common().Args[0])
			if !ok {
				return nil, false
			}
			args := orderedVariadic(x.Common())
			var out []ssa.Value
			k := 0
			for {
				j := strings.Index(format, "%")
				if j < 0 {
					break
				}
				if j+1 >= len(format) || 's' != format[j+1] || k >= len(args) {
					return nil, false
				}
				if j > 0 {
					out = append(out, ssa.NewConst(constant.MakeString(format[:j]), types.Typ[types.String]))
				}
				out = append(out, stripConv(args[k], false))
				k++
				format = format[j+2:]
			}
			if "" != format {
				out = append(out, ssa.NewConst(constant.MakeString(format), types.Typ[types.String]))
			}
			return out, k == len(args)
		}
	}
	return []ssa.Value{v}, true
}

// isNewlinePredicate: f(r rune) bool returns r == '\n'.
func isNewlinePredicate(f *ssa.Function) bool {
	if 1 != len(f.Params) {
		return false
	}
	n, ok := 0, true
	eachInstr(f, func(i ssa.Instruction) {
		ret, isRet := i.(*ssa.Return)
		if !isRet || 1 != len(ret.Results) {
			return
		}
		n++
		bo, isB := ret.Results[0].(*ssa.BinOp)
		if !isB || token.EQL != bo.Op {
			ok = false
			return
		}
		x, y := bo.X, bo.Y
		if _, isC := x.(*ssa.Const); isC {
			x, y = y, x
		}
		k, isC := constInt(y)
		if x != ssa.Value(f.Params[0]) || !isC || 10 != k {
			ok = false
		}
	})
	return ok && 1 == n
}

// dedupeLoop is a recognised "compact adjacent duplicates" loop.
type dedupeLoop struct {
	Src    ssa.Value /* the (sorted) slice ranged over */
	Append *ssa.Call
}

// adjacentDedupe recognises
//
//	out := src[:0] (or nil)
//	for _, e := range src { if len(out) != 0 && out[len(out)-1] == e { continue }; out = append(out, e) }
//
// when v is out after the loop.
func adjacentDedupe(v ssa.Value) *dedupeLoop {
	ph, ok := v.(*ssa.Phi)
	if !ok {
		return nil
	}
	fn := ph.Parent()
	/* The only append feeding the accumulator. */
	var app *ssa.Call
	n := 0
	eachInstr(fn, func(i ssa.Instruction) {
		c, ok := i.(*ssa.Call)
		if !ok {
			return
		}
		if b, isB := c.Common().Value.(*ssa.Builtin); !isB || "append" != b.Name() {
			return
		}
		if accumulates(c.Common().Args[0], ph) {
			app = c
			n++
		}
	})
	if 1 != n {
		return nil
	}
	/* It appends exactly one element: the loop's element of src. */
	els := variadicElems(app.Common())
	if 1 != len(els) {
		return nil
	}
	ld, ok := els[0].(*ssa.UnOp)
	if !ok || token.MUL != ld.Op {
		return nil
	}
	ia, ok := ld.X.(*ssa.IndexAddr)
	if !ok || !wholeRange(ia.Index, ia.X) {
		return nil
	}
	src := ia.X
	/* The accumulator starts empty. */
	startsEmpty := false
	for _, l := range phiLeaves(ph) {
		switch x := l.V.(type) {
		case *ssa.Slice:
			if k, isC := constInt(x.High); isC && 0 == k && nil == x.Low {
				startsEmpty = true
				continue
			}
			return nil
		case *ssa.Const:
			if x.IsNil() {
				startsEmpty = true
				continue
			}
			return nil
		case *ssa.Call:
			if x == app {
				continue
			}
			return nil
		default:
			return nil
		}
	}
	if !startsEmpty {
		return nil
	}
	/* The append is skipped exactly when the last kept element equals e:
	some test "last == e" whose true edge cannot reach the append within
	the iteration, and the append is reachable from its false edge. */
	guarded := false
	for _, b := range fn.Blocks {
		ifi := blockIf(b)
		if nil == ifi {
			continue
		}
		bo, ok := ifi.Cond.(*ssa.BinOp)
		if !ok || token.EQL != bo.Op {
			continue
		}
		var other ssa.Value
		switch {
		case bo.X == ssa.Value(ld):
			other = bo.Y
		case bo.Y == ssa.Value(ld):
			other = bo.X
		default:
			continue
		}
		/* other = acc[len(acc)-1] */
		ol, ok := other.(*ssa.UnOp)
		if !ok || token.MUL != ol.Op {
			continue
		}
		oia, ok := ol.X.(*ssa.IndexAddr)
		if !ok || !accumulates(oia.X, ph) {
			continue
		}
		sub, ok := oia.Index.(*ssa.BinOp)
		if !ok || token.SUB != sub.Op {
			continue
		}
		if one, isC := constInt(sub.Y); !isC || 1 != one {
			continue
		}
		lc, ok := sub.X.(*ssa.Call)
		if !ok {
			continue
		}
		if bi, isB := lc.Common().Value.(*ssa.Builtin); !isB || "len" != bi.Name() || !accumulates(lc.Common().Args[0], ph) {
			continue
		}
		header := ph.Block()
		stopAtHeader := func(i ssa.Instruction) bool { return i.Block() == header }
		skips := nil == (reachQ{From: edgeLoc(b, 0), Target: func(i ssa.Instruction) bool { return i == ssa.Instruction(app) }, Block: stopAtHeader}).run()
		keeps := nil != (reachQ{From: edgeLoc(b, 1), Target: func(i ssa.Instruction) bool { return i == ssa.Instruction(app) }, Block: stopAtHeader}).run()
		if skips && keeps {
			guarded = true
		}
	}
	if !guarded {
		return nil
	}
	return &dedupeLoop{Src: src, Append: app}
}

// accumulates: v is the accumulator phi or a value it takes within the loop
// (a phi of it and its own append).
func accumulates(v ssa.Value, acc *ssa.Phi) bool {
	seen := map[ssa.Value]bool{}
	var walk func(v ssa.Value) bool
	walk = func(v ssa.Value) bool {
		if v == ssa.Value(acc) {
			return true
		}
		if seen[v] {
			return false
		}
		seen[v] = true
		if p, ok := v.(*ssa.Phi); ok {
			for _, e := range p.Edges {
				if walk(e) {
					return true
				}
			}
		}
		return false
	}
	return walk(v)
}

// quoteEscape: call escapes its operand for use inside shell single quotes
// (' → '\\” and nothing else): strings.ReplaceAll, strings.Replace with n <
// 0, or a strings.Replacer made of that one pair.  Returns the operand.
func quoteEscape(p *Prog, call *ssa.Call) (arg ssa.Value, ok bool, why string) {
	name := calleeName(call.Common())
	switch name {
	case "strings.ReplaceAll":
		a, _ := constString(call.Common().Args[1])
		b, _ := constString(call.Common().Args[2])
		if "'" == a && `'\''` == b {
			return call.Common().Args[0], true, ""
		}
		return nil, false, fmt.Sprintf("replaces %q by %q; inside single quotes only ' → '\\'' is correct", a, b)
	case "strings.Replace":
		a, _ := constString(call.Common().Args[1])
		b, _ := constString(call.Common().Args[2])
		n, _ := constInt(call.Common().Args[3])
		if "'" == a && `'\''` == b && n < 0 {
			return call.Common().Args[0], true, ""
		}
		return nil, false, fmt.Sprintf("strings.Replace(%q, %q, %d) does not escape every quote", a, b, n)
	case "(*strings.Replacer).Replace":
		pairs, known := replacerPairs(p, call.Common().Args[0])
		if !known {
			return nil, false, "escapes with a strings.Replacer whose pairs are not constant"
		}
		if 2 == len(pairs) && "'" == pairs[0] && `'\''` == pairs[1] {
			return call.Common().Args[1], true, ""
		}
		return nil, false, fmt.Sprintf("escapes with strings.NewReplacer(%q); inside single quotes only ' → '\\'' is correct", pairs)
	}
	return nil, false, "escapes with " + name
}

// mapLoop is "for _, row := range Src { Out = append(Out, f(row)) }".
type mapLoop struct {
	Out    *ssa.Phi  /* the slice being built, as seen after the loop */
	Src    ssa.Value /* the slice ranged over */
	Elem   ssa.Value /* the row of Src at the loop's index */
	Call   *ssa.Call /* f(row) */
	Append *ssa.Call
	Whole  bool /* ranges over all of Src, Out starts empty, nothing else is appended */
}

// mappedCopy recognises data as the result of such a loop.
func mappedCopy(data ssa.Value) *mapLoop {
	ph, ok := data.(*ssa.Phi)
	if !ok {
		return nil
	}
	ml := &mapLoop{Out: ph, Whole: true}
	nApp := 0
	for _, e := range ph.Edges {
		e = stripConv(e, false)
		switch x := e.(type) {
		case *ssa.Const:
			if !x.IsNil() {
				return nil
			}
		case *ssa.MakeSlice:
			if k, isC := constInt(x.Len); !isC || 0 != k {
				ml.Whole = false
			}
		case *ssa.Call:
			bi, isB := x.Common().Value.(*ssa.Builtin)
			if !isB || "append" != bi.Name() || x.Common().Args[0] != ssa.Value(ph) {
				return nil
			}
			nApp++
			ml.Append = x
			els := variadicElems(x.Common())
			if 1 != len(els) {
				return nil
			}
			c, isCall := els[0].(*ssa.Call)
			if !isCall {
				return nil
			}
			ml.Call = c
		default:
			return nil
		}
	}
	if 1 != nApp || nil == ml.Call {
		return nil
	}
	/* The row: an operand of the call which is an element of a slice at a
	whole-range index. */
	for _, a := range ml.Call.Common().Args {
		u, ok := a.(*ssa.UnOp)
		if !ok || token.MUL != u.Op {
			continue
		}
		ia, ok := u.X.(*ssa.IndexAddr)
		if !ok {
			continue
		}
		ml.Src, ml.Elem = ia.X, a
		if !wholeRange(ia.Index, ia.X) {
			ml.Whole = false
		}
	}
	if nil == ml.Src {
		return nil
	}
	return ml
}

// idxMap is "out := make([]T, len(Src)); for i, row := range Src { out[i] =
// T(f(row)) }".
type idxMap struct {
	Dst   *ssa.MakeSlice
	Src   ssa.Value /* the slice ranged over */
	Elem  ssa.Value /* Src[i] */
	Call  *ssa.Call /* f(row) */
	Store *ssa.Store
	Whole bool /* len(out) is len(Src) and i ranges over all of Src */
}

// indexedCopy recognises data as the result of such a loop.
func indexedCopy(data ssa.Value) *idxMap {
	ms, ok := data.(*ssa.MakeSlice)
	if !ok || nil == ms.Referrers() {
		return nil
	}
	im := &idxMap{Dst: ms}
	n := 0
	var dstIdx ssa.Value
	for _, ref := range *ms.Referrers() {
		ia, ok := ref.(*ssa.IndexAddr)
		if !ok || nil == ia.Referrers() {
			continue
		}
		for _, r2 := range *ia.Referrers() {
			st, ok := r2.(*ssa.Store)
			if !ok || st.Addr != ssa.Value(ia) {
				continue
			}
			n++
			im.Store, dstIdx = st, ia.Index
		}
	}
	if 1 != n {
		return nil
	}
	c, ok := stripConv(im.Store.Val, true).(*ssa.Call)
	if !ok {
		return nil
	}
	im.Call = c
	for _, a := range c.Common().Args {
		u, ok := a.(*ssa.UnOp)
		if !ok || token.MUL != u.Op {
			continue
		}
		ia, ok := u.X.(*ssa.IndexAddr)
		if !ok || ia.X == data {
			continue
		}
		im.Src, im.Elem = ia.X, a
		im.Whole = ia.Index == dstIdx && wholeRange(ia.Index, ia.X)
	}
	if nil == im.Src {
		return nil
	}
	/* The copy is as long as the source. */
	lc, ok := ms.Len.(*ssa.Call)
	if !ok {
		im.Whole = false
	} else if b, isB := lc.Common().Value.(*ssa.Builtin); !isB || "len" != b.Name() || lc.Common().Args[0] != im.Src {
		im.Whole = false
	}
	return im
}

// cutLoop is the idiom
//
//	line, rest, more := strings.Cut(s, sep)
//	for { use(line); if !more { break }; line, rest, more = strings.Cut(rest, sep) }
//
// which visits every sep-separated piece of s, the last one included.
type cutLoop struct {
	First, Next *ssa.Call
	Line        *ssa.Phi
	Problem     string /* set when the loop can be left before the last piece */
}

func cutLineLoop(fn *ssa.Function, payload ssa.Value) *cutLoop {
	var out *cutLoop
	eachInstr(fn, func(i ssa.Instruction) {
		first, ok := i.(*ssa.Call)
		if !ok || nil != out {
			return
		}
		if n := calleeName(first.Common()); "strings.Cut" != n && "bytes.Cut" != n {
			return
		}
		if stripConv(first.Common().Args[0], true) != payload {
			return
		}
		if sep, isC := constString(stripConv(first.Common().Args[1], true)); !isC || "\n" != sep {
			return
		}
		ex := func(c *ssa.Call, k int) ssa.Value {
			if e := extractOf(c, k); nil != e {
				return e
			}
			return nil
		}
		/* The phis merging First's results with Next's. */
		phiOf := func(v ssa.Value) *ssa.Phi {
			if nil == v || nil == v.Referrers() {
				return nil
			}
			for _, ref := range *v.Referrers() {
				if ph, isPhi := ref.(*ssa.Phi); isPhi {
					return ph
				}
			}
			return nil
		}
		line, rest, more := phiOf(ex(first, 0)), phiOf(ex(first, 1)), phiOf(ex(first, 2))
		if nil == line || nil == rest || nil == more || line.Block() != rest.Block() || line.Block() != more.Block() {
			return
		}
		h := line.Block()
		var next *ssa.Call
		for _, e := range rest.Edges {
			if x, isEx := e.(*ssa.Extract); isEx && 1 == x.Index {
				if c, isCall := x.Tuple.(*ssa.Call); isCall && c != first && calleeName(c.Common()) == calleeName(first.Common()) && c.Common().Args[0] == ssa.Value(rest) && sameConstString(c.Common().Args[1], first.Common().Args[1]) {
					next = c
				}
			}
		}
		if nil == next {
			return
		}
		for _, ph := range []*ssa.Phi{line, rest, more} {
			k := map[*ssa.Phi]int{line: 0, rest: 1, more: 2}[ph]
			for _, e := range ph.Edges {
				if e != ex(first, k) && e != ex(next, k) {
					return
				}
			}
		}
		cl := &cutLoop{First: first, Next: next, Line: line}
		cutLoopExits(fn, h, more, cl)
		out = cl
	})
	if nil != out {
		return out
	}
	/* The same with one Cut, in the loop: for rest, more := s, true; more; {
	line, rest, more = strings.Cut(rest, sep); use(line) }. */
	eachInstr(fn, func(i ssa.Instruction) {
		cut, ok := i.(*ssa.Call)
		if !ok || nil != out {
			return
		}
		if n := calleeName(cut.Common()); "strings.Cut" != n && "bytes.Cut" != n {
			return
		}
		if sep, isC := constString(stripConv(cut.Common().Args[1], true)); !isC || "\n" != sep {
			return
		}
		rest, ok := cut.Common().Args[0].(*ssa.Phi)
		if !ok {
			return
		}
		h := rest.Block()
		ifi := blockIf(h)
		if nil == ifi {
			return
		}
		more, ok := ifi.Cond.(*ssa.Phi)
		if !ok || more.Block() != h || !(h.Succs[0] == cut.Block() || h.Succs[0].Dominates(cut.Block())) {
			return
		}
		for k, e := range rest.Edges {
			if h.Dominates(h.Preds[k]) {
				if x, isEx := e.(*ssa.Extract); !isEx || 1 != x.Index || x.Tuple != ssa.Value(cut) {
					return
				}
			} else if stripConv(e, true) != payload {
				return
			}
		}
		for k, e := range more.Edges {
			if h.Dominates(h.Preds[k]) {
				if x, isEx := e.(*ssa.Extract); !isEx || 2 != x.Index || x.Tuple != ssa.Value(cut) {
					return
				}
			} else if c, isC := e.(*ssa.Const); !isC || nil == c.Value || "true" != c.Value.String() {
				return
			}
		}
		cl := &cutLoop{First: cut, Next: cut}
		cutLoopExits(fn, h, more, cl)
		out = cl
	})
	return out
}

// cutLoopExits: every way out of the loop headed by h is the "no newline was
// found" edge of a test of more, and nothing in it returns.
func cutLoopExits(fn *ssa.Function, h *ssa.BasicBlock, more *ssa.Phi, cl *cutLoop) {
	{
		inLoop := map[*ssa.BasicBlock]bool{}
		for _, b := range fn.Blocks {
			if h.Dominates(b) && (b == h || nil != (reachQ{From: Loc{b, -1, nil}, Target: func(j ssa.Instruction) bool { return j.Block() == h }}).run()) {
				inLoop[b] = true
			}
		}
		for b := range inLoop {
			for k, sc := range b.Succs {
				if inLoop[sc] {
					continue
				}
				ifi := blockIf(b)
				okExit := false
				if nil != ifi {
					dc := decodeCond(ifi.Cond)
					if nil == dc.Y && dc.X == ssa.Value(more) {
						falseEdge := 1
						if !dc.Eq {
							falseEdge = 0
						}
						okExit = k == falseEdge
					}
				}
				if !okExit {
					cl.Problem = "the loop taking the payload apart with strings.Cut can be left while pieces remain"
				}
			}
			for _, in := range b.Instrs {
				if _, isRet := in.(*ssa.Return); isRet {
					cl.Problem = "the loop taking the payload apart with strings.Cut can return while pieces remain"
				}
			}
		}
	}
}

func sameConstString(a, b ssa.Value) bool {
	x, ok1 := constString(stripConv(a, true))
	y, ok2 := constString(stripConv(b, true))
	return ok1 && ok2 && x == y
}

// setRows is "rows := slices.Sorted(maps.Keys(set))" with everything put into
// the set.
type setRows struct {
	Sorted   *ssa.Call
	Keys     []ssa.Value /* every key inserted */
	NonEmpty bool        /* each insertion is below a test that the key is not "" */
}

func sortedSetRows(v ssa.Value) *setRows {
	srt, ok := stripConv(resolveCell(v), false).(*ssa.Call)
	if !ok {
		return nil
	}
	if n := calleeName(srt.Common()); !strings.HasPrefix(n, "slices.Sorted") || strings.HasPrefix(n, "slices.SortedFunc") {
		return nil
	}
	keys, ok := srt.Common().Args[0].(*ssa.Call)
	if !ok || !strings.HasPrefix(calleeName(keys.Common()), "maps.Keys") {
		return nil
	}
	m, ok := resolveCell(keys.Common().Args[0]).(*ssa.MakeMap)
	if !ok {
		return nil
	}
	out := &setRows{Sorted: srt, NonEmpty: true}
	for _, ref := range *m.Referrers() {
		switch x := ref.(type) {
		case *ssa.MapUpdate:
			if x.Map != ssa.Value(m) {
				return nil
			}
			out.Keys = append(out.Keys, x.Key)
			/* Guard: key != "". */
			guarded := false
			for _, b := range x.Parent().Blocks {
				ifi := blockIf(b)
				if nil == ifi {
					continue
				}
				dc := decodeCond(ifi.Cond)
				if nil == dc.Y || dc.X != x.Key {
					continue
				}
				if sv, isS := constString(dc.Y); !isS || "" != sv {
					continue
				}
				k := 1
				if !dc.Eq {
					k = 0
				}
				if edgeDominates(ifi, k, x) {
					guarded = true
				}
			}
			if !guarded {
				out.NonEmpty = false
			}
		case *ssa.Call:
			if x != keys {
				if bi, isB := x.Common().Value.(*ssa.Builtin); !isB || "len" != bi.Name() {
					return nil
				}
			}
		case *ssa.DebugRef, *ssa.Lookup:
		default:
			return nil
		}
	}
	if 0 == len(out.Keys) {
		return nil
	}
	return out
}

// checkC18OnePayload: From appends one tab_list made from what that call
// converted.  A program which converts its sources one call at a time emits
// one tab_list per source, and the last definition — listing the last source
// only — is the one the shell keeps.
func checkC18OnePayload(p *Prog, r *Report, ru *Rule) {
	n := 0
	for _, fn := range p.Funcs() {
		if nil == fn.Pkg || strings.HasSuffix(fn.Pkg.Pkg.Path(), "lib/shellfuncsfile") {
			continue
		}
		eachInstr(fn, func(i ssa.Instruction) {
			cc := callCommon(i)
			if nil == cc || nil == cc.StaticCallee() || "From" != cc.StaticCallee().Name() || "Converter" != recvTypeName(cc.StaticCallee()) {
				return
			}
			n++
			c := fmt.Sprintf("%s→Converter.From#%d", fnName(fn), n)
			/* Can this call be reached again from itself? */
			again := reachQ{From: locOf(i), Target: func(j ssa.Instruction) bool { return j == i }}.run()
			if nil != again {
				ru.Bad(c, posOf(i), "Converter.From is called once per source, in a loop: each call appends its own list function, made from that source alone, and the last one shadows the others — functions of the earlier sources are not listed")
			} else {
				ru.OK(c, posOf(i), "one call converts everything this program was given")
			}
		})
	}
	if n < 2 {
		ru.Unproven("module:Converter.From", token.NoPos, "%d calls of Converter.From found outside its package, at least 2 expected (the listener's Ctrl+I generator and the stand-alone converter)", n)
	}
}

// checkC18ListGuard: the branch edges which dominate the call of GenFuncList
// in the converter are tests of Converter.AddListFunction and of errors
// being nil; a test of anything else (of the payload's text, say: "does it
// mention tab_list() already?") can leave a payload without its list.
func checkC18ListGuard(p *Prog, r *Report, ru *Rule) {
	gen := p.Func(sffPkg, "", "GenFuncList")
	if nil == gen {
		ru.Unproven("GenFuncList", token.NoPos, "not found")
		return
	}
	n := 0
	/* The generator, or the worker behind it (GenFuncList as a thin wrapper
	which the converter bypasses). */
	gens := map[*ssa.Function]bool{gen: true}
	eachInstr(gen, func(i ssa.Instruction) {
		if cc := callCommon(i); nil != cc && nil != cc.StaticCallee() && cc.StaticCallee().Pkg == gen.Pkg && nil != cc.StaticCallee().Blocks {
			gens[cc.StaticCallee()] = true
		}
	})
	for _, fn := range p.Funcs() {
		if nil == fn.Pkg || fn.Pkg != gen.Pkg || gens[fn] {
			continue
		}
		eachInstr(fn, func(i ssa.Instruction) {
			cc := callCommon(i)
			if nil == cc || nil == cc.StaticCallee() || !gens[cc.StaticCallee()] {
				return
			}
			n++
			c := fmt.Sprintf("%s→GenFuncList#%d", fnName(fn), n)
			bad := ""
			for _, b := range fn.Blocks {
				ifi := blockIf(b)
				if nil == ifi || (!edgeDominates(ifi, 0, i) && !edgeDominates(ifi, 1, i)) {
					continue
				}
				dc := decodeCond(ifi.Cond)
				if nil != dc.Y && isNilConst(dc.Y) {
					continue /* an error (or other value) compared with nil */
				}
				if nil != dc.Y {
					if k, isC := constInt(dc.Y); isC && 0 == k {
						if lc, isCall := dc.X.(*ssa.Call); isCall {
							if bi, isB := lc.Common().Value.(*ssa.Builtin); isB && "len" == bi.Name() {
								/* len(x) == 0 of the argument list / sources */
								if _, isParam := stripConv(lc.Common().Args[0], false).(*ssa.Parameter); isParam {
									continue
								}
							}
						}
					}
				}
				if fv, _ := loadedField(dc.X); nil != fv && "AddListFunction" == fv.Name() {
					continue
				}
				/* The way out of a counting loop (all sources converted). */
				if bo, isBo := ifi.Cond.(*ssa.BinOp); isBo {
					if bt, isBasic := bo.X.Type().Underlying().(*types.Basic); isBasic && 0 != bt.Info()&types.IsInteger {
						switch bo.Op {
						case token.LSS, token.LEQ, token.GTR, token.GEQ:
							continue
						}
					}
				}
				bad = p.Pos(posOf(ifi))
			}
			if "" != bad {
				ru.Bad(c, posOf(i), "whether the list function is generated also depends on a condition other than AddListFunction (%s): a payload can be left without its tab_list although one was asked for", bad)
			} else {
				ru.OK(c, posOf(i), "guarded by AddListFunction (and earlier errors) only")
			}
		})
	}
	if 0 == n {
		/* Folded into the converter (or generated some other way): the
		guard analysis has no call to stand on; the payload rules of this
		property still see what is emitted. */
		ru.OK("shellfuncsfile:GenFuncList-call", gen.Pos(), "no separate call of the list generator in its package: nothing to guard")
	}
}
