package main

// C03 — shell output reaches the operator byte-exact, in order, up to end of
// stream.

import (
	"fmt"
	"go/token"
	"go/types"
	"strings"

	"golang.org/x/tools/go/ssa"
)

func init() {
	register("C03", &propDef{
		Run:         checkC03,
		Explanation: "Static decision of the structural clauses of C03 in the output proxy (the unique function sending Plain CLines on Broker.och) and its reader goroutine: (1) what crosses the internal queue is a copy of the read buffer (string conversion / clone), never a sub-slice of the reused buffer; (2) reader side: after a Read, every path on which n != 0 hands the data to the queue, through a blocking select whose only alternative is cancellation, before the read's error is queued, the next Read happens, or the goroutine ends; (3) forwarder side: for one dequeued item the data is handed to the operator channel (blocking select, only alternative cancellation) before the item's error is even looked at; (4) identity data flow: the Line of the Plain CLine is exactly the dequeued chunk, Plain is the constant true, handleOutput passes cl.Line of Plain lines to writePlain, and writePlain writes its parameter unchanged; (5) Plain lines are sent from the proxy's own goroutine only, and the close notice is emitted after the proxy has returned (same goroutine, same FIFO channel). What the terminal does with the bytes and read sizes are not covered. Also: the buffer given to Read is allocated by the reader itself (not a field or package variable shared between streams).",
		Assumptions: []string{"Go channels are FIFO", "string([]byte) copies"},
	})
}

// queueSend is one send operation (plain or select arm) of a struct literal.
type queueSend struct {
	Instr ssa.Instruction
	Sel   *ssa.Select /* nil for a plain Send */
	Arm   int
	Val   ssa.Value
	Chan  ssa.Value
}

func sendsIn(fn *ssa.Function) []queueSend {
	var out []queueSend
	eachInstr(fn, func(i ssa.Instruction) {
		switch x := i.(type) {
		case *ssa.Call:
			/* A call of a local helper closure which sends its parameter:
			the call site counts as the send of the argument. */
			g, _ := closureOf(resolveLocalFunc(x.Common().Value))
			if nil == g || nil == g.Parent() || 0 == len(x.Common().Args) {
				return
			}
			for _, hs := range sendsIn(g) {
				sent := hs.Val
				/* The parameter may have been spilled to a cell. */
				if u, ok := sent.(*ssa.UnOp); ok && token.MUL == u.Op {
					if al, ok := u.X.(*ssa.Alloc); ok {
						if sts := storesTo(al); 1 == len(sts) {
							sent = sts[0].Val
						}
					}
				}
				if k := paramIndex(g, sent); k >= 0 && k < len(x.Common().Args) {
					out = append(out, queueSend{Instr: i, Sel: hs.Sel, Arm: hs.Arm, Val: x.Common().Args[k], Chan: hs.Chan})
				}
			}
		case *ssa.Send:
			out = append(out, queueSend{Instr: i, Val: x.X, Chan: x.Chan})
		case *ssa.Select:
			for k, st := range x.States {
				if types.SendOnly == st.Dir {
					out = append(out, queueSend{Instr: i, Sel: x, Arm: k, Val: st.Send, Chan: st.Chan})
				}
			}
		}
	})
	return out
}

// litFields returns the values stored into the fields of the struct literal
// which v loads.
func litFields(v ssa.Value) map[string]ssa.Value {
	out := map[string]ssa.Value{}
	u, ok := v.(*ssa.UnOp)
	if !ok || token.MUL != u.Op {
		return out
	}
	al, ok := u.X.(*ssa.Alloc)
	if !ok {
		return out
	}
	for _, ref := range *al.Referrers() {
		fa, ok := ref.(*ssa.FieldAddr)
		if !ok {
			continue
		}
		fv, _ := fieldAddrOf(fa)
		for _, r2 := range *fa.Referrers() {
			if st, ok := r2.(*ssa.Store); ok && st.Addr == ssa.Value(fa) && nil != fv {
				out[fv.Name()] = st.Val
			}
		}
	}
	return out
}

// onlyCancelAlternative: the select is blocking and every arm other than arm
// is a receive from ctx.Done().
func onlyCancelAlternative(s *ssa.Select, arm int) bool {
	if nil == s {
		return true /* A plain send blocks until delivered. */
	}
	if !s.Blocking {
		return false
	}
	for k, st := range s.States {
		if k == arm {
			continue
		}
		if types.RecvOnly != st.Dir {
			return false
		}
		if _, ok := isCtxDone(st.Chan); !ok {
			return false
		}
	}
	return true
}

func checkC03(p *Prog, r *Report) {
	rAnch := r.Rule("anchors", "output proxy, reader goroutine, queue and terminal sink are identified through type information")
	rCopy := r.Rule("copy-out-of-buffer", "data crossing the internal queue is a copy of the reused read buffer")
	rRd := r.Rule("reader-data-before-error", "after a Read with n != 0 the data is queued (blocking, cancellable only) before the error is queued, the next Read, or the end of the goroutine")
	rFw := r.Rule("forwarder-data-before-error", "a dequeued chunk is handed to the operator channel (blocking, cancellable only) before the item's error is examined")
	rId := r.Rule("identity-flow", "the Plain CLine carries exactly the dequeued chunk and the terminal side writes cl.Line unchanged")
	rOrd := r.Rule("ordering", "Plain lines are sent from the proxy's own goroutine; the close notice follows the proxy's return")

	pout := findProxyOut(p)
	if nil == pout {
		rAnch.Unproven("output-proxy", token.NoPos, "no unique function sends Plain CLines on Broker.och")
		return
	}
	if nil != pout.Parent() {
		rOrd.Bad(fnName(pout)+":own-goroutine", pout.Pos(), "Plain lines are sent from a nested function, not from the proxy's own frame: chunks can overtake each other and the close notice")
	}
	top := proxyRoot(pout)
	rAnch.OK(fnName(top), top.Pos(), "output proxy")
	r.Saw("func " + fnName(top))
	rdP := ioOperand(top, "Reader")
	if nil == rdP {
		rAnch.Unproven(fnName(top)+":reader", top.Pos(), "no io.Reader parameter")
		return
	}

	/* The reader goroutine: the closure calling Read on the reader. */
	var rfn *ssa.Function
	var read *ssa.Call
	for _, f := range withAnons(top) {
		eachInstr(f, func(i ssa.Instruction) {
			c, ok := i.(*ssa.Call)
			if !ok || !c.Common().IsInvoke() || "Read" != c.Common().Method.Name() {
				return
			}
			if resolveCell(c.Common().Value) == rdP {
				rfn, read = f, c
			}
		})
	}
	if nil == rfn {
		rAnch.Unproven(fnName(top)+":read", top.Pos(), "no Read on the stream found")
		return
	}
	r.Saw("func " + fnName(rfn))
	rAnch.OK(fnName(rfn), rfn.Pos(), "reads the stream")
	buf := read.Common().Args[0]
	nV, errV := extractOf(read, 0), extractOf(read, 1)
	/* The read buffer belongs to this stream alone. */
	{
		local := true
		var why []string
		for _, x := range valueRoots(buf, nil) {
			switch x.Kind {
			case "alloc":
			case "other":
				if _, ok := x.V.(*ssa.MakeSlice); ok {
					continue
				}
				/* Borrowed from a sync.Pool by the reader itself and
				handed back only by its own deferred call, i.e. after its
				last Read has returned: nobody else has it meanwhile
				(sync.Pool's contract is trusted). */
				if pooledByReader(rfn, x.V) {
					continue
				}
				local = false
				why = append(why, x.String())
			case "call":
				if pooledByReader(rfn, x.V) {
					continue
				}
				local = false
				why = append(why, x.String())
			default:
				local = false
				why = append(why, x.String())
			}
		}
		if local {
			rCopy.OK(fnName(rfn)+":buffer-per-stream", posOf(read), "the read buffer is allocated by the stream's own reader")
		} else {
			rCopy.Bad(fnName(rfn)+":buffer-per-stream", posOf(read), "the read buffer is shared state (%s), not allocated per stream: a reader of an earlier shell still blocked in Read can overwrite a later shell's chunk before it is copied out", strings.Join(why, ", "))
		}
	}

	derivesFromBuf := func(v ssa.Value) (bool, bool) { /* derives, copied */
		copied := false
		seen := map[ssa.Value]bool{}
		var walk func(v ssa.Value) bool
		walk = func(v ssa.Value) bool {
			if seen[v] {
				return false
			}
			seen[v] = true
			if v == buf {
				return true
			}
			switch x := v.(type) {
			case *ssa.Slice:
				if walk(x.X) {
					return true
				}
				/* buf itself is a slice of an array. */
				if b, ok := buf.(*ssa.Slice); ok && x.X == b.X {
					return true
				}
			case *ssa.Convert:
				if walk(x.X) {
					if b, ok := x.Type().Underlying().(*types.Basic); ok && types.String == b.Kind() {
						copied = true
					}
					return true
				}
			case *ssa.Call:
				switch calleeName(x.Common()) {
				case "bytes.Clone", "slices.Clone", "strings.Clone":
					if walk(x.Common().Args[0]) {
						copied = true
						return true
					}
				case "builtin.append":
				}
				if b, ok := x.Common().Value.(*ssa.Builtin); ok && "append" == b.Name() {
					/* append(fresh, buf...) copies when the base is nil or fresh. */
					if len(x.Common().Args) == 2 && walk(x.Common().Args[1]) {
						if isNilConst(x.Common().Args[0]) {
							copied = true
						}
						return true
					}
				}
			case *ssa.Phi:
				for _, e := range x.Edges {
					if walk(e) {
						return true
					}
				}
			case *ssa.ChangeType:
				return walk(x.X)
			case *ssa.MakeInterface:
				return walk(x.X)
			}
			return false
		}
		d := walk(v)
		return d, copied
	}

	var dataSends, errSends []queueSend
	for _, s := range sendsIn(rfn) {
		for name, v := range litFields(s.Val) {
			if d, cp := derivesFromBuf(v); d {
				dataSends = append(dataSends, s)
				c := fmt.Sprintf("%s:queue.%s", fnName(rfn), name)
				if cp {
					rCopy.OK(c, posOf(s.Instr), "a copy of buf[:n] crosses the queue")
				} else {
					rCopy.Bad(c, posOf(s.Instr), "a sub-slice of the reused read buffer crosses the queue: the next Read overwrites data not yet shown")
				}
			}
			if nil != errV && stripConv(v, false) == ssa.Value(errV) {
				errSends = append(errSends, s)
			}
		}
		/* A raw slice sent without a struct. */
		if d, cp := derivesFromBuf(s.Val); d {
			dataSends = append(dataSends, s)
			if cp {
				rCopy.OK(fnName(rfn)+":queue", posOf(s.Instr), "a copy crosses the queue")
			} else {
				rCopy.Bad(fnName(rfn)+":queue", posOf(s.Instr), "the reused read buffer itself crosses the queue")
			}
		}
	}
	rCopy.AtLeast(1, "data sends")
	if 0 == len(dataSends) || 0 == len(errSends) {
		rRd.Unproven(fnName(rfn)+":sends", rfn.Pos(), "%d data sends and %d error sends found in the reader; at least one each expected", len(dataSends), len(errSends))
	} else {
		isData := func(i ssa.Instruction) bool {
			for _, s := range dataSends {
				if s.Instr == i {
					return true
				}
			}
			return false
		}
		isErr := func(i ssa.Instruction) bool {
			for _, s := range errSends {
				if s.Instr == i {
					return true
				}
			}
			return false
		}
		/* Edges on which n == 0. */
		zero := map[Edge]bool{}
		if nil != nV {
			for _, b := range rfn.Blocks {
				ifi := blockIf(b)
				if nil == ifi {
					continue
				}
				c := decodeCond(ifi.Cond)
				if c.X != ssa.Value(nV) || nil == c.Y {
					continue
				}
				if k, ok := constInt(c.Y); ok && 0 == k {
					zs := 1
					if c.Eq {
						zs = 0
					}
					zero[Edge{b.Index, b.Succs[zs].Index}] = true
				}
			}
		}
		from := locOf(read)
		if hit := (reachQ{From: from, Target: isErr, Block: isData, NoEdges: zero}).run(); nil != hit {
			rRd.Bad(fnName(rfn)+":error-after-data", posOf(hit), "the read's error can be queued before the data returned by the same Read: the final chunk is lost or shown after the close")
		} else {
			rRd.OK(fnName(rfn)+":error-after-data", posOf(read), "data of a Read is queued before its error")
		}
		lost := reachQ{From: from, Block: isData, NoEdges: zero, Target: func(i ssa.Instruction) bool {
			if i == ssa.Instruction(read) {
				return true
			}
			switch i.(type) {
			case *ssa.Return, *ssa.RunDefers:
				return true
			}
			return false
		}}.run()
		if nil != lost {
			rRd.Bad(fnName(rfn)+":data-not-dropped", posOf(lost), "after a Read with n != 0 a path reaches the next Read or the end of the goroutine without queueing the data")
		} else {
			rRd.OK(fnName(rfn)+":data-not-dropped", posOf(read), "every non-empty read is queued")
		}
		for k, s := range dataSends {
			c := fmt.Sprintf("%s:data-send#%d-blocking", fnName(rfn), k+1)
			if onlyCancelAlternative(s.Sel, s.Arm) {
				rRd.OK(c, posOf(s.Instr), "blocks until queued; the only alternative is cancellation")
			} else {
				rRd.Bad(c, posOf(s.Instr), "the data send can give up for a reason other than cancellation (default arm or other channel): output is dropped under back-pressure")
			}
		}
	}

	/* Forwarder. */
	checkC03Forwarder(p, r, rFw, rId, rOrd, top)
	checkC03Sink(p, r, rId)
	checkStreamLifetime(p, r, r.Rule("stream-lifetime", "nothing puts a clock on a shell's streams: no request-wide server deadline, TimeoutHandler or connection deadline, and the broker gets the request's own context (or a child without a deadline)"))
	checkBodyUntouched(p, r, r.Rule("body-untouched", "on the routes which hand the request body to the broker nothing else reads it (no form parsing)"))
	checkC03TerminalWriter(p, r, r.Rule("terminal-writer", "the io.Writer under the terminal library hands each slice it is given to the terminal once (no retry loop re-issuing the same slice)"))
	/* Close notice after the proxy: from the connect model. */
	if a := findConnect(p); 0 == len(a.Errs) {
		m := buildConnectModel(p, a)
		bad := false
		n := 0
		for _, cp := range m.Paths {
			before, after, proxied := splitTrace(cp.R, "proxy")
			if !proxied {
				continue
			}
			n++
			if countIn(before, "notice:err") > 0 {
				bad = true
				rOrd.Bad(fnName(a.Fn)+":close-notice-after-proxy", a.Fn.Pos(), "state {%s}: a red notice is emitted before the proxy runs; the close notice must follow the proxy's return", cp.V)
			}
			if cp.V.ProxyErr && 0 == countIn(after, "notice:err") {
				bad = true
				rOrd.Bad(fnName(a.Fn)+":close-notice", a.Fn.Pos(), "state {%s}: no close notice after a failed proxy", cp.V)
			}
		}
		if !bad && n > 0 {
			rOrd.OK(fnName(a.Fn)+":close-notice-after-proxy", a.Fn.Pos(), "on %d attached paths the close notice is emitted after the proxy returned, by the same goroutine", n)
		}
	} else {
		rOrd.Unproven("admission-function", token.NoPos, "not found")
	}
}

// checkC03Forwarder checks the dequeue → operator channel part.
func checkC03Forwarder(p *Prog, r *Report, rFw, rId, rOrd *Rule, top *ssa.Function) {
	och := brokerChan(p, "CLine")
	var plain []queueSend
	for _, f := range withAnons(top) {
		for _, s := range sendsIn(f) {
			if fv, _ := loadedField(p.resolveUp(s.Chan)); fv != och {
				continue
			}
			lf := litFields(s.Val)
			if b, ok := constBool(lf["Plain"]); nil != lf["Plain"] && ok && b {
				if f != top {
					rOrd.Bad(fnName(f)+":plain-send", posOf(s.Instr), "a Plain line is sent from a nested function/goroutine")
					continue
				}
				plain = append(plain, s)
			} else if nil != lf["Plain"] {
				rId.Bad(fnName(f)+":plain-flag", posOf(s.Instr), "Plain is not the constant true")
			}
		}
	}
	if 1 != len(plain) {
		rFw.Unproven(fnName(top)+":plain-sends", top.Pos(), "%d sends of Plain lines in the proxy, one expected", len(plain))
		return
	}
	rOrd.OK(fnName(top)+":own-goroutine", posOf(plain[0].Instr), "Plain lines are sent from the proxy's own frame")
	ps := plain[0]
	/* The dequeue: a select arm receiving a struct from a locally made channel. */
	var dq *ssa.Select
	dqArm := -1
	for _, s := range selectsIn(top) {
		for k, st := range s.States {
			if types.RecvOnly != st.Dir {
				continue
			}
			if _, isDone := isCtxDone(st.Chan); isDone {
				continue
			}
			if _, ok := stripConv(resolveCell(stripConv(st.Chan, false)), false).(*ssa.MakeChan); ok {
				dq, dqArm = s, k
			}
		}
	}
	if nil == dq {
		rFw.Unproven(fnName(top)+":dequeue", top.Pos(), "no select arm receiving from the internal queue found")
		return
	}
	item := selectExtracts(dq)[2+armRecvIndex(dq, dqArm)]
	if nil == item {
		rFw.Unproven(fnName(top)+":dequeue-value", posOf(dq), "the dequeued value is not used")
		return
	}
	/* Field loads of the item (through its spill slot). */
	var slot *ssa.Alloc
	for _, ref := range *item.Referrers() {
		if st, ok := ref.(*ssa.Store); ok && st.Val == ssa.Value(item) {
			slot, _ = st.Addr.(*ssa.Alloc)
		}
	}
	fieldOfLoad := func(v ssa.Value) *types.Var {
		/* A []byte→string conversion of the chunk preserves its bytes. */
		if cv, ok := v.(*ssa.Convert); ok {
			if b, ok := cv.Type().Underlying().(*types.Basic); ok && types.String == b.Kind() {
				v = cv.X
			}
		}
		if fv, base := loadedField(v); nil != fv {
			if base == ssa.Value(item) || (nil != slot && base == ssa.Value(slot)) {
				return fv
			}
		}
		return nil
	}
	/* Identity: Line is a load of a string field of the item. */
	lineV := litFields(ps.Val)["Line"]
	dataF := fieldOfLoad(lineV)
	if nil == dataF {
		rId.Bad(fnName(top)+":line-is-chunk", posOf(ps.Instr), "the Line of the Plain CLine is not the dequeued chunk itself (%s): output is altered on its way to the operator", describeValue(lineV))
	} else {
		rId.OK(fnName(top)+":line-is-chunk", posOf(ps.Instr), "Line = item.%s", dataF.Name())
	}
	/* Blocking hand-over. */
	if onlyCancelAlternative(ps.Sel, ps.Arm) {
		rFw.OK(fnName(top)+":handover-blocking", posOf(ps.Instr), "blocks until handed over; the only alternative is cancellation")
	} else {
		rFw.Bad(fnName(top)+":handover-blocking", posOf(ps.Instr), "the hand-over to the operator channel can give up for a reason other than cancellation: output is dropped when the terminal lags")
	}
	/* A chunk given up because the stream was cancelled is the last thing
	taken from the queue: from the cancellation arm of the hand-over the
	dequeue is not reached again (else a later chunk can be shown without
	the one which was dropped — no longer a prefix of what was sent). */
	if nil != ps.Sel {
		for k, st := range ps.Sel.States {
			if k == ps.Arm || types.RecvOnly != st.Dir {
				continue
			}
			cIf, cSucc := selectArmEdge(ps.Sel, k)
			if nil == cIf {
				continue
			}
			/* (A deterministic look at the context on the way — ctx.Err(),
			which is not nil once Done has fired — ends the loop; a select
			with a Done arm does not: with a chunk ready it chooses at
			random.) */
			isErrCall := func(i ssa.Instruction) bool {
				cc := callCommon(i)
				return nil != cc && cc.IsInvoke() && "Err" == cc.Method.Name() && typeIs(cc.Value.Type(), "context", "Context")
			}
			again := reachQ{From: edgeLoc(cIf.Block(), cSucc), Block: isErrCall, Target: func(i ssa.Instruction) bool { return i == ssa.Instruction(dq) }}.run()
			if nil != again {
				rFw.Bad(fnName(top)+":dropped-chunk-ends-stream", posOf(ps.Sel), "after a chunk has been given up on (the cancellation arm of the hand-over) the proxy can go back to taking chunks from the queue: a later chunk can reach the operator without the dropped one")
			} else {
				rFw.OK(fnName(top)+":dropped-chunk-ends-stream", posOf(ps.Sel), "the cancellation arm leaves the loop")
			}
		}
	}
	/* Error examined only after the hand-over. */
	armIf, armSucc := selectArmEdge(dq, dqArm)
	if nil == armIf {
		rFw.Unproven(fnName(top)+":dequeue-arm", posOf(dq), "branch of the dequeue arm not found")
		return
	}
	empty := map[Edge]bool{}
	for _, b := range top.Blocks {
		ifi := blockIf(b)
		if nil == ifi {
			continue
		}
		c := decodeCond(ifi.Cond)
		if nil == c.Y || nil == dataF {
			continue
		}
		/* len(chunk) == 0 is the same test as chunk == "". */
		isLen := false
		if lc, ok := c.X.(*ssa.Call); ok {
			if b, ok := lc.Common().Value.(*ssa.Builtin); ok && "len" == b.Name() && fieldOfLoad(lc.Common().Args[0]) == dataF {
				if k, ok := constInt(c.Y); ok && 0 == k {
					isLen = true
				}
			}
		}
		if !isLen && fieldOfLoad(c.X) != dataF {
			continue
		}
		if s, ok := constString(c.Y); isLen || (ok && "" == s) {
			es := 1
			if c.Eq {
				es = 0
			}
			empty[Edge{b.Index, b.Succs[es].Index}] = true
		}
	}
	isHand := func(i ssa.Instruction) bool { return i == ps.Instr }
	isErrField := func(v ssa.Value) bool {
		fv := fieldOfLoad(v)
		return nil != fv && fv != dataF && types.Identical(fv.Type(), types.Universe.Lookup("error").Type())
	}
	early := reachQ{From: edgeLoc(armIf.Block(), armSucc), Block: isHand, NoEdges: empty, Target: func(i ssa.Instruction) bool {
		/* Taking the field out of the item is not looking at it: what
		counts is a test, a call or a return using it. */
		switch i.(type) {
		case *ssa.BinOp, *ssa.If, *ssa.Return, *ssa.Call, *ssa.Send, *ssa.Go, *ssa.Defer:
		default:
			return false
		}
		var ops []*ssa.Value
		for _, o := range i.Operands(ops) {
			if nil != *o && isErrField(*o) {
				return true
			}
		}
		return false
	}}.run()
	if nil != early {
		rFw.Bad(fnName(top)+":error-after-handover", posOf(early), "the dequeued item's error is examined before its data has been handed to the operator: a chunk arriving together with the end of the stream can be lost")
	} else {
		rFw.OK(fnName(top)+":error-after-handover", posOf(ps.Instr), "the item's error is only looked at after the hand-over")
	}
	/* And a non-empty chunk always reaches the hand-over before the next dequeue. */
	skip := reachQ{From: edgeLoc(armIf.Block(), armSucc), Block: isHand, NoEdges: empty, Target: func(i ssa.Instruction) bool {
		return i == ssa.Instruction(dq)
	}}.run()
	okEdge := map[Edge]bool{}
	/* The !ok (queue closed) edge legitimately skips. */
	if okV := selectExtracts(dq)[1]; nil != okV {
		for _, b := range top.Blocks {
			ifi := blockIf(b)
			if nil == ifi {
				continue
			}
			if dc := decodeCond(ifi.Cond); nil == dc.Y && dc.X == ssa.Value(okV) {
				notOK := 1
				if !dc.Eq {
					notOK = 0
				}
				okEdge[Edge{b.Index, b.Succs[notOK].Index}] = true
			}
		}
	}
	if nil != skip && 0 != len(okEdge) {
		ne := map[Edge]bool{}
		for e := range empty {
			ne[e] = true
		}
		for e := range okEdge {
			ne[e] = true
		}
		skip = reachQ{From: edgeLoc(armIf.Block(), armSucc), Block: isHand, NoEdges: ne, Target: func(i ssa.Instruction) bool { return i == ssa.Instruction(dq) }}.run()
	}
	if nil != skip {
		rFw.Bad(fnName(top)+":chunk-not-skipped", posOf(skip), "a dequeued non-empty chunk can be skipped (a path returns to the queue without the hand-over)")
	} else {
		rFw.OK(fnName(top)+":chunk-not-skipped", posOf(dq), "every dequeued non-empty chunk reaches the hand-over")
	}
}

// checkC03Sink: handleOutput and writePlain.
func checkC03Sink(p *Prog, r *Report, ru *Rule) {
	ho := p.Func("lib/opshell", "Shell", "handleOutput")
	wp := p.Func("lib/opshell", "Shell", "writePlain")
	plainF := p.Field("lib/opshell", "CLine", "Plain")
	lineF := p.Field("lib/opshell", "CLine", "Line")
	if nil == ho || nil == wp || nil == plainF || nil == lineF {
		ru.Unproven("opshell-sink", token.NoPos, "handleOutput, writePlain or CLine fields not found")
		return
	}
	r.Saw("func " + fnName(ho))
	r.Saw("func " + fnName(wp))
	if wp == ho {
		/* The plain write is written out in handleOutput itself: under the
		Plain test, the terminal receives cl.Line. */
		n := 0
		for _, f := range withAnons(ho) {
			eachInstr(f, func(i ssa.Instruction) {
				c, ok := i.(*ssa.Call)
				if !ok {
					return
				}
				var arg ssa.Value
				switch calleeName(c.Common()) {
				case "io.WriteString":
					arg = c.Common().Args[1]
				case "(*github.com/magisterquis/goxterm.Terminal).Write", "(io.Writer).Write":
					arg = stripConv(c.Common().Args[len(c.Common().Args)-1], true)
				default:
					return
				}
				guard := guardingFieldTestTrue(ho, c, plainF)
				if nil == guard {
					return /* not the plain path (the formatted path writes through Logf) */
				}
				n++
				if fv, _ := loadedField(stripConv(resolveCell(arg), false)); fv == lineF {
					ru.OK(fnName(ho)+":plain→terminal", posOf(c), "under cl.Plain the terminal is written cl.Line itself")
				} else {
					ru.Bad(fnName(ho)+":plain→terminal", posOf(c), "under cl.Plain the terminal receives %s, not cl.Line itself", describeValue(arg))
				}
			})
		}
		if 0 == n {
			ru.Unproven(fnName(ho)+":plain→terminal", ho.Pos(), "no terminal write selected by cl.Plain found")
		}
		return
	}
	/* handleOutput: on the Plain edge, writePlain(cl.Line). */
	var call *ssa.Call
	eachInstr(ho, func(i ssa.Instruction) {
		if c, ok := i.(*ssa.Call); ok && c.Common().StaticCallee() == wp {
			call = c
		}
	})
	if nil == call {
		ru.Bad(fnName(ho)+":plain→writePlain", ho.Pos(), "Plain lines are not passed to writePlain")
	} else {
		arg := call.Common().Args[len(call.Common().Args)-1]
		if fv, _ := loadedField(arg); fv == lineF {
			ru.OK(fnName(ho)+":plain→writePlain", posOf(call), "writePlain(cl.Line)")
		} else {
			ru.Bad(fnName(ho)+":plain→writePlain", posOf(call), "writePlain is given %s, not cl.Line itself", describeValue(arg))
		}
		guard := guardingFieldTestTrue(ho, call, plainF)
		if nil == guard {
			ru.Bad(fnName(ho)+":plain-guard", posOf(call), "writePlain is not selected by cl.Plain")
		} else {
			ru.OK(fnName(ho)+":plain-guard", posOf(guard), "selected by cl.Plain")
		}
	}
	/* writePlain writes its parameter unchanged. */
	lineP := wp.Params[len(wp.Params)-1]
	found := false
	eachInstr(wp, func(i ssa.Instruction) {
		c, ok := i.(*ssa.Call)
		if !ok {
			return
		}
		switch calleeName(c.Common()) {
		case "io.WriteString":
			found = true
			if c.Common().Args[1] == ssa.Value(lineP) {
				ru.OK(fnName(wp)+":writes-param", posOf(c), "io.WriteString(terminal, line)")
			} else {
				ru.Bad(fnName(wp)+":writes-param", posOf(c), "the terminal receives %s, not the line itself", describeValue(c.Common().Args[1]))
			}
		case "(*github.com/magisterquis/goxterm.Terminal).Write", "(io.Writer).Write":
			found = true
			if stripConv(c.Common().Args[len(c.Common().Args)-1], true) == ssa.Value(lineP) {
				ru.OK(fnName(wp)+":writes-param", posOf(c), "terminal.Write([]byte(line))")
			} else {
				ru.Bad(fnName(wp)+":writes-param", posOf(c), "the terminal receives something other than the line itself")
			}
		}
	})
	if !found {
		ru.Unproven(fnName(wp)+":writes-param", wp.Pos(), "no terminal write found in writePlain")
	}
}

// guardingFieldTestTrue returns the If testing a load of field f whose true
// edge dominates target.
func guardingFieldTestTrue(fn *ssa.Function, target ssa.Instruction, f *types.Var) *ssa.If {
	var out *ssa.If
	eachInstr(fn, func(i ssa.Instruction) {
		ifi, ok := i.(*ssa.If)
		if !ok {
			return
		}
		c := decodeCond(ifi.Cond)
		if nil != c.Y {
			return
		}
		if fv, _ := loadedField(c.X); fv != f {
			return
		}
		ts := 0
		if !c.Eq {
			ts = 1
		}
		if edgeDominates(ifi, ts, target) {
			out = ifi
		}
	})
	return out
}

// checkC03TerminalWriter: the io.Writer under the terminal library writes
// what it is given once.  A Write which is re-issued with the same slice (a
// retry loop around a partial write) puts the part already shown on the
// terminal again.
func checkC03TerminalWriter(p *Prog, r *Report, ru *Rule) {
	for _, fn := range p.Funcs() {
		eachInstr(fn, func(i ssa.Instruction) {
			c := callCommon(i)
			if nil == c || "github.com/magisterquis/goxterm.NewTerminal" != calleeName(c) || 0 == len(c.Args) {
				return
			}
			mi, ok := c.Args[0].(*ssa.MakeInterface)
			if !ok {
				return
			}
			ms := p.SSA.MethodSets.MethodSet(mi.X.Type())
			var wr *ssa.Function
			for k := 0; k < ms.Len(); k++ {
				if "Write" == ms.At(k).Obj().Name() {
					wr = p.SSA.MethodValue(ms.At(k))
				}
			}
			if nil == wr || nil == wr.Blocks || nil == wr.Pkg || !strings.HasPrefix(wr.Pkg.Pkg.Path(), ModPath) {
				return
			}
			r.Saw("func " + fnName(wr))
			var buf *ssa.Parameter
			for _, pa := range wr.Params {
				if sl, ok := pa.Type().Underlying().(*types.Slice); ok && types.Identical(sl.Elem(), types.Typ[types.Byte]) {
					buf = pa
				}
			}
			if nil == buf {
				return
			}
			var again ssa.Instruction
			n := 0
			for _, f := range withAnons(wr) {
				eachInstr(f, func(j ssa.Instruction) {
					cc := callCommon(j)
					if nil == cc {
						return
					}
					if _, isB := cc.Value.(*ssa.Builtin); isB {
						return /* len, cap, copy: not output */
					}
					uses, fromStart := false, false
					for _, a := range callArgs(cc) {
						adv := false
						v := stripConv(a, false)
						for {
							sl, isSl := v.(*ssa.Slice)
							if !isSl {
								break
							}
							if nil != sl.Low {
								adv = true /* p[n:]: starts after what went before */
							}
							v = stripConv(sl.X, false)
						}
						if resolveFree(v) == ssa.Value(buf) {
							uses = true
							if !adv {
								fromStart = true
							}
						}
					}
					if !uses {
						return
					}
					n++
					if nil == again && fromStart && canReach(locOf(j), j) {
						again = j
					}
				})
			}
			checkWriterKeepsOrder(wr, buf, ru, "the terminal")
			k := fnName(wr) + ":writes-once"
			switch {
			case nil != again:
				ru.Bad(k, posOf(again), "the terminal's writer can hand the same slice to %s again (a loop around the write): when a write was partial the part already shown is shown again", calleeName(callCommon(again)))
			case 0 == n:
				ru.Unproven(k, wr.Pos(), "no call taking the written slice found in the terminal's writer")
			default:
				ru.OK(k, wr.Pos(), "the slice is handed on once, outside any loop")
			}
		})
	}
}

// checkWriterKeepsOrder: a terminal writer which keeps bytes back (appends or
// copies the slice it is given into storage which outlives the call) and, on
// another path, hands the slice straight to the terminal must first write
// out what it kept back — otherwise the later bytes overtake the earlier.
// On every path to the direct write the kept-back bytes have been written or
// found empty.
func checkWriterKeepsOrder(wr *ssa.Function, buf *ssa.Parameter, ru *Rule, dest string) {
	type where struct {
		g *ssa.Global
		f *types.Var
	}
	rootOf := func(v ssa.Value) (where, bool) {
		for _, x := range valueRoots(v, func(n string) bool { return "builtin.append" == n }) {
			switch x.Kind {
			case "global":
				if g, ok := x.V.(*ssa.Global); ok {
					return where{g: g}, true
				}
			case "field":
				if nil != x.Field {
					return where{f: x.Field}, true
				}
			}
		}
		return where{}, false
	}
	fromBuf := func(a ssa.Value) bool {
		v := stripConv(a, false)
		for {
			sl, ok := v.(*ssa.Slice)
			if !ok {
				break
			}
			v = stripConv(sl.X, false)
		}
		return resolveFree(v) == ssa.Value(buf)
	}
	var kept []where
	var direct []ssa.Instruction
	for _, f := range withAnons(wr) {
		eachInstr(f, func(j ssa.Instruction) {
			cc := callCommon(j)
			if nil == cc {
				return
			}
			args := callArgs(cc)
			if b, isB := cc.Value.(*ssa.Builtin); isB {
				if ("append" == b.Name() || "copy" == b.Name()) && 2 == len(args) && fromBuf(args[1]) {
					if w, ok := rootOf(args[0]); ok {
						kept = append(kept, w)
					}
				}
				return
			}
			if f != wr {
				return
			}
			for _, a := range args {
				if fromBuf(a) {
					direct = append(direct, j)
				}
			}
		})
	}
	if 0 == len(kept) || 0 == len(direct) {
		return
	}
	isKept := func(v ssa.Value) bool {
		w, ok := rootOf(v)
		if !ok {
			return false
		}
		for _, k := range kept {
			if k == w {
				return true
			}
		}
		return false
	}
	/* Blocks which write the kept-back bytes out, and the edges taken when
	there are none. */
	avoid := map[Edge]bool{}
	flushAt := map[*ssa.BasicBlock]int{}
	for _, b := range wr.Blocks {
		for n, j := range b.Instrs {
			cc := callCommon(j)
			if nil == cc {
				continue
			}
			if _, isB := cc.Value.(*ssa.Builtin); isB {
				continue
			}
			for _, a := range callArgs(cc) {
				if _, isSl := a.Type().Underlying().(*types.Slice); isSl && isKept(a) {
					if _, have := flushAt[b]; !have {
						flushAt[b] = n
					}
				}
			}
		}
		if ifi, ok := b.Instrs[len(b.Instrs)-1].(*ssa.If); ok && 2 == len(b.Succs) {
			if bo, ok := ifi.Cond.(*ssa.BinOp); ok {
				x, y := bo.X, bo.Y
				if _, isC := x.(*ssa.Const); isC {
					x, y = y, x
				}
				c, isC := y.(*ssa.Const)
				call, isCall := x.(*ssa.Call)
				if isC && isCall && nil != c.Value && "0" == c.Value.ExactString() && "builtin.len" == calleeName(call.Common()) && isKept(call.Call.Args[0]) {
					switch bo.Op {
					case token.EQL, token.LEQ:
						avoid[Edge{b.Index, b.Succs[0].Index}] = true
					case token.NEQ, token.GTR, token.LSS:
						avoid[Edge{b.Index, b.Succs[1].Index}] = true
					}
				}
			}
		}
	}
	for fb := range flushAt {
		for _, pr := range fb.Preds {
			avoid[Edge{pr.Index, fb.Index}] = true
		}
	}
	for _, d := range direct {
		k := fmt.Sprintf("%s:kept-back-bytes-first", fnName(wr))
		db := d.Block()
		if n, have := flushAt[db]; have {
			at := -1
			for m, j := range db.Instrs {
				if j == d {
					at = m
				}
			}
			if n < at {
				ru.OK(k, posOf(d), "what was kept back is written out just before")
				continue
			}
		}
		if blockReachableAvoiding(wr, db, avoid) {
			ru.Bad(k, posOf(d), "the writer in front of %s keeps small writes back in a buffer but hands this slice straight to %s without first writing out what it kept: these bytes reach %s before the earlier ones", dest, calleeName(callCommon(d)), dest)
		} else {
			ru.OK(k, posOf(d), "on every path here what was kept back has been written out or is empty")
		}
	}
}

// checkStreamLifetime: a shell's streams last until the shell ends, however
// long that is.  Nothing in the server's configuration puts a clock on them:
// no whole-request deadline on the http.Server (ReadTimeout / WriteTimeout
// cover the body, i.e. the stream), no http.TimeoutHandler, no deadline set
// through the ResponseController, and the context the broker gets is the
// request's own (or a child without a deadline).
func checkStreamLifetime(p *Prog, r *Report, ru *Rule) {
	/* 1. The context handed to the broker. */
	n := 0
	seen := map[*ssa.Call]bool{}
	for _, rt := range muxRoutes(p) {
		if nil == rt.Handler {
			continue
		}
		for _, f := range withAnons(rt.Handler) {
			eachInstr(f, func(i ssa.Instruction) {
				call, ok := i.(*ssa.Call)
				if !ok || seen[call] {
					return
				}
				cc := call.Common()
				callee := cc.StaticCallee()
				if nil == callee || "Broker" != recvTypeName(callee) || !strings.HasPrefix(callee.Name(), "Connect") {
					return
				}
				seen[call] = true
				var ctxArg ssa.Value
				for k, pa := range callee.Params {
					if typeIs(pa.Type(), "context", "Context") && k < len(cc.Args) {
						ctxArg = cc.Args[k]
					}
				}
				if nil == ctxArg {
					return
				}
				n++
				c := fmt.Sprintf("%s→%s:context", fnName(rt.Handler), callee.Name())
				bad := ""
				v := ctxArg
				for depth := 0; depth < 8 && nil != v && "" == bad; depth++ {
					v = stripConv(resolveCell(v), false)
					if ex, isEx := v.(*ssa.Extract); isEx {
						v = ex.Tuple
					}
					cl, isCall := v.(*ssa.Call)
					if !isCall {
						break
					}
					switch nm := calleeName(cl.Common()); nm {
					case "context.WithTimeout", "context.WithDeadline", "context.WithTimeoutCause", "context.WithDeadlineCause":
						bad = nm
					case "context.WithCancel", "context.WithCancelCause", "context.WithValue", "context.WithoutCancel":
						v = cl.Common().Args[0]
					default:
						v = nil
					}
				}
				if "" != bad {
					ru.Bad(c, posOf(call), "the context the broker gets for this stream comes from %s: the shell is cut off when that clock runs out, whatever it is doing", bad)
				} else {
					ru.OK(c, posOf(call), "no deadline on the stream's context")
				}
			})
		}
	}
	if n < 3 {
		ru.Unproven("handlers:context", token.NoPos, "%d broker calls with a context found in the handlers, 3 expected", n)
	}
	/* 2, 3. Clocks on the server, the handler or the connection. */
	nb := 0
	for _, fn := range p.Funcs() {
		if nil == fn.Pkg || !strings.HasSuffix(fn.Pkg.Pkg.Path(), "/"+hsrvPkg) {
			continue
		}
		eachInstr(fn, func(i ssa.Instruction) {
			if st, ok := i.(*ssa.Store); ok {
				fv, base := fieldAddrOf(st.Addr)
				if nil == fv || nil == base || !typeIs(base.Type(), "net/http", "Server") {
					return
				}
				if "ReadTimeout" != fv.Name() && "WriteTimeout" != fv.Name() {
					return
				}
				if k, isC := constInt(st.Val); isC && k <= 0 {
					return
				}
				nb++
				ru.Bad(fnName(fn)+":http.Server."+fv.Name(), posOf(st), "http.Server.%s is set: it is a deadline for the whole request or response, body included — that is, for the shell's stream", fv.Name())
				return
			}
			cc := callCommon(i)
			if nil == cc {
				return
			}
			switch nm := calleeName(cc); nm {
			case "net/http.MaxBytesHandler", "net/http.MaxBytesReader":
				nb++
				ru.Bad(fnName(fn)+":"+lastName(nm), posOf(i), "%s caps request bodies — a shell's output stream is a request body: past the cap nothing more of the shell's output is shown", lastName(nm))
			case "net/http.TimeoutHandler":
				nb++
				ru.Bad(fnName(fn)+":TimeoutHandler", posOf(i), "handlers run under http.TimeoutHandler: a shell's stream is ended when the time is up")
			case "(*net/http.ResponseController).SetReadDeadline", "(*net/http.ResponseController).SetWriteDeadline":
				/* Clearing a deadline (the zero time) is fine. */
				args := callArgs(cc)
				if 2 == len(args) {
					if isZeroTimeValue(args[1]) {
						return
					}
				}
				nb++
				ru.Bad(fnName(fn)+":"+lastName(nm), posOf(i), "%s puts a deadline on the connection a shell's stream uses", lastName(nm))
			}
		})
	}
	if 0 == nb {
		ru.OK("hsrv:no-stream-clock", token.NoPos, "no ReadTimeout/WriteTimeout, TimeoutHandler or connection deadline in hsrv")
	}
}

// isZeroTimeValue: v is time.Time{} (a zero-initialised local which nothing
// stores to).
func isZeroTimeValue(v ssa.Value) bool {
	v = stripConv(v, false)
	u, ok := v.(*ssa.UnOp)
	if !ok || token.MUL != u.Op {
		return false
	}
	al, ok := u.X.(*ssa.Alloc)
	if !ok {
		return false
	}
	for _, ref := range *al.Referrers() {
		switch t := ref.(type) {
		case *ssa.UnOp, *ssa.DebugRef:
		default:
			_ = t
			return false
		}
	}
	return true
}


// checkBodyUntouched: the shell's output is the request's body, and the
// broker is its only reader.  Nothing on a shell route asks net/http to parse
// the body as a form (FormValue and friends read it for form content types).
func checkBodyUntouched(p *Prog, r *Report, ru *Rule) {
	n := 0
	for _, rt := range muxRoutes(p) {
		if nil == rt.Handler {
			continue
		}
		reach := map[*ssa.Function]bool{}
		var visit func(f *ssa.Function)
		visit = func(f *ssa.Function) {
			if nil == f || reach[f] || !inModule(f) || nil == f.Blocks {
				return
			}
			reach[f] = true
			for _, a := range f.AnonFuncs {
				visit(a)
			}
			eachInstr(f, func(i ssa.Instruction) {
				if c := callCommon(i); nil != c {
					visit(c.StaticCallee())
				}
			})
		}
		visit(rt.Handler)
		takesBody := false
		for f := range reach {
			eachInstr(f, func(i ssa.Instruction) {
				if c := callCommon(i); nil != c && nil != c.StaticCallee() && "Broker" == recvTypeName(c.StaticCallee()) {
					switch c.StaticCallee().Name() {
					case "ConnectOut", "ConnectInOut":
						takesBody = true
					}
				}
			})
		}
		if !takesBody {
			continue
		}
		n++
		c := fmt.Sprintf("route %s→%s:body-untouched", rt.Pattern, fnName(rt.Handler))
		var bad ssa.Instruction
		for f := range reach {
			eachInstr(f, func(i ssa.Instruction) {
				cc := callCommon(i)
				if nil == cc || nil != bad {
					return
				}
				switch calleeName(cc) {
				case "(*net/http.Request).FormValue", "(*net/http.Request).PostFormValue", "(*net/http.Request).ParseForm", "(*net/http.Request).ParseMultipartForm", "(*net/http.Request).FormFile", "(*net/http.Request).MultipartReader":
					bad = i
				}
			})
		}
		if nil != bad {
			ru.Bad(c, posOf(bad), "on this route %s is called (in %s): for form content types net/http reads the request body to answer it — the shell's output, which the broker then never sees", lastName(calleeName(callCommon(bad))), fnName(bad.Parent()))
		} else {
			ru.OK(c, rt.Pos, "nothing on the route parses the request body as a form")
		}
	}
	if n < 2 {
		ru.Unproven("routes:body-untouched", token.NoPos, "%d routes hand a request body to the broker, at least 2 expected", n)
	}
}

// pooledByReader: v is *p with p taken from a sync.Pool inside fn, and every
// Put of p is made by a call fn defers (directly or in a deferred literal).
func pooledByReader(fn *ssa.Function, v ssa.Value) bool {
	var ta *ssa.TypeAssert
	if g, isCall := v.(*ssa.Call); isCall && "(*sync.Pool).Get" == calleeName(g.Common()) {
		/* A pointer to an array taken from the pool and sliced. */
		for _, ref := range *g.Referrers() {
			if t, ok := ref.(*ssa.TypeAssert); ok && !t.CommaOk {
				if nil != ta {
					return false
				}
				ta = t
			}
		}
		if nil == ta || ta.Parent() != fn {
			return false
		}
	} else {
		ld, ok := v.(*ssa.UnOp)
		if !ok || token.MUL != ld.Op {
			return false
		}
		ta, ok = resolveCell(ld.X).(*ssa.TypeAssert)
		if !ok || ta.Parent() != fn {
			return false
		}
	}
	get, ok := ta.X.(*ssa.Call)
	if !ok || "(*sync.Pool).Get" != calleeName(get.Common()) {
		return false
	}
	deferredLits := map[*ssa.Function]bool{}
	eachInstr(fn, func(i ssa.Instruction) {
		if d, ok := i.(*ssa.Defer); ok {
			if f, _ := closureOf(d.Common().Value); nil != f {
				deferredLits[f] = true
			}
		}
	})
	okAll, puts := true, 0
	for _, f := range withAnons(fn) {
		eachInstr(f, func(i ssa.Instruction) {
			c := callCommon(i)
			if nil == c || "(*sync.Pool).Put" != calleeName(c) || len(c.Args) < 2 {
				return
			}
			if resolveCell(stripConv(c.Args[1], false)) != ssa.Value(ta) {
				return
			}
			puts++
			_, isDefer := i.(*ssa.Defer)
			if !(isDefer && f == fn) && !deferredLits[f] {
				okAll = false
			}
		})
	}
	/* Handed back by a deferred call of a function of the module which
	puts its parameter into the pool. */
	eachInstr(fn, func(i ssa.Instruction) {
		d, ok := i.(*ssa.Defer)
		if !ok {
			return
		}
		g := d.Common().StaticCallee()
		if nil == g || nil == g.Blocks {
			return
		}
		for k, a := range d.Common().Args {
			if resolveCell(stripConv(a, false)) != ssa.Value(ta) || k >= len(g.Params) {
				continue
			}
			eachInstr(g, func(j ssa.Instruction) {
				c := callCommon(j)
				if nil == c || "(*sync.Pool).Put" != calleeName(c) || len(c.Args) < 2 {
					return
				}
				if resolveCell(stripConv(c.Args[1], false)) == ssa.Value(g.Params[k]) {
					puts++
				}
			})
		}
	})
	return okAll && puts > 0
}
