package main

import (
	"go/token"
	"go/types"
	"strings"

	"golang.org/x/tools/go/ssa"
)

// checkC14HandedOnBuffers: a goroutine of the implant which reads the stream
// into a fixed set of N buffers in turn and hands each filled slice on over a
// channel of capacity C needs N >= C+2: one buffer is with the consumer, C are
// queued, one is being filled.  With fewer, the buffer being filled is still
// being used by the consumer: input is replaced by later input.  (Buffers
// made per read, or taken from a channel of free buffers, are not "fixed".)
func checkC14HandedOnBuffers(p *Prog, r *Report, ru *Rule) {
	type base struct {
		f *types.Var
		n int64
	}
	var baseOf func(v ssa.Value, seen map[ssa.Value]bool) ([]base, bool)
	baseOf = func(v ssa.Value, seen map[ssa.Value]bool) ([]base, bool) {
		v = resolveFree(stripConv(v, false))
		if seen[v] {
			return nil, true
		}
		seen[v] = true
		switch x := v.(type) {
		case *ssa.Slice:
			return baseOf(x.X, seen)
		case *ssa.Phi:
			var out []base
			for _, e := range x.Edges {
				b, ok := baseOf(e, seen)
				if !ok {
					return nil, false
				}
				out = append(out, b...)
			}
			return out, true
		case *ssa.UnOp:
			if token.MUL != x.Op {
				return nil, false
			}
			switch a := resolveFree(x.X).(type) {
			case *ssa.IndexAddr:
				if fa, ok := resolveFree(a.X).(*ssa.FieldAddr); ok {
					if fv, _ := fieldAddrOf(fa); nil != fv {
						if arr, ok := fv.Type().Underlying().(*types.Array); ok {
							return []base{{fv, arr.Len()}}, true
						}
					}
				}
			case *ssa.FieldAddr:
				if fv, _ := fieldAddrOf(a); nil != fv {
					if _, ok := fv.Type().Underlying().(*types.Slice); ok {
						return []base{{fv, 1}}, true
					}
				}
			}
		}
		return nil, false
	}
	total := func(bs []base) (int64, map[*types.Var]bool) {
		seen := map[*types.Var]bool{}
		var n int64
		for _, b := range bs {
			if !seen[b.f] {
				seen[b.f] = true
				n += b.n
			}
		}
		return n, seen
	}
	/* Capacity of the channel kept in a field: the make(chan) stored into
	it, anywhere in the module. */
	capOf := func(fv *types.Var) (int64, bool) {
		var c int64 = -1
		ok := true
		for _, fn := range p.Funcs() {
			eachInstr(fn, func(i ssa.Instruction) {
				st, isSt := i.(*ssa.Store)
				if !isSt {
					return
				}
				if f2, _ := fieldAddrOf(st.Addr); f2 != fv {
					return
				}
				mc, isMc := stripConv(st.Val, false).(*ssa.MakeChan)
				if !isMc {
					ok = false
					return
				}
				k, isK := constInt(mc.Size)
				if !isK || (c >= 0 && c != k) {
					ok = false
					return
				}
				c = k
			})
		}
		return c, ok && c >= 0
	}
	n := 0
	for _, fn := range p.Funcs() {
		if nil == fn.Pkg || !strings.Contains(fn.Pkg.Pkg.Path(), "/"+sshPkg) {
			continue
		}
		/* Reads into fixed buffers in this function. */
		var readBases []base
		eachInstr(fn, func(i ssa.Instruction) {
			c, ok := i.(*ssa.Call)
			if !ok {
				return
			}
			var buf ssa.Value
			switch {
			case c.Common().IsInvoke() && "Read" == c.Common().Method.Name() && 1 == len(c.Common().Args):
				buf = c.Common().Args[0]
			case !c.Common().IsInvoke() && strings.HasSuffix(calleeName(c.Common()), ").Read") && 2 == len(c.Common().Args):
				buf = c.Common().Args[1]
			default:
				return
			}
			if bs, ok := baseOf(buf, map[ssa.Value]bool{}); ok {
				readBases = append(readBases, bs...)
			}
		})
		if 0 == len(readBases) {
			continue
		}
		nBufs, fields := total(readBases)
		type sendOf struct {
			Chan, X ssa.Value
			At      ssa.Instruction
		}
		var sends []sendOf
		eachInstr(fn, func(i ssa.Instruction) {
			switch x := i.(type) {
			case *ssa.Send:
				sends = append(sends, sendOf{x.Chan, x.X, x})
			case *ssa.Select:
				for _, st := range x.States {
					if types.SendOnly == st.Dir {
						sends = append(sends, sendOf{st.Chan, st.Send, x})
					}
				}
			}
		})
		for _, snd := range sends {
			bs, ok := baseOf(snd.X, map[ssa.Value]bool{})
			if !ok {
				continue
			}
			same := false
			for _, b := range bs {
				if fields[b.f] {
					same = true
				}
			}
			if !same {
				continue
			}
			ld, isLd := resolveFree(snd.Chan).(*ssa.UnOp)
			if !isLd {
				continue
			}
			fa, isFa := resolveFree(ld.X).(*ssa.FieldAddr)
			if !isFa {
				continue
			}
			chF, _ := fieldAddrOf(fa)
			if nil == chF {
				continue
			}
			c, ok := capOf(chF)
			if !ok {
				continue
			}
			n++
			k := fnName(fn) + ":buffers-for-queue"
			if nBufs < c+2 {
				ru.Bad(k, posOf(snd.At), "the stream is read into %d buffer(s) in turn and each filled slice is handed on over channel %s of capacity %d: with one slice in use by the consumer and %d queued, the next read overwrites bytes not yet delivered (needs %d buffers): the command gets later input in place of earlier", nBufs, chF.Name(), c, c, c+2)
			} else {
				ru.OK(k, posOf(snd.At), "%d buffers in turn, channel %s of capacity %d", nBufs, chF.Name(), c)
			}
		}
	}
	if 0 == n {
		ru.OK("simpleshell:no-handed-on-buffers", token.NoPos, "no goroutine of the implant hands slices of fixed read buffers over a channel")
	}
}
