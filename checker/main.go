// Command crscheck decides structural clauses of the curlrevshell properties
// C01..C20 from the source in -repo, without running it.
package main

import (
	"encoding/json"
	"flag"
	"fmt"
	"go/types"
	"golang.org/x/tools/go/ssa"
	"os"
	"path/filepath"
	"runtime/debug"
	"sort"
	"strconv"
	"strings"
	"time"
)

// propDef describes one property's checker.
type propDef struct {
	Run         func(p *Prog, r *Report)
	Explanation string
	Assumptions []string
}

var props = map[string]*propDef{}

func register(id string, d *propDef) { props[id] = d }

type overlayFlag map[string]string

func (o overlayFlag) String() string { return "" }
func (o overlayFlag) Set(s string) error {
	k, v, ok := strings.Cut(s, "=")
	if !ok {
		return fmt.Errorf("want repo-relative-path=replacement-file")
	}
	o[k] = v
	return nil
}

func main() { os.Exit(rmain()) }

func rmain() (code int) {
	var (
		prop     = flag.String("property", "", "Property `id` (C01..C20)")
		tier     = flag.String("tier", "quick", "quick or thorough")
		repo     = flag.String("repo", "/repo", "Repository `dir` to analyse")
		evidence = flag.String("evidence", "", "Evidence `file` to write")
		known    = flag.String("known", "", "Known-findings `file`")
		mutant   = flag.String("mutant", "", "Run with the named built-in overlay mutant applied (self-test)")
		listMut  = flag.Bool("list-mutants", false, "List built-in overlay mutants for -property")
		dumpObs  = flag.Bool("v", false, "Print every obligation")
		replay   = flag.String("replay", "", "Replay `file` written by an earlier failing run: report which of its findings persist")
	)
	ov := overlayFlag{}
	flag.Var(ov, "overlay", "repo-relative-path=file: analyse with the file's contents replaced (may repeat)")
	dumpRef := flag.Bool("dump-reffuncs", false, "Print reffuncs.go for the tree at -repo and exit")
	flag.Parse()
	start := time.Now()
	if *dumpRef {
		return dumpRefFuncs(*repo)
	}

	defer func() {
		if e := recover(); nil != e {
			fmt.Printf("ERROR internal panic: %v\n%s\n", e, debug.Stack())
			code = 2
		}
	}()

	d, ok := props[*prop]
	if !ok {
		var ids []string
		for id := range props {
			ids = append(ids, id)
		}
		sort.Strings(ids)
		fmt.Printf("ERROR unknown property %q (have %s)\n", *prop, strings.Join(ids, " "))
		return 2
	}
	if *listMut {
		for _, m := range mutantsFor(*prop) {
			fmt.Println(m.Name)
		}
		return 0
	}
	abs, err := filepath.Abs(*repo)
	if nil != err {
		fmt.Printf("ERROR %s\n", err)
		return 2
	}
	seed, _ := strconv.Atoi(os.Getenv("VERIF_SEED"))

	lo := LoadOpts{Repo: abs, Overlay: map[string][]byte{}}
	for rel, file := range ov {
		b, err := os.ReadFile(file)
		if nil != err {
			fmt.Printf("ERROR reading overlay %s: %s\n", file, err)
			return 2
		}
		lo.Overlay[filepath.Join(abs, rel)] = b
	}
	if "" != *mutant {
		m := findMutant(*prop, *mutant)
		if nil == m {
			fmt.Printf("ERROR no mutant %q for %s\n", *mutant, *prop)
			return 2
		}
		if err := m.apply(abs, lo.Overlay); nil != err {
			fmt.Printf("MUTANT-SKIP %s: %s\n", m.Name, err)
			return 3
		}
	}
	p, err := Load(lo)
	if nil != err {
		if "" != *mutant {
			fmt.Printf("MUTANT-SKIP %s: does not build: %s\n", *mutant, err)
			return 3
		}
		fmt.Printf("ERROR %s\n", err)
		return 2
	}
	r := NewReport(*prop, p)
	if nil != p.Flat && 0 != len(p.Helpers)+len(p.Flat.Skipped) {
		r.Note("helper functions (not in the reference structure) folded into their callers before analysis: %s; %d call sites inlined, %d go statements and %d method values turned into function literals; left as calls: %s",
			strings.Join(p.Helpers, ", "), p.Flat.Inlined, p.Flat.GoTurned, p.Flat.Bound, strings.Join(p.Flat.Skipped, "; "))
		if "" != os.Getenv("CRS_FLATDEBUG") {
			fmt.Printf("FLATTEN helpers=%v inlined=%d go=%d bound=%d unrolled=%d canon=%d devirt=%d renamed=%d skipped=%v\n", p.Helpers, p.Flat.Inlined, p.Flat.GoTurned, p.Flat.Bound, p.Unrolled, p.Canon, p.Devirt, len(p.renamed), p.Flat.Skipped)
			for _, f := range p.funcs {
				if nil == f.Parent() {
					ssa.CheckFlattened(f, os.Stdout)
				}
			}
		}
	}
	if want := os.Getenv("CRS_DUMPFN"); "" != want {
		for _, f := range p.funcs {
			if strings.Contains(f.String(), want) {
				f.WriteTo(os.Stdout)
			}
		}
	}
	theProg = p
	d.Run(p, r)
	if *dumpObs {
		for _, o := range r.Obs {
			fmt.Printf("  %-10s %s @ %s: %s\n", o.Status, o.Key(), o.Pos, o.Detail)
		}
	}
	if "" != *mutant {
		/* Self-test mode: print the keys of the findings, no evidence. */
		n := 0
		for _, o := range r.Obs {
			if Discharged != o.Status {
				fmt.Printf("MUTANT-FINDING %s %s @ %s: %s\n", o.Status, o.Key(), o.Pos, o.Detail)
				n++
			}
		}
		if 0 == n {
			return 0
		}
		return 1
	}
	if "" != *replay {
		return doReplay(*replay, r)
	}
	extra := map[string]any{}
	if "thorough" == *tier {
		thorough(*prop, abs, p, r, extra)
	} else if "" == os.Getenv("CRS_NOSELFTEST") {
		quickSelfTest(*prop, abs, extra)
	}
	return r.Finish(*tier, seed, start, *evidence, *known, d.Explanation, d.Assumptions, extra)
}

// doReplay re-evaluates the findings recorded in a replay file on the current
// tree: exit 1 (with a VIOLATION line) if any of them persists.
func doReplay(path string, r *Report) int {
	b, err := os.ReadFile(path)
	if nil != err {
		fmt.Printf("ERROR %s\n", err)
		return 2
	}
	var old []Ob
	if err := json.Unmarshal(b, &old); nil != err {
		fmt.Printf("ERROR parsing %s: %s\n", path, err)
		return 2
	}
	persist := 0
	for _, o := range old {
		state := "gone (obligation no longer exists)"
		for _, n := range r.Obs {
			if n.Key() != o.Key() {
				continue
			}
			if Discharged == n.Status {
				state = "now discharged"
			} else {
				state = "PERSISTS: " + n.Detail
				persist++
			}
			break
		}
		fmt.Printf("%s @ %s: %s\n", o.Key(), o.Pos, state)
	}
	if 0 != persist {
		fmt.Printf("VIOLATION property=%s replay=%s\n", r.Property, path)
		return 1
	}
	return 0
}

// dumpRefFuncs prints the reference table of top-level functions.
func dumpRefFuncs(repo string) int {
	abs, _ := filepath.Abs(repo)
	p, err := Load(LoadOpts{Repo: abs, NoFlatten: true})
	if nil != err {
		fmt.Printf("ERROR %s\n", err)
		return 2
	}
	fmt.Println("package main\n\n// reffuncs.go: the top-level functions and the struct fields of the reference\n// tree (/repo at the time the rules were confirmed).  A module function not\n// listed here (and not standing in for a listed one under another name, see\n// rename.go) is a helper: its static calls are folded into the callers before\n// analysis.  Regenerate with tools/mkreffuncs.sh after confirming the rules on\n// a new reference tree.\n\nvar refInfo = map[string]refFuncInfo{")
	var names []string
	byName := map[string]*ssa.Function{}
	for _, fn := range p.funcs {
		if nil == fn.Parent() && nil != fn.Pkg {
			names = append(names, fn.String())
			byName[fn.String()] = fn
		}
	}
	sort.Strings(names)
	for _, n := range names {
		fn := byName[n]
		fmt.Printf("\t%q: {%q, %q, %q, []string{", n, fn.Pkg.Pkg.Path(), recvTypeName(fn), sigString(fn))
		for i := 0; i < fn.Signature.Params().Len(); i++ {
			if i > 0 {
				fmt.Print(", ")
			}
			fmt.Printf("%q", fn.Signature.Params().At(i).Name())
		}
		fmt.Print("}, []string{")
		for i, m := range funcMarks(fn) {
			if i > 0 {
				fmt.Print(", ")
			}
			fmt.Printf("%q", m)
		}
		fmt.Println("}},")
	}
	fmt.Println("}\n\n// refFields: the fields (name, tab, type) of the module's struct types.\nvar refFields = map[string][]string{")
	q := func(pk *types.Package) string { return pk.Path() }
	var tnames []string
	fields := map[string][]string{}
	for _, pk := range p.Pkgs {
		sc := pk.Types.Scope()
		for _, n := range sc.Names() {
			tn, ok := sc.Lookup(n).(*types.TypeName)
			if !ok {
				continue
			}
			st, ok := tn.Type().Underlying().(*types.Struct)
			if !ok {
				continue
			}
			key := pk.PkgPath + "." + n
			tnames = append(tnames, key)
			for i := 0; i < st.NumFields(); i++ {
				fields[key] = append(fields[key], st.Field(i).Name()+"\t"+types.TypeString(st.Field(i).Type(), q))
			}
		}
	}
	sort.Strings(tnames)
	for _, k := range tnames {
		fmt.Printf("\t%q: {", k)
		for i, f := range fields[k] {
			if i > 0 {
				fmt.Print(", ")
			}
			fmt.Printf("%q", f)
		}
		fmt.Println("},")
	}
	fmt.Println("}")
	return 0
}
