package main

// C09 — static files are confined to the chosen tree and never shadow shell
// endpoints.

import (
	"sort"
	"fmt"
	"go/token"
	"go/types"
	"strings"

	"golang.org/x/tools/go/ssa"
)

func init() {
	register("C09", &propDef{
		Run:         checkC09,
		Explanation: "Static decision of the structural clauses of C09. (1) No request-derived path: every file-system path operand in internal/hsrv (os.Open/Stat/ReadFile/..., http.Dir, os.DirFS, http.ServeFile) derives only from Server.fdir or Server.tmplf (through at most path cleaning), never from the request; http.ServeFile, which consults the request path itself, is not used; what http.ServeContent sends is the file opened from Server.fdir and http.FileServer's root is http.Dir(Server.fdir); both fields are written only in New. (2) Route table: all patterns are constants; /i/{id}, /o/{id}, /io and /c are registered unconditionally with handlers that reach the broker / the script template and no file-serving call; the only pattern whose handler reaches a file-serving call is the catch-all \"/\", registered under the test Server.fdir != \"\" on the field itself. (3) In the file handler the operator notice dominates every use of the response writer. Path cleaning and confinement inside net/http (ServeMux, http.Dir, FileServer) are trusted.",
		Assumptions: []string{"net/http's ServeMux gives the more specific pattern precedence; http.Dir and http.FileServer confine requests to the root"},
	})
}

var fsPathSinks = map[string]int{ /* callee → index of the path argument */
	"os.Open": 0, "os.OpenFile": 0, "os.ReadFile": 0, "os.Stat": 0, "os.Lstat": 0, "os.ReadDir": 0, "os.DirFS": 0,
	"os.Create": 0, "os.Readlink": 0, "io/ioutil.ReadFile": 0, "io/ioutil.ReadDir": 0, "net/http.ServeFile": 2,
	"os.WriteFile": 0, "os.Remove": 0, "os.Chdir": 0, "path/filepath.WalkDir": 0, "path/filepath.Walk": 0, "path/filepath.Glob": 0,
}

var pathThrough = func(n string) bool {
	switch n {
	case "path/filepath.Join", "path/filepath.Clean", "path/filepath.Abs", "path.Join", "path.Clean", "path/filepath.FromSlash", "path/filepath.ToSlash", "fmt.Sprintf", "strings.TrimSuffix", "strings.TrimPrefix", "strings.TrimRight", "strings.TrimLeft", "net/url.PathUnescape", "net/url.QueryUnescape", "(*net/url.URL).String", "(*net/url.URL).EscapedPath", "(*net/url.URL).RequestURI", "(*net/http.Request).PathValue", "(*net/http.Request).FormValue":
		return true
	}
	return false
}

// fileServing reports whether fn (or a module function it statically calls)
// serves or reads files.
func fileServing(p *Prog, fn *ssa.Function, seen map[*ssa.Function]bool) bool {
	if nil == fn || seen[fn] || !inModule(fn) {
		return false
	}
	seen[fn] = true
	found := false
	for _, f := range withAnons(fn) {
		eachInstr(f, func(i ssa.Instruction) {
			c := callCommon(i)
			if nil == c {
				return
			}
			switch calleeName(c) {
			case "net/http.FileServer", "net/http.ServeContent", "net/http.ServeFile", "net/http.FileServerFS", "net/http.ServeFileFS":
				found = true
			}
			if sc := c.StaticCallee(); nil != sc && sc != fn && fileServing(p, sc, seen) {
				found = true
			}
		})
	}
	return found
}

func checkC09(p *Prog, r *Report) {
	rPath := r.Rule("no-request-derived-path", "file-system paths in hsrv derive only from Server.fdir / Server.tmplf; ServeFile is not used; served content comes from those roots")
	rRoot := r.Rule("roots-written-once", "Server.fdir and Server.tmplf are written only in New")
	rRoute := r.Rule("route-table", "shell routes are constant, unconditional and never file-serving; only the catch-all serves files, and only when Server.fdir is set")
	rNote := r.Rule("notice-first", "the operator notice dominates every use of the response writer in the file handler")
	/* Every file request is reported — each by its own notice: the text of
	a notice is built in memory of the call which sends it (handlers run
	concurrently; C10's rule, under this property's reporting clause). */
	checkC10Scratch(p, r, r.Rule("notice-text-owned", "the text of a request's notice is built in memory of the call which sends it, never in a buffer shared between concurrent requests"))

	checkC09NoticeKept(p, r, r.Rule("notice-not-droppable", "a notice on its way to the operator is not given up when the request's own context ends (a client which hangs up early still asked for the file)"))

	fdir := p.Field(hsrvPkg, "Server", "fdir")
	tmplf := p.Field(hsrvPkg, "Server", "tmplf")
	if nil == fdir || nil == tmplf {
		rPath.Unproven("hsrv.Server", token.NoPos, "fields fdir/tmplf not found")
		return
	}
	for _, f := range []*types.Var{fdir, tmplf} {
		for _, st := range p.storesToField(f) {
			c := fnName(st.Parent()) + ":Server." + f.Name()
			if "New" == st.Parent().Name() && nil == st.Parent().Parent() {
				if _, isParam := st.Val.(*ssa.Parameter); isParam {
					rRoot.OK(c, posOf(st), "set once from New's parameter")
				} else {
					rRoot.Bad(c, posOf(st), "Server.%s is set from %s, not from New's parameter unchanged", f.Name(), rootsString(valueRoots(st.Val, nil)))
				}
			} else {
				rRoot.Bad(c, posOf(st), "Server.%s is written outside New", f.Name())
			}
		}
	}
	rRoot.AtLeast(2, "root fields")
	/* Left unset, nothing is served: the empty default of the flag must
	arrive as the empty string.  filepath.Abs/Clean/Join make the working
	directory (or ".") of it. */
	if hnew := p.Func(hsrvPkg, "", "New"); nil != hnew {
		for _, st := range p.storesToField(fdir) {
			pa, isParam := st.Val.(*ssa.Parameter)
			if !isParam || st.Parent() != hnew {
				continue
			}
			k := paramIndex(hnew, pa)
			for _, fn := range p.Funcs() {
				eachInstr(fn, func(i ssa.Instruction) {
					call, ok := i.(*ssa.Call)
					if !ok || call.Common().StaticCallee() != hnew || k >= len(call.Common().Args) {
						return
					}
					c := fnName(fn) + "→hsrv.New(fdir):unset-stays-empty"
					arg := call.Common().Args[k]
					if "" != flagNameOf(arg) {
						rRoot.OK(c, posOf(call), "the flag's value itself")
						return
					}
					for _, x := range valueRoots(arg, nil) {
						if "call" == x.Kind && (strings.HasPrefix(x.Callee, "path/filepath.") || strings.HasPrefix(x.Callee, "path.") || "os.Getwd" == x.Callee) {
							/* Done only when something was given? */
							guarded := false
							if ci, isInstr := x.V.(ssa.Instruction); isInstr {
								eachInstr(ci.Parent(), func(j ssa.Instruction) {
									ifi, isIf := j.(*ssa.If)
									if !isIf || guarded {
										return
									}
									dc := decodeCond(ifi.Cond)
									if nil == dc.Y {
										return
									}
									if sv, isStr := constString(dc.Y); !isStr || "" != sv {
										if sv, isStr = constString(dc.X); !isStr || "" != sv {
											return
										}
									}
									ne := 1 /* the "differs from empty" edge */
									if !dc.Eq {
										ne = 0
									}
									guarded = edgeDominates(ifi, ne, ci)
								})
							}
							if guarded {
								continue
							}
							rRoot.Bad(c, posOf(call), "the static files directory handed to the server is the result of %s: of an unset (empty) flag that makes a directory, so files are served although none was asked for", x.Callee)
							return
						}
					}
					/* Written to after parsing, through the pointer the flag
					package handed out (a loop "expanding" every path
					flag): what is served need not be the tree named. */
					if u, isLd := resolveCell(arg).(*ssa.UnOp); isLd && token.MUL == u.Op {
						if fc, isCall := resolveCell(u.X).(*ssa.Call); isCall && strings.HasPrefix(calleeName(fc.Common()), "flag.") {
							for _, ref := range *fc.Referrers() {
								st, isSt := ref.(*ssa.Store)
								if isSt && st.Addr != ssa.Value(fc) {
									if _, isCell := resolveFree(st.Addr).(*ssa.Alloc); isCell {
										continue /* a captured variable's cell */
									}
								}
								if isSt {
									rRoot.Bad(c, posOf(st), "the -serve-files-from value is written to again after the flags are parsed (its pointer is stored or stored through): the directory served need not be the one the operator named")
									return
								}
							}
						}
					}
					rRoot.OK(c, posOf(call), "not rewritten by a path function")
				})
			}
		}
	}

	fsOpen := map[*ssa.Function]bool{} /* filled below, before checkRoot is used */
	var hfns map[*ssa.Function]bool
	handlerFns := func() map[*ssa.Function]bool {
		if nil == hfns {
			hfns = map[*ssa.Function]bool{}
			for f := range handlerReachable(p) {
				hfns[topFn(f)] = true
			}
		}
		return hfns
	}
	checkRoot := func(c string, pos token.Pos, v ssa.Value, want *types.Var, what string) {
		rs := valueRoots(v, pathThrough)
		var bad []string
		seen := false
		nconf := 0
		for _, x := range rs {
			switch {
			case "param" == x.Kind && nil != x.V && nil != x.V.(*ssa.Parameter).Parent() && fsOpen[x.V.(*ssa.Parameter).Parent()] && 1 == paramIndex(x.V.(*ssa.Parameter).Parent(), x.V.(*ssa.Parameter)):
				bad = append(bad, "the request (the name a file system is asked to open is the request's path)")
			case "param" == x.Kind && nil != x.V && !typeIs(x.V.Type(), "net/http", "Request") && nil != x.V.(*ssa.Parameter).Parent() && !handlerFns()[topFn(x.V.(*ssa.Parameter).Parent())]:
				/* A parameter of something which runs at start-up, not
				for a request: configuration, like the roots. */
				nconf++
			case "field" == x.Kind && (x.Field == fdir || x.Field == tmplf) && (nil == want || x.Field == want):
				seen = true
			case "const" == x.Kind:
			case "param" == x.Kind && typeIs(x.V.Type(), "net/http", "Request"):
				bad = append(bad, "the request")
			case "field" == x.Kind && nil != x.Base && typeIs(x.Base.Type(), "net/http", "Request"):
				bad = append(bad, "request field "+x.Field.Name())
			case "field" == x.Kind && nil != x.Base && typeIs(x.Base.Type(), "net/url", "URL"):
				bad = append(bad, "request URL field "+x.Field.Name())
			default:
				bad = append(bad, x.String())
			}
		}
		fromReq := false
		for _, b := range bad {
			if strings.Contains(b, "request") {
				fromReq = true
			}
		}
		switch {
		case fromReq:
			rPath.Bad(c, pos, "%s derives from %s: a client can choose which file is touched", what, strings.Join(bad, ", "))
		case 0 != len(bad):
			rPath.Unproven(c, pos, "%s derives from %s, which is not the configured root", what, strings.Join(bad, ", "))
		case !seen && nconf > 0 && nconf == len(rs):
			rPath.OK(c, pos, "%s is start-up configuration (a parameter of a function no request reaches)", what)
		case !seen:
			rPath.Bad(c, pos, "%s does not derive from the configured root (%s)", what, rootsString(rs))
		default:
			rPath.OK(c, pos, "%s derives only from Server.%s", what, map[bool]string{true: "fdir/tmplf", false: ""}[nil == want]+fieldNameOr(want))
		}
	}

	/* Where to look: the server's package, whatever a handler reaches in the
	module, and the Open methods of module types handed out as file systems
	there (net/http calls those with the request's path). */
	scan := map[*ssa.Function]bool{}
	for _, fn := range p.Funcs() {
		if nil != fn.Pkg && strings.HasSuffix(fn.Pkg.Pkg.Path(), "/"+hsrvPkg) {
			scan[fn] = true
		}
	}
	for f := range handlerReachable(p) {
		scan[f] = true
	}
	for again := true; again; {
		again = false
		for fn := range scan {
			eachInstr(fn, func(i ssa.Instruction) {
				mi, ok := i.(*ssa.MakeInterface)
				if !ok {
					return
				}
				it, ok := mi.Type().Underlying().(*types.Interface)
				if !ok {
					return
				}
				hasOpen := false
				for k := 0; k < it.NumMethods(); k++ {
					if "Open" == it.Method(k).Name() {
						hasOpen = true
					}
				}
				n := namedOf(mi.X.Type())
				if !hasOpen || nil == n || nil == n.Obj().Pkg() || !strings.HasPrefix(n.Obj().Pkg().Path(), ModPath) {
					return
				}
				sel := p.SSA.MethodSets.MethodSet(mi.X.Type()).Lookup(n.Obj().Pkg(), "Open")
				if nil == sel {
					return
				}
				m := p.SSA.MethodValue(sel)
				if nil == m || nil == m.Blocks || !inModule(m) {
					return
				}
				fsOpen[m] = true
				var add func(f *ssa.Function)
				add = func(f *ssa.Function) {
					if nil == f || scan[f] || !inModule(f) || nil == f.Blocks {
						return
					}
					scan[f] = true
					again = true
					for _, a := range f.AnonFuncs {
						add(a)
					}
					eachInstr(f, func(j ssa.Instruction) {
						if c := callCommon(j); nil != c {
							add(c.StaticCallee())
						}
					})
				}
				add(m)
			})
		}
	}
	var scanList []*ssa.Function
	for fn := range scan {
		scanList = append(scanList, fn)
	}
	sort.Slice(scanList, func(i, j int) bool {
		if a, b := scanList[i].String(), scanList[j].String(); a != b {
			return a < b
		}
		return scanList[i].Pos() < scanList[j].Pos()
	})
	n := 0
	for _, fn := range scanList {
		per := map[string]int{}
		eachInstr(fn, func(i ssa.Instruction) {
			/* http.Dir(x) conversions. */
			if ct, ok := i.(*ssa.ChangeType); ok && typeIs(ct.Type(), "net/http", "Dir") {
				n++
				per["http.Dir"]++
				r.Saw("func " + fnName(fn))
				checkRoot(fmt.Sprintf("%s→http.Dir#%d", fnName(fn), per["http.Dir"]), posOf(i), ct.X, fdir, "the FileServer root")
				return
			}
			c := callCommon(i)
			if nil == c {
				return
			}
			name := calleeName(c)
			if "net/http.ServeFile" == name || "net/http.ServeFileFS" == name {
				n++
				rPath.Bad(fnName(fn)+"→"+name, posOf(i), "%s inspects the request path itself (rejects '..', redirects */index.html): in single-file mode not every non-shell path returns the file, and a name built from the request would escape the tree", name)
				return
			}
			if idx, ok := fsPathSinks[name]; ok && idx < len(c.Args) {
				n++
				per[name]++
				r.Saw("func " + fnName(fn))
				checkRoot(fmt.Sprintf("%s→%s#%d", fnName(fn), name, per[name]), posOf(i), c.Args[idx], nil, "the path given to "+name)
			}
			if "net/http.ServeContent" == name {
				n++
				/* Content: the file opened from fdir. */
				rs := valueRoots(c.Args[4], nil)
				okk := len(rs) > 0
				for _, x := range rs {
					if !("call" == x.Kind && ("os.Open" == x.Callee || "os.OpenFile" == x.Callee)) {
						okk = false
						continue
					}
					arg := x.V.(*ssa.Call).Common().Args[0]
					for _, ar := range valueRoots(arg, pathThrough) {
						if !("field" == ar.Kind && ar.Field == fdir) && "const" != ar.Kind {
							okk = false
						}
					}
				}
				cc := fnName(fn) + "→http.ServeContent"
				if okk {
					rPath.OK(cc, posOf(i), "content is the file opened from Server.fdir")
				} else {
					rPath.Bad(cc, posOf(i), "the content served is %s, not the file opened from Server.fdir", rootsString(rs))
				}
			}
			if "net/http.FileServer" == name {
				/* Root already checked at the http.Dir conversion; FS-based
				roots: http.FS(os.DirFS(x)). */
				rs := valueRoots(c.Args[0], func(n string) bool { return "net/http.FS" == n || "os.DirFS" == n || pathThrough(n) })
				for _, x := range rs {
					if "call" == x.Kind {
						rPath.Unproven(fnName(fn)+"→http.FileServer:root", posOf(i), "FileServer root built by %s", x.Callee)
					}
				}
			}
		})
	}
	if n < 3 {
		rPath.Unproven("hsrv:sinks", token.NoPos, "only %d file-system uses found in hsrv; the file handler and template reader were expected", n)
	}

	/* Route table. */
	routes := muxRoutes(p)
	iob := map[string]string{"/i/{id}": "ConnectIn", "/o/{id}": "ConnectOut", "/io": "ConnectInOut", "/c": "Execute"}
	have := map[string]bool{}
	for _, rt := range routes {
		c := "route " + rt.Pattern
		have[rt.Pattern] = true
		if "<computed>" == rt.Pattern {
			rRoute.Bad(c, rt.Pos, "a route pattern is computed at run time")
			continue
		}
		if strings.ContainsAny(rt.Pattern, " ") || !strings.HasPrefix(rt.Pattern, "/") {
			rRoute.Bad(c, rt.Pos, "pattern %q restricts method or host: other requests for the endpoint fall through to the file handler", rt.Pattern)
			continue
		}
		if nil == rt.Handler {
			rRoute.Unproven(c, rt.Pos, "handler not statically known")
			continue
		}
		r.Saw("func " + fnName(rt.Handler))
		serves := fileServing(p, rt.Handler, map[*ssa.Function]bool{})
		uncond := true
		at := rt.Instr
		if nil != rt.Anchor {
			at = rt.Anchor /* a row of a literal table registered in a loop */
		}
		eachInstr(rt.In, func(i ssa.Instruction) {
			if isReturn(i) && !instrDominates(at, i) {
				uncond = false
			}
		})
		isCatchAll := "/" == rt.Pattern || ("/{" == rt.Pattern[:min(2, len(rt.Pattern))] && strings.HasSuffix(rt.Pattern, "...}"))
		switch {
		case serves && !isCatchAll:
			rRoute.Bad(c, rt.Pos, "pattern %q is routed to a file-serving handler (%s): a file could answer for a shell endpoint", rt.Pattern, fnName(rt.Handler))
		case serves:
			/* Guard: "" != s.fdir on the field itself. */
			guard := false
			for _, b := range rt.In.Blocks {
				ifi := blockIf(b)
				if nil == ifi {
					continue
				}
				dc := decodeCond(ifi.Cond)
				fv, _ := loadedField(dc.X)
				if fv != fdir {
					/* The field's value handed down by the one caller of
					this (private) function. */
					fv, _ = loadedField(stripConv(p.resolveUp(dc.X), false))
				}
				if fv != fdir || nil == dc.Y {
					continue
				}
				if s, ok := constString(dc.Y); !ok || "" != s {
					continue
				}
				set := 1
				if !dc.Eq {
					set = 0
				}
				if edgeDominates(ifi, set, rt.Instr) {
					guard = true
				}
			}
			if guard {
				rRoute.OK(c, rt.Pos, "catch-all → %s, registered only when Server.fdir != \"\"", fnName(rt.Handler))
			} else {
				rRoute.Bad(c, rt.Pos, "the file-serving catch-all is not registered under the test Server.fdir != \"\" (on the field itself): with nothing configured, non-shell paths would be served instead of answered 404")
			}
		default:
			want := ""
			for pat, m := range iob {
				if rt.Pattern == pat || rt.Pattern == pat+"/" {
					want = m
				}
			}
			reaches := handlerReaches(rt.Handler, want)
			switch {
			case "" == want:
				rRoute.OK(c, rt.Pos, "extra non-file route → %s", fnName(rt.Handler))
			case !reaches:
				rRoute.Bad(c, rt.Pos, "handler %s of %q does not reach %s", fnName(rt.Handler), rt.Pattern, want)
			case !uncond:
				rRoute.Bad(c, rt.Pos, "shell route %q is registered conditionally", rt.Pattern)
			default:
				rRoute.OK(c, rt.Pos, "→ %s (reaches %s, unconditional, serves no files)", fnName(rt.Handler), want)
			}
		}
	}
	for pat := range iob {
		if !have[pat] {
			rRoute.Bad("route "+pat, token.NoPos, "shell route %q is not registered", pat)
		}
	}
	/* The bidirectional endpoint answers for its whole subtree: without the
	subtree pattern "/io/…" falls through to the catch-all, and a directory
	named io in the served tree answers instead of the shell endpoint. */
	if have["/io"] && !have["/io/"] {
		rRoute.Bad("route /io/", token.NoPos, "the subtree pattern \"/io/\" is not registered: requests below /io/ fall through to the file-serving catch-all (a directory named io shadows the shell endpoint), or get 404 instead of a shell")
	}

	/* Notice first. */
	for _, rt := range routes {
		if nil == rt.Handler || !fileServing(p, rt.Handler, map[*ssa.Function]bool{}) {
			continue
		}
		h := rt.Handler
		var w *ssa.Parameter
		for _, pa := range h.Params {
			if typeIs(pa.Type(), "net/http", "ResponseWriter") {
				w = pa
			}
		}
		if nil == w {
			continue
		}
		known := findPrintfLike(p)
		var notice ssa.Instruction
		eachInstr(h, func(i ssa.Instruction) {
			c := callCommon(i)
			if nil == c || nil == c.StaticCallee() || nil != notice {
				return
			}
			if _, ok := known[c.StaticCallee()]; ok && "Server" == recvTypeName(c.StaticCallee()) {
				notice = i
			}
		})
		c := fnName(h) + ":notice-first"
		if nil == notice {
			rNote.Bad(c, h.Pos(), "the file handler never reports the request to the operator")
			continue
		}
		bad := 0
		eachInstr(h, func(i ssa.Instruction) {
			cc := callCommon(i)
			if nil == cc {
				return
			}
			for _, a := range callArgs(cc) {
				if stripConv(a, false) == ssa.Value(w) && !instrDominates(notice, i) {
					bad++
					rNote.Bad(c, posOf(i), "a response can be written (%s) on a path which has not reported the request to the operator", calleeName(cc))
				}
			}
		})
		if 0 == bad {
			rNote.OK(c, posOf(notice), "the notice precedes every use of the response writer")
		}
	}
	rNote.AtLeast(1, "file handlers")
}

func fieldNameOr(f *types.Var) string {
	if nil == f {
		return ""
	}
	return f.Name()
}

// handlerReaches: does fn (or a hsrv function it statically calls) call a
// function/method called name?
func handlerReaches(fn *ssa.Function, name string) bool {
	seen := map[*ssa.Function]bool{}
	var visit func(f *ssa.Function) bool
	visit = func(f *ssa.Function) bool {
		if nil == f || seen[f] || nil == f.Blocks {
			return false
		}
		seen[f] = true
		found := false
		for _, g := range withAnons(f) {
			eachInstr(g, func(i ssa.Instruction) {
				c := callCommon(i)
				if nil == c {
					return
				}
				n := calleeName(c)
				if strings.HasSuffix(n, "."+name) || strings.HasSuffix(n, ")."+name) {
					found = true
				}
				if sc := c.StaticCallee(); nil != sc && inModule(sc) && nil != sc.Pkg && sc.Pkg == fn.Pkg {
					if visit(sc) {
						found = true
					}
				}
			})
		}
		return found
	}
	return visit(fn)
}


// topFn: the named function a (possibly anonymous) function belongs to.
func topFn(f *ssa.Function) *ssa.Function {
	for nil != f && nil != f.Parent() {
		f = f.Parent()
	}
	return f
}


// checkC09NoticeKept: where package hsrv sends a line to the operator's
// channel inside a select, no other arm of that select waits for the end of a
// request's context: that context is done as soon as the client has gone, and
// a select with two ready arms picks one at random — the notice of a request
// which was served is then sometimes dropped.
func checkC09NoticeKept(p *Prog, r *Report, ru *Rule) {
	och := p.Field(hsrvPkg, "Server", "och")
	n := 0
	for _, fn := range p.Funcs() {
		if nil == fn.Pkg || !strings.HasSuffix(fn.Pkg.Pkg.Path(), "/"+hsrvPkg) {
			continue
		}
		eachInstr(fn, func(i ssa.Instruction) {
			sel, ok := i.(*ssa.Select)
			if !ok {
				return
			}
			sends := false
			for _, st := range sel.States {
				if types.SendOnly != st.Dir {
					continue
				}
				if fv, _ := loadedField(resolveCell(st.Chan)); nil != fv && (fv == och || "och" == fv.Name()) {
					sends = true
				}
			}
			if !sends {
				return
			}
			n++
			k := fmt.Sprintf("%s:select#%d", fnName(fn), n)
			bad := false
			for _, st := range sel.States {
				if types.RecvOnly != st.Dir {
					continue
				}
				ctx, isDone := isCtxDone(st.Chan)
				if !isDone {
					continue
				}
				for _, x := range p.rootsUp(valueRoots(ctx, func(s string) bool {
					return strings.HasPrefix(s, "context.With")
				}), nil) {
					if "call" == x.Kind && "(*net/http.Request).Context" == x.Callee {
						bad = true
					}
				}
			}
			if bad {
				ru.Bad(k, posOf(sel), "the send of the notice shares a select with the request's own context: once the client has hung up both arms are ready and the notice is dropped at random, although the request was served")
			} else {
				ru.OK(k, posOf(sel), "no arm waits for a request's context")
			}
		})
	}
	if 0 == n {
		ru.OK("hsrv:notices-sent-unconditionally", token.NoPos, "notices are sent with plain channel sends")
	}
}
