package main

// C05 — every advertised fingerprint is the pin of the key the listener
// really serves.

import (
	"fmt"
	"go/token"
	"go/types"
	"os"
	"strings"

	"golang.org/x/tools/go/ssa"
)

const sstlsPkg = "lib/sstls"

func init() {
	register("C05", &propDef{
		Run:         checkC05,
		Explanation: "Static decision of the value-flow clauses of C05. (1) In sstls.Listen the certificate value whose fingerprint is stored in Listener.Fingerprint is the very SSA value placed as the only element of tls.Config.Certificates handed to tls.Listen, and the config sets no certificate-selection callback; Listener.Fingerprint is written nowhere else. (2) Every store to tls.Certificate.Leaf stores x509.ParseCertificate of the same certificate's own first DER block. (3) The fingerprint function computes base64.StdEncoding(sha256(MarshalPKIXPublicKey(leaf.PublicKey))) — the definition of curl's sha256// pin — and simpleshell's verifier uses the same serialisation, hash and alphabet. (4) Server.l is written only in New from Listen's result and is the listener http.Server.Serve is given; every printf-style call whose constant format contains --pinnedpubkey takes the pin argument from s.l.Fingerprint, TemplateParams.PubkeyFP is stored from the same field unchanged, and the default template puts it after sha256// in every curl command. (5) The port of printed one-liners flows from s.l.Addr(); a user-supplied callback address keeps its own port as decided by net.SplitHostPort. curl's own comparison and custom templates are outside.",
		Assumptions: []string{"crypto/tls serves Certificates[0] when no selection callback is set", "curl --pinnedpubkey sha256// is base64(SHA-256(DER SubjectPublicKeyInfo))"},
	})
}

// hashChain describes how a fingerprint value is computed.
type hashChain struct {
	Encoding string    /* e.g. base64.StdEncoding */
	Hash     string    /* e.g. crypto/sha256.Sum256 */
	Serial   string    /* MarshalPKIXPublicKey(PublicKey) or RawSubjectPublicKeyInfo */
	Cert     ssa.Value /* The *x509.Certificate whose key is hashed. */
	Err      string
}

func (h hashChain) String() string { return h.Encoding + "(" + h.Hash + "(" + h.Serial + "))" }

// streamingDigest recognises h := sha256.New(); h.Write(in); h.Sum(nil) and
// returns the constructor's name and the single value written.
func streamingDigest(v ssa.Value) (hash string, in ssa.Value, why string) {
	sum, ok := v.(*ssa.Call)
	if !ok || !sum.Common().IsInvoke() || "Sum" != sum.Common().Method.Name() {
		return "", nil, ""
	}
	if a := sum.Common().Args[0]; !isNilConst(a) {
		if ms, ok := a.(*ssa.MakeSlice); !ok || !isZeroConst(ms.Len) {
			return "", nil, "Sum is given a non-empty prefix"
		}
	}
	h := resolveCell(sum.Common().Value)
	ctor, ok := h.(*ssa.Call)
	if !ok {
		return "", nil, "the hash object is not made in this function"
	}
	var writes []ssa.Value
	bad := ""
	eachInstr(sum.Parent(), func(i ssa.Instruction) {
		c := callCommon(i)
		if nil == c || i == ssa.Instruction(sum) || i == ssa.Instruction(ctor) {
			return
		}
		uses := false
		if c.IsInvoke() && resolveCell(c.Value) == h {
			uses = true
		}
		for _, a := range c.Args {
			if resolveCell(stripConv(a, false)) == h {
				uses = true
			}
		}
		if !uses {
			return
		}
		if c.IsInvoke() && "Write" == c.Method.Name() && resolveCell(c.Value) == h && instrDominates(i, sum) && nil == (reachQ{From: locOf(i), Target: func(j ssa.Instruction) bool { return j == i }, Block: func(j ssa.Instruction) bool { return j == ssa.Instruction(ctor) }}).run() {
			writes = append(writes, c.Args[0])
			return
		}
		bad = "the hash object is used by " + calleeName(c)
	})
	switch {
	case "" != bad:
		return "", nil, bad
	case 1 != len(writes):
		return "", nil, fmt.Sprintf("%d writes into the hash, one expected", len(writes))
	}
	name := calleeName(ctor.Common())
	if "crypto/sha256.New" == name {
		name = "crypto/sha256.Sum256" /* the same function of the input */
	}
	return name, writes[0], ""
}

func isZeroConst(v ssa.Value) bool {
	k, ok := constInt(v)
	return ok && 0 == k
}

// digestChain analyses a []byte value expected to be sha256.Sum256(spki)[:]
// (or the streaming equivalent).
func digestChain(v ssa.Value) hashChain {
	var hc hashChain
	v = stripConv(v, false)
	if name, in, why := streamingDigest(v); "" != name || "" != why {
		if "" != why {
			hc.Err = why
			return hc
		}
		hc.Hash = name
		return serialOf(hc, in)
	}
	sl, ok := v.(*ssa.Slice)
	if !ok {
		hc.Err = "digest is not a slice of a hash array"
		return hc
	}
	if nil != sl.Low || nil != sl.High {
		hc.Err = "the digest is sliced with bounds: only part of the hash is used"
		return hc
	}
	al, ok := sl.X.(*ssa.Alloc)
	if !ok {
		hc.Err = "digest array not local"
		return hc
	}
	sts := reachingStoresAt(sl, al)
	if 1 != len(sts) {
		hc.Err = "digest array written more than once"
		return hc
	}
	hcall, ok := stripConv(resolveCell(sts[0].Val), false).(*ssa.Call)
	if !ok {
		hc.Err = "digest is not a hash call"
		return hc
	}
	hc.Hash = calleeName(hcall.Common())
	return serialOf(hc, hcall.Common().Args[0])
}

// serialOf fills in what is hashed.
func serialOf(hc hashChain, in ssa.Value) hashChain {
	switch x := stripConv(resolveCell(in), false).(type) {
	case *ssa.Extract:
		c, ok := x.Tuple.(*ssa.Call)
		if !ok || 0 != x.Index {
			hc.Err = "hash input not recognised"
			return hc
		}
		name := calleeName(c.Common())
		arg := stripConv(c.Common().Args[0], false)
		fv, base := loadedField(arg)
		if nil == fv {
			hc.Err = "serialised value is not a certificate field"
			return hc
		}
		hc.Serial = name + "(" + fv.Name() + ")"
		hc.Cert = base
	case *ssa.UnOp, *ssa.Field:
		fv, base := loadedField(x)
		if nil == fv {
			hc.Err = "hash input not recognised"
			return hc
		}
		hc.Serial = fv.Name()
		hc.Cert = base
	case *ssa.Phi:
		/* The certificate's own SPKI bytes when it has them, else the
		re-encoding of its key: the same DER either way. */
		var first hashChain
		for k, e := range x.Edges {
			h := serialOf(hashChain{Hash: hc.Hash, Encoding: hc.Encoding}, e)
			if "" != h.Err || !okSerial(h.Serial) {
				hc.Err = "hash input not recognised (a choice one of whose sides is not the certificate's SubjectPublicKeyInfo)"
				return hc
			}
			if 0 == k {
				first = h
			} else if resolveCell(h.Cert) != resolveCell(first.Cert) {
				hc.Err = "hash input chosen from two different certificates"
				return hc
			}
		}
		hc.Serial = "crypto/x509.MarshalPKIXPublicKey(PublicKey)"
		hc.Cert = first.Cert
	default:
		hc.Err = fmt.Sprintf("hash input not recognised (%T)", x)
	}
	return hc
}

func okSerial(s string) bool {
	return "crypto/x509.MarshalPKIXPublicKey(PublicKey)" == s || "RawSubjectPublicKeyInfo" == s
}

func checkC05(p *Prog, r *Report) {
	rOne := r.Rule("one-certificate", "the fingerprinted certificate is the value served by tls.Listen, and nothing else selects certificates")
	rLeaf := r.Rule("leaf-consistency", "every tls.Certificate.Leaf is the parse of that certificate's own first DER block")
	rHash := r.Rule("hash-chain", "fingerprint = base64.StdEncoding(sha256(DER SubjectPublicKeyInfo)); the simpleshell verifier agrees")
	rSrc := r.Rule("single-source", "Listener.Fingerprint and Server.l have one writer each; the served listener is s.l")
	rPins := r.Rule("pins-from-listener", "every printed or templated pin is s.l.Fingerprint, unchanged")
	rPort := r.Rule("port-from-socket", "one-liner ports come from the bound socket unless the user's callback address has its own")
	rTmpl := r.Rule("default-template", "every curl command of the default template pins sha256//{{.PubkeyFP}}")

	listen := p.Func(sstlsPkg, "", "Listen")
	fpF := p.Field(sstlsPkg, "Listener", "Fingerprint")
	if nil == listen || nil == fpF {
		rOne.Unproven("sstls.Listen", token.NoPos, "Listen or Listener.Fingerprint not found")
		return
	}
	r.Saw("func " + fnName(listen))

	/* 1. */
	var tlsListen *ssa.Call
	cfgIdx := 2
	eachInstr(listen, func(i ssa.Instruction) {
		if c, ok := i.(*ssa.Call); ok {
			switch calleeName(c.Common()) {
			case "crypto/tls.Listen":
				tlsListen, cfgIdx = c, 2
			case "crypto/tls.NewListener":
				/* tls.Listen is net.Listen + tls.NewListener(inner, config). */
				tlsListen, cfgIdx = c, 1
			}
		}
	})
	var served []ssa.Value
	if nil == tlsListen {
		rOne.Bad(fnName(listen)+":tls.Listen", listen.Pos(), "Listen does not call tls.Listen")
	} else {
		cfg, ok := stripConv(tlsListen.Common().Args[cfgIdx], false).(*ssa.Alloc)
		if !ok {
			rOne.Unproven(fnName(listen)+":config", posOf(tlsListen), "tls.Config is not a local composite literal")
		} else {
			for _, ref := range *cfg.Referrers() {
				fa, ok := ref.(*ssa.FieldAddr)
				if !ok {
					if _, isCall := ref.(*ssa.Call); !isCall {
						if _, isDbg := ref.(*ssa.DebugRef); !isDbg {
							rOne.Unproven(fnName(listen)+":config-escapes", posOf(ref), "the tls.Config is used by %T", ref)
						}
					}
					continue
				}
				fv, _ := fieldAddrOf(fa)
				switch fv.Name() {
				case "Certificates":
					for _, r2 := range *fa.Referrers() {
						st, ok := r2.(*ssa.Store)
						if !ok {
							continue
						}
						sl, ok := st.Val.(*ssa.Slice)
						if !ok {
							rOne.Unproven(fnName(listen)+":Certificates", posOf(st), "Certificates is not a slice literal")
							continue
						}
						arr, ok := sl.X.(*ssa.Alloc)
						if !ok {
							continue
						}
						for _, r3 := range *arr.Referrers() {
							if ia, ok := r3.(*ssa.IndexAddr); ok {
								for _, r4 := range *ia.Referrers() {
									if est, ok := r4.(*ssa.Store); ok && est.Addr == ssa.Value(ia) {
										served = append(served, est.Val)
									}
								}
							}
						}
					}
				case "GetCertificate", "GetConfigForClient", "NameToCertificate", "GetClientCertificate":
					rOne.Bad(fnName(listen)+":config."+fv.Name(), posOf(fa), "tls.Config.%s is set: the certificate presented in handshakes is chosen at run time and need not be the fingerprinted one", fv.Name())
				}
			}
		}
	}
	/* The fingerprint store. */
	var fpCert ssa.Value
	var fpFn *ssa.Function
	nst := 0
	for _, st := range p.storesToField(fpF) {
		nst++
		c := fnName(st.Parent()) + ":Fingerprint="
		if st.Parent() != listen {
			rSrc.Bad(c, posOf(st), "Listener.Fingerprint is written outside sstls.Listen")
			continue
		}
		ex, ok := st.Val.(*ssa.Extract)
		var call *ssa.Call
		if ok {
			call, _ = ex.Tuple.(*ssa.Call)
		} else {
			call, _ = st.Val.(*ssa.Call)
		}
		if nil == call || nil == call.Common().StaticCallee() || !inModule(call.Common().StaticCallee()) {
			rSrc.Bad(c, posOf(st), "Listener.Fingerprint is not the result of the module's fingerprint function (%s)", describeValue(st.Val))
			continue
		}
		fpFn = call.Common().StaticCallee()
		fpCert = call.Common().Args[0]
		rSrc.OK(c+fnName(fpFn), posOf(st), "computed once in Listen")
	}
	if 0 == nst {
		rSrc.Bad("Listener.Fingerprint", listen.Pos(), "Listener.Fingerprint is never set")
	}
	if nil != fpCert {
		switch {
		case 1 != len(served):
			rOne.Bad(fnName(listen)+":served", listen.Pos(), "%d certificates are placed in tls.Config.Certificates; exactly one (the fingerprinted one) expected", len(served))
		case resolveCell(served[0]) == resolveCell(fpCert):
			rOne.OK(fnName(listen)+":served=fingerprinted", posOf(tlsListen), "the same certificate value is fingerprinted and served")
		default:
			rOne.Bad(fnName(listen)+":served=fingerprinted", posOf(tlsListen), "the certificate served by tls.Listen is not the value that was fingerprinted")
		}
	}
	/* No file removal / regeneration in Listen after fingerprinting. */

	/* 2. Leaf stores. */
	nleaf := 0
	for _, fn := range p.Funcs() {
		eachInstr(fn, func(i ssa.Instruction) {
			st, ok := i.(*ssa.Store)
			if !ok {
				return
			}
			fv, base := fieldAddrOf(st.Addr)
			if nil == fv || "Leaf" != fv.Name() || !typeIs(base.Type(), "crypto/tls", "Certificate") {
				return
			}
			nleaf++
			c := fnName(fn) + ":Leaf"
			ex, ok := st.Val.(*ssa.Extract)
			if !ok {
				rLeaf.Bad(c, posOf(st), "Leaf is not the result of x509.ParseCertificate")
				return
			}
			call, ok := ex.Tuple.(*ssa.Call)
			if !ok || "crypto/x509.ParseCertificate" != calleeName(call.Common()) {
				rLeaf.Bad(c, posOf(st), "Leaf is not the result of x509.ParseCertificate")
				return
			}
			/* Argument: (*base).Certificate[0]. */
			arg := call.Common().Args[0]
			okk := false
			if u, ok := arg.(*ssa.UnOp); ok && token.MUL == u.Op {
				if ia, ok := u.X.(*ssa.IndexAddr); ok {
					if k, ok := constInt(ia.Index); ok && 0 == k {
						if f2, b2 := loadedField(ia.X); nil != f2 && "Certificate" == f2.Name() && b2 == base {
							okk = true
						}
					}
				}
			}
			if !okk {
				/* cert := tls.Certificate{Certificate: [][]byte{der},
				Leaf: leaf} with leaf = ParseCertificate(der): the same
				der value is this certificate's only block. */
				eachInstr(fn, func(j ssa.Instruction) {
					st2, ok := j.(*ssa.Store)
					if !ok {
						return
					}
					f2, b2 := fieldAddrOf(st2.Addr)
					if nil == f2 || "Certificate" != f2.Name() || b2 != base {
						return
					}
					sl, ok := st2.Val.(*ssa.Slice)
					if !ok {
						return
					}
					al, ok := sl.X.(*ssa.Alloc)
					if !ok {
						return
					}
					for _, ref := range *al.Referrers() {
						ia, ok := ref.(*ssa.IndexAddr)
						if !ok {
							continue
						}
						if k, isK := constInt(ia.Index); !isK || 0 != k {
							continue
						}
						for _, r2 := range *ia.Referrers() {
							if st3, ok := r2.(*ssa.Store); ok && st3.Addr == ssa.Value(ia) && resolveCell(st3.Val) == resolveCell(arg) {
								okk = true
							}
						}
					}
				})
			}
			if okk {
				rLeaf.OK(c, posOf(st), "Leaf = ParseCertificate(cert.Certificate[0]) of the same certificate")
			} else {
				rLeaf.Bad(c, posOf(st), "Leaf is parsed from something other than this certificate's own first block: the fingerprint would describe a key that is not served")
			}
		})
	}
	rLeaf.AtLeast(2, "Leaf stores")

	/* 3. Hash chain of the fingerprint function(s). */
	var ref hashChain
	if nil != fpFn {
		ref = fingerprintChain(p, r, rHash, fpFn, 0)
	}
	/* Sibling: simpleshell verifier. */
	if vf := p.Func("lib/simpleshell", "", "TLSFingerprintVerifier"); nil != vf {
		for _, f := range withAnons(vf) {
			eachInstr(f, func(i ssa.Instruction) {
				c, ok := i.(*ssa.Call)
				if !ok || "crypto/subtle.ConstantTimeCompare" != calleeName(c.Common()) && "bytes.Equal" != calleeName(c.Common()) {
					return
				}
				r.Saw("func " + fnName(f))
				var hc hashChain
				for _, a := range c.Common().Args {
					if h := digestChain(a); "" == h.Err {
						hc = h
					}
				}
				cc := fnName(f) + ":verifier-chain"
				switch {
				case "" == hc.Hash:
					rHash.Unproven(cc, posOf(c), "the verifier's digest computation was not recognised")
				case hc.Hash != ref.Hash || (hc.Serial != ref.Serial && !(okSerial(hc.Serial) && okSerial(ref.Serial))):
					rHash.Bad(cc, posOf(c), "the client verifier hashes %s(%s) but the server advertises %s(%s)", hc.Hash, hc.Serial, ref.Hash, ref.Serial)
				default:
					rHash.OK(cc, posOf(c), "same serialisation and hash as the server: %s(%s)", hc.Hash, hc.Serial)
				}
			})
		}
		/* Decoding alphabet. */
		eachInstr(vf, func(i ssa.Instruction) {
			c, ok := i.(*ssa.Call)
			if !ok || "(*encoding/base64.Encoding).DecodeString" != calleeName(c.Common()) {
				return
			}
			if globalLoad(c.Common().Args[0], "encoding/base64", "StdEncoding") {
				rHash.OK(fnName(vf)+":alphabet", posOf(c), "base64.StdEncoding")
			} else {
				rHash.Bad(fnName(vf)+":alphabet", posOf(c), "the verifier decodes the pin with an alphabet other than base64.StdEncoding")
			}
		})
	}

	checkC05Server(p, r, rSrc, rPins, rPort)
	checkC05UserAddrs(p, r, rPort)
	checkC05MessagesWhole(p, r, r.Rule("messages-whole", "the server's printf-style senders put the whole formatted message on the operator channel (the one-liners are one message)"))
	checkPinTemplate(p, r, rTmpl)
}

// fingerprintChain follows the module's fingerprint function(s) down to the
// hash computation.  argIdx is the parameter carrying the certificate.
func fingerprintChain(p *Prog, r *Report, ru *Rule, fn *ssa.Function, depth int) hashChain {
	r.Saw("func " + fnName(fn))
	var out hashChain
	c := fnName(fn) + ":chain"
	if depth > 3 {
		ru.Unproven(c, fn.Pos(), "fingerprint call chain too deep")
		return out
	}
	/* Success returns: result 0 with nil error. */
	nret := 0
	eachInstr(fn, func(i ssa.Instruction) {
		ret, ok := i.(*ssa.Return)
		if !ok || 0 == len(ret.Results) {
			return
		}
		if len(ret.Results) > 1 && !isNilConst(retVal(ret, len(ret.Results)-1)) {
			/* Error return or forwarded tuple. */
			if _, isEx := retVal(ret, len(ret.Results)-1).(*ssa.Extract); !isEx {
				return
			}
		}
		v := stripConv(retVal(ret, 0), true)
		var call *ssa.Call
		if ex, ok := v.(*ssa.Extract); ok {
			call, _ = ex.Tuple.(*ssa.Call)
		} else {
			call, _ = v.(*ssa.Call)
		}
		if nil == call {
			/* string(buf) with buf filled by enc.Encode(buf, digest). */
			if _, isBuf := v.(*ssa.MakeSlice); isBuf {
				eachInstr(fn, func(j ssa.Instruction) {
					if c2, ok := j.(*ssa.Call); ok && "(*encoding/base64.Encoding).Encode" == calleeName(c2.Common()) && c2.Common().Args[1] == v {
						call = c2
					}
				})
			}
		}
		if nil == call {
			/* string(arr[:]) with a local [N]byte filled by
			enc.Encode(arr[:], digest). */
			if sl, isSl := v.(*ssa.Slice); isSl {
				if al, isAl := sl.X.(*ssa.Alloc); isAl {
					eachInstr(fn, func(j ssa.Instruction) {
						c2, ok := j.(*ssa.Call)
						if !ok || "(*encoding/base64.Encoding).Encode" != calleeName(c2.Common()) {
							return
						}
						if s2, isSl2 := c2.Common().Args[1].(*ssa.Slice); isSl2 && s2.X == ssa.Value(al) && nil == s2.Low && nil == s2.High {
							call = c2
						}
					})
				}
			}
		}
		if nil == call {
			return
		}
		nret++
		if sc := call.Common().StaticCallee(); nil != sc && inModule(sc) {
			/* Delegation: the argument must be the Leaf of our own param. */
			arg := call.Common().Args[0]
			if fv, base := loadedField(arg); nil == fv || "Leaf" != fv.Name() || !isParamOrLoad(fn, base) {
				if _, isP := arg.(*ssa.Parameter); !isP {
					ru.Bad(c, posOf(call), "%s fingerprints %s, not the leaf of the certificate it was given", fnName(fn), describeValue(arg))
					return
				}
			}
			out = fingerprintChain(p, r, ru, sc, depth+1)
			return
		}
		var digest ssa.Value
		switch calleeName(call.Common()) {
		case "(*encoding/base64.Encoding).EncodeToString":
			digest = call.Common().Args[1]
		case "(*encoding/base64.Encoding).Encode":
			/* The destination is sized by EncodedLen of the digest's
			length (anything shorter panics, longer leaves NULs). */
			digest = call.Common().Args[2]
			okLen := false
			if ms, ok := call.Common().Args[1].(*ssa.MakeSlice); ok {
				if lc, ok := ms.Len.(*ssa.Call); ok && "(*encoding/base64.Encoding).EncodedLen" == calleeName(lc.Common()) {
					okLen = true
				}
			}
			/* A whole local array of exactly the 44 bytes a padded
			base64 SHA-256 digest takes. */
			if s2, ok := call.Common().Args[1].(*ssa.Slice); ok && nil == s2.Low && nil == s2.High {
				if al, ok := s2.X.(*ssa.Alloc); ok {
					if at, ok := al.Type().Underlying().(*types.Pointer).Elem().Underlying().(*types.Array); ok && 44 == at.Len() {
						if ds, ok := digest.(*ssa.Slice); ok && nil == ds.Low && nil == ds.High {
							if dal, ok := ds.X.(*ssa.Alloc); ok {
								if dt, ok := dal.Type().Underlying().(*types.Pointer).Elem().Underlying().(*types.Array); ok && 32 == dt.Len() {
									okLen = true
								}
							}
						}
					}
				}
			}
			if !okLen {
				ru.Bad(c, posOf(call), "the buffer the pin is encoded into is not sized with EncodedLen: the pin would carry trailing NUL bytes or be cut")
				return
			}
		case "(*encoding/base64.Encoding).AppendEncode":
			/* string(enc.AppendEncode(<empty>, digest)) */
			dst := call.Common().Args[1]
			empty := isNilConst(dst)
			if ms, ok := dst.(*ssa.MakeSlice); ok && isZeroConst(ms.Len) {
				empty = true
			}
			if !empty {
				ru.Bad(c, posOf(call), "the encoded pin is appended to a non-empty prefix")
				return
			}
			digest = call.Common().Args[2]
		default:
			ru.Bad(c, posOf(call), "the fingerprint is produced by %s, not base64 encoding", calleeName(call.Common()))
			return
		}
		hc := digestChain(digest)
		hc.Encoding = "other"
		if isStdEncoding(p, call.Common().Args[0]) {
			hc.Encoding = "base64.StdEncoding"
		}
		out = hc
		switch {
		case "" != hc.Err:
			ru.Bad(c, posOf(call), "%s", hc.Err)
		case "base64.StdEncoding" != hc.Encoding:
			ru.Bad(c, posOf(call), "the pin is encoded with an alphabet other than base64.StdEncoding (curl expects padded standard base64)")
		case "crypto/sha256.Sum256" != hc.Hash:
			ru.Bad(c, posOf(call), "the pin hashes with %s, curl's sha256// needs SHA-256", hc.Hash)
		case !okSerial(hc.Serial):
			ru.Bad(c, posOf(call), "the pin hashes %s; curl pins the DER SubjectPublicKeyInfo (MarshalPKIXPublicKey(PublicKey) or RawSubjectPublicKeyInfo), not the certificate or another field", hc.Serial)
		case !isParamOrLoad(fn, hc.Cert) && !ownLeafOf(fn, hc.Cert):
			ru.Bad(c, posOf(call), "the hashed key does not belong to the certificate passed in")
		default:
			ru.OK(c, posOf(call), "%s", hc)
		}
	})
	if 0 == nret {
		ru.Unproven(c, fn.Pos(), "no success return computing a fingerprint found")
	}
	return out
}

func isParamOrLoad(fn *ssa.Function, v ssa.Value) bool {
	v = resolveCell(v)
	if pa, ok := v.(*ssa.Parameter); ok {
		return pa.Parent() == fn
	}
	if al, ok := v.(*ssa.Alloc); ok {
		/* Spilled struct parameter. */
		for _, st := range storesTo(al) {
			if pa, ok := st.Val.(*ssa.Parameter); ok && pa.Parent() == fn {
				return true
			}
		}
	}
	return false
}

// ownLeafOf: v is, whichever way it was come by, the leaf of the certificate
// fn was given: its Leaf field, or the parse of its own first DER block.
func ownLeafOf(fn *ssa.Function, v ssa.Value) bool {
	ls := phiLeaves(v)
	if 0 == len(ls) {
		return false
	}
	for _, l := range ls {
		x := stripConv(resolveCell(l.V), false)
		if fv, base := loadedField(x); nil != fv && "Leaf" == fv.Name() && isParamOrLoad(fn, base) {
			continue
		}
		ex, ok := x.(*ssa.Extract)
		if !ok || 0 != ex.Index {
			return false
		}
		call, ok := ex.Tuple.(*ssa.Call)
		if !ok || "crypto/x509.ParseCertificate" != calleeName(call.Common()) {
			return false
		}
		okk := false
		if u, ok := call.Common().Args[0].(*ssa.UnOp); ok && token.MUL == u.Op {
			if ia, ok := u.X.(*ssa.IndexAddr); ok {
				if k, ok := constInt(ia.Index); ok && 0 == k {
					if f2, b2 := loadedField(ia.X); nil != f2 && "Certificate" == f2.Name() && isParamOrLoad(fn, b2) {
						okk = true
					}
				}
			}
		}
		if !okk {
			return false
		}
	}
	return true
}

// checkC05Server: hsrv side.
func checkC05Server(p *Prog, r *Report, rSrc, rPins, rPort *Rule) {
	lF := p.Field(hsrvPkg, "Server", "l")
	fpF := p.Field(sstlsPkg, "Listener", "Fingerprint")
	if nil == lF {
		rSrc.Unproven("hsrv.Server.l", token.NoPos, "field not found")
		return
	}
	listen := p.Func(sstlsPkg, "", "Listen")
	for _, st := range p.storesToField(lF) {
		c := fnName(st.Parent()) + ":Server.l"
		rs := valueRoots(st.Val, nil)
		/* The embedded net.Listener replaced by a pass-through wrapper
		around itself (a counter of accepted connections). */
		if len(rs) > 1 {
			var keep []Root
			for _, x := range rs {
				if "alloc" == x.Kind && nil != x.V {
					if in := unwrapPassThrough(p, x.V, "Accept"); in != x.V {
						inner := valueRoots(in, nil)
						if "" != os.Getenv("CRS_C05DEBUG") {
							fmt.Fprintf(os.Stderr, "C05DEBUG alloc %s in=%s inner=%s\n", x.V.Name(), in.Name(), rootsString(inner))
						}
						same := 0 != len(inner)
						for _, y := range inner {
							if "alloc" == y.Kind && y.V == x.V {
								continue /* the local it was put back into */
							}
							if "field" == y.Kind && nil != y.Base {
								/* The embedded listener of the local which
								holds Listen's result. */
								if bal, isAl := resolveFree(y.Base).(*ssa.Alloc); isAl {
									okBase, nb := true, 0
									for _, bs := range storesTo(bal) {
										nb++
										for _, z := range valueRoots(bs.Val, nil) {
											if !("call" == z.Kind && nil != listen && z.V.(*ssa.Call).Common().StaticCallee() == listen) {
												okBase = false
											}
										}
									}
									if okBase && nb > 0 {
										continue
									}
								}
							}
							if !("call" == y.Kind && nil != listen && y.V.(*ssa.Call).Common().StaticCallee() == listen) {
								same = false
							}
						}
						if same {
							continue
						}
					}
				}
				/* The local the result was put into, one field of which
				is then replaced by such a wrapper around itself. */
				if al, isAl := x.V.(*ssa.Alloc); isAl && "alloc" == x.Kind {
					nf, okAll := 0, true
					for _, ref := range *al.Referrers() {
						fa, isFA := ref.(*ssa.FieldAddr)
						if !isFA {
							continue
						}
						for _, r2 := range *fa.Referrers() {
							st2, isSt := r2.(*ssa.Store)
							if !isSt || st2.Addr != ssa.Value(fa) {
								continue
							}
							nf++
							in := stripConv(unwrapPassThrough(p, st2.Val, "Accept"), false)
							ld, isLd := in.(*ssa.UnOp)
							if !isLd || token.MUL != ld.Op || in == stripConv(st2.Val, false) {
								okAll = false
								continue
							}
							fa2, isFA2 := ld.X.(*ssa.FieldAddr)
							if !isFA2 || fa2.X != ssa.Value(al) || fa2.Field != fa.Field {
								okAll = false
							}
						}
					}
					if nf > 0 && okAll {
						continue
					}
				}
				keep = append(keep, x)
			}
			rs = keep
		}
		okk := 1 == len(rs) && "call" == rs[0].Kind && nil != listen && rs[0].V.(*ssa.Call).Common().StaticCallee() == listen
		if okk && "New" == st.Parent().Name() {
			rSrc.OK(c, posOf(st), "Server.l = sstls.Listen(...)")
		} else {
			rSrc.Bad(c, posOf(st), "Server.l is assigned from %s", rootsString(rs))
		}
	}
	isPinLoad := func(v ssa.Value) bool {
		v = stripConv(resolveCell(v), false)
		fv, base := loadedField(v)
		if fv != fpF {
			return false
		}
		f2, _ := fieldAddrOf(base)
		if nil == f2 {
			f2, _ = loadedField(base)
		}
		if f2 == lF {
			return true
		}
		/* Or the listener itself, before (or besides) being put into
		Server.l: what sstls.Listen returned in this call. */
		rs := valueRoots(base, nil)
		if al, isAl := resolveFree(base).(*ssa.Alloc); isAl {
			/* A local variable holding it. */
			rs = nil
			for _, ref := range *al.Referrers() {
				if fa, isFA := ref.(*ssa.FieldAddr); isFA {
					for _, r2 := range *fa.Referrers() {
						if st, isSt := r2.(*ssa.Store); isSt && st.Addr == ssa.Value(fa) {
							rs = append(rs, Root{Kind: "other", V: st.Val}) /* a field overwritten */
						}
					}
				}
			}
			for _, st := range storesTo(al) {
				if st.Addr == ssa.Value(al) {
					rs = append(rs, valueRoots(st.Val, nil)...)
				} else {
					rs = append(rs, Root{Kind: "other", V: st.Val})
				}
			}
		}
		for _, x := range rs {
			if !("call" == x.Kind && nil != listen && x.V.(*ssa.Call).Common().StaticCallee() == listen) {
				return false
			}
		}
		return 0 != len(rs)
	}
	/* Printf-style calls whose constant format mentions the pin. */
	known := findPrintfLike(p)
	n := 0
	for _, fn := range p.Funcs() {
		if nil == fn.Pkg || !strings.HasSuffix(fn.Pkg.Pkg.Path(), "/internal/hsrv") {
			continue
		}
		eachInstr(fn, func(i ssa.Instruction) {
			c := callCommon(i)
			if nil == c {
				return
			}
			idx, cname := printfIdxOf(p, known, c)
			if idx < 0 || idx >= len(c.Args) {
				return
			}
			f, ok := constString(c.Args[idx])
			if !ok || !strings.Contains(f, "pinnedpubkey") {
				return
			}
			n++
			r.Saw("func " + fnName(fn))
			cc := fmt.Sprintf("%s→%s:pin#%d", fnName(fn), cname, n)
			/* Which verb follows sha256// ? */
			pre := f[:strings.Index(f, "sha256//")+len("sha256//")]
			if !strings.Contains(f, "sha256//%s") {
				rPins.Bad(cc, posOf(i), "format %q does not place a %%s right after sha256//", f)
				return
			}
			nv, _, _ := countVerbs(pre)
			vals := orderedVariadic(c)
			if nv >= len(vals) {
				rPins.Unproven(cc, posOf(i), "pin argument not found")
				return
			}
			if isPinLoad(vals[nv]) {
				rPins.OK(cc, posOf(i), "pin argument is s.l.Fingerprint")
			} else if rs := p.deepRoots(vals[nv], isPinLoad); allAccepted(rs) {
				rPins.OK(cc, posOf(i), "pin argument is s.l.Fingerprint, handed down through private parameters and fields")
			} else {
				rPins.Bad(cc, posOf(i), "the pin printed is %s, not the listener's fingerprint", rootsString(valueRoots(vals[nv], nil)))
			}
		})
	}
	/* One-liners put together without a format: what follows the constant
	text ending in "sha256//" — in a concatenation, or as the next string
	written to the same builder — is the pin. */
	checkPin := func(fn *ssa.Function, at ssa.Instruction, v ssa.Value, how string) {
		n++
		r.Saw("func " + fnName(fn))
		cc := fmt.Sprintf("%s→%s:pin#%d", fnName(fn), how, n)
		if isPinLoad(v) {
			rPins.OK(cc, posOf(at), "what follows sha256// is s.l.Fingerprint")
		} else if rs := p.deepRoots(v, isPinLoad); allAccepted(rs) {
			rPins.OK(cc, posOf(at), "what follows sha256// is s.l.Fingerprint, handed down through private parameters and fields")
		} else {
			rPins.Bad(cc, posOf(at), "the pin printed is %s, not the listener's fingerprint", rootsString(valueRoots(v, nil)))
		}
	}
	endsInPin := func(v ssa.Value) bool {
		t, ok := constString(v)
		return ok && strings.HasSuffix(t, "sha256//") && strings.Contains(t, "pinnedpubkey")
	}
	for _, fn := range p.Funcs() {
		if nil == fn.Pkg || !strings.HasSuffix(fn.Pkg.Pkg.Path(), "/internal/hsrv") {
			continue
		}
		for _, b := range fn.Blocks {
			for k, i := range b.Instrs {
				if bo, ok := i.(*ssa.BinOp); ok && token.ADD == bo.Op && endsInPin(bo.X) {
					checkPin(fn, i, bo.Y, "concatenation")
					continue
				}
				c := callCommon(i)
				if nil == c || 2 != len(c.Args) || !endsInPin(c.Args[1]) {
					continue
				}
				switch calleeName(c) {
				case "(*strings.Builder).WriteString", "(*bytes.Buffer).WriteString":
				default:
					continue
				}
				for _, j := range b.Instrs[k+1:] {
					c2 := callCommon(j)
					if nil == c2 || 0 == len(c2.Args) || resolveCell(c2.Args[0]) != resolveCell(c.Args[0]) {
						continue
					}
					if calleeName(c2) == calleeName(c) {
						checkPin(fn, j, c2.Args[1], "WriteString")
					} else {
						n++
						rPins.Bad(fmt.Sprintf("%s→WriteString:pin#%d", fnName(fn), n), posOf(j), "what is written after sha256// is not a string")
					}
					break
				}
			}
		}
	}
	/* (HEAD has two — the callback help and the file one-liners; a tree
	which formats the common prefix once and keeps it has one) */
	if n < 1 {
		rPins.Unproven("one-liners", token.NoPos, "%d printf sites with a pin found, at least 1 expected", n)
	}
	/* TemplateParams.PubkeyFP. */
	if pf := p.Field(hsrvPkg, "TemplateParams", "PubkeyFP"); nil != pf {
		sts := p.storesToField(pf)
		for _, st := range sts {
			c := fnName(st.Parent()) + ":PubkeyFP"
			if isPinLoad(st.Val) {
				rPins.OK(c, posOf(st), "PubkeyFP = s.l.Fingerprint")
			} else {
				rPins.Bad(c, posOf(st), "the script's PubkeyFP is %s, not the listener's fingerprint unchanged", rootsString(valueRoots(st.Val, nil)))
			}
		}
		if 0 == len(sts) {
			rPins.Bad("TemplateParams.PubkeyFP", token.NoPos, "PubkeyFP is never set")
		}
	} else {
		/* The template's {{.PubkeyFP}} is looked up in something other than
		a field written once from the listener (a map, say, which other
		entries — the request's own parameters — can overwrite). */
		rPins.Bad("TemplateParams.PubkeyFP", token.NoPos, "the script's pin is not a PubkeyFP field of TemplateParams: what the template prints after sha256// can be something other than the listener's fingerprint")
	}
	/* http.Server.Serve(s.l). */
	ns := 0
	for _, fn := range p.Funcs() {
		eachInstr(fn, func(i ssa.Instruction) {
			c := callCommon(i)
			if nil == c || "(*net/http.Server).Serve" != calleeName(c) {
				return
			}
			ns++
			/* A listener which only counts what it accepts is the
			listener it wraps. */
			rs := valueRoots(unwrapPassThrough(p, c.Args[1], "Accept"), nil)
			if 1 == len(rs) && "param" == rs[0].Kind {
				/* Handed down by the one caller of a private function. */
				rs = valueRoots(p.resolveUp(rs[0].V), nil)
			}
			if 1 == len(rs) && "field" == rs[0].Kind && rs[0].Field == lF {
				rSrc.OK(fnName(fn)+":Serve", posOf(i), "serves on s.l")
			} else {
				rSrc.Bad(fnName(fn)+":Serve", posOf(i), "HTTP is served on %s, not on the fingerprinted listener", rootsString(rs))
			}
		})
	}
	if 0 == ns {
		rSrc.Unproven("Serve", token.NoPos, "no http.Server.Serve call found")
	}
	/* Port. */
	la := p.Func(hsrvPkg, "Server", "listenAddresses")
	if nil == la {
		rPort.Unproven("listenAddresses", token.NoPos, "not found")
		return
	}
	r.Saw("func " + fnName(la))
	through := func(n string) bool {
		switch n {
		case "strconv.Itoa", "(net/netip.AddrPort).Port", "net/netip.ParseAddrPort", "(net.Addr).String", "strconv.FormatUint", "strconv.FormatInt", "net.SplitHostPort":
			return true
		}
		return false
	}
	nj := 0
	laTop := la
	for _, la := range withAnons(laTop) {
		eachInstr(la, func(i ssa.Instruction) {
			c, ok := i.(*ssa.Call)
			if !ok || "net.JoinHostPort" != calleeName(c.Common()) {
				return
			}
			nj++
			cc := fmt.Sprintf("%s:JoinHostPort#%d", fnName(la), nj)
			rs := p.rootsUp(valueRoots(c.Common().Args[1], through), through)
			okk := false
			for _, rt := range rs {
				switch {
				case "call" == rt.Kind && "(net.Listener).Addr" == rt.Callee:
					okk = true
				case "const" == rt.Kind && isNumberBase(rt.V):
					/* the base argument of strconv.FormatUint / FormatInt */
				default:
					okk = false
					rs = append(rs[:0:0], rt)
				}
				if !okk && "const" != rt.Kind {
					break
				}
			}
			for _, rt := range rs {
				if !("call" == rt.Kind && "(net.Listener).Addr" == rt.Callee) && !("const" == rt.Kind && isNumberBase(rt.V)) {
					okk = false
				}
			}
			if okk {
				rPort.OK(cc, posOf(c), "port derives from s.l.Addr()")
			} else {
				rPort.Bad(cc, posOf(c), "the port of a printed one-liner derives from %s, not from the bound socket", rootsString(rs))
			}
			/* When joining onto a user-supplied address, the decision that it
			has no port must come from net.SplitHostPort. */
			hostThrough := func(n string) bool { return strings.HasPrefix(n, "strings.") }
			hostRoots := p.rootsUp(valueRoots(c.Common().Args[0], hostThrough), hostThrough)
			user := false
			for _, rt := range hostRoots {
				if "field" == rt.Kind && "cbAddrs" == rt.Field.Name() {
					user = true
				}
			}
			if user {
				/* Find net.SplitHostPort(host) and require that the join is
				reachable from it only over an edge which says "no port" or
				"not parseable". */
				host := c.Common().Args[0]
				var split *ssa.Call
				eachInstr(la, func(j ssa.Instruction) {
					if sc, ok := j.(*ssa.Call); ok && "net.SplitHostPort" == calleeName(sc.Common()) && sc.Common().Args[0] == host {
						split = sc
					}
				})
				if nil == split {
					rPort.Bad(cc+":user-port-kept", posOf(c), "whether a user-supplied callback address already has a port is not decided by net.SplitHostPort on that address")
				} else {
					portV, errV := extractOf(split, 1), extractOf(split, 2)
					ne := map[Edge]bool{}
					for _, b := range la.Blocks {
						ifi := blockIf(b)
						if nil == ifi {
							continue
						}
						dc := decodeCond(ifi.Cond)
						if nil != portV && dc.X == ssa.Value(portV) && nil != dc.Y {
							if sv, ok := constString(dc.Y); ok && "" == sv {
								k := 1
								if dc.Eq {
									k = 0
								}
								ne[Edge{b.Index, b.Succs[k].Index}] = true
							}
						}
						if nil != errV && dc.X == ssa.Value(errV) && nil != dc.Y && isNilConst(dc.Y) {
							k := 0 /* non-nil edge */
							if dc.Eq {
								k = 1
							}
							ne[Edge{b.Index, b.Succs[k].Index}] = true
						}
					}
					hit := reachQ{From: locOf(split), NoEdges: ne, Target: func(j ssa.Instruction) bool { return j == ssa.Instruction(c) }}.run()
					if nil == hit && 0 != len(ne) {
						rPort.OK(cc+":user-port-kept", posOf(c), "the bound port is added only when net.SplitHostPort finds no port (or cannot parse the address)")
					} else {
						rPort.Bad(cc+":user-port-kept", posOf(c), "the bound port can be appended to a user-supplied callback address which net.SplitHostPort says already has one")
					}
				}
			}
		})
	}
	if nj < 2 {
		rPort.Unproven(fnName(la)+":joins", la.Pos(), "%d JoinHostPort calls, at least 2 expected", nj)
	}
}

// checkPinTemplate: default template.
func checkPinTemplate(p *Prog, r *Report, ru *Rule) {
	text, path, err := p.embeddedFile(hsrvPkg, "DefaultTemplate")
	if nil != err {
		ru.Unproven("script.tmpl", token.NoPos, "%s", err)
		return
	}
	r.Saw("template " + strings.TrimPrefix(path, p.Repo+"/"))
	toks, err := flattenTemplate("script", text)
	if nil != err {
		ru.Bad("script.tmpl:parse", token.NoPos, "default template does not parse: %s", err)
		return
	}
	cmds := shellCommands(renderToks(toks))
	n := 0
	for _, c := range cmds {
		if !strings.HasPrefix(c, "curl ") && "curl" != c {
			continue
		}
		n++
		cc := fmt.Sprintf("script.tmpl:curl#%d", n)
		if strings.Contains(c, `--pinnedpubkey "sha256//⟦PubkeyFP⟧"`) || strings.Contains(c, `--pinnedpubkey sha256//⟦PubkeyFP⟧ `) {
			ru.OK(cc, token.NoPos, "%s", c)
		} else {
			ru.Bad(cc, token.NoPos, "curl command without --pinnedpubkey \"sha256//{{.PubkeyFP}}\": %s", c)
		}
	}
	if n < 2 {
		ru.Bad("script.tmpl:curls", token.NoPos, "%d curl commands in the default template, 2 expected", n)
	}
}

var _ = types.Universe

// isStdEncoding: v is base64.StdEncoding, directly or through a package
// variable of the module initialised with it and never reassigned.
func isStdEncoding(p *Prog, v ssa.Value) bool {
	if globalLoad(v, "encoding/base64", "StdEncoding") {
		return true
	}
	u, ok := stripConv(v, false).(*ssa.UnOp)
	if !ok || token.MUL != u.Op {
		return false
	}
	g, ok := u.X.(*ssa.Global)
	if !ok || nil == g.Pkg || !strings.HasPrefix(g.Pkg.Pkg.Path(), ModPath) {
		return false
	}
	n, okAll := 0, true
	visit := func(fn *ssa.Function) {
		eachInstr(fn, func(i ssa.Instruction) {
			if st, ok := i.(*ssa.Store); ok && st.Addr == ssa.Value(g) {
				n++
				if !globalLoad(st.Val, "encoding/base64", "StdEncoding") {
					okAll = false
				}
			}
		})
	}
	if ini := g.Pkg.Func("init"); nil != ini {
		visit(ini)
	}
	for _, fn := range p.Funcs() {
		visit(fn)
	}
	return 1 == n && okAll
}

// isNumberBase: the integer constant 10 (the base handed to strconv).
func isNumberBase(v ssa.Value) bool {
	k, ok := constInt(v)
	return ok && 10 == k
}

func allAccepted(rs []Root) bool {
	for _, x := range rs {
		if "accepted" != x.Kind {
			return false
		}
	}
	return 0 != len(rs)
}

// checkC05MessagesWhole: what the server's printf-style senders put on the
// operator channel is the whole formatted message.  The one-liners travel as
// one message (all addresses, each with its pin): a sender which cuts messages
// to a length shows a pin cut short, or not all one-liners.
func checkC05MessagesWhole(p *Prog, r *Report, ru *Rule) {
	n := 0
	for _, fn := range p.Funcs() {
		if nil == fn.Pkg || !strings.HasSuffix(fn.Pkg.Pkg.Path(), "/"+hsrvPkg) || nil == fn.Signature.Recv() || !fn.Signature.Variadic() {
			continue
		}
		eachInstr(fn, func(i ssa.Instruction) {
			var sent ssa.Value
			switch t := i.(type) {
			case *ssa.Send:
				sent = t.X
			case *ssa.Select:
				for _, st := range t.States {
					if types.SendOnly == st.Dir {
						sent = st.Send
					}
				}
			}
			if nil == sent || !typeIs(sent.Type(), ModPath+"/lib/opshell", "CLine") {
				return
			}
			line := structLitField(sent, "Line")
			if nil == line {
				return
			}
			n++
			c := fnName(fn) + ":message-whole"
			var cut ssa.Value
			seen := map[ssa.Value]bool{}
			var walk func(v ssa.Value, depth int)
			walk = func(v ssa.Value, depth int) {
				v = stripConv(v, false)
				if nil == v || seen[v] || depth > 16 {
					return
				}
				seen[v] = true
				switch t := v.(type) {
				case *ssa.Phi:
					for _, e := range t.Edges {
						walk(e, depth+1)
					}
				case *ssa.BinOp:
					walk(t.X, depth+1)
					walk(t.Y, depth+1)
				case *ssa.Slice:
					if nil != t.High || nil != t.Low {
						cut = t
					}
					walk(t.X, depth+1)
				case *ssa.Convert:
					walk(t.X, depth+1)
				case *ssa.UnOp:
					if token.MUL == t.Op {
						walk(resolveCell(t), depth+1)
					}
				case *ssa.Call:
					if strings.HasPrefix(calleeName(t.Common()), "fmt.Sprint") {
						return
					}
					for _, a := range t.Common().Args {
						if b, ok := a.Type().Underlying().(*types.Basic); ok && 0 != b.Info()&types.IsString {
							walk(a, depth+1)
						}
					}
				}
			}
			walk(line, 0)
			if nil != cut {
				ru.Bad(c, posOf(cut.(ssa.Instruction)), "the message %s sends to the operator is cut (a slice of the formatted text): the one-liners travel as one message, so a pin can be shown cut short or one-liners left out", fnName(fn))
			} else {
				ru.OK(c, posOf(i), "the Line sent is the formatted message, nowhere sliced")
			}
		})
	}
	if n < 2 {
		ru.Unproven("hsrv:senders", token.NoPos, "%d printf-style senders on the operator channel found in hsrv, at least 2 expected", n)
	}
}

// checkC05UserAddrs: a callback address the user gave reaches the server as
// given.  The server decides "has its own port" with net.SplitHostPort on what
// it receives; if main has already dropped an explicit port (":443" tidied
// away, say) the bound port is printed on an address which had one.
func checkC05UserAddrs(p *Prog, r *Report, ru *Rule) {
	hnew := p.Func(hsrvPkg, "", "New")
	if nil == hnew {
		ru.Unproven("hsrv.New", token.NoPos, "not found")
		return
	}
	var newCall *ssa.Call
	for _, fn := range p.Funcs() {
		if nil == fn.Pkg || ModPath != fn.Pkg.Pkg.Path() {
			continue
		}
		eachInstr(fn, func(i ssa.Instruction) {
			if c, ok := i.(*ssa.Call); ok && c.Common().StaticCallee() == hnew {
				newCall = c
			}
		})
	}
	if nil == newCall {
		ru.Unproven("main→hsrv.New", token.NoPos, "call not found")
		return
	}
	var cell *ssa.Alloc
	for k, pa := range hnew.Params {
		if sl, ok := pa.Type().Underlying().(*types.Slice); ok && types.Identical(sl.Elem(), types.Typ[types.String]) {
			if u, isLoad := stripConv(newCall.Common().Args[k], false).(*ssa.UnOp); isLoad && token.MUL == u.Op {
				cell, _ = resolveFree(u.X).(*ssa.Alloc)
			}
		}
	}
	if nil == cell {
		/* Not kept in a captured variable: nothing gathers them in a callback. */
		return
	}
	top := newCall.Parent()
	n := 0
	for _, fn := range withAnons(top) {
		eachInstr(fn, func(i ssa.Instruction) {
			st, ok := i.(*ssa.Store)
			if !ok || resolveFree(st.Addr) != ssa.Value(cell) {
				return
			}
			ap, ok := stripConv(st.Val, false).(*ssa.Call)
			if !ok {
				return
			}
			if b, isB := ap.Common().Value.(*ssa.Builtin); !isB || "append" != b.Name() || 2 != len(ap.Common().Args) {
				return
			}
			n++
			c := fmt.Sprintf("%s:callback-address#%d", fnName(fn), n)
			var bad ssa.Value
			why := ""
			seen := map[ssa.Value]bool{}
			var walk func(v ssa.Value, depth int)
			walk = func(v ssa.Value, depth int) {
				v = stripConv(v, false)
				if nil == v || seen[v] || depth > 16 || nil != bad {
					return
				}
				seen[v] = true
				switch t := v.(type) {
				case *ssa.Phi:
					for _, e := range t.Edges {
						walk(e, depth+1)
					}
				case *ssa.UnOp:
					if token.MUL == t.Op {
						if rc := resolveCell(t); rc != ssa.Value(t) {
							walk(rc, depth+1)
						}
					}
				case *ssa.Extract:
					tc, ok := t.Tuple.(*ssa.Call)
					if !ok {
						return
					}
					switch calleeName(tc.Common()) {
					case "net.SplitHostPort", "strings.Cut", "strings.CutSuffix":
						if 0 == t.Index {
							bad, why = t, "the host part alone (of "+calleeName(tc.Common())+"): an explicit port is dropped"
						}
					}
				case *ssa.Call:
					switch n := calleeName(t.Common()); {
					case "net.JoinHostPort" == n:
						pe, ok := stripConv(t.Common().Args[1], false).(*ssa.Extract)
						if ok {
							if tc, isCall := pe.Tuple.(*ssa.Call); isCall && "net.SplitHostPort" == calleeName(tc.Common()) && 1 == pe.Index {
								return
							}
						}
						bad, why = t, "joined with a port which is not the address's own"
					case strings.HasPrefix(n, "strings."):
						if 0 != len(t.Common().Args) {
							walk(t.Common().Args[0], depth+1)
						}
					}
				}
			}
			for _, e := range appendedElems(ap.Common().Args[1]) {
				walk(e, 0)
			}
			if nil != bad {
				ru.Bad(c, posOf(bad.(ssa.Instruction)), "the callback address handed to the server is %s; the server then takes it for an address without a port and prints the bound port on it", why)
			} else {
				ru.OK(c, posOf(i), "appended as given")
			}
		})
	}
}

// appendedElems: the values stored into the variadic array behind the second
// argument of an append (or that argument itself when it is another slice).
func appendedElems(v ssa.Value) []ssa.Value {
	sl, ok := v.(*ssa.Slice)
	if !ok {
		return []ssa.Value{v}
	}
	al, ok := sl.X.(*ssa.Alloc)
	if !ok {
		return []ssa.Value{v}
	}
	var out []ssa.Value
	for _, ref := range *al.Referrers() {
		ia, ok := ref.(*ssa.IndexAddr)
		if !ok {
			continue
		}
		for _, r2 := range *ia.Referrers() {
			if st, ok := r2.(*ssa.Store); ok && st.Addr == ssa.Value(ia) {
				out = append(out, st.Val)
			}
		}
	}
	return out
}
