package main

// C01 — one shell at a time, both streams carry the same callback ID,
// refusals are complete.

import (
	"fmt"
	"go/token"
	"go/types"
	"strings"

	"golang.org/x/tools/go/ssa"
)

func init() {
	register("C01", &propDef{
		Run:         checkC01,
		Explanation: "Monitor argument decided statically. (1) Path-sensitive lockset: on every path of the admission function, and in every other function of the module, each load/store of Broker.key, noMore, cancelIn, cancelOut (also through the own/peer pointer parameters) happens with Broker.mu held; the two call sites bind own/peer to the two distinct fields as mirror images. (2) Exhaustive admission decision table: the admission function is walked by a finite predicate-abstraction interpreter for every valuation of (noMore, key empty, b.key in {empty, equal, other}, own attached, peer attached); on every explored path attach happens iff the specification formula holds, the same critical section stores a non-nil cancel into own and the caller's key itself into b.key before the proxy runs once, key equality is decided only by exact-equality idioms, and refusing paths write nothing, call no proxy, perform no blocking operation, and (outside shutdown) pass through an operator notice and an slog error record whose reason is true of the state. (3) The reader/writer handed to ConnectIn/Out/InOut are used only inside the proxy closure, so a refused attempt gets no I/O. (4) The HTTP handlers pass the path wildcard of their own route as the key. Because all shared-state accesses are inside critical sections of one mutex, executions serialise at critical-section granularity and the per-section table holds for every interleaving and history. (6) In Do, the store noMore=true (directly or in a synchronously called function literal) dominates wg.Wait in the goroutine that waits.",
		Assumptions: []string{
			"sync.Mutex provides mutual exclusion; net/http ends a request when its handler returns",
			"unknown branch conditions are explored both ways (over-approximation)",
		},
	})
}

func checkC01(p *Prog, r *Report) {
	rAnch := r.Rule("anchors", "the admission function and the broker's shared fields are identified through type information")
	rBind := r.Rule("call-site-binding", "the admission function has exactly two callers binding own/peer to cancelIn/cancelOut as mirror images")
	rLock := r.Rule("guarded-by", "every access to Broker.key/noMore/cancelIn/cancelOut is made with Broker.mu held (path-sensitive in the admission function, must-hold dataflow elsewhere)")
	rTable := r.Rule("admission-table", "for every abstract broker state the admission function attaches exactly when the specification allows, having stored cancel and key in the same critical section")
	rRefuse := r.Rule("refusal-complete", "every refusing path writes no shared state, runs no proxy, blocks on nothing, and outside shutdown tells the operator and logs a true reason")
	rTear := r.Rule("teardown-window", "after the proxy returns every path re-locks and clears Broker.key and its own slot, so the tear-down state (key empty, a cancel still set) is what later attempts see")
	rIO := r.Rule("refused-no-io", "the stream handed to Connect* is used only inside the proxy closure invoked after admission")
	rWire := r.Rule("handler-wiring", "each shell route passes the wildcard of its own pattern as the key to the broker method of its direction")

	a := findConnect(p)
	if 0 != len(a.Errs) {
		for _, e := range a.Errs {
			rAnch.Unproven("admission-function", token.NoPos, "%s", e)
		}
		return
	}
	r.Saw("func " + fnName(a.Fn))
	m := buildConnectModel(p, a)
	if 0 != len(a.Errs) {
		for _, e := range a.Errs {
			rAnch.Unproven("admission-function", token.NoPos, "%s", e)
		}
		return
	}
	rAnch.OK(fnName(a.Fn), a.Fn.Pos(), "admission function (called by ConnectIn and ConnectOut); key=%s in %s, shutdown flag %s, cancel slots %s; proxy=%s", a.Key.Name(), a.KeyLoc, a.NoMoreLoc, strings.Join(a.SlotLocs, " / "), a.Proxy.Name())
	checkBinding(p, r, rBind, a)
	if m.Truncated {
		rTable.Unproven("exploration", a.Fn.Pos(), "path exploration truncated")
	}
	checkLocking(p, r, rLock, a, m)
	checkAdmissionTable(p, r, rTable, rRefuse, a, m)
	checkTeardownWindow(r, rTear, a, m)
	checkDoShutdown(p, r, r.Rule("shutdown-flag", "the shutdown flag is set (under the lock) by the very goroutine which then waits for attached streams, before it waits"), a)
	checkRefusedNoIO(p, r, rIO, a)
	checkNoticesDelivered(p, r, r.Rule("notices-delivered", "a notice for the operator is handed to the operator channel on every way through the notice functions: no timeout, default arm or cancellation lets one be dropped (a refusal the operator is never told about)"), a)
	pairingTokenUnder(p, r.Rule("pairing-token", "the two halves of an /io request carry a key which is fresh per request (C06's rule): streams of two /io requests never count as opened with the same ID"), a)
	checkStateWriters(p, r, r.Rule("state-writers", "the broker's admission state (key and the two cancel slots) is written only by the admission function's own frame, whose paths the decision table covers: not by a goroutine, a timer callback or another function"), a)
	checkDetachedSilent(p, r, r.Rule("detached-stream-silent", "what is shown to the operator is handed over by the proxies themselves, which end before their stream is detached: no goroutine a proxy starts sends on the operator channel (it could do so after the detachment, beside a new shell's output)"), a)
	checkHandlerWiring(p, r, rWire)
}

// checkTeardownWindow: the release part which the admission table relies on.
func checkTeardownWindow(r *Report, ru *Rule, a *connectAnchors, m *connectModel) {
	n, bad := 0, 0
	for _, cp := range m.Paths {
		_, after, proxied := splitTrace(cp.R, "proxy")
		if !proxied || "return" != cp.R.End {
			continue
		}
		n++
		lk := indexOf(after, "lock")
		what := ""
		switch {
		case lk < 0:
			what = "relock"
		case 0 == countIn(after[lk:], `store:b.key=""`):
			what = "clear-key"
		case 0 == countIn(after[lk:], "store:*own=nil"):
			what = "clear-own"
		}
		if "" != what {
			bad++
			ru.Bad(fnName(a.Fn)+":"+what, posOf(endInstr(cp.R, a.Fn)), "state {%s}: an exit path of an attached stream does not %s; a later attempt with the old ID would be attached to the dying shell instead of being refused", cp.V, what)
		}
	}
	if 0 == bad && n > 0 {
		ru.OK(fnName(a.Fn)+":release", a.Fn.Pos(), "%d exit paths of attached streams clear key and own slot under the lock", n)
	}
	if 0 == n {
		ru.Unproven(fnName(a.Fn)+":release", a.Fn.Pos(), "no exit path of an attached stream explored")
	}
}

// checkBinding: the two entry points use the two cancel slots as mirror
// images: what is "own" for one is "peer" for the other.
func checkBinding(p *Prog, r *Report, ru *Rule, a *connectAnchors) {
	seen := map[string]bool{}
	for _, in := range a.Insts {
		caller := fnName(in.Entry)
		r.Saw("func " + caller)
		switch {
		case "" == in.Own || "" == in.Peer:
			ru.Bad(caller, posOf(in.Call), "own/peer storage of this direction was not identified")
		case in.Own == in.Peer:
			ru.Bad(caller, posOf(in.Call), "own and peer are the same storage (%s): a stream would count as its own peer", in.Own)
		default:
			seen[in.Own] = true
			ru.OK(caller, posOf(in.Call), "own=%s peer=%s", in.Own, in.Peer)
		}
	}
	if 2 != len(a.Insts) || 2 != len(seen) || a.Insts[0].Own != a.Insts[1].Peer || a.Insts[0].Peer != a.Insts[1].Own {
		ru.Bad("callers", a.Fn.Pos(), "%d call sites binding %d distinct own slots; exactly one per direction, as mirror images, expected", len(a.Insts), len(seen))
	}
	/* The address of the two fields is taken nowhere else. */
	for _, fn := range p.Funcs() {
		eachInstr(fn, func(i ssa.Instruction) {
			fa, ok := i.(*ssa.FieldAddr)
			if !ok {
				return
			}
			fv, _ := fieldAddrOf(fa)
			if fv != a.FIn && fv != a.FOut {
				return
			}
			var refs []ssa.Instruction
			for _, ref := range *fa.Referrers() {
				if ia, isIA := ref.(*ssa.IndexAddr); isIA {
					refs = append(refs, *ia.Referrers()...) /* an element of the slot array */
					continue
				}
				refs = append(refs, ref)
			}
			for _, ref := range refs {
				switch x := ref.(type) {
				case *ssa.Store:
					if x.Addr == ssa.Value(fa) {
						continue /* Checked by guarded-by. */
					}
					if _, isIA := x.Addr.(*ssa.IndexAddr); isIA && x.Val != ssa.Value(fa) {
						continue
					}
					/* Put into a local struct which only travels to the
					admission function. */
					if lf, isFA := x.Addr.(*ssa.FieldAddr); isFA {
						if _, isLocal := lf.X.(*ssa.Alloc); isLocal {
							continue
						}
					}
				case *ssa.UnOp:
					continue
				case ssa.CallInstruction:
					if x.Common().StaticCallee() == a.Fn {
						continue
					}
				case *ssa.DebugRef:
					continue
				case *ssa.Phi:
					/* One of the two addresses, picked by direction and
					only stored and loaded through (us, other := …). */
					if phiOnlyDereferenced(x, 0) {
						continue
					}
				}
				ru.Bad(fnName(fn)+":&"+fv.Name(), posOf(ref), "address of Broker.%s escapes to %T", fv.Name(), ref)
			}
		})
	}
}

// checkLocking: path-sensitive inside the admission function (from the
// model), flow-sensitive must-hold elsewhere.
func checkLocking(p *Prog, r *Report, ru *Rule, a *connectAnchors, m *connectModel) {
	if 0 == len(m.Unlocked) {
		ru.OK(fnName(a.Fn), a.Fn.Pos(), "all loads/stores of shared state on %d explored paths happen with the lock held", len(m.Paths))
	}
	for _, u := range m.Unlocked {
		ru.Bad(fnName(a.Fn)+":"+strings.SplitN(u, " at ", 2)[0], a.Fn.Pos(), "%s without Broker.mu", u)
	}
	bad := map[string]bool{}
	for _, cp := range m.Paths {
		for _, t := range cp.R.Trace {
			switch {
			case "double-lock" == t, "unlock-unheld" == t, "proxy-under-lock" == t, strings.HasPrefix(t, "direct-field-access"):
				bad[t] = true
			}
		}
		if "return" == cp.R.End && cp.R.User["held"] > 0 {
			bad["returns-with-lock-held"] = true
		}
	}
	for t := range bad {
		ru.Bad(fnName(a.Fn)+":"+t, a.Fn.Pos(), "lock discipline: %s on some path", t)
	}
	if 0 == len(bad) {
		ru.OK(fnName(a.Fn)+":discipline", a.Fn.Pos(), "lock balanced on every path; proxy runs unlocked; fields reached only through own/peer")
	}
	/* Elsewhere. */
	tracked := map[*types.Var]bool{a.FKey: true, a.FIn: true, a.FOut: true, a.FNoMore: true}
	n := 0
	for _, fn := range p.Funcs() {
		if fn == a.Fn {
			continue
		}
		var accesses []ssa.Instruction
		eachInstr(fn, func(i ssa.Instruction) {
			switch x := i.(type) {
			case *ssa.UnOp:
				if token.MUL == x.Op {
					if fv, _ := fieldAddrOf(x.X); tracked[fv] {
						accesses = append(accesses, i)
					}
				}
			case *ssa.Store:
				if fv, _ := fieldAddrOf(x.Addr); tracked[fv] {
					accesses = append(accesses, i)
				}
			}
		})
		if 0 == len(accesses) {
			continue
		}
		r.Saw("func " + fnName(fn))
		held := mustHold(fn, a.FMu)
		for _, i := range accesses {
			n++
			fv := accessedField(i)
			c := fmt.Sprintf("%s:%s", fnName(fn), fv.Name())
			if isConstructorStore(i) {
				ru.OK(c, posOf(i), "initialisation of a Broker not yet shared")
				continue
			}
			if held[i] {
				ru.OK(c, posOf(i), "Broker.mu held")
			} else {
				ru.Bad(c, posOf(i), "Broker.%s accessed without Broker.mu", fv.Name())
			}
		}
	}
	ru.AtLeast(3, "lock-discipline obligations")
	_ = n
}

func accessedField(i ssa.Instruction) *types.Var {
	switch x := i.(type) {
	case *ssa.UnOp:
		fv, _ := fieldAddrOf(x.X)
		return fv
	case *ssa.Store:
		fv, _ := fieldAddrOf(x.Addr)
		return fv
	}
	return nil
}

// isConstructorStore: a store into a field of an object allocated in the same
// function (composite literal), i.e. not yet shared.
func isConstructorStore(i ssa.Instruction) bool {
	st, ok := i.(*ssa.Store)
	if !ok {
		return false
	}
	_, base := fieldAddrOf(st.Addr)
	_, ok = base.(*ssa.Alloc)
	return ok
}

// mustHold computes, for every instruction of fn, whether the mutex field mu
// (of any receiver) is definitely held before it.  Deferred unlocks release at
// RunDefers.
func mustHold(fn *ssa.Function, mu *types.Var) map[ssa.Instruction]bool {
	isMu := func(c *ssa.CallCommon, name string) bool {
		if calleeName(c) != name || 0 == len(c.Args) {
			return false
		}
		fv, _ := fieldAddrOf(c.Args[0])
		return fv == mu
	}
	in := map[int]int{} /* -1 unknown, 0 not held, 1 held */
	for _, b := range fn.Blocks {
		in[b.Index] = -1
	}
	in[0] = 0
	out := map[ssa.Instruction]bool{}
	transfer := func(b *ssa.BasicBlock, h int, record bool) int {
		for _, i := range b.Instrs {
			if record {
				out[i] = 1 == h
			}
			if _, ok := i.(*ssa.Defer); ok {
				continue
			}
			if c := callCommon(i); nil != c {
				if _, isGo := i.(*ssa.Go); isGo {
					continue
				}
				if isMu(c, "(*sync.Mutex).Lock") || isMu(c, "(*sync.RWMutex).Lock") {
					h = 1
				} else if isMu(c, "(*sync.Mutex).Unlock") || isMu(c, "(*sync.RWMutex).Unlock") {
					h = 0
				}
			}
		}
		return h
	}
	for changed := true; changed; {
		changed = false
		for _, b := range fn.Blocks {
			if -1 == in[b.Index] {
				continue
			}
			h := transfer(b, in[b.Index], false)
			for _, s := range b.Succs {
				n := h
				if -1 != in[s.Index] && in[s.Index] != h {
					n = 0
				}
				if in[s.Index] != n {
					in[s.Index] = n
					changed = true
				}
			}
		}
	}
	for _, b := range fn.Blocks {
		if -1 != in[b.Index] {
			transfer(b, in[b.Index], true)
		}
	}
	return out
}

// checkAdmissionTable compares every explored path with the specification.
func checkAdmissionTable(p *Prog, r *Report, rTable, rRefuse *Rule, a *connectAnchors, m *connectModel) {
	type row struct{ ok, bad int }
	rows := map[string]*row{}
	seenVal := map[string]bool{}
	for _, cp := range m.Paths {
		v, run := cp.V, cp.R
		/* The admission part does not depend on what happens after the
		proxy; key the row by the admission state only. */
		av := v
		av.ProxyErr, av.PeerAtExit = false, false
		key := av.String()
		if nil == rows[key] {
			rows[key] = &row{}
		}
		seenVal[key] = true
		before, _, proxied := splitTrace(run, "proxy")
		forks := strings.Join(run.Forks, ",")
		fail := func(ru *Rule, what string, format string, args ...any) {
			rows[key].bad++
			ru.Bad(fmt.Sprintf("%s:%s[%s]", fnName(a.Fn), what, key), posOf(endInstr(run, a.Fn)), "state {%s} (undecided conditions: %s): %s", key, forks, fmt.Sprintf(format, args...))
		}
		if "return" != run.End {
			fail(rTable, "path-end", "path ends with %s, not a return", run.End)
			continue
		}
		if v.expectAdmit() {
			if !proxied {
				/* Refusing an admissible attempt is not a safety problem but
				breaks re-arming (reported under the same rule: the table
				must match both ways). */
				fail(rTable, "refuses-admissible", "the attempt is admissible but the function returns without attaching it (effects: %s)", strings.Join(run.Trace, " "))
				continue
			}
			/* Attach obligations, all before the lock is released. */
			ul := indexOf(before, "unlock")
			if ul < 0 {
				fail(rTable, "attach-unlock", "the proxy is called without releasing the lock first")
				continue
			}
			crit := before[:ul]
			if 1 != countIn(crit, "store:*own=non-nil") {
				fail(rTable, "attach-own", "a non-nil cancel function is not stored into the own slot inside the admission critical section (stores: %s)", strings.Join(filterPrefix(before, "store:"), " "))
				continue
			}
			if 1 != countIn(crit, "store:b.key=str:K") {
				fail(rTable, "attach-key", "Broker.key does not receive the caller's key itself inside the admission critical section (stores: %s)", strings.Join(filterPrefix(before, "store:"), " "))
				continue
			}
			if 0 != countPrefix(before, "store:*peer") || 0 != countPrefix(before, "store:b.noMore") {
				fail(rTable, "attach-stray-store", "admission writes to the peer slot or noMore")
				continue
			}
			if 1 != countIn(run.Trace, "proxy") {
				fail(rTable, "attach-proxy-once", "proxy called %d times", countIn(run.Trace, "proxy"))
				continue
			}
			rows[key].ok++
			continue
		}
		/* Expected refusal. */
		if proxied {
			fail(rTable, "admits-inadmissible", "the attempt must be refused but the proxy is run (stream attached)")
			continue
		}
		if n := countPrefix(run.Trace, "store:"); 0 != n {
			fail(rRefuse, "refusal-writes", "a refused attempt writes shared state: %s", strings.Join(filterPrefix(run.Trace, "store:"), " "))
			continue
		}
		if n := countPrefix(run.Trace, "event:"); 0 != n {
			fail(rRefuse, "refusal-event", "a refused attempt emits an event")
			continue
		}
		if n := countPrefix(run.Trace, "blocking-op"); 0 != n {
			fail(rRefuse, "refusal-blocks", "a refused attempt may block: %s", firstPrefix(run.Trace, "blocking-op"))
			continue
		}
		if countIn(run.Trace, "cancel-peer") > 0 {
			fail(rRefuse, "refusal-cancels", "a refused attempt cancels the attached peer")
			continue
		}
		if !v.NoMore {
			if 0 == countIn(run.Trace, "notice:err") {
				fail(rRefuse, "refusal-unannounced", "the operator is not told about the refusal")
				continue
			}
			reason := ""
			for _, t := range run.Trace {
				if strings.HasPrefix(t, "slog:Error:") {
					reason = strings.TrimPrefix(t, "slog:Error:")
				}
			}
			valid := false
			for _, vr := range v.validReasons() {
				if vr == reason {
					valid = true
				}
			}
			if !valid {
				fail(rRefuse, "refusal-reason", "slog error record for the refusal is %q, expected one of %v", reason, v.validReasons())
				continue
			}
		}
		rows[key].ok++
	}
	nOK := 0
	for k, rw := range rows {
		if 0 == rw.bad {
			nOK++
			want := "refuse"
			if strings.Contains(k, "¬noMore") && admitFromKey(k) {
				want = "admit"
			}
			rTable.OK(fmt.Sprintf("%s:row[%s]", fnName(a.Fn), k), a.Fn.Pos(), "%d path(s) agree with the specification (%s)", rw.ok, want)
		}
	}
	if len(rows) < 40 {
		rTable.Unproven(fnName(a.Fn)+":rows", a.Fn.Pos(), "only %d of 40 abstract states were explored", len(rows))
	}
	r.Note("admission table: %d abstract states, %d explored paths", len(rows), len(m.Paths))
}

func admitFromKey(k string) bool {
	return strings.Contains(k, `¬key=""`) && strings.Contains(k, "¬own-attached") &&
		!(strings.Contains(k, `b.key=""`) && strings.Contains(k, " peer-attached")) &&
		!strings.Contains(k, "b.key=other-id")
}

func endInstr(run *Run, fn *ssa.Function) ssa.Instruction {
	if nil != run.EndInstr {
		return run.EndInstr
	}
	return fn.Blocks[0].Instrs[0]
}

func indexOf(tr []string, e string) int {
	for i, t := range tr {
		if t == e {
			return i
		}
	}
	return -1
}

func filterPrefix(tr []string, pre string) []string {
	var out []string
	for _, t := range tr {
		if strings.HasPrefix(t, pre) {
			out = append(out, t)
		}
	}
	return out
}

// checkRefusedNoIO: in every function calling the admission function, the
// io.Reader / io.Writer parameters are used only as captured variables of the
// closure passed as the proxy (or forwarded to such a function).
func checkRefusedNoIO(p *Prog, r *Report, ru *Rule, a *connectAnchors) {
	streamFns := map[*ssa.Function]bool{}
	for _, ci := range a.Callers {
		streamFns[ci.Parent()] = true
	}
	/* And functions forwarding to those (ConnectInOut). */
	for changed := true; changed; {
		changed = false
		for _, fn := range p.Funcs() {
			if streamFns[fn] || nil != fn.Parent() {
				continue
			}
			for _, f := range withAnons(fn) {
				eachInstr(f, func(i ssa.Instruction) {
					if c := callCommon(i); nil != c && nil != c.StaticCallee() && streamFns[c.StaticCallee()] && fn.Pkg == a.Fn.Pkg {
						if !streamFns[fn] {
							streamFns[fn] = true
							changed = true
						}
					}
				})
			}
		}
	}
	proxyIdx := paramIndex(a.Fn, a.Proxy)
	for fn := range streamFns {
		for _, pa := range fn.Params {
			if !isIOStream(pa.Type()) {
				continue
			}
			c := fmt.Sprintf("%s:%s", fnName(fn), pa.Name())
			ok := true
			uses := 0
			var visit func(v ssa.Value)
			var visitCell func(addr ssa.Value)
			var visitHolder func(al *ssa.Alloc, fld int) bool
			/* A function value which works on the stream (a method value,
			a literal which captured it): making it is not I/O, calling it
			is; it may be handed to the proxy closure and nowhere else. */
			var visitFn func(v ssa.Value, depth int)
			visitFn = func(v ssa.Value, depth int) {
				if depth > 6 || nil == v.Referrers() {
					return
				}
				for _, ref := range *v.Referrers() {
					switch x := ref.(type) {
					case *ssa.DebugRef:
					case *ssa.Phi, *ssa.ChangeType, *ssa.MakeInterface:
						visitFn(x.(ssa.Value), depth+1)
					case *ssa.MakeClosure:
						if isProxyArg(x, a.Fn, proxyIdx) {
							continue
						}
						ok = false
						ru.Bad(c, posOf(x), "a function working on stream %s is captured by a function literal other than the proxy closure", pa.Name())
					case *ssa.Store:
						al, isAlloc := x.Addr.(*ssa.Alloc)
						if x.Val != v || !isAlloc {
							ok = false
							ru.Bad(c, posOf(x), "a function working on stream %s is stored outside the proxy closure", pa.Name())
							continue
						}
						for _, r2 := range *al.Referrers() {
							switch y := r2.(type) {
							case *ssa.Store, *ssa.DebugRef:
							case *ssa.UnOp:
								visitFn(y, depth+1)
							case *ssa.MakeClosure:
								if !isProxyArg(y, a.Fn, proxyIdx) {
									ok = false
									ru.Bad(c, posOf(y), "a function working on stream %s is captured by a function literal other than the proxy closure", pa.Name())
								}
							default:
								ok = false
								ru.Bad(c, posOf(r2), "a function working on stream %s is used by %T", pa.Name(), r2)
							}
						}
					case ssa.CallInstruction:
						ok = false
						ru.Bad(c, posOf(x), "a function working on stream %s is called (or passed on) outside the proxy closure", pa.Name())
					default:
						ok = false
						ru.Bad(c, posOf(ref), "a function working on stream %s is used by %T outside the proxy closure", pa.Name(), ref)
					}
				}
			}
			visitCell = func(addr ssa.Value) {
				for _, ref := range *addr.Referrers() {
					switch x := ref.(type) {
					case *ssa.DebugRef:
					case *ssa.Store:
						if x.Addr != addr {
							ok = false
							ru.Bad(c, posOf(x), "cell holding stream %s is itself stored somewhere", pa.Name())
						}
					case *ssa.UnOp:
						visit(x)
					case *ssa.MakeClosure:
						if isProxyArg(x, a.Fn, proxyIdx) {
							continue
						}
						cf := x.Fn.(*ssa.Function)
						for k, b := range x.Bindings {
							if b == addr {
								visitCell(cf.FreeVars[k])
							}
						}
					default:
						ok = false
						ru.Bad(c, posOf(ref), "cell holding stream %s is used by %T", pa.Name(), ref)
					}
				}
			}
			/* A local struct with the stream in field fld: its fields may be
			read (the stream's own field is followed), and the whole may
			become the receiver of a method value, which is then a function
			working on the stream. */
			visitHolder = func(al *ssa.Alloc, fld int) bool {
				for _, ref := range *al.Referrers() {
					switch y := ref.(type) {
					case *ssa.DebugRef:
					case *ssa.FieldAddr:
						for _, r2 := range *y.Referrers() {
							switch z := r2.(type) {
							case *ssa.DebugRef:
							case *ssa.Store:
								if z.Addr != ssa.Value(y) {
									return false
								}
							case *ssa.UnOp:
								if y.Field == fld {
									visit(z)
								}
							default:
								return false
							}
						}
					case *ssa.UnOp:
						for _, r2 := range *y.Referrers() {
							switch z := r2.(type) {
							case *ssa.DebugRef:
							case *ssa.MakeClosure:
								if !isProxyArg(z, a.Fn, proxyIdx) {
									return false
								}
							case *ssa.MakeInterface:
								/* The struct is itself the proxy (a one-method
								value handed to the admission function). */
								for _, r3 := range *z.Referrers() {
									if _, isDbg := r3.(*ssa.DebugRef); isDbg {
										continue
									}
									ci, isCall := r3.(ssa.CallInstruction)
									if !isCall || ci.Common().StaticCallee() != a.Fn || proxyIdx < 0 || proxyIdx >= len(ci.Common().Args) || ci.Common().Args[proxyIdx] != ssa.Value(z) {
										return false
									}
								}
							case *ssa.Field:
								if z.Field == fld {
									visit(z)
								}
							default:
								return false
							}
						}
					default:
						return false
					}
				}
				return true
			}
			visit = func(v ssa.Value) {
				for _, ref := range *v.Referrers() {
					uses++
					switch x := ref.(type) {
					case *ssa.DebugRef:
					case *ssa.Store:
						if x.Val == v {
							if _, isAlloc := x.Addr.(*ssa.Alloc); isAlloc {
								visitCell(x.Addr) /* Spilled for capture. */
								continue
							}
							/* Put into a local struct which is the receiver
							of a method value (inputProxier{b, w}.proxy):
							that function value works on the stream. */
							if fa, isFA := x.Addr.(*ssa.FieldAddr); isFA {
								if al, isAlloc := fa.X.(*ssa.Alloc); isAlloc && visitHolder(al, fa.Field) {
									continue
								}
							}
						}
						ok = false
						ru.Bad(c, posOf(x), "stream %s is stored outside the proxy closure", pa.Name())
					case *ssa.MakeClosure:
						if isProxyArg(x, a.Fn, proxyIdx) {
							continue
						}
						/* A literal which merely hands the stream on to an
						admitting function is looked into; a method value
						of the stream, or a literal which works on it, is a
						function which does the I/O when called. */
						cf := x.Fn.(*ssa.Function)
						forwards := "" == cf.Synthetic
						for k, b := range x.Bindings {
							if b == v && (k >= len(cf.FreeVars) || !onlyForwards(cf.FreeVars[k], streamFns, 0)) {
								forwards = false
							}
						}
						if forwards {
							for k, b := range x.Bindings {
								if b == v {
									visit(cf.FreeVars[k])
								}
							}
							continue
						}
						visitFn(x, 0)
					case *ssa.MakeInterface:
						visit(x)
					case *ssa.ChangeInterface:
						visit(x)
					case *ssa.TypeAssert:
						/* Asking what the stream can do is not I/O; what
						comes out is the stream still. */
						visit(x)
					case *ssa.Extract:
						if 0 == x.Index {
							visit(x)
						}
					case *ssa.Phi:
						visit(x)
					case ssa.CallInstruction:
						if sc := x.Common().StaticCallee(); nil != sc && streamFns[sc] {
							continue /* Forwarded to ConnectIn/ConnectOut. */
						}
						ok = false
						ru.Bad(c, posOf(x), "stream %s is used by %s before/outside admission", pa.Name(), calleeName(x.Common()))
					default:
						ok = false
						ru.Bad(c, posOf(ref), "stream %s is used by %T outside the proxy closure", pa.Name(), ref)
					}
				}
			}
			visit(pa)
			if ok {
				ru.OK(c, fn.Pos(), "only captured by the proxy closure or forwarded to an admitting function (%d uses)", uses)
			}
		}
	}
	/* The proxy parameter itself is only called, once, and not stored. */
	for _, ref := range *a.Proxy.Referrers() {
		switch x := ref.(type) {
		case *ssa.DebugRef:
		case *ssa.Call:
			if x.Common().Value == ssa.Value(a.Proxy) {
				continue
			}
			ru.Bad(fnName(a.Fn)+":proxy", posOf(x), "proxy function passed on to %s", calleeName(x.Common()))
		default:
			ru.Bad(fnName(a.Fn)+":proxy", posOf(ref), "proxy function used by %T (only a direct call after admission is accepted)", ref)
		}
	}
	ru.AtLeast(4, "stream parameters")
}

func isProxyArg(mc *ssa.MakeClosure, admit *ssa.Function, idx int) bool {
	/* Directly, or converted to a named function type on the way. */
	var is func(v ssa.Value, depth int) bool
	is = func(v ssa.Value, depth int) bool {
		if depth > 3 || nil == v.Referrers() {
			return false
		}
		for _, ref := range *v.Referrers() {
			if ci, ok := ref.(ssa.CallInstruction); ok && ci.Common().StaticCallee() == admit && idx < len(ci.Common().Args) && ci.Common().Args[idx] == v {
				return true
			}
			if ct, ok := ref.(*ssa.ChangeType); ok && is(ct, depth+1) {
				return true
			}
		}
		return false
	}
	return is(mc, 0)
}

func isIOStream(t types.Type) bool {
	n := namedOf(t)
	if nil == n || nil == n.Obj().Pkg() || "io" != n.Obj().Pkg().Path() {
		return false
	}
	switch n.Obj().Name() {
	case "Reader", "Writer", "ReadCloser", "WriteCloser", "ReadWriter", "ReadWriteCloser":
		return true
	}
	return false
}

// checkHandlerWiring: routes registered in newMux; for each pattern with a
// wildcard, the handler passes r.PathValue(<that wildcard>) as the key to
// ConnectIn (for /i/) or ConnectOut (for /o/).
func checkHandlerWiring(p *Prog, r *Report, ru *Rule) {
	routes := muxRoutes(p)
	if 0 == len(routes) {
		ru.Unproven("newMux", token.NoPos, "no routes found")
		return
	}
	want := map[string]string{"/i/": "ConnectIn", "/o/": "ConnectOut"}
	n := 0
	for _, rt := range routes {
		for pre, method := range want {
			if !strings.HasPrefix(rt.Pattern, pre) {
				continue
			}
			n++
			wild := ""
			if i := strings.Index(rt.Pattern, "{"); i >= 0 {
				wild = strings.TrimSuffix(rt.Pattern[i+1:], "}")
			}
			c := fmt.Sprintf("route %s→%s", rt.Pattern, fnName(rt.Handler))
			if "" == wild || rt.Pattern != pre+"{"+wild+"}" {
				ru.Bad(c, rt.Pos, "pattern is not %s{id}", pre)
				continue
			}
			if nil == rt.Handler {
				ru.Unproven(c, rt.Pos, "handler is not a statically known method")
				continue
			}
			r.Saw("func " + fnName(rt.Handler))
			found := false
			eachInstr(rt.Handler, func(i ssa.Instruction) {
				cc := callCommon(i)
				if nil == cc || nil == cc.StaticCallee() {
					return
				}
				sc := cc.StaticCallee()
				if "Broker" != recvTypeName(sc) || !strings.HasPrefix(sc.Name(), "Connect") {
					return
				}
				found = true
				if sc.Name() != method {
					ru.Bad(c, posOf(i), "route %s calls Broker.%s, expected %s", rt.Pattern, sc.Name(), method)
					return
				}
				/* Key is the last argument. */
				k := cc.Args[len(cc.Args)-1]
				kc, ok := k.(*ssa.Call)
				if !ok || "(*net/http.Request).PathValue" != calleeName(kc.Common()) {
					ru.Bad(c, posOf(i), "key argument is not r.PathValue(...)")
					return
				}
				if s, ok := constString(kc.Common().Args[1]); !ok || s != wild {
					ru.Bad(c, posOf(i), "key is PathValue(%q) but the route's wildcard is {%s}", s, wild)
					return
				}
				if _, ok := kc.Common().Args[0].(*ssa.Parameter); !ok {
					ru.Bad(c, posOf(i), "PathValue is not taken from the handler's own request")
					return
				}
				ru.OK(c, posOf(i), "key = r.PathValue(%q) → Broker.%s", wild, method)
			})
			if !found {
				ru.Bad(c, rt.Pos, "handler does not call a Broker.Connect* method")
			}
		}
	}
	if n < 2 {
		ru.Unproven("routes", routes[0].Pos, "routes /i/{id} and /o/{id} not both registered")
	}
}

// onlyForwards: every use of the stream value v (in the function it belongs
// to) hands it to one of the admitting functions, possibly converted between
// interface types.
func onlyForwards(v ssa.Value, streamFns map[*ssa.Function]bool, depth int) bool {
	if depth > 4 || nil == v.Referrers() {
		return false
	}
	for _, ref := range *v.Referrers() {
		switch x := ref.(type) {
		case *ssa.DebugRef:
		case *ssa.MakeInterface, *ssa.ChangeInterface:
			if !onlyForwards(x.(ssa.Value), streamFns, depth+1) {
				return false
			}
		case ssa.CallInstruction:
			if sc := x.Common().StaticCallee(); nil == sc || !streamFns[sc] {
				return false
			}
		default:
			return false
		}
	}
	return true
}

// checkDetachedSilent: goroutines started (directly or through further
// goroutines) by what the entry points hand to the admission function as the
// proxy must not send on the operator channel.
func checkDetachedSilent(p *Prog, r *Report, ru *Rule, a *connectAnchors) {
	/* The proxies: static callees of the proxy closures. */
	var roots []*ssa.Function
	for _, ci := range a.Callers {
		if idx := paramIndex(a.Fn, a.Proxy); idx >= 0 && idx < len(ci.Common().Args) {
			if cf, _ := closureOf(p.resolveUp(ci.Common().Args[idx])); nil != cf {
				roots = append(roots, cf)
			} else if mi, isMI := p.resolveUp(ci.Common().Args[idx]).(*ssa.MakeInterface); isMI {
				/* A one-method value: the method of the concrete type. */
				if it, isIt := a.Proxy.Type().Underlying().(*types.Interface); isIt && 1 == it.NumMethods() {
					ms := p.SSA.MethodSets.MethodSet(mi.X.Type())
					if sel := ms.Lookup(it.Method(0).Pkg(), it.Method(0).Name()); nil != sel {
						if mf := p.SSA.MethodValue(sel); nil != mf && nil != mf.Blocks {
							roots = append(roots, mf)
						}
					}
				}
			}
		}
	}
	/* Functions run synchronously by f (static calls, depth-bounded), and
	the goroutines they start. */
	var spawned []*ssa.Function
	seen := map[*ssa.Function]bool{}
	var walk func(f *ssa.Function, inGo bool, depth int)
	walk = func(f *ssa.Function, inGo bool, depth int) {
		if nil == f || nil == f.Blocks || depth > 6 || !inModule(f) {
			return
		}
		key := f
		if seen[key] && !inGo {
			return
		}
		seen[key] = true
		if inGo {
			spawned = append(spawned, f)
		}
		eachInstr(f, func(i ssa.Instruction) {
			cc := callCommon(i)
			if nil == cc {
				return
			}
			g := cc.StaticCallee()
			if nil == g {
				g, _ = closureOf(resolveLocalFunc(cc.Value))
			}
			if nil == g || g == f {
				return
			}
			_, isGo := i.(*ssa.Go)
			/* Function literals handed to a goroutine starter of the module
			(eg.Go(func…)) run in goroutines as well. */
			walk(g, inGo || isGo, depth+1)
			for _, arg := range cc.Args {
				if lf, _ := closureOf(arg); nil != lf && lf.Parent() == f && strings.HasSuffix(calleeName(cc), ".Go") {
					walk(lf, true, depth+1)
				}
			}
		})
	}
	for _, f := range roots {
		walk(f, false, 0)
	}
	n := 0
	done := map[*ssa.Function]bool{}
	for _, g := range spawned {
		if done[g] {
			continue
		}
		done[g] = true
		n++
		c := fnName(g) + ":operator-channel"
		var bad ssa.Instruction
		eachInstr(g, func(i ssa.Instruction) {
			if sd, ok := i.(*ssa.Send); ok {
				if fv, _ := fieldBehind(sd.Chan); nil != fv && fv == a.FOch {
					bad = i
				}
			}
			if sel, ok := i.(*ssa.Select); ok {
				for _, st := range sel.States {
					if types.SendOnly != st.Dir {
						continue
					}
					if fv, _ := fieldBehind(st.Chan); nil != fv && fv == a.FOch {
						bad = i
					}
				}
			}
			/* Or through the broker's own notice functions. */
			if cc := callCommon(i); nil != cc && nil != cc.StaticCallee() && inModule(cc.StaticCallee()) && "Broker" == recvTypeName(cc.StaticCallee()) {
				switch cc.StaticCallee().Name() {
				case "Logf", "Errorf":
					bad = i
				}
			}
		})
		if nil != bad {
			ru.Bad(c, posOf(bad), "a goroutine started by a proxy sends on the operator channel itself: it is not ended by the stream's detachment, so output of a shell which is no longer attached can be displayed, also beside the output of the next shell")
		} else {
			ru.OK(c, g.Pos(), "does not send on the operator channel")
		}
	}
	if 0 == len(roots) {
		ru.Unproven("proxies", token.NoPos, "the proxy closures handed to the admission function were not found")
	} else if 0 == n {
		ru.OK("proxies", roots[0].Pos(), "the proxies start no goroutines")
	}
}

// checkStateWriters: every store to the key or to a cancel slot — through the
// field, or through one of the slot pointers the admission function is given
// — sits in the admission function itself (or in the constructor, on the
// broker it is making).
func checkStateWriters(p *Prog, r *Report, ru *Rule, a *connectAnchors) {
	slotParam := map[ssa.Value]bool{}
	for _, pa := range a.Fn.Params {
		if pt, ok := pa.Type().Underlying().(*types.Pointer); ok {
			if sg, ok := pt.Elem().Underlying().(*types.Signature); ok && 0 == sg.Params().Len() && 0 == sg.Results().Len() {
				slotParam[pa] = true
			}
		}
	}
	n := 0
	for _, fn := range p.Funcs() {
		if nil == fn.Pkg || fn.Pkg != a.Fn.Pkg || fn == a.Fn {
			continue
		}
		/* A literal of the admission function which it only calls or
		defers itself runs in its frame (the table runs deferred calls). */
		if fn.Parent() == a.Fn {
			sync := true
			uses := 0
			eachInstr(a.Fn, func(i ssa.Instruction) {
				mc, ok := i.(*ssa.MakeClosure)
				if !ok || mc.Fn != ssa.Value(fn) {
					return
				}
				for _, ref := range *mc.Referrers() {
					switch x := ref.(type) {
					case *ssa.DebugRef:
					case *ssa.Call:
						uses++
						if x.Common().Value != ssa.Value(mc) {
							sync = false
						}
					case *ssa.Defer:
						uses++
						if x.Common().Value != ssa.Value(mc) {
							sync = false
						}
					default:
						sync = false
					}
				}
			})
			if sync && uses > 0 {
				continue
			}
		}
		eachInstr(fn, func(i ssa.Instruction) {
			st, ok := i.(*ssa.Store)
			if !ok {
				return
			}
			what := ""
			if fv, base := fieldAddrOf(st.Addr); nil != fv && (fv == a.FKey || fv == a.FIn || fv == a.FOut) {
				if _, fresh := resolveFree(base).(*ssa.Alloc); fresh {
					return /* the constructor filling in a new broker */
				}
				what = "Broker." + fv.Name()
			}
			if "" == what {
				addr := resolveFree(stripConv(st.Addr, false))
				if slotParam[addr] {
					what = "the slot *" + addr.Name()
				}
				/* An element of the slot array, an index away. */
				if ia, isIA := st.Addr.(*ssa.IndexAddr); isIA {
					if fv, base := fieldAddrOf(ia.X); nil != fv && (fv == a.FIn || fv == a.FOut) {
						if _, fresh := resolveFree(base).(*ssa.Alloc); !fresh {
							what = "Broker." + fv.Name() + "[…]"
						}
					}
				}
			}
			if "" == what {
				return
			}
			n++
			ru.Bad(fmt.Sprintf("%s:%s", fnName(fn), what), posOf(st), "%s is written in %s, outside the admission function's own frame (a goroutine, a timer callback, a helper run later): the admission and tear-down tables do not cover that write — a slot cleared or a key changed behind their back admits streams which must be refused", what, fnName(fn))
		})
	}
	if 0 == n {
		ru.OK(fnName(a.Fn)+":only-writer", a.Fn.Pos(), "key and cancel slots are written in the admission function's own frame only")
	}
}

// checkNoticesDelivered: Errorf and Logf of the broker (and what they call)
// cannot return without the line having been sent on the operator channel.
func checkNoticesDelivered(p *Prog, r *Report, ru *Rule, a *connectAnchors) {
	delivers := makeDelivers(func(fv *types.Var) bool { return fv == a.FOch })
	for _, name := range []string{"Errorf", "Logf"} {
		f := p.Func(iobPkg, "Broker", name)
		if nil == f {
			ru.Unproven("Broker."+name, token.NoPos, "not found")
			continue
		}
		if delivers(f, 0) {
			ru.OK(fnName(f), f.Pos(), "returns only after the line has been sent on the operator channel")
		} else {
			ru.Bad(fnName(f), f.Pos(), "%s can return without having sent its line on the operator channel (a timeout, a default arm or a cancellation arm beside the send): with a busy terminal a refusal or a closure notice is silently dropped", name)
		}
	}
}

// makeDelivers: "f cannot return without having sent on a channel kept in a
// field for which isOch holds" (directly, in the chosen arm of a select, or
// through a module function of which the same is true).
func makeDelivers(isOch func(*types.Var) bool) func(f *ssa.Function, depth int) bool {
	memo := map[*ssa.Function]int{} /* 1 = delivers on every path, 2 = may not */
	var delivers func(f *ssa.Function, depth int) bool
	delivers = func(f *ssa.Function, depth int) bool {
		if nil == f || nil == f.Blocks || depth > 4 {
			return false
		}
		if v, ok := memo[f]; ok {
			return 1 == v
		}
		memo[f] = 2
		onOch := func(ch ssa.Value) bool {
			fv, _ := fieldBehind(ch)
			return nil != fv && isOch(fv)
		}
		/* Edges taken when a select's send on the channel was chosen. */
		sent := map[Edge]bool{}
		eachInstr(f, func(i ssa.Instruction) {
			sel, ok := i.(*ssa.Select)
			if !ok {
				return
			}
			for k, st := range sel.States {
				if types.SendOnly != st.Dir || !onOch(st.Chan) {
					continue
				}
				for _, b := range f.Blocks {
					ifi := blockIf(b)
					if nil == ifi {
						continue
					}
					dc := decodeCond(ifi.Cond)
					ex, isEx := dc.X.(*ssa.Extract)
					if !isEx || ex.Tuple != ssa.Value(sel) || 0 != ex.Index || nil == dc.Y {
						continue
					}
					if idx, isC := constInt(dc.Y); isC && int(idx) == k {
						succ := 1
						if dc.Eq {
							succ = 0
						}
						sent[Edge{b.Index, b.Succs[succ].Index}] = true
					}
				}
			}
		})
		miss := reachQ{From: entryLoc(f), NoEdges: sent, Target: isReturn, Block: func(i ssa.Instruction) bool {
			if sd, ok := i.(*ssa.Send); ok && onOch(sd.Chan) {
				return true
			}
			if c, ok := i.(*ssa.Call); ok {
				if g := c.Common().StaticCallee(); nil != g && inModule(g) && g != f && delivers(g, depth+1) {
					return true
				}
			}
			return false
		}}.run()
		if nil == miss {
			memo[f] = 1
			return true
		}
		return false
	}
	return delivers
}

// phiOnlyDereferenced: the pointer-valued phi is only loaded from and stored
// through (or merged into other such phis): the address goes nowhere.
func phiOnlyDereferenced(ph *ssa.Phi, depth int) bool {
	if depth > 3 || nil == ph.Referrers() {
		return false
	}
	for _, r := range *ph.Referrers() {
		switch y := r.(type) {
		case *ssa.UnOp:
			if token.MUL != y.Op {
				return false
			}
		case *ssa.Store:
			if y.Addr != ssa.Value(ph) || y.Val == ssa.Value(ph) {
				return false
			}
		case *ssa.DebugRef:
		case *ssa.Phi:
			if y != ph && !phiOnlyDereferenced(y, depth+1) {
				return false
			}
		default:
			return false
		}
	}
	return true
}
