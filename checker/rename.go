package main

// rename.go: the rules name the functions and fields of the reference tree
// (reffuncs.go).  A tree in which one of them has merely been given another
// name is the same program: the function (field) which took its place is
// found by what does not change with a name — package, receiver, signature
// (type), and what the body refers to outside the module — and the reference
// name then resolves to it.

import (
	"fmt"
	"go/ast"
	"go/types"
	"os"
	"sort"
	"strings"

	"golang.org/x/tools/go/ssa"
)

// refFuncInfo describes one function of the reference tree.
type refFuncInfo struct {
	Pkg    string   /* package path */
	Recv   string   /* receiver type name, "" for none */
	Sig    string   /* parameter and result types */
	Params []string /* parameter names, in order */
	Marks  []string /* what the body refers to which a rename of module-private names leaves alone */
}

// renameImage: functions of the analysed tree standing in for a reference
// function of another name (set by resolveRenames; consulted by isHelper).
var renameImage = map[*ssa.Function]string{}

// sigString is f's signature without parameter names.
func sigString(f *ssa.Function) string {
	q := func(p *types.Package) string { return p.Path() }
	var sb strings.Builder
	sb.WriteString("(")
	ps := f.Signature.Params()
	for i := 0; i < ps.Len(); i++ {
		if i > 0 {
			sb.WriteString(", ")
		}
		if f.Signature.Variadic() && i == ps.Len()-1 {
			sb.WriteString("...")
		}
		sb.WriteString(types.TypeString(ps.At(i).Type(), q))
	}
	sb.WriteString(") (")
	rs := f.Signature.Results()
	for i := 0; i < rs.Len(); i++ {
		if i > 0 {
			sb.WriteString(", ")
		}
		sb.WriteString(types.TypeString(rs.At(i).Type(), q))
	}
	sb.WriteString(")")
	return sb.String()
}

// funcMarks: what f's body (closures included) refers to that keeps its name
// when module-private identifiers are renamed: functions and methods outside
// the module or exported, exported fields, and string constants.
func funcMarks(f *ssa.Function) []string {
	m, _ := funcMarksDeep(f, nil)
	return m
}

// funcMarksDeep: the same, counting what the function does through private
// functions for which fold holds (functions the reference tree does not
// have: pieces of the body given a name) as done by the function itself.
// Also returns those functions.
func funcMarksDeep(f *ssa.Function, fold func(*ssa.Function) bool) ([]string, map[*ssa.Function]bool) {
	set := map[string]bool{}
	folded := map[*ssa.Function]bool{}
	depth := 0
	var visit func(g *ssa.Function)
	visit = func(g *ssa.Function) {
		for _, b := range g.Blocks {
			for _, i := range b.Instrs {
				if c := callCommon(i); nil != c {
					if c.IsInvoke() {
						if ast.IsExported(c.Method.Name()) {
							set["invoke:"+c.Method.Name()] = true
						}
					} else if sc := c.StaticCallee(); nil != sc && nil == sc.Parent() {
						inMod := nil != sc.Pkg && strings.HasPrefix(sc.Pkg.Pkg.Path(), ModPath)
						if inMod && nil != fold && sc != f && !folded[sc] && depth < 3 && nil != sc.Blocks && fold(sc) {
							folded[sc] = true
							depth++
							visit(sc)
							depth--
						}
						if !inMod || ast.IsExported(sc.Name()) {
							n := sc.String()
							if k := strings.Index(n, "["); k > 0 {
								n = n[:k] /* instantiations of one generic function */
							}
							set["call:"+n] = true
						}
					}
				}
				switch x := i.(type) {
				case *ssa.FieldAddr:
					if fv := fieldOfStruct(x.X.Type(), x.Field); nil != fv && fv.Exported() {
						set["field:"+fv.Name()] = true
					}
				case *ssa.Field:
					if fv := fieldOfStruct(x.X.Type(), x.Field); nil != fv && fv.Exported() {
						set["field:"+fv.Name()] = true
					}
				}
				var ops []*ssa.Value
				for _, o := range i.Operands(ops) {
					if nil == *o {
						continue
					}
					if s, ok := constString(*o); ok && len(s) >= 3 {
						if len(s) > 32 {
							s = s[:32]
						}
						set["str:"+s] = true
					}
				}
			}
		}
		for _, a := range g.AnonFuncs {
			visit(a)
		}
	}
	visit(f)
	var out []string
	for m := range set {
		out = append(out, m)
	}
	sort.Strings(out)
	return out, folded
}

func fieldOfStruct(t types.Type, idx int) *types.Var {
	st := derefStruct(t)
	if nil == st || idx >= st.NumFields() {
		return nil
	}
	return st.Field(idx)
}

func jaccard(a, b []string) float64 {
	if 0 == len(a) && 0 == len(b) {
		return 1
	}
	in := map[string]bool{}
	for _, x := range a {
		in[x] = true
	}
	n := 0
	for _, x := range b {
		if in[x] {
			n++
		}
	}
	return float64(n) / float64(len(a)+len(b)-n)
}

// resolveRenames pairs every reference function the tree does not have with
// the function that took its place, if there is one.  Called before helpers
// are folded.
func (p *Prog) resolveRenames() {
	renameImage = map[*ssa.Function]string{}
	p.renamed = map[string]*ssa.Function{}
	have := map[string]bool{}
	var newcomers []*ssa.Function
	for _, f := range p.funcs {
		if nil != f.Parent() || "" != f.Synthetic || nil == f.Pkg {
			continue
		}
		have[f.String()] = true
		if _, isRef := refInfo[f.String()]; !isRef {
			switch f.Name() {
			case "main", "init":
				continue
			}
			newcomers = append(newcomers, f)
		}
	}
	type pair struct {
		ref   string
		f     *ssa.Function
		score float64
	}
	var pairs []pair
	candsOf := map[string]int{}
	refsOf := map[*ssa.Function]int{}
	marks := map[*ssa.Function][]string{}
	foldedIn := map[*ssa.Function]map[*ssa.Function]bool{}
	isNew := map[*ssa.Function]bool{}
	for _, f := range newcomers {
		if !ast.IsExported(f.Name()) {
			isNew[f] = true
		}
	}
	deep := map[*ssa.Function][]string{}
	/* How well f's body matches a reference function's: as written, or
	with the pieces of it which were given names of their own counted in,
	whichever fits better. */
	score := func(ref []string, f *ssa.Function) float64 {
		if _, ok := marks[f]; !ok {
			marks[f] = funcMarks(f)
			deep[f], foldedIn[f] = funcMarksDeep(f, func(g *ssa.Function) bool { return isNew[g] })
		}
		a, b := jaccard(ref, marks[f]), jaccard(ref, deep[f])
		if b > a {
			return b
		}
		return a
	}
	var missing []string
	for name := range refInfo {
		if !have[name] {
			missing = append(missing, name)
		}
	}
	sort.Strings(missing)
	for _, name := range missing {
		ri := refInfo[name]
		for _, f := range newcomers {
			if f.Pkg.Pkg.Path() != ri.Pkg || recvTypeName(f) != ri.Recv || sigString(f) != ri.Sig {
				continue
			}
			pairs = append(pairs, pair{name, f, score(ri.Marks, f)})
			candsOf[name]++
			refsOf[f]++
		}
	}
	sort.SliceStable(pairs, func(i, j int) bool { return pairs[i].score > pairs[j].score })
	taken := map[*ssa.Function]bool{}
	for _, pr := range pairs {
		if nil != p.renamed[pr.ref] || taken[pr.f] {
			continue
		}
		/* The only candidate for the only vacancy it fits needs less
		evidence than one picked among several. */
		need := 0.3
		if 1 == candsOf[pr.ref] && 1 == refsOf[pr.f] {
			need = 0.1
		}
		if pr.score < need {
			continue
		}
		p.renamed[pr.ref] = pr.f
		taken[pr.f] = true
		renameImage[pr.f] = pr.ref
		if "" != os.Getenv("CRS_FLATDEBUG") {
			fmt.Fprintf(os.Stderr, "RENAMED %s is now %s (%.2f)\n", pr.ref, pr.f, pr.score)
		}
	}
	/* Second pass, for what is still missing: the signature may have
	changed with the name (a method made a plain function, a parameter
	added).  Then only the body speaks, and it must speak clearly: a large
	overlap, well ahead of the runner-up. */
	for _, name := range missing {
		if nil != p.renamed[name] {
			continue
		}
		ri := refInfo[name]
		if len(ri.Marks) < 3 {
			continue
		}
		var best, second float64
		var bestF *ssa.Function
		/* In its own package first; failing that anywhere in the module (the
		function moved to a package of its own, or to its only user's). */
		inPkg := false
		for _, f := range newcomers {
			if !taken[f] && f.Pkg.Pkg.Path() == ri.Pkg && score(ri.Marks, f) >= 0.6 {
				inPkg = true
			}
		}
		elsewhere := func(f *ssa.Function) bool { return inPkg && f.Pkg.Pkg.Path() != ri.Pkg }
		for _, f := range newcomers {
			if taken[f] || elsewhere(f) {
				continue
			}
			if sc := score(ri.Marks, f); sc > best {
				best, bestF = sc, f
			}
		}
		/* The runner-up is not a piece of the winner's own body. */
		for _, f := range newcomers {
			if taken[f] || elsewhere(f) || f == bestF || (nil != bestF && foldedIn[bestF][f]) {
				continue
			}
			sc := score(ri.Marks, f)
			if nil != bestF && foldedIn[f][bestF] {
				/* A caller of the winner resembles the reference only as
				far as its own text does. */
				sc = jaccard(ri.Marks, marks[f])
			}
			if sc > second {
				second = sc
			}
		}
		if "" != os.Getenv("CRS_FLATDEBUG") && nil != bestF {
			fmt.Fprintf(os.Stderr, "RENAME? %s best %s (%.2f, next %.2f)\n", name, bestF, best, second)
		}
		if nil != bestF && best >= 0.6 && best-second >= 0.15 {
			p.renamed[name] = bestF
			taken[bestF] = true
			renameImage[bestF] = name
			if "" != os.Getenv("CRS_FLATDEBUG") {
				fmt.Fprintf(os.Stderr, "RENAMED (signature changed) %s is now %s (%.2f, next %.2f)\n", name, bestF, best, second)
			}
		}
	}
}

// resolveMerged: for every reference function the tree lacks under any name,
// the function its body was written into.  Called after helpers are folded,
// so that what it finds is what the rules will read.
func (p *Prog) resolveMerged() {
	have := map[string]bool{}
	for _, f := range p.funcs {
		if nil == f.Parent() && "" == f.Synthetic {
			have[f.String()] = true
		}
	}
	var missing []string
	for name := range refInfo {
		if !have[name] && !foldedRefFuncs[name] {
			missing = append(missing, name)
		}
	}
	sort.Strings(missing)
	/* Third: a reference function whose body was written into its caller.
	The function (or function literal) which now refers to nearly everything
	the reference function referred to, and is the smallest to do so, is
	where the rules should look. */
	p.merged = map[string]*ssa.Function{}
	for _, name := range missing {
		if nil != p.renamed[name] {
			continue
		}
		ri := refInfo[name]
		if len(ri.Marks) < 3 {
			continue
		}
		want := map[string]bool{}
		for _, m := range ri.Marks {
			want[m] = true
		}
		var bestF *ssa.Function
		bestSize := 0
		for _, f := range p.funcs {
			if nil == f.Pkg || f.Pkg.Pkg.Path() != ri.Pkg || "" != f.Synthetic && !strings.Contains(f.Synthetic, "range-over-func") {
				continue
			}
			n, nc := 0, 0
			for _, m := range funcMarks(f) {
				if want[m] {
					n++
					if strings.HasPrefix(m, "call:") || strings.HasPrefix(m, "invoke:") {
						nc++
					}
				}
			}
			/* Nearly everything, or — message texts being what a merge
			rewrites first — nearly all of what it calls. */
			wantCalls := 0
			for m := range want {
				if strings.HasPrefix(m, "call:") || strings.HasPrefix(m, "invoke:") {
					wantCalls++
				}
			}
			if float64(n) < 0.8*float64(len(want)) && !(wantCalls >= 3 && float64(nc) >= 0.7*float64(wantCalls)) {
				continue
			}
			size := 0
			for _, g := range withAnons(f) {
				for _, b := range g.Blocks {
					size += len(b.Instrs)
				}
			}
			if nil == bestF || size < bestSize {
				bestF, bestSize = f, size
			}
		}
		if nil != bestF {
			p.merged[name] = bestF
			if "" != os.Getenv("CRS_FLATDEBUG") {
				fmt.Fprintf(os.Stderr, "MERGED %s is now part of %s\n", name, bestF)
			}
		}
	}
}

// renamedFunc: the function standing in for the reference function named so.
func (p *Prog) renamedFunc(pkgPath, recv, name string) *ssa.Function {
	var keys []string
	if "" == recv {
		keys = []string{pkgPath + "." + name}
	} else {
		keys = []string{"(*" + pkgPath + "." + recv + ")." + name, "(" + pkgPath + "." + recv + ")." + name}
	}
	for _, k := range keys {
		if f := p.renamed[k]; nil != f {
			return f
		}
	}
	for _, k := range keys {
		if f := p.merged[k]; nil != f {
			return f
		}
	}
	return nil
}

// renamedField: the field of st standing in for the reference field name of
// the struct pkgPath.typ: the struct's fields the reference does not know,
// matched with the reference fields the struct no longer has, by type and
// then by order.
func renamedField(pkgPath, typ string, st *types.Struct, name string) *types.Var {
	ref, ok := refFields[pkgPath+"."+typ]
	if !ok {
		return nil
	}
	q := func(p *types.Package) string { return p.Path() }
	refType := map[string]string{}
	var refOrder []string
	for _, e := range ref {
		n, t, _ := strings.Cut(e, "\t")
		refType[n] = t
		refOrder = append(refOrder, n)
	}
	if _, known := refType[name]; !known {
		return nil
	}
	cur := map[string]bool{}
	for i := 0; i < st.NumFields(); i++ {
		cur[st.Field(i).Name()] = true
	}
	var lost []string /* reference names the struct no longer has, with the wanted type */
	for _, n := range refOrder {
		if !cur[n] && refType[n] == refType[name] {
			lost = append(lost, n)
		}
	}
	var fresh []*types.Var /* fields the reference does not know, of that type */
	for i := 0; i < st.NumFields(); i++ {
		f := st.Field(i)
		if _, known := refType[f.Name()]; !known && types.TypeString(f.Type(), q) == refType[name] {
			fresh = append(fresh, f)
		}
	}
	if len(lost) != len(fresh) {
		return nil
	}
	for i, n := range lost {
		if n == name {
			return fresh[i]
		}
	}
	return nil
}

// refParam: the parameter of fn in the place where the reference tree's
// version of fn (of unchanged signature) has the parameter called name.
func refParam(fn *ssa.Function, name string) *ssa.Parameter {
	key := fn.String()
	if ref, ok := renameImage[fn]; ok {
		key = ref
	}
	ri, ok := refInfo[key]
	if !ok || ri.Sig != sigString(fn) {
		return nil
	}
	off := 0
	if nil != fn.Signature.Recv() {
		off = 1
	}
	for i, n := range ri.Params {
		if n == name && i+off < len(fn.Params) {
			return fn.Params[i+off]
		}
	}
	return nil
}

// renamedStruct: the struct type standing in for the reference's pkgPath.typ
// which the tree no longer has under that name anywhere: the only named
// struct type of the module which the reference does not know and which has
// all of the reference type's fields, by name and type.
func (p *Prog) renamedStruct(pkgPath, typ string) types.Object {
	ref, ok := refFields[pkgPath+"."+typ]
	if !ok || 0 == len(ref) {
		return nil
	}
	q := func(p *types.Package) string { return p.Path() }
	var found []types.Object
	for _, pk := range p.Pkgs {
		sc := pk.Types.Scope()
		for _, n := range sc.Names() {
			tn, ok := sc.Lookup(n).(*types.TypeName)
			if !ok || tn.IsAlias() {
				continue
			}
			if _, known := refFields[pk.PkgPath+"."+n]; known {
				continue
			}
			st, ok := tn.Type().Underlying().(*types.Struct)
			if !ok {
				continue
			}
			have := map[string]bool{}
			for i := 0; i < st.NumFields(); i++ {
				have[st.Field(i).Name()+"\t"+types.TypeString(st.Field(i).Type(), q)] = true
			}
			all := true
			for _, e := range ref {
				if !have[e] {
					all = false
				}
			}
			if all {
				found = append(found, tn)
			}
		}
	}
	if 1 == len(found) {
		return found[0]
	}
	return nil
}
