package main

// C16 — a Perl script wrapped as a shell function still runs as the same
// program (structural part).

import (
	"fmt"
	"go/token"
	"go/types"
	"regexp"
	"strconv"
	"strings"

	"golang.org/x/tools/go/ssa"
)

const sffPkg = "lib/shellfuncsfile"

func init() {
	register("C16", &propDef{
		Run:         checkC16,
		Explanation: "Static decision of the clauses of C16 visible in the code and template text. (1) Writer/reader tables agree: the ordered (unsafe→safe) pairs of the strings.ReplaceAll calls applied to the uuencoded script in FromPerl are exactly the inverse of the Perl y/safe/unsafe/ transliteration parsed out of the template constant; every safe letter lies outside the uuencode alphabet (so it cannot collide with data) and is inert in the two quoting contexts, and every alphabet character which is special there (single quote in the shell's '…', backslash in Perl's q{…}) is substituted. (2) Contexts: {{.PerlUU}} sits inside shell single quotes; every \"$@\" of the wrapper is double-quoted; the function name and lead comments are outside quotes. (3) Program text: cleanPerl splits the trimmed script into lines, changes that slice only by storing \"\" into elements (line count and numbering preserved — no truncation, filtering or re-slicing reaches the text handed to perl), and returns the lead comments as a sub-slice of the collected comment run. (4) The function name is TrimSuffix(Base(name), Ext(name)); the script is encoded with uu.AppendEncode into a fresh buffer and the function text is rendered into a buffer allocated in this call. Behavioural equivalence under perl and sh is not decided here (C15 decides the codec's tables and bit layout). Also: the reader handed to a filter is rooted in the opened file or its bytes through byte-preserving wrappers only.",
		Assumptions: []string{"Perl's y/// with the r flag transliterates character by character; \\NNN in its replacement list is an octal escape"},
	})
}

func checkC16(p *Prog, r *Report) {
	rTab := r.Rule("tables-agree", "Go's substitutions and Perl's y/// are inverse tables over characters outside / inside the uu alphabet as required")
	rCtx := r.Rule("quoting-context", "{{.PerlUU}} is single-quoted; every \"$@\" of the wrapper is double-quoted")
	rText := r.Rule("text-preserved", "cleanPerl only blanks elements of the line slice; nothing truncates or filters the program text")
	rFeed := r.Rule("source-to-filter", "what a filter reads is the file's own bytes: between opening the file and calling the filter only byte-preserving wrappers")
	checkFilterFeed(p, r, rFeed)
	/* The generated function starts on a line of its own: whatever precedes
	it in the payload ends in a newline (C17's rule, under this property's
	"defines a function" clause). */
	if fr, fd := p.Func(sffPkg, "Converter", "fromReader"), p.Func(sffPkg, "Converter", "fromDirectory"); nil != fr && nil != fd {
		checkNewline(p, r.Rule("parts-newline-terminated", "every converted file ends in a newline before the next part is appended: the Perl wrapper's header is not glued to the previous file's last line"), fr, fd)
	}
	rName := r.Rule("naming-and-buffers", "function name from the file's base name; output rendered into buffers of this call")

	fp := p.Func(sffPkg, "", "FromPerl")
	cp := p.Func(sffPkg, "", "cleanPerl")
	if nil == fp || nil == cp {
		rTab.Unproven("shellfuncsfile", token.NoPos, "FromPerl or cleanPerl not found")
		return
	}
	r.Saw("func " + fnName(fp))
	r.Saw("func " + fnName(cp))

	/* Template text. */
	tmplText, tpos := templateConst(p, sffPkg, "perlTemplate")
	if "" == tmplText {
		rTab.Unproven("perlTemplate", token.NoPos, "template constant not found")
		return
	}
	r.Saw("template perlTemplate")

	/* 1. Go side. */
	type pair struct{ from, to string }
	var goPairs []pair
	var enc *ssa.Call
	/* Only what is done to the text on its way into the template counts: a
	check which undoes the substitutions to compare (and throws the result
	away) is not part of what the shell function is made of. */
	feeds := templateFeed(fp)
	eachInstr(fp, func(i ssa.Instruction) {
		c, ok := i.(*ssa.Call)
		if !ok {
			return
		}
		if nil != feeds && !feeds[c] {
			if sc := c.Common().StaticCallee(); nil != sc && "AppendEncode" == sc.Name() {
				enc = c
			}
			return
		}
		switch calleeName(c.Common()) {
		case "strings.ReplaceAll":
			a, ok1 := constString(c.Common().Args[1])
			b, ok2 := constString(c.Common().Args[2])
			if ok1 && ok2 {
				goPairs = append(goPairs, pair{a, b})
				return
			}
			/* One substitution per row of a fixed table. */
			ra, okA := cellReadOf(c.Common().Args[1])
			rb, okB := cellReadOf(c.Common().Args[2])
			if okA && okB && ra.Index == rb.Index && ra.Field != rb.Field {
				ta, tb := p.fixedTableOf(ra.Container), p.fixedTableOf(rb.Container)
				if nil != ta && nil != tb && ta.N == tb.N && rangesOverAll(ra.Index, ra.Container, ta.N) {
					ca, okCa := ta.Column(ra.Field)
					cb, okCb := tb.Column(rb.Field)
					if okCa && okCb {
						good := true
						var prs []pair
						for k := range ca {
							x, okx := constString(ca[k])
							y, oky := constString(cb[k])
							if !okx || !oky {
								good = false
							}
							prs = append(prs, pair{x, y})
						}
						if good && sameTable(ra.Container, rb.Container) {
							goPairs = append(goPairs, prs...)
							return
						}
					}
				}
			}
			rTab.Unproven(fnName(fp)+":ReplaceAll", posOf(c), "substitution with non-constant operands")
		case "(*strings.Replacer).Replace", "(*strings.Replacer).WriteString":
			/* A replacer built once from constant pairs. */
			prs, ok := replacerPairs(p, c.Common().Args[0])
			if !ok {
				rTab.Unproven(fnName(fp)+":"+calleeName(c.Common()), posOf(c), "the replacer is not built by strings.NewReplacer from constant pairs (once, in a package variable or in this call)")
				return
			}
			for k := 0; k+1 < len(prs); k += 2 {
				goPairs = append(goPairs, pair{prs[k], prs[k+1]})
			}
		case "strings.Map", "bytes.Map":
			/* A character map: named characters to their stand-ins,
			everything else unchanged. */
			mf, _ := closureOf(c.Common().Args[0])
			prs, why := runeMapPairs(mf)
			if "" != why {
				rTab.Unproven(fnName(fp)+":"+calleeName(c.Common()), posOf(c), "character map not understood: %s", why)
				return
			}
			for _, pr := range prs {
				goPairs = append(goPairs, pair{string(rune(pr[0])), string(rune(pr[1]))})
			}
		case "strings.Replace":
			rTab.Unproven(fnName(fp)+":"+calleeName(c.Common()), posOf(c), "substitution idiom not understood")
		}
		if sc := c.Common().StaticCallee(); nil != sc && "AppendEncode" == sc.Name() {
			enc = c
		}
	})
	/* Or done in place, byte by byte: for i, c := range enc { if c == X {
	enc[i] = Y } }. */
	if 0 == len(goPairs) {
		for _, pr := range inPlaceBytePairs(fp) {
			goPairs = append(goPairs, pair{string(rune(pr[0])), string(rune(pr[1]))})
		}
	}
	m := regexp.MustCompile(`y/([^/]*)/([^/]*)/([a-z]*)`).FindStringSubmatch(tmplText)
	if nil == m {
		rTab.Bad("perlTemplate:y///", tpos, "no y/…/…/ transliteration in the wrapper: the substituted characters are never restored")
		return
	}
	from := []rune(m[1])
	to, err := perlUnescape(m[2])
	if nil != err {
		rTab.Unproven("perlTemplate:y///", tpos, "replacement list %q: %s", m[2], err)
		return
	}
	if !strings.Contains(m[3], "r") {
		rTab.Bad("perlTemplate:y///r", tpos, "y/// without the r flag modifies in place and returns a count, not the text")
	}
	if len(from) != len(to) || len(from) != len(goPairs) {
		rTab.Bad("tables:size", tpos, "Go substitutes %d characters, Perl's y/// maps %d to %d", len(goPairs), len(from), len(to))
	} else {
		okAll := true
		for i, gp := range goPairs {
			c := fmt.Sprintf("tables:pair#%d", i+1)
			if 1 != len([]rune(gp.from)) || 1 != len([]rune(gp.to)) {
				okAll = false
				rTab.Bad(c, posOf(fp.Blocks[0].Instrs[0]), "substitution %q→%q is not character for character", gp.from, gp.to)
				continue
			}
			/* Perl side may list the pairs in any order. */
			found := false
			for k := range from {
				if string(from[k]) == gp.to && string(to[k]) == gp.from {
					found = true
				}
			}
			if !found {
				okAll = false
				rTab.Bad(c, tpos, "Go replaces %q by %q but Perl's y/%s/%s/ does not map %q back to %q", gp.from, gp.to, m[1], m[2], gp.to, gp.from)
				continue
			}
			safe, unsafe := []rune(gp.to)[0], []rune(gp.from)[0]
			switch {
			case safe >= 32 && safe <= 96:
				okAll = false
				rTab.Bad(c, tpos, "the stand-in %q is itself a uuencode symbol: genuine data would be transliterated on the way back", gp.to)
			case strings.ContainsRune(`'\{}`, safe):
				okAll = false
				rTab.Bad(c, tpos, "the stand-in %q is special inside '…' / q{…}", gp.to)
			case !(unsafe >= 32 && unsafe <= 96):
				okAll = false
				rTab.Bad(c, tpos, "%q is not a uuencode symbol; substituting it changes nothing or damages the text", gp.from)
			default:
				rTab.OK(c, tpos, "%q ⇄ %q", gp.from, gp.to)
			}
		}
		/* No stand-in used twice, no chained substitution. */
		seen := map[string]bool{}
		for _, gp := range goPairs {
			if seen[gp.to] {
				okAll = false
				rTab.Bad("tables:stand-in-unique", tpos, "stand-in %q is used for two characters", gp.to)
			}
			seen[gp.to] = true
		}
		_ = okAll
	}
	/* Coverage: alphabet characters special in the context. */
	for _, sp := range []struct {
		ch  string
		why string
	}{{"'", "ends the shell's single-quoted word"}, {`\`, "is an escape character inside Perl's q{…}"}} {
		covered := false
		for _, gp := range goPairs {
			if gp.from == sp.ch {
				covered = true
			}
		}
		if covered {
			rTab.OK("tables:covers "+strconv.Quote(sp.ch), tpos, "substituted")
		} else {
			rTab.Bad("tables:covers "+strconv.Quote(sp.ch), tpos, "the uuencode symbol %q %s but is not substituted", sp.ch, sp.why)
		}
	}
	/* Substitutions are applied to the encoded text. */
	if nil == enc {
		rName.Bad(fnName(fp)+":encode", fp.Pos(), "the script is not uuencoded with uu.AppendEncode")
	} else if !isNilConst(enc.Common().Args[0]) && !isEmptyFreshSlice(enc.Common().Args[0]) {
		rName.Bad(fnName(fp)+":encode", posOf(enc), "AppendEncode is given a destination other than nil")
	} else {
		rName.OK(fnName(fp)+":encode", posOf(enc), "uu.AppendEncode(nil, []byte(perl))")
	}

	/* 2. Contexts. */
	toks, err := flattenTemplate("perl", tmplText)
	if nil != err {
		rCtx.Bad("perlTemplate:parse", tpos, "%s", err)
	} else {
		ctx := shellContexts(toks)
		for i, t := range toks {
			if "" == t.Field {
				continue
			}
			c := "perlTemplate:{{." + t.Field + "}}"
			switch t.Field {
			case "PerlUU":
				if ctxSingle == ctx[i] {
					rCtx.OK(c, tpos, "single-quoted")
				} else {
					rCtx.Bad(c, tpos, "the encoded script is %s in the shell text", ctx[i])
				}
			case "FuncName", "LeadComments":
				if ctxBare == ctx[i] || ctxComment == ctx[i] {
					rCtx.OK(c, tpos, "%s", ctx[i])
				} else {
					rCtx.Bad(c, tpos, "%s is %s", t.Field, ctx[i])
				}
			default:
				rCtx.Unproven(c, tpos, "unknown template field")
			}
		}
		/* "$@" occurrences in shell (non-single-quoted) context. */
		txt := renderToks(toks)
		n := 0
		cx := ctxBare
		rs := []rune(txt)
		for i := 0; i < len(rs); i++ {
			ch := rs[i]
			switch cx {
			case ctxBare:
				if '\'' == ch {
					cx = ctxSingle
				} else if '"' == ch {
					cx = ctxDouble
				}
			case ctxSingle:
				if '\'' == ch {
					cx = ctxBare
				}
			case ctxDouble:
				if '"' == ch {
					cx = ctxBare
				}
			}
			if '$' == ch && i+1 < len(rs) && '@' == rs[i+1] && ctxSingle != cx {
				n++
				c := fmt.Sprintf("perlTemplate:$@#%d", n)
				if ctxDouble == cx {
					rCtx.OK(c, tpos, "\"$@\"")
				} else {
					rCtx.Bad(c, tpos, "$@ is not double-quoted: arguments with spaces or glob characters are split or expanded")
				}
			}
		}
		if n < 2 {
			rCtx.Bad("perlTemplate:$@", tpos, "%d uses of \"$@\" in the wrapper; the arguments must be forwarded to set -- and to perl", n)
		}
	}

	/* 3. cleanPerl. */
	checkCleanPerl(p, rText, cp)
	/* Every script is converted: a search which can answer -1 (IndexFunc on
	a script which is all comments, Index on an empty one) is not used as an
	index or a slice bound before it has been compared with something. */
	{
		rIdx := r.Rule("cleaner-total", "in the Perl cleaner no result of an Index-style search (−1 when nothing is found) is used as an index or slice bound without a test of it first")
		n := 0
		for _, f := range withAnons(cp) {
			eachInstr(f, func(i ssa.Instruction) {
				c, ok := i.(*ssa.Call)
				if !ok {
					return
				}
				nm := strings.SplitN(calleeName(c.Common()), "[", 2)[0]
				if !(strings.HasPrefix(nm, "slices.Index") || strings.HasPrefix(nm, "strings.Index") || strings.HasPrefix(nm, "strings.LastIndex") || strings.HasPrefix(nm, "bytes.Index") || strings.HasPrefix(nm, "bytes.LastIndex")) {
					return
				}
				for _, ref := range *c.Referrers() {
					use := ""
					switch u := ref.(type) {
					case *ssa.Slice:
						if u.Low == ssa.Value(c) || u.High == ssa.Value(c) || u.Max == ssa.Value(c) {
							use = "slice bound"
						}
					case *ssa.IndexAddr:
						if u.Index == ssa.Value(c) {
							use = "index"
						}
					case *ssa.Index:
						if u.Index == ssa.Value(c) {
							use = "index"
						}
					}
					if "" == use {
						continue
					}
					n++
					cc := fmt.Sprintf("%s:%s#%d", fnName(f), nm, n)
					tested := false
					for _, b := range f.Blocks {
						ifi := blockIf(b)
						if nil == ifi {
							continue
						}
						bo, isBo := ifi.Cond.(*ssa.BinOp)
						if !isBo || (bo.X != ssa.Value(c) && bo.Y != ssa.Value(c)) {
							continue
						}
						if edgeDominates(ifi, 0, ref) || edgeDominates(ifi, 1, ref) {
							tested = true
						}
					}
					if tested {
						rIdx.OK(cc, posOf(ref), "compared before it is used")
					} else {
						rIdx.Bad(cc, posOf(ref), "the result of %s is used as %s without having been tested: it is −1 when nothing is found (a script which is all comments, an empty one), and the conversion panics", nm, use)
					}
				}
			})
		}
		if 0 == n {
			rIdx.OK(fnName(cp)+":no-search-bounds", cp.Pos(), "no search result is used as an index or bound")
		}
	}

	/* 4. Name and buffers. */
	/* Every name derived from the file's name by cutting a suffix is
	TrimSuffix(Base(name), Ext(name)); there is at least one, and it is
	used.  (Other TrimSuffix calls, on other strings, are other matters.) */
	var tsfx *ssa.Call
	nameP := fp.Params[0]
	okName := false
	badName := false
	eachInstr(fp, func(i ssa.Instruction) {
		c, ok := i.(*ssa.Call)
		if !ok || "strings.TrimSuffix" != calleeName(c.Common()) {
			return
		}
		fromName := false
		for _, x := range valueRoots(c.Common().Args[0], nil) {
			if x.V == ssa.Value(nameP) {
				fromName = true
			}
		}
		b, ok1 := c.Common().Args[0].(*ssa.Call)
		e, ok2 := c.Common().Args[1].(*ssa.Call)
		if ok1 && ok2 && "path/filepath.Base" == calleeName(b.Common()) && "path/filepath.Ext" == calleeName(e.Common()) &&
			b.Common().Args[0] == ssa.Value(nameP) && e.Common().Args[0] == ssa.Value(nameP) {
			if nil != c.Referrers() && len(*c.Referrers()) > 0 {
				okName = true
				tsfx = c
			}
			return
		}
		if fromName || (ok1 && "path/filepath.Base" == calleeName(b.Common())) {
			badName = true
		}
	})
	okName = okName && !badName
	if okName {
		rName.OK(fnName(fp)+":func-name", posOf(tsfx), "TrimSuffix(Base(name), Ext(name))")
	} else {
		rName.Bad(fnName(fp)+":func-name", fp.Pos(), "the function name is not the file's base name without its extension")
	}
	checkResultFresh(r, rName, "C16.naming-and-buffers", fp)
}

// checkResultFresh: what the filter returns on success was rendered into a
// buffer allocated in this call (not a package-level buffer or cache).
func checkResultFresh(r *Report, rName *Rule, ruleID string, fp *ssa.Function) {
	nbad := 0
	eachInstr(fp, func(i ssa.Instruction) {
		ret, ok := i.(*ssa.Return)
		if !ok || !isNilConst(retVal(ret, 1)) {
			return
		}
		var roots []Root
		for _, d := range appendDests(retVal(ret, 0)) {
			roots = append(roots, valueRoots(d, func(n string) bool {
				return "(*bytes.Buffer).Bytes" == n || "fmt.Sprintf" == n || "fmt.Appendf" == n || "fmt.Append" == n || "fmt.Appendln" == n || "bytes.Clone" == n || "slices.Clone" == n
			})...)
		}
		for _, x := range roots {
			if _, isMk := x.V.(*ssa.MakeSlice); isMk {
				continue
			}
			switch x.Kind {
			case "alloc", "const", "param":
			case "call":
				if "path/filepath.Base" == x.Callee || "path/filepath.Ext" == x.Callee || "strings.TrimSuffix" == x.Callee {
					continue
				}
				nbad++
				rName.Bad(fnName(fp)+":result-buffer", posOf(ret), "the returned bytes belong to %s, not to a buffer allocated for this call: a later or concurrent conversion can overwrite them", x)
			default:
				if contentKeyedMapEntry(theProg, fp, x.V) {
					continue /* remembered under everything it was made from */
				}
				nbad++
				what := x.String()
				if ex, isEx := x.V.(*ssa.Extract); isEx {
					if _, isLk := ex.Tuple.(*ssa.Lookup); isLk {
						what = "an entry of a map kept between calls (a cache)"
					}
				} else if _, isLk := x.V.(*ssa.Lookup); isLk {
					what = "an entry of a map kept between calls (a cache)"
				}
				rName.Bad(fnName(fp)+":result-buffer", posOf(ret), "the returned bytes derive from %s, not from what this call read and rendered", what)
			}
		}
	})
	if 0 == nbad {
		rName.OK(fnName(fp)+":result-buffer", fp.Pos(), "results are rendered into buffers allocated in this call")
	}
}

// contentKeyedMapEntry: v is an entry of a map kept between calls, looked up
// under a key which holds everything this call read from its source (the
// whole text, not a name, a size or a time) — and every entry ever stored in
// that map was stored in this function, under the key it was looked up with,
// and is something rendered afresh in the storing call.  Then the entry is
// what rendering now would give.
func contentKeyedMapEntry(p *Prog, fp *ssa.Function, v ssa.Value) bool {
	if ex, isEx := v.(*ssa.Extract); isEx {
		v = ex.Tuple
	}
	lk, ok := v.(*ssa.Lookup)
	if !ok {
		return false
	}
	if _, isMap := lk.X.Type().Underlying().(*types.Map); !isMap {
		return false
	}
	mapLd, ok := lk.X.(*ssa.UnOp)
	if !ok || token.MUL != mapLd.Op {
		return false
	}
	/* The key: holds what io.ReadAll gave for this call's reader. */
	whole := false
	for _, x := range valueRoots(lk.Index, func(n string) bool { return false }) {
		switch x.Kind {
		case "param", "const":
		case "call":
			switch x.Callee {
			case "io.ReadAll", "io/ioutil.ReadAll", "os.ReadFile":
				whole = true
			case "path/filepath.Base", "path/filepath.Ext", "strings.TrimSuffix":
			default:
				return false
			}
		default:
			return false
		}
	}
	if !whole {
		return false
	}
	/* Every store into that map. */
	n := 0
	okAll := true
	for _, f := range p.Funcs() {
		eachInstr(f, func(i ssa.Instruction) {
			mu, isMU := i.(*ssa.MapUpdate)
			if !isMU {
				return
			}
			ml, isLd := mu.Map.(*ssa.UnOp)
			if !isLd || token.MUL != ml.Op || !sameAddr(ml.X, mapLd.X) {
				if types.Identical(mu.Map.Type(), lk.X.Type()) && !isLd {
					okAll = false /* the same kind of map, reached some other way */
				}
				return
			}
			n++
			sameKey := resolveCell(mu.Key) == resolveCell(lk.Index)
			if a, isA := mu.Key.(*ssa.UnOp); isA && token.MUL == a.Op {
				if b, isB := lk.Index.(*ssa.UnOp); isB && token.MUL == b.Op {
					if al, isAl := a.X.(*ssa.Alloc); isAl && a.X == b.X {
						/* Two reads of one local, filled in before either. */
						sameKey = true
						for _, ref := range *al.Referrers() {
							if fa, isFA := ref.(*ssa.FieldAddr); isFA {
								for _, r2 := range *fa.Referrers() {
									if st, isSt := r2.(*ssa.Store); isSt && !instrDominates(st, b) {
										sameKey = false
									}
								}
							}
						}
					}
				}
			}
			if f != fp || !sameKey {
				okAll = false
				return
			}
			for _, x := range valueRoots(mu.Value, func(n string) bool {
				return "(*bytes.Buffer).Bytes" == n || "bytes.Clone" == n || "slices.Clone" == n || "fmt.Appendf" == n || "fmt.Sprintf" == n
			}) {
				switch x.Kind {
				case "alloc", "const", "param":
				default:
					okAll = false
				}
			}
		})
	}
	return okAll && n > 0
}

// perlUnescape decodes a y/// replacement list with \NNN octal escapes.
func perlUnescape(s string) ([]rune, error) {
	var out []rune
	rs := []rune(s)
	for i := 0; i < len(rs); i++ {
		if '\\' != rs[i] {
			out = append(out, rs[i])
			continue
		}
		j := i + 1
		for j < len(rs) && j < i+4 && rs[j] >= '0' && rs[j] <= '7' {
			j++
		}
		if j == i+1 {
			if j < len(rs) {
				out = append(out, rs[j])
				i = j
				continue
			}
			return nil, fmt.Errorf("dangling backslash")
		}
		n, err := strconv.ParseInt(string(rs[i+1:j]), 8, 32)
		if nil != err {
			return nil, err
		}
		out = append(out, rune(n))
		i = j - 1
	}
	return out, nil
}

// templateConst finds the constant text given to (*template.Template).Parse in
// the initialiser of the package variable varName.
// templateAnchors: who executes the template kept in a variable of that
// (reference) name — the way to find it when it has been renamed or moved.
var templateAnchors = map[string][3]string{
	"funcListTemplate": {sffPkg, "", "GenFuncList"},
	"perlTemplate":     {sffPkg, "", "FromPerl"},
}

// templateGlobal: the package-level *template.Template the rules call
// varName: under that name in its package, or in another package of the
// module, or the one the anchor function executes.
func templateGlobal(p *Prog, pkgSuffix, varName string) *ssa.Global {
	if sp := p.SSAPkg[ModPath+"/"+pkgSuffix]; nil != sp {
		if g, ok := sp.Members[varName].(*ssa.Global); ok {
			return g
		}
	}
	var found []*ssa.Global
	for path, sp := range p.SSAPkg {
		if !strings.HasPrefix(path, ModPath) {
			continue
		}
		if g, ok := sp.Members[varName].(*ssa.Global); ok {
			found = append(found, g)
		}
	}
	if 1 == len(found) {
		return found[0]
	}
	if an, ok := templateAnchors[varName]; ok {
		if fn := p.Func(an[0], an[1], an[2]); nil != fn {
			var g *ssa.Global
			n := 0
			for _, f := range withAnons(fn) {
				eachInstr(f, func(i ssa.Instruction) {
					c := callCommon(i)
					if nil == c || "(*text/template.Template).Execute" != calleeName(c) {
						return
					}
					if ld, isLd := c.Args[0].(*ssa.UnOp); isLd && token.MUL == ld.Op {
						if gg, isG := ld.X.(*ssa.Global); isG {
							g = gg
							n++
						}
					}
				})
			}
			if 1 == n {
				return g
			}
		}
	}
	return nil
}

func templateConst(p *Prog, pkgSuffix, varName string) (string, token.Pos) {
	g := templateGlobal(p, pkgSuffix, varName)
	if nil == g || nil == g.Pkg {
		return "", token.NoPos
	}
	sp := g.Pkg
	init := sp.Func("init")
	var text string
	var pos token.Pos
	eachInstr(init, func(i ssa.Instruction) {
		st, ok := i.(*ssa.Store)
		if !ok || st.Addr != ssa.Value(g) {
			return
		}
		for _, x := range valueRoots(st.Val, func(n string) bool {
			return "text/template.Must" == n || "(*text/template.Template).Parse" == n || "text/template.New" == n
		}) {
			if s, ok := constString(x.V); ok && len(s) > len(text) {
				text, pos = s, st.Pos()
			}
			/* The text kept in a file of its own (go:embed). */
			if eg, isG := x.V.(*ssa.Global); isG && "global" == x.Kind && nil != eg.Pkg {
				if q := p.ByPath[eg.Pkg.Pkg.Path()]; nil != q {
					if s, _, err := p.embeddedFileIn(q, eg.Name()); nil == err && len(s) > len(text) {
						text, pos = s, st.Pos()
					}
				}
			}
		}
	})
	return text, pos
}

func checkCleanPerl(p *Prog, ru *Rule, cp *ssa.Function) {
	var split *ssa.Call
	eachInstr(cp, func(i ssa.Instruction) {
		if c, ok := i.(*ssa.Call); ok && "strings.Split" == calleeName(c.Common()) {
			split = c
		}
	})
	c := fnName(cp)
	if nil == split {
		ru.Unproven(c+":split", cp.Pos(), "cleanPerl does not split the script into lines with strings.Split")
		return
	}
	if s, ok := constString(split.Common().Args[1]); !ok || "\n" != s {
		ru.Bad(c+":split", posOf(split), "the script is not split on newlines")
	}
	/* Input: TrimSpace(rawPerl). */
	in := split.Common().Args[0]
	if tc, ok := in.(*ssa.Call); ok && "strings.TrimSpace" == calleeName(tc.Common()) && tc.Common().Args[0] == ssa.Value(cp.Params[0]) {
		ru.OK(c+":input", posOf(split), "lines of TrimSpace(script)")
	} else {
		ru.Bad(c+":input", posOf(split), "the text split into lines is not the whitespace-trimmed script (%s)", rootsString(valueRoots(in, nil)))
	}
	/* Every use of the line slice. */
	nst := 0
	bad := 0
	for _, ref := range *split.Referrers() {
		switch x := ref.(type) {
		case *ssa.DebugRef:
		case *ssa.IndexAddr:
			for _, r2 := range *x.Referrers() {
				if st, ok := r2.(*ssa.Store); ok && st.Addr == ssa.Value(x) {
					nst++
					if s, ok := constString(st.Val); !ok || "" != s {
						bad++
						ru.Bad(c+":element-store", posOf(st), "a line of the program is replaced by something other than the empty string")
					}
				}
			}
		case *ssa.Slice:
			if copiedOnly(x) {
				continue /* a copy of part of the lines, e.g. for the lead comments */
			}
			/* A window onto the leading comment run, lines[:n], which is
			read and then blanked as a whole with clear(): the same
			lines[i] = "" for i < n. */
			if nil == x.Low && nil != x.High && nil == x.Max && boundIsCommentRun(split, x.High) {
				if cleared, ok := commentWindowUses(x, map[ssa.Value]bool{}); ok {
					if cleared > 0 {
						nst += cleared
						ru.OK(c+":leading-run-only", posOf(x), "clear(lines[:n]) with n the length of the leading run of comment lines: exactly those lines are blanked")
					}
					continue
				}
			}
			bad++
			ru.Bad(c+":reslice", posOf(x), "the line slice is re-sliced: lines are dropped from the program text (or its line numbers shift)")
		case *ssa.Call:
			if bi, ok := x.Common().Value.(*ssa.Builtin); ok {
				if "len" == bi.Name() {
					continue
				}
				bad++
				ru.Bad(c+":"+bi.Name(), posOf(x), "the line slice is passed to %s", bi.Name())
				continue
			}
			if cf, _ := closureOf(resolveLocalFunc(x.Common().Value)); nil != cf {
				continue /* rejoin(lines): checked below. */
			}
			name := calleeName(x.Common())
			if "strings.Join" == name {
				continue
			}
			bad++
			ru.Bad(c+"→"+name, posOf(x), "the line slice is passed to %s, which may filter or reorder it", name)
		case *ssa.Phi:
			bad++
			ru.Bad(c+":phi", posOf(x), "the line slice is conditionally replaced by another slice")
		default:
			bad++
			ru.Unproven(c+":use", posOf(ref), "line slice used by %T", ref)
		}
	}
	if 0 == bad {
		ru.OK(c+":only-blanking", posOf(split), "%d element store(s), all of \"\"; the slice itself is never re-sliced, filtered or replaced", nst)
	}
	/* Only the leading run: once a line which is not a comment has been
	seen, no further line is blanked. */
	for _, ref := range *split.Referrers() {
		ia, ok := ref.(*ssa.IndexAddr)
		if !ok {
			continue
		}
		for _, r2 := range *ia.Referrers() {
			st, ok := r2.(*ssa.Store)
			if !ok || st.Addr != ssa.Value(ia) {
				continue
			}
			/* The guard: strings.HasPrefix(line, "#") whose true edge dominates the store. */
			var guard *ssa.If
			for _, b := range cp.Blocks {
				ifi := blockIf(b)
				if nil == ifi {
					continue
				}
				hc, isCall := decodeCond(ifi.Cond).X.(*ssa.Call)
				if !isCall || "strings.HasPrefix" != calleeName(hc.Common()) {
					continue
				}
				if pre, ok := constString(hc.Common().Args[1]); !ok || "#" != pre {
					continue
				}
				if edgeDominates(ifi, 0, st) {
					guard = ifi
				}
			}
			if nil == guard {
				if commentPrefixLoop(cp, split, ia, st) {
					ru.OK(c+":leading-run-only", posOf(st), "blanks indices below slices.IndexFunc(lines, not-a-comment): exactly the leading run of comment lines")
					continue
				}
				ru.Bad(c+":blank-guard", posOf(st), "a line is blanked without having been tested to start with '#'")
				continue
			}
			if nil != (reachQ{From: edgeLoc(guard.Block(), 1), Target: func(i ssa.Instruction) bool { return i == ssa.Instruction(st) }}).run() {
				ru.Bad(c+":leading-run-only", posOf(st), "comment lines after the first line of code can be blanked too: text inside here-documents or multi-line strings starting with '#' would be altered")
			} else {
				ru.OK(c+":leading-run-only", posOf(st), "blanking stops at the first line which is not a comment")
			}
		}
	}
	/* The program text returned is the join of that very slice. */
	eachInstr(cp, func(i ssa.Instruction) {
		ret, ok := i.(*ssa.Return)
		if !ok || 2 != len(ret.Results) {
			return
		}
		v := retVal(ret, 1)
		if s, ok := constString(v); ok && "" == s {
			return
		}
		okk := false
		if call, ok := v.(*ssa.Call); ok {
			if len(call.Common().Args) >= 1 && call.Common().Args[0] == ssa.Value(split) {
				okk = true
			}
		}
		if !okk {
			/* Written out: "" for no lines, else Join(lines, "\n") + "\n". */
			joins, other := 0, false
			for _, x := range valueRoots(v, nil) {
				switch {
				case "const" == x.Kind:
					if cs, isS := constString(x.V); !isS || ("" != cs && "\n" != cs) {
						other = true
					}
				case "call" == x.Kind && "strings.Join" == x.Callee:
					jc := x.V.(*ssa.Call)
					if sep, isS := constString(jc.Common().Args[1]); resolveCell(jc.Common().Args[0]) == ssa.Value(split) && isS && "\n" == sep {
						joins++
					} else {
						other = true
					}
				default:
					other = true
				}
			}
			okk = 1 == joins && !other
		}
		if okk {
			ru.OK(c+":program-text", posOf(ret), "perl receives the join of the (blanked) line slice")
		} else {
			ru.Bad(c+":program-text", posOf(ret), "the program text returned is not the join of the line slice itself (%s)", rootsString(valueRoots(v, nil)))
		}
	})
	/* rejoin: Join(ss, "\n") + "\n". */
	for _, f := range cp.AnonFuncs {
		eachInstr(f, func(i ssa.Instruction) {
			if jc, ok := i.(*ssa.Call); ok && "strings.Join" == calleeName(jc.Common()) {
				if s, ok := constString(jc.Common().Args[1]); ok && "\n" == s && jc.Common().Args[0] == ssa.Value(f.Params[0]) {
					ru.OK(fnName(f)+":join", posOf(jc), "strings.Join(lines, \"\\n\")")
				} else {
					ru.Bad(fnName(f)+":join", posOf(jc), "lines are not re-joined with single newlines")
				}
			}
		})
	}
}

var _ = types.Universe

// checkFilterFeed: every reader handed to a Filter (a call through a value of
// func(string, io.Reader) ([]byte, error)) or to a module function which
// forwards its reader parameter to one is rooted in an opened/read file or the
// caller's own reader parameter, through byte-preserving wrappers only.
func checkFilterFeed(p *Prog, r *Report, ru *Rule) {
	isFilterSig := func(sig *types.Signature) (int, bool) {
		if nil == sig || 2 != sig.Results().Len() || !isErrorType(sig.Results().At(1).Type()) || "[]byte" != sig.Results().At(0).Type().String() {
			return 0, false
		}
		for k := 0; k < sig.Params().Len(); k++ {
			if typeIs(sig.Params().At(k).Type(), "io", "Reader") {
				return k, true
			}
		}
		return 0, false
	}
	preserving := func(n string) bool {
		switch n {
		case "bytes.NewReader", "bytes.NewBuffer", "bytes.NewBufferString", "strings.NewReader", "bufio.NewReader", "bufio.NewReaderSize", "io.ReadAll", "io.NopCloser", "bytes.Clone", "slices.Clone":
			return true
		}
		return false
	}
	sources := func(n string) bool {
		switch n {
		case "os.Open", "os.OpenFile", "os.ReadFile", "io/fs.ReadFile", "(io/fs.FS).Open", "(*os.Root).Open", "os.DirFS", "(io/fs.ReadFileFS).ReadFile":
			return true
		}
		return false
	}
	/* And inside the filters: what they read from their reader is all of
	it (no limiting or sectioning reader in front of the slurp). */
	for _, fn := range p.Funcs() {
		if nil == fn.Pkg || !strings.HasSuffix(fn.Pkg.Pkg.Path(), sffPkg) || nil != fn.Parent() {
			continue
		}
		k, isF := isFilterSig(fn.Signature)
		if !isF || nil != fn.Signature.Recv() || k >= len(fn.Params) {
			continue
		}
		rp := fn.Params[k]
		var lim ssa.Instruction
		limName := ""
		eachInstr(fn, func(i ssa.Instruction) {
			c := callCommon(i)
			if nil == c || nil != lim {
				return
			}
			switch nm := calleeName(c); nm {
			case "io.LimitReader", "io.NewSectionReader", "io.CopyN", "io.ReadFull", "io.ReadAtLeast":
				for _, a := range c.Args {
					if operandsReach(a, func(x ssa.Value) bool { return x == ssa.Value(rp) }) {
						lim, limName = i, nm
					}
				}
			}
		})
		c := fnName(fn) + ":reads-all"
		if nil != lim {
			ru.Bad(c, posOf(lim), "the filter reads its source through %s: a script longer than the limit is converted cut short, without an error", limName)
		} else {
			ru.OK(c, fn.Pos(), "nothing limits what the filter reads from its reader")
		}
	}
	n := 0
	for _, fn := range p.Funcs() {
		if nil == fn.Pkg || !strings.HasSuffix(fn.Pkg.Pkg.Path(), sffPkg) {
			continue
		}
		eachInstr(fn, func(i ssa.Instruction) {
			call, ok := i.(*ssa.Call)
			if !ok {
				return
			}
			cc := call.Common()
			if cc.IsInvoke() {
				return
			}
			var idx int
			var what string
			if sc := cc.StaticCallee(); nil != sc {
				if !inModule(sc) || nil == sc.Pkg || !strings.HasSuffix(sc.Pkg.Pkg.Path(), sffPkg) {
					return
				}
				k, ok := isFilterSig(sc.Signature)
				if !ok {
					return
				}
				idx, what = k, fnName(sc)
				if nil != sc.Signature.Recv() {
					idx++
				}
			} else {
				k, ok := isFilterSig(cc.Signature())
				if !ok {
					return
				}
				idx, what = k, "filter value"
			}
			n++
			c := fmt.Sprintf("%s→%s:reader", fnName(fn), what)
			bad := 0
			for _, x := range valueRoots(cc.Args[idx], preserving) {
				switch x.Kind {
				case "param":
				case "call":
					if !sources(x.Callee) {
						bad++
						ru.Bad(c, posOf(call), "the bytes the filter reads pass through %s on their way from the file: the script which is converted is no longer the file's own text", x.Callee)
					}
				case "alloc":
				default:
					bad++
					ru.Bad(c, posOf(call), "the filter's reader derives from %s", x)
				}
			}
			if 0 == bad {
				ru.OK(c, posOf(call), "the reader is the opened file / the file's bytes / the caller's reader")
			}
		})
	}
	if n < 3 {
		ru.Unproven("filter-call-sites", token.NoPos, "%d calls handing a reader to a filter found; at least 3 expected (two fromReader callers and the filter call)", n)
	}
}

// isEmptyFreshSlice: make([]T, 0[, cap]) made right here.
func isEmptyFreshSlice(v ssa.Value) bool {
	ms, ok := v.(*ssa.MakeSlice)
	if !ok {
		return false
	}
	k, ok := constInt(ms.Len)
	return ok && 0 == k
}

// replacerPairs returns the constant old/new pairs of the *strings.Replacer
// v: a direct strings.NewReplacer call, or a package variable of the module
// initialised with one and never reassigned.
func replacerPairs(p *Prog, v ssa.Value) ([]string, bool) {
	v = resolveCell(v)
	call, _ := v.(*ssa.Call)
	if nil == call {
		u, ok := v.(*ssa.UnOp)
		if !ok || token.MUL != u.Op {
			return nil, false
		}
		g, ok := u.X.(*ssa.Global)
		if !ok || nil == g.Pkg || !strings.HasPrefix(g.Pkg.Pkg.Path(), ModPath) {
			return nil, false
		}
		n := 0
		scan := func(fn *ssa.Function) {
			eachInstr(fn, func(i ssa.Instruction) {
				if st, ok := i.(*ssa.Store); ok && st.Addr == ssa.Value(g) {
					n++
					call, _ = st.Val.(*ssa.Call)
				}
			})
		}
		if ini := g.Pkg.Func("init"); nil != ini {
			scan(ini)
		}
		for _, fn := range p.Funcs() {
			scan(fn)
		}
		if 1 != n {
			return nil, false
		}
	}
	if nil == call || "strings.NewReplacer" != calleeName(call.Common()) {
		return nil, false
	}
	els := variadicElems(call.Common())
	if 0 == len(els) || 0 != len(els)%2 {
		return nil, false
	}
	out := make([]string, len(els))
	/* variadicElems is in referrer order; recover the index order. */
	sl, _ := call.Common().Args[len(call.Common().Args)-1].(*ssa.Slice)
	if nil == sl {
		return nil, false
	}
	al, _ := sl.X.(*ssa.Alloc)
	if nil == al {
		return nil, false
	}
	els2, ok := literalElems(al)
	if !ok {
		return nil, false
	}
	for k := int64(0); k < int64(len(els2)); k++ {
		s, ok := constString(stripConv(els2[k], false))
		if !ok {
			return nil, false
		}
		out[k] = s
	}
	return out, true
}

// copiedOnly: every use of the sub-slice x reads it or copies it; nothing
// derived from it can stand in for the line slice itself.
func copiedOnly(x *ssa.Slice) bool {
	ok := true
	for _, ref := range *x.Referrers() {
		switch r := ref.(type) {
		case *ssa.DebugRef:
		case *ssa.Call:
			if bi, isB := r.Common().Value.(*ssa.Builtin); isB && "len" == bi.Name() {
				continue
			}
			switch calleeName(r.Common()) {
			case "slices.Clone", "strings.Join":
				continue
			}
			if strings.HasPrefix(calleeName(r.Common()), "slices.Clone[") {
				continue
			}
			ok = false
		case *ssa.IndexAddr:
			for _, r2 := range *r.Referrers() {
				if st, isSt := r2.(*ssa.Store); isSt && st.Addr == ssa.Value(r) {
					ok = false
				}
			}
		default:
			ok = false
		}
	}
	return ok
}

// commentPrefixLoop: the blanking store st (at index address ia of the line
// slice) runs for i in [0, n) where n is slices.IndexFunc(lines, f), or
// len(lines) when that is -1, and f(x) is !strings.HasPrefix(x, "#").
func commentPrefixLoop(cp *ssa.Function, lines ssa.Value, ia *ssa.IndexAddr, st *ssa.Store) bool {
	/* The loop test i < n which dominates the store. */
	var bound ssa.Value
	for _, b := range cp.Blocks {
		ifi := blockIf(b)
		if nil == ifi {
			continue
		}
		bo, ok := ifi.Cond.(*ssa.BinOp)
		if !ok || token.LSS != bo.Op || bo.X != ia.Index {
			continue
		}
		if edgeDominates(ifi, 0, st) {
			bound = bo.Y
		}
	}
	if nil == bound {
		/* The rotated form of for i := range n: the body is entered
		over "0 < n" and re-entered over "i+1 < n". */
		ph, ok := ia.Index.(*ssa.Phi)
		if !ok || ph.Block() != st.Block() && !ph.Block().Dominates(st.Block()) {
			return false
		}
		var n ssa.Value
		for k, e := range ph.Edges {
			pred := ph.Block().Preds[k]
			ifi := blockIf(pred)
			if nil == ifi || pred.Succs[0] != ph.Block() {
				return false
			}
			bo, ok := ifi.Cond.(*ssa.BinOp)
			if !ok || token.LSS != bo.Op {
				return false
			}
			if z, isC := constInt(e); isC && 0 == z {
				if z2, isC2 := constInt(bo.X); !isC2 || 0 != z2 {
					return false
				}
			} else if add, isAdd := e.(*ssa.BinOp); isAdd && token.ADD == add.Op && add.X == ssa.Value(ph) && bo.X == ssa.Value(add) {
				if one, isC := constInt(add.Y); !isC || 1 != one {
					return false
				}
			} else {
				return false
			}
			if nil != n && n != bo.Y {
				return false
			}
			n = bo.Y
		}
		if nil == n {
			return false
		}
		return boundIsCommentRun(lines, n)
	}
	/* The index starts at 0 and steps by one. */
	okIdx := false
	if add, ok := ia.Index.(*ssa.BinOp); ok && token.ADD == add.Op {
		if ph, ok := add.X.(*ssa.Phi); ok {
			if one, ok := constInt(add.Y); ok && 1 == one {
				for _, e := range ph.Edges {
					if k, ok := constInt(e); ok && -1 == k {
						okIdx = true
					}
				}
			}
		}
	}
	if ph, ok := ia.Index.(*ssa.Phi); ok {
		for _, e := range ph.Edges {
			if k, ok := constInt(e); ok && 0 == k {
				okIdx = true
			}
		}
	}
	if !okIdx {
		return false
	}
	return boundIsCommentRun(lines, bound)
}

// boundIsCommentRun: bound is slices.IndexFunc(lines, not-a-comment), or
// len(lines) where that found nothing.
func boundIsCommentRun(lines, bound ssa.Value) bool {
	if isCommentCount(lines, bound) {
		return true
	}
	nIdx := 0
	for _, l := range phiLeaves(bound) {
		switch x := l.V.(type) {
		case *ssa.Call:
			name := calleeName(x.Common())
			if bi, ok := x.Common().Value.(*ssa.Builtin); ok && "len" == bi.Name() && x.Common().Args[0] == lines {
				continue
			}
			if !strings.HasPrefix(name, "slices.IndexFunc") || x.Common().Args[0] != lines {
				return false
			}
			f, _ := closureOf(x.Common().Args[1])
			if nil == f || !isNotCommentPredicate(f) {
				return false
			}
			nIdx++
		case *ssa.BinOp:
			/* The index at which a range over the lines stopped: the
			first line which does not start with '#'. */
			if !isFirstNonCommentIndex(lines, x, l.From) {
				return false
			}
			nIdx++
		default:
			return false
		}
	}
	return 1 == nIdx
}

// isFirstNonCommentIndex: v is the index of a range over lines, taken where
// the loop is left (over `from`) because lines[v] does not start with '#',
// the loop going round only over "it does".
func isFirstNonCommentIndex(lines ssa.Value, v *ssa.BinOp, from *ssa.BasicBlock) bool {
	if token.ADD != v.Op || nil == from {
		return false
	}
	ph, ok := v.X.(*ssa.Phi)
	if !ok {
		return false
	}
	if one, isC := constInt(v.Y); !isC || 1 != one {
		return false
	}
	h := ph.Block()
	if v.Block() != h {
		return false
	}
	for k, e := range ph.Edges {
		if h.Dominates(h.Preds[k]) {
			if e != ssa.Value(v) {
				return false
			}
		} else if c, isC := constInt(e); !isC || -1 != c {
			return false
		}
	}
	/* The test of lines[v]. */
	var test *ssa.If
	trueSucc := 0
	for _, b := range v.Parent().Blocks {
		ifi := blockIf(b)
		if nil == ifi || !h.Dominates(b) {
			continue
		}
		dc := decodeCond(ifi.Cond)
		hc, isCall := dc.X.(*ssa.Call)
		if !isCall || nil != dc.Y || "strings.HasPrefix" != calleeName(hc.Common()) {
			continue
		}
		if pre, isC := constString(hc.Common().Args[1]); !isC || "#" != pre {
			continue
		}
		ld, isLd := hc.Common().Args[0].(*ssa.UnOp)
		if !isLd || token.MUL != ld.Op {
			continue
		}
		ia, isIA := ld.X.(*ssa.IndexAddr)
		if !isIA || ia.X != lines || ia.Index != ssa.Value(v) {
			continue
		}
		test = ifi
		trueSucc = 1
		if dc.Eq {
			trueSucc = 0
		}
	}
	if nil == test {
		return false
	}
	/* Round again only over "starts with #". */
	for _, pred := range h.Preds {
		if !h.Dominates(pred) {
			continue
		}
		last := pred.Instrs[len(pred.Instrs)-1]
		if pred == test.Block() {
			if pred.Succs[trueSucc] != h || pred.Succs[1-trueSucc] == h {
				return false
			}
			continue
		}
		if !edgeDominates(test, trueSucc, last) {
			return false
		}
	}
	/* Left, with this index, over "does not". */
	if from == test.Block() {
		/* The other way out of this block goes straight round. */
		return from.Succs[trueSucc] == h && from.Succs[1-trueSucc] != h
	}
	return edgeDominates(test, 1-trueSucc, from.Instrs[len(from.Instrs)-1])
}

// isNotCommentPredicate: f(x) returns !strings.HasPrefix(x, "#") on every path.
func isNotCommentPredicate(f *ssa.Function) bool {
	if 1 != len(f.Params) {
		return false
	}
	n, ok := 0, true
	eachInstr(f, func(i ssa.Instruction) {
		ret, isRet := i.(*ssa.Return)
		if !isRet || 1 != len(ret.Results) {
			return
		}
		n++
		u, isNot := ret.Results[0].(*ssa.UnOp)
		if !isNot || token.NOT != u.Op {
			ok = false
			return
		}
		c, isCall := u.X.(*ssa.Call)
		if !isCall || "strings.HasPrefix" != calleeName(c.Common()) || c.Common().Args[0] != ssa.Value(f.Params[0]) {
			ok = false
			return
		}
		if pre, isC := constString(c.Common().Args[1]); !isC || "#" != pre {
			ok = false
		}
	})
	return ok && 1 == n
}

// sameTable: two containers of cell reads are one table.
func sameTable(a, b ssa.Value) bool {
	ra, rb := resolveCell(a), resolveCell(b)
	if ra == rb {
		return true
	}
	/* Two loads of one package-level variable, or two copies of one array. */
	la, ok1 := ra.(*ssa.UnOp)
	lb, ok2 := rb.(*ssa.UnOp)
	return ok1 && ok2 && token.MUL == la.Op && token.MUL == lb.Op && la.X == lb.X
}

// runeMapPairs reads a func(rune) rune which maps some constant characters to
// constant characters and returns every other character unchanged.
func runeMapPairs(f *ssa.Function) (pairs [][2]int64, why string) {
	if nil == f || 1 != len(f.Params) || nil == f.Blocks {
		return nil, "the mapping function is not a function literal or named function with one parameter"
	}
	r := ssa.Value(f.Params[0])
	returnsFrom := func(start *ssa.BasicBlock, noEdges map[Edge]bool) []*ssa.Return {
		var out []*ssa.Return
		seen := map[*ssa.BasicBlock]bool{}
		var walk func(b *ssa.BasicBlock)
		walk = func(b *ssa.BasicBlock) {
			if seen[b] {
				return
			}
			seen[b] = true
			for _, i := range b.Instrs {
				if ret, ok := i.(*ssa.Return); ok {
					out = append(out, ret)
				}
			}
			for _, sc := range b.Succs {
				if !noEdges[Edge{b.Index, sc.Index}] {
					walk(sc)
				}
			}
		}
		walk(start)
		return out
	}
	trueEdges := map[Edge]bool{}
	for _, b := range f.Blocks {
		ifi := blockIf(b)
		if nil == ifi {
			continue
		}
		dc := decodeCond(ifi.Cond)
		if dc.X != r || nil == dc.Y {
			return nil, "a branch of the mapping function tests something other than the character against a constant"
		}
		from, ok := constInt(dc.Y)
		if !ok {
			return nil, "the character is compared with a non-constant"
		}
		k := 1
		if dc.Eq {
			k = 0
		}
		trueEdges[Edge{b.Index, b.Succs[k].Index}] = true
		var to int64 = -1
		for _, ret := range returnsFrom(b.Succs[k], nil) {
			v, isC := constInt(retVal(ret, 0))
			if !isC || v < 0 || (-1 != to && v != to) {
				return nil, "a named character is not mapped to one constant character"
			}
			to = v
		}
		if to < 0 {
			return nil, "a named character has no stand-in"
		}
		pairs = append(pairs, [2]int64{from, to})
	}
	for _, ret := range returnsFrom(f.Blocks[0], trueEdges) {
		if retVal(ret, 0) != r {
			return nil, "characters which are not named are not returned unchanged"
		}
	}
	if 0 == len(pairs) {
		return nil, "no character is mapped"
	}
	return pairs, ""
}

// isCommentCount: bound counts the leading comment lines: it starts at 0 and
// is stepped by one only right after strings.HasPrefix(lines[bound], "#") held,
// so every line below it starts with '#'.
func isCommentCount(lines, bound ssa.Value) bool {
	ph, ok := bound.(*ssa.Phi)
	if !ok {
		return false
	}
	var inc *ssa.BinOp
	zero := false
	for _, e := range ph.Edges {
		if k, isC := constInt(e); isC {
			if 0 != k {
				return false
			}
			zero = true
			continue
		}
		b, isB := e.(*ssa.BinOp)
		if !isB || token.ADD != b.Op || b.X != ssa.Value(ph) {
			return false
		}
		if one, isC := constInt(b.Y); !isC || 1 != one {
			return false
		}
		if nil != inc && inc != b {
			return false
		}
		inc = b
	}
	if !zero || nil == inc {
		return false
	}
	/* The step's block is entered only over the "starts with #" edge of a
	test of lines[bound]. */
	blk := inc.Block()
	if 1 != len(blk.Preds) {
		return false
	}
	ifi := blockIf(blk.Preds[0])
	if nil == ifi {
		return false
	}
	dc := decodeCond(ifi.Cond)
	hc, isCall := dc.X.(*ssa.Call)
	if !isCall || nil != dc.Y || "strings.HasPrefix" != calleeName(hc.Common()) {
		return false
	}
	if pre, isC := constString(hc.Common().Args[1]); !isC || "#" != pre {
		return false
	}
	trueSucc := 1
	if dc.Eq {
		trueSucc = 0
	}
	if blk.Preds[0].Succs[trueSucc] != blk || blk.Preds[0].Succs[1-trueSucc] == blk {
		return false
	}
	ld, isLd := hc.Common().Args[0].(*ssa.UnOp)
	if !isLd || token.MUL != ld.Op {
		return false
	}
	ia, isIA := ld.X.(*ssa.IndexAddr)
	if !isIA || ia.X != lines || ia.Index != ssa.Value(ph) {
		return false
	}
	/* No line is rewritten while counting. */
	h := ph.Block()
	okNoStore := true
	eachInstr(ph.Parent(), func(i ssa.Instruction) {
		st, isSt := i.(*ssa.Store)
		if !isSt {
			return
		}
		if sia, isIA := st.Addr.(*ssa.IndexAddr); isIA && sia.X == lines {
			if h.Dominates(st.Block()) && canReach(locOf(st), ph.Block().Instrs[len(ph.Block().Instrs)-1]) && st.Block() == blk {
				okNoStore = false
			}
		}
	})
	return okNoStore
}

// inPlaceBytePairs: element stores S[i] = constant which happen exactly when
// the element read at the same index of the same slice equals another
// constant, in a loop which visits every index.  Returns the (from, to) pairs;
// nil if any element store of such a slice has another form.
func inPlaceBytePairs(fn *ssa.Function) [][2]int64 {
	var out [][2]int64
	ok := true
	eachInstr(fn, func(i ssa.Instruction) {
		st, isSt := i.(*ssa.Store)
		if !isSt {
			return
		}
		ia, isIA := st.Addr.(*ssa.IndexAddr)
		if !isIA || !isByteSlice(ia.X.Type()) {
			return
		}
		to, isC := constInt(st.Val)
		if !isC {
			return /* not a substitution (an encoder writing its output, …) */
		}
		if !rangesOverAll(ia.Index, ia.X, -1) {
			ok = false
			return
		}
		/* The guard: load(S[i]) == from, true edge dominating the store. */
		found := false
		for _, b := range fn.Blocks {
			ifi := blockIf(b)
			if nil == ifi {
				continue
			}
			dc := decodeCond(ifi.Cond)
			from, isFrom := int64(0), false
			if nil != dc.Y {
				from, isFrom = constInt(dc.Y)
			}
			ld, isLd := dc.X.(*ssa.UnOp)
			if !isFrom || !isLd || token.MUL != ld.Op {
				continue
			}
			lia, isLIA := ld.X.(*ssa.IndexAddr)
			if !isLIA || lia.X != ia.X || lia.Index != ia.Index {
				continue
			}
			k := 1
			if dc.Eq {
				k = 0
			}
			if edgeDominates(ifi, k, st) {
				out = append(out, [2]int64{from, to})
				found = true
			}
		}
		if !found {
			ok = false
		}
	})
	if !ok {
		return nil
	}
	return out
}

// templateFeed: the values from which the data handed to the template's
// Execute in fn is computed (operands of operands; what was put into the map
// or struct passed; what was stored into the locals read).  nil when no
// Execute call is found.
func templateFeed(fn *ssa.Function) map[ssa.Value]bool {
	var data ssa.Value
	eachInstr(fn, func(i ssa.Instruction) {
		if c, ok := i.(*ssa.Call); ok && strings.HasSuffix(calleeName(c.Common()), "template.Template).Execute") && 3 == len(c.Common().Args) {
			data = c.Common().Args[2]
		}
	})
	if nil == data {
		return nil
	}
	seen := map[ssa.Value]bool{}
	var walk func(v ssa.Value)
	walk = func(v ssa.Value) {
		v = resolveFree(v)
		if nil == v || seen[v] {
			return
		}
		seen[v] = true
		switch x := v.(type) {
		case *ssa.MakeMap:
			for _, ref := range *x.Referrers() {
				if mu, ok := ref.(*ssa.MapUpdate); ok && mu.Map == ssa.Value(x) {
					walk(mu.Value)
				}
			}
		case *ssa.Alloc:
			for _, ref := range *x.Referrers() {
				switch y := ref.(type) {
				case *ssa.Store:
					if y.Addr == ssa.Value(x) {
						walk(y.Val)
					}
				case *ssa.FieldAddr:
					for _, r2 := range *y.Referrers() {
						if st, ok := r2.(*ssa.Store); ok && st.Addr == ssa.Value(y) {
							walk(st.Val)
						}
					}
				case *ssa.IndexAddr:
					for _, r2 := range *y.Referrers() {
						if st, ok := r2.(*ssa.Store); ok && st.Addr == ssa.Value(y) {
							walk(st.Val)
						}
					}
				}
			}
		}
		if i, ok := v.(ssa.Instruction); ok {
			var ops []*ssa.Value
			for _, o := range i.Operands(ops) {
				if nil != *o {
					walk(*o)
				}
			}
		}
	}
	walk(data)
	return seen
}

// commentWindowUses: every use of the window w (and of the windows cut from
// it without a new upper bound, and of the variables they are merged into)
// reads it — len, an element load, strings.Join, slices.Clone — or clears it
// with the builtin.  Returns the number of clear calls.
func commentWindowUses(w ssa.Value, seen map[ssa.Value]bool) (int, bool) {
	if seen[w] {
		return 0, true
	}
	seen[w] = true
	n := 0
	for _, ref := range *w.Referrers() {
		switch r := ref.(type) {
		case *ssa.DebugRef:
		case *ssa.Call:
			if bi, isB := r.Common().Value.(*ssa.Builtin); isB {
				switch bi.Name() {
				case "len":
					continue
				case "clear":
					n++
					continue
				}
				return 0, false
			}
			switch name := calleeName(r.Common()); {
			case "strings.Join" == name, "slices.Clone" == name, strings.HasPrefix(name, "slices.Clone["):
				continue
			case strings.HasPrefix(name, "slices.IndexFunc"), strings.HasPrefix(name, "slices.ContainsFunc"), strings.HasPrefix(name, "slices.Index["), strings.HasPrefix(name, "slices.Contains["):
				/* Searched, not changed (the predicate is handed the
				elements by value). */
				if len(r.Common().Args) > 0 && r.Common().Args[0] == w {
					continue
				}
			}
			return 0, false
		case *ssa.IndexAddr:
			for _, r2 := range *r.Referrers() {
				if st, isSt := r2.(*ssa.Store); isSt && st.Addr == ssa.Value(r) {
					if s, ok := constString(st.Val); !ok || "" != s {
						return 0, false
					}
					n++
				}
			}
		case *ssa.Slice:
			if nil != r.High || nil != r.Max || r.X != w {
				return 0, false
			}
			k, ok := commentWindowUses(r, seen)
			if !ok {
				return 0, false
			}
			n += k
		case *ssa.Phi:
			k, ok := commentWindowUses(r, seen)
			if !ok {
				return 0, false
			}
			n += k
		default:
			return 0, false
		}
	}
	return n, true
}
