package main

// copyloop.go: recognition of a hand-written "copy until EOF" loop
//
//	for { n, rerr := src.Read(buf); if n > 0 { dst.Write(buf[:n]) ... }; if rerr ... }
//
// with the conditions which make it lossless: what a Read returned is written
// (whole, before the Read's error is acted on and before the next Read), and
// the loop is left only because a read or write failed or came up short.

import (
	"fmt"
	"go/token"
	"go/types"

	"golang.org/x/tools/go/ssa"
)

type copyLoop struct {
	Read, Write *ssa.Call
	Src, Dst    ssa.Value
	Problems    []string
}

func isInvokeOf(c *ssa.CallCommon, method string) bool {
	if c.IsInvoke() {
		return method == c.Method.Name()
	}
	if sc := c.StaticCallee(); nil != sc && nil != sc.Signature.Recv() {
		return method == sc.Name()
	}
	return false
}

func invokeRecv(c *ssa.CallCommon) ssa.Value {
	if c.IsInvoke() {
		return c.Value
	}
	if 0 != len(c.Args) {
		return c.Args[0]
	}
	return nil
}

func invokeArg(c *ssa.CallCommon, k int) ssa.Value {
	if c.IsInvoke() {
		if k < len(c.Args) {
			return c.Args[k]
		}
		return nil
	}
	if k+1 < len(c.Args) {
		return c.Args[k+1]
	}
	return nil
}

// findCopyLoops returns the Read→Write loops of fn.
func findCopyLoops(fn *ssa.Function) []copyLoop {
	var out []copyLoop
	eachInstr(fn, func(i ssa.Instruction) {
		rd, ok := i.(*ssa.Call)
		if !ok || !isInvokeOf(rd.Common(), "Read") || !canReach(locOf(rd), rd) {
			return
		}
		buf := invokeArg(rd.Common(), 0)
		n, rerr := extractOf(rd, 0), extractOf(rd, 1)
		if nil == buf || nil == n || nil == rerr {
			return
		}
		var wr *ssa.Call
		var sent *ssa.Phi
		eachInstr(fn, func(j ssa.Instruction) {
			w, ok := j.(*ssa.Call)
			if !ok || !isInvokeOf(w.Common(), "Write") {
				return
			}
			sl, ok := invokeArg(w.Common(), 0).(*ssa.Slice)
			if !ok || sl.High != ssa.Value(n) || (resolveCell(sl.X) != resolveCell(buf) && resolveCell(sl.X) != wholeArrayOf(buf)) {
				return
			}
			if nil != sl.Low {
				/* buf[sent:n], sent counting what the writes so far took:
				the write is repeated until everything has gone. */
				ph, isPhi := sl.Low.(*ssa.Phi)
				m := extractOf(w, 0)
				if !isPhi || nil == m {
					return
				}
				okSent := len(ph.Edges) >= 2
				for _, e := range ph.Edges {
					if k, isC := constInt(e); isC && 0 == k {
						continue
					}
					if bo, isBo := e.(*ssa.BinOp); isBo && token.ADD == bo.Op && ((bo.X == ssa.Value(ph) && bo.Y == ssa.Value(m)) || (bo.Y == ssa.Value(ph) && bo.X == ssa.Value(m))) {
						continue
					}
					okSent = false
				}
				if !okSent {
					return
				}
				sent = ph
			}
			wr = w
		})
		if nil == wr {
			return
		}
		cl := copyLoop{Read: rd, Write: wr, Src: invokeRecv(rd.Common()), Dst: invokeRecv(wr.Common())}
		/* Edges on which n is known to be zero (or negative). */
		zero := map[Edge]bool{}
		for _, b := range fn.Blocks {
			ifi := blockIf(b)
			if nil == ifi {
				continue
			}
			bo, ok := ifi.Cond.(*ssa.BinOp)
			if !ok {
				continue
			}
			x, y, op := bo.X, bo.Y, bo.Op
			if nil != sent {
				/* sent < n fails: nothing was read, or all of it has been
				written by now. */
				switch {
				case x == ssa.Value(sent) && y == ssa.Value(n) && token.LSS == op, x == ssa.Value(n) && y == ssa.Value(sent) && token.GTR == op:
					zero[Edge{b.Index, b.Succs[1].Index}] = true
					continue
				case x == ssa.Value(sent) && y == ssa.Value(n) && token.GEQ == op, x == ssa.Value(n) && y == ssa.Value(sent) && token.LEQ == op:
					zero[Edge{b.Index, b.Succs[0].Index}] = true
					continue
				}
			}
			if k, isC := constInt(x); isC && 0 == k && y == ssa.Value(n) {
				/* 0 op n  ≡  n op' 0 */
				switch op {
				case token.LSS:
					op = token.GTR
				case token.GTR:
					op = token.LSS
				case token.LEQ:
					op = token.GEQ
				case token.GEQ:
					op = token.LEQ
				}
				x, y = y, x
			}
			if k, isC := constInt(y); !isC || 0 != k || x != ssa.Value(n) {
				continue
			}
			switch op {
			case token.GTR, token.NEQ: /* n > 0, n != 0: false edge is the zero edge */
				zero[Edge{b.Index, b.Succs[1].Index}] = true
			case token.EQL, token.LEQ: /* n == 0, n <= 0: true edge */
				zero[Edge{b.Index, b.Succs[0].Index}] = true
			}
		}
		/* A. What was read is written before the next Read or the end. */
		if miss := (reachQ{From: locOf(rd), NoEdges: zero, Block: func(j ssa.Instruction) bool { return j == ssa.Instruction(wr) },
			Target: func(j ssa.Instruction) bool { return j == ssa.Instruction(rd) || isReturn(j) }}).run(); nil != miss {
			cl.Problems = append(cl.Problems, fmt.Sprintf("bytes returned by Read can be dropped: a path reaches %s without writing them", describeInstr(miss)))
		}
		/* B. The loop is left only over a failure edge. */
		werr, nw := extractOf(wr, 1), extractOf(wr, 0)
		type exitEdge struct {
			ifi  *ssa.If
			succ int
		}
		var exits []exitEdge
		for _, b := range fn.Blocks {
			ifi := blockIf(b)
			if nil == ifi {
				continue
			}
			dc := decodeCond(ifi.Cond)
			nonEq := 1 /* successor on which X != Y */
			if !dc.Eq {
				nonEq = 0
			}
			switch {
			case nil != dc.Y && isNilConst(dc.Y) && (dc.X == ssa.Value(rerr) || (nil != werr && dc.X == ssa.Value(werr))):
				exits = append(exits, exitEdge{ifi, nonEq})
			case nil != dc.Y && dc.X == ssa.Value(rerr) && "EOF" == globalLoadName(dc.Y),
				nil != dc.Y && dc.Y == ssa.Value(rerr) && "EOF" == globalLoadName(dc.X):
				exits = append(exits, exitEdge{ifi, 1 - nonEq})
			case nil != dc.Y && nil != nw && ((dc.X == ssa.Value(nw) && dc.Y == ssa.Value(n)) || (dc.X == ssa.Value(n) && dc.Y == ssa.Value(nw))):
				exits = append(exits, exitEdge{ifi, nonEq})
			}
			/* nw < n */
			if bo, ok := ifi.Cond.(*ssa.BinOp); ok && nil != nw && token.LSS == bo.Op && bo.X == ssa.Value(nw) && bo.Y == ssa.Value(n) {
				exits = append(exits, exitEdge{ifi, 0})
			}
		}
		eachInstr(fn, func(j ssa.Instruction) {
			if !isReturn(j) || !canReach(locOf(rd), j) {
				return
			}
			if nil != fn.Recover && j.Block() == fn.Recover {
				return
			}
			for _, e := range exits {
				if edgeDominates(e.ifi, e.succ, j) {
					return
				}
			}
			/* Several failure edges which meet before one return (the
			copy was a function of its own, folded in): no way here
			avoids all of them. */
			cut := map[Edge]bool{}
			for _, e := range exits {
				cut[Edge{e.ifi.Block().Index, e.ifi.Block().Succs[e.succ].Index}] = true
			}
			if 0 != len(cut) && nil == (reachQ{From: locOf(rd), NoEdges: cut, Target: func(k ssa.Instruction) bool { return k == j }}).run() {
				return
			}
			/* Giving up with io.ErrShortWrite (or the like) below a test
			of what the write took is a failure too. */
			if ret := j.(*ssa.Return); nil != nw && 0 != len(ret.Results) {
				if g := globalLoadName(ret.Results[len(ret.Results)-1]); len(g) > 3 && "Err" == g[:3] {
					for _, b := range fn.Blocks {
						ifi := blockIf(b)
						if nil == ifi || !operandsReach(ifi.Cond, func(x ssa.Value) bool { return x == ssa.Value(nw) }) {
							continue
						}
						if edgeDominates(ifi, 0, j) || edgeDominates(ifi, 1, j) {
							return
						}
					}
				}
			}
			cl.Problems = append(cl.Problems, "the copy can stop although reading and writing succeeded (a return not caused by an error or a short write)")
		})
		out = append(out, cl)
	})
	return out
}

func describeInstr(i ssa.Instruction) string {
	if isReturn(i) {
		return "the end of the copy"
	}
	return "the next Read"
}

// wholeArrayOf: v is a[:] of a pointer to an array: that pointer.
func wholeArrayOf(v ssa.Value) ssa.Value {
	sl, ok := resolveCell(v).(*ssa.Slice)
	if !ok || nil != sl.Low || nil != sl.High || nil != sl.Max {
		return nil
	}
	if _, isP := sl.X.Type().Underlying().(*types.Pointer); !isP {
		return nil
	}
	return resolveCell(sl.X)
}
