package main

// C19 — Ctrl+O mutes only shell output, ends by itself after calm, loses
// nothing else (structural part).

import (
	"fmt"
	"go/token"
	"go/types"
	"strings"

	"golang.org/x/tools/go/ssa"
)

const opsPkg = "lib/opshell"

func init() {
	register("C19", &propDef{
		Run:         checkC19,
		Explanation: "Static decision of the mute state machine's structure in lib/opshell. (1) Who mutes: the only store of true into Shell.silenced is in the control-character callback, below the key == 0x0F (Ctrl+O) edge and below the 'not already muted' edge; on the already-muted edge nothing is written and the timer is not touched, so repeated Ctrl+O cannot postpone un-muting. (2) Who is muted: Shell.silenced is read only by the plain-write function, the callback and the timer function; Logf/logf and the non-plain branch of the output handler never consult it, so status and log lines are always written; the terminal write of plain output is below the not-silenced edge. (3) Un-mute guard: the only store of false is in the timer function, below the edge on which time.Since(lastPlainWrite) has reached PlainWritePause (the constant 2s), and is followed by the announcement; on the other edge the timer is re-armed. (4) The timer is armed on the muting path and on every suppressed plain write, which also records the time of that write; resetSilenceTimer arms the one timer for lastPlainWrite+PlainWritePause. (5) All accesses to silenced / lastPlainWrite and all timer resets happen with Shell.wL held. When the timer actually fires (wall-clock behaviour) is not decided. Also: on the muting path and on every suppressed write both the time store and the timer reset are passed; resetSilenceTimer resets on all paths; writePlain is called only from the output path; and the control-key callback does not acquire Shell.wL on its own stack while some function holds wL across a goxterm.Terminal call (lock order).",
		Assumptions: []string{"time.AfterFunc/Timer.Reset run the function once after the duration; goxterm calls ControlCharacterCallback for control keys"},
	})
}

func checkC19(p *Prog, r *Report) {
	rAnch := r.Rule("anchors", "state fields, the control-key callback, the timer function and the plain-write function are identified through type information")
	rMute := r.Rule("who-mutes", "silenced=true only on Ctrl+O when not already muted; repeated Ctrl+O changes nothing")
	rRead := r.Rule("who-is-muted", "only plain writes consult the flag; the terminal write of plain output is below the not-silenced edge")
	rUn := r.Rule("unmute-guard", "silenced=false only in the timer function after a full pause without plain writes, then announced; otherwise the timer is re-armed")
	rArm := r.Rule("timer-armed", "the timer is armed when muting and on every suppressed write, for lastPlainWrite+PlainWritePause")
	rLock := r.Rule("one-lock", "every access to the mute state happens with Shell.wL held")

	/* The mute state is identified by what is done with it, wherever it sits
	in the Shell (loose fields or a nested struct, whatever the names):
	the timer is the *time.Timer storage which receives time.AfterFunc's
	result; the flag is the boolean storage written by the function given to
	AfterFunc; the time of the last suppressed write is the time.Time
	storage which receives time.Now(); the lock is the mutex the
	plain-write function takes. */
	var sil, last, tim, wl *types.Var
	{
		inShell := map[*types.Var]bool{}
		if pk := p.Pkg(opsPkg); nil != pk {
			if tn, ok := lookupObj(pk, "Shell").(*types.TypeName); ok {
				for _, l := range brokerLeaves(tn.Type(), "s", nil, 0) {
					if nil != l.Var {
						inShell[l.Var] = true
					}
				}
			}
		}
		var tfn *ssa.Function
		for _, fn := range p.Funcs() {
			eachInstr(fn, func(i ssa.Instruction) {
				st, ok := i.(*ssa.Store)
				if !ok {
					return
				}
				fv, _ := fieldAddrOf(st.Addr)
				if nil == fv || !inShell[fv] {
					return
				}
				if c, ok := st.Val.(*ssa.Call); ok {
					switch calleeName(c.Common()) {
					case "time.AfterFunc":
						if nil == tim {
							tim = fv
							tfn, _ = closureOf(c.Common().Args[1])
						}
					case "time.Now":
						if nil == last && typeIs(fv.Type(), "time", "Time") {
							last = fv
						}
					}
				}
			})
		}
		if nil != tfn {
			for _, f := range withAnons(tfn) {
				eachInstr(f, func(i ssa.Instruction) {
					if st, ok := i.(*ssa.Store); ok {
						if fv, _ := fieldAddrOf(st.Addr); nil != fv && inShell[fv] && isBoolType(fv.Type()) && nil == sil {
							sil = fv
						}
					}
				})
			}
		}
		if wpf := p.Func(opsPkg, "Shell", "writePlain"); nil != wpf {
			/* Directly, or in the one caller which locks around it. */
			cands := []*ssa.Function{wpf}
			for _, ci := range p.callersOf(wpf) {
				cands = append(cands, ci.Parent())
			}
			for _, f := range cands {
				eachInstr(f, func(i ssa.Instruction) {
					if c := callCommon(i); nil != c && "(*sync.Mutex).Lock" == calleeName(c) && nil == wl {
						if fv, _ := fieldAddrOf(c.Args[0]); nil != fv && inShell[fv] {
							wl = fv
						}
					}
				})
			}
		}
	}
	if nil == sil || nil == last || nil == tim || nil == wl {
		rAnch.Unproven("opshell.Shell", token.NoPos, "the mute state was not identified in opshell.Shell (flag written by the AfterFunc function: %v; time.Now() storage: %v; AfterFunc timer: %v; lock of the plain-write path: %v)", nil != sil, nil != last, nil != tim, nil != wl)
		return
	}
	/* PlainWritePause. */
	var pause int64 = -1
	if pk := p.Pkg(opsPkg); nil != pk {
		if c, ok := lookupObj(pk, "PlainWritePause").(*types.Const); ok {
			fmt.Sscan(c.Val().ExactString(), &pause)
		} else {
			/* Under another name: the package's only time.Duration
			constant. */
			var ds []*types.Const
			for _, n := range pk.Types.Scope().Names() {
				if c, ok := pk.Types.Scope().Lookup(n).(*types.Const); ok && "time.Duration" == c.Type().String() {
					ds = append(ds, c)
				}
			}
			if 1 == len(ds) {
				fmt.Sscan(ds[0].Val().ExactString(), &pause)
			}
		}
	}
	if 2_000_000_000 == pause {
		rUn.OK("const PlainWritePause", token.NoPos, "2s")
	} else {
		rUn.Bad("const PlainWritePause", token.NoPos, "PlainWritePause is %dns, documented as two seconds", pause)
	}

	/* Anchors. */
	var timerFn, cbFn *ssa.Function
	for _, fn := range p.Funcs() {
		eachInstr(fn, func(i ssa.Instruction) {
			st, ok := i.(*ssa.Store)
			if !ok {
				return
			}
			fv, _ := fieldAddrOf(st.Addr)
			if nil == fv {
				return
			}
			switch {
			case fv == tim:
				if c, ok := st.Val.(*ssa.Call); ok && "time.AfterFunc" == calleeName(c.Common()) {
					timerFn, _ = closureOf(c.Common().Args[1])
				}
			case "ControlCharacterCallback" == fv.Name():
				cbFn, _ = closureOf(st.Val)
			}
		})
	}
	wp := p.Func(opsPkg, "Shell", "writePlain")
	for n, f := range map[string]*ssa.Function{"timer function": timerFn, "control-key callback": cbFn, "writePlain": wp} {
		if nil == f {
			rAnch.Unproven(n, token.NoPos, "%s not found", n)
		} else {
			rAnch.OK(n+"="+fnName(f), f.Pos(), "found")
			r.Saw("func " + fnName(f))
		}
	}
	if nil == timerFn || nil == cbFn || nil == wp {
		return
	}

	isFieldOfShell := func(addr ssa.Value, f *types.Var) bool {
		fv, _ := fieldAddrOf(addr)
		return fv == f
	}
	silTest := func(fn *ssa.Function) (*ssa.If, int) { /* If on silenced; successor index where it is true */
		var out *ssa.If
		k := 0
		for _, b := range fn.Blocks {
			ifi := blockIf(b)
			if nil == ifi {
				continue
			}
			dc := decodeCond(ifi.Cond)
			if nil != dc.Y {
				continue
			}
			if fv, _ := loadedField(dc.X); fv == sil {
				out = ifi
				k = 0
				if !dc.Eq {
					k = 1
				}
			}
		}
		return out, k
	}
	/* Helpers which arm the timer (resetSilenceTimer and whatever replaces
	it) are folded into their callers before analysis, so the time store
	and the timer reset are looked for where they happen. */
	rearmsFromLast := false
	isReset := func(i ssa.Instruction) (bool, ssa.Value) {
		c := callCommon(i)
		if nil == c {
			return false, nil
		}
		if _, isGo := i.(*ssa.Go); isGo {
			return false, nil
		}
		if "(*time.Timer).Reset" == calleeName(c) {
			if fv, _ := loadedField(c.Args[0]); fv == tim {
				return true, nil
			}
		}
		return false, nil
	}

	/* recordsNow: the instruction stores time.Now() into lastPlainWrite, or
	calls resetSilenceTimer in a way which does. */
	recordsNow := func(j ssa.Instruction) bool {
		if st, ok := j.(*ssa.Store); ok {
			if fv, _ := fieldAddrOf(st.Addr); fv == last {
				if c, ok := st.Val.(*ssa.Call); ok && "time.Now" == calleeName(c.Common()) {
					return true
				}
			}
		}
		return false
	}
	/* 1 & 3: all stores to silenced. */
	muteFn := cbFn /* The function holding the mute logic (the callback or the goroutine it starts). */
	nT, nF := 0, 0
	for _, fn := range p.Funcs() {
		eachInstr(fn, func(i ssa.Instruction) {
			st, ok := i.(*ssa.Store)
			if !ok || !isFieldOfShell(st.Addr, sil) {
				return
			}
			if isConstructorStore(st) {
				return
			}
			v, isC := constBool(st.Val)
			c := fmt.Sprintf("%s:silenced=%v", fnName(fn), describeBool(st.Val))
			switch {
			case !isC:
				rMute.Bad(c, posOf(st), "silenced is assigned a computed value")
			case v:
				nT++
				/* In the callback itself, or in a closure the callback
				starts (the handler runs in its own goroutine so as not to
				take locks under the terminal's lock). */
				var site ssa.Instruction = st
				keyFn := fn
				if fn != cbFn {
					if fn.Parent() == cbFn {
						site, keyFn = closureSite(cbFn, fn), cbFn
					}
					if nil == site || keyFn != cbFn {
						rMute.Bad(c, posOf(st), "output is muted outside the control-key callback: something other than Ctrl+O suppresses shell output")
						return
					}
					muteFn = fn
				}
				/* Below key == 0x0F. */
				okKey := false
				for _, b := range keyFn.Blocks {
					ifi := blockIf(b)
					if nil == ifi {
						continue
					}
					dc := decodeCond(ifi.Cond)
					if _, isP := dc.X.(*ssa.Parameter); !isP || nil == dc.Y {
						continue
					}
					if k, ok := constInt(dc.Y); ok && 0x0F == k {
						e := 1
						if dc.Eq {
							e = 0
						}
						if edgeDominates(ifi, e, site) {
							okKey = true
						}
					}
				}
				ifi, tk := silTest(fn)
				okNot := nil != ifi && edgeDominates(ifi, 1-tk, st)
				switch {
				case !okKey:
					rMute.Bad(c, posOf(st), "silenced is set for a key other than Ctrl+O (0x0F)")
				case !okNot:
					rMute.Bad(c, posOf(st), "silenced is set without first testing that output is not already muted")
				default:
					rMute.OK(c, posOf(st), "Ctrl+O ∧ not already muted")
				}
			default:
				nF++
				if fn != timerFn {
					rUn.Bad(c, posOf(st), "muting is ended outside the timer function")
					return
				}
				/* Below the "pause elapsed" edge. */
				okEdge := false
				var calm *ssa.If
				notCalm := 0
				for _, b := range fn.Blocks {
					ifi := blockIf(b)
					if nil == ifi {
						continue
					}
					/* time.Now().Before(last.Add(pause)) and its relatives. */
					if dc := decodeCond(ifi.Cond); nil == dc.Y {
						if tc, isCall := dc.X.(*ssa.Call); isCall {
							name := calleeName(tc.Common())
							if "(time.Time).Before" == name || "(time.Time).After" == name {
								now, deadline := tc.Common().Args[0], tc.Common().Args[1]
								flipped := false
								if nc, isNow := now.(*ssa.Call); !isNow || "time.Now" != calleeName(nc.Common()) {
									now, deadline, flipped = deadline, now, true
								}
								nc, isNow := now.(*ssa.Call)
								ac, isAdd := deadline.(*ssa.Call)
								if isNow && isAdd && "time.Now" == calleeName(nc.Common()) && "(time.Time).Add" == calleeName(ac.Common()) {
									fvL, _ := loadedField(ac.Common().Args[0])
									kk, isC := constInt(ac.Common().Args[1])
									if fvL == last && isC {
										if kk != pause {
											rUn.Bad(fnName(fn)+":pause-constant", posOf(ifi), "the calm test compares with %dns, not PlainWritePause", kk)
										}
										/* now.Before(deadline): not elapsed when true. */
										notElapsedOnTrue := ("(time.Time).Before" == name) != flipped
										if !dc.Eq {
											notElapsedOnTrue = !notElapsedOnTrue
										}
										elapsedSucc := 0
										if notElapsedOnTrue {
											elapsedSucc = 1
										}
										calm, notCalm = ifi, 1-elapsedSucc
										if edgeDominates(ifi, elapsedSucc, st) {
											okEdge = true
										}
									}
								}
							}
						}
					}
					bo, ok := ifi.Cond.(*ssa.BinOp)
					if !ok {
						continue
					}
					var since ssa.Value
					var k int64
					var sinceLeft bool
					if n, ok := constInt(bo.X); ok {
						k, since, sinceLeft = n, bo.Y, false
					} else if n, ok := constInt(bo.Y); ok {
						k, since, sinceLeft = n, bo.X, true
					} else {
						continue
					}
					/* The same test from the other end: what is left of the
					pause, time.Until(last.Add(pause)) — possibly clamped
					with max(0, …) — compared with zero. */
					if 0 == k {
						left := stripConv(since, true)
						if mc, isCall := left.(*ssa.Call); isCall {
							if b, isB := mc.Common().Value.(*ssa.Builtin); isB && "max" == b.Name() && 2 == len(mc.Common().Args) {
								for q, a := range mc.Common().Args {
									if z, isZ := constInt(a); isZ && 0 == z {
										left = stripConv(mc.Common().Args[1-q], true)
									}
								}
							}
						}
						uc, isUntil := left.(*ssa.Call)
						if !isUntil || "time.Until" != calleeName(uc.Common()) {
							continue
						}
						ac, isAdd := stripConv(uc.Common().Args[0], true).(*ssa.Call)
						if !isAdd || "(time.Time).Add" != calleeName(ac.Common()) {
							continue
						}
						if fv, _ := loadedField(ac.Common().Args[0]); fv != last {
							continue
						}
						if d, isC := constInt(ac.Common().Args[1]); !isC || d != pause {
							rUn.Bad(fnName(fn)+":pause-constant", posOf(ifi), "the calm test does not use PlainWritePause")
						}
						op := bo.Op
						if !sinceLeft {
							switch op {
							case token.GTR:
								op = token.LSS
							case token.LSS:
								op = token.GTR
							case token.GEQ:
								op = token.LEQ
							case token.LEQ:
								op = token.GEQ
							}
						}
						/* left op 0 */
						elapsedSucc := -1
						switch op {
						case token.GTR: /* something left: not elapsed */
							elapsedSucc = 1
						case token.LEQ:
							elapsedSucc = 0
						}
						if elapsedSucc >= 0 {
							calm, notCalm = ifi, 1-elapsedSucc
							if edgeDominates(ifi, elapsedSucc, st) {
								okEdge = true
							}
						}
						continue
					}
					sc, ok := since.(*ssa.Call)
					if !ok || "time.Since" != calleeName(sc.Common()) {
						continue
					}
					if fv, _ := loadedField(sc.Common().Args[0]); fv != last {
						continue
					}
					if k != pause {
						rUn.Bad(fnName(fn)+":pause-constant", posOf(ifi), "the calm test compares with %dns, not PlainWritePause", k)
					}
					/* Which successor means Since >= pause? */
					elapsedSucc := -1
					op := bo.Op
					if !sinceLeft {
						/* C op S  ≡  S op' C */
						switch op {
						case token.GTR:
							op = token.LSS
						case token.LSS:
							op = token.GTR
						case token.GEQ:
							op = token.LEQ
						case token.LEQ:
							op = token.GEQ
						}
					}
					switch op {
					case token.LSS: /* S < C true → not elapsed */
						elapsedSucc = 1
					case token.GEQ:
						elapsedSucc = 0
					case token.GTR: /* S > C: elapsed (strictly) */
						elapsedSucc = 0
					case token.LEQ:
						elapsedSucc = 1
					}
					if elapsedSucc >= 0 {
						calm, notCalm = ifi, 1-elapsedSucc
						if edgeDominates(ifi, elapsedSucc, st) {
							okEdge = true
						}
					}
				}
				if okEdge {
					rUn.OK(c, posOf(st), "only after time.Since(lastPlainWrite) reached PlainWritePause")
				} else {
					rUn.Bad(c, posOf(st), "muting ends without the test that a full pause has passed since the last suppressed output: output resumes (and 'Unmuting' is announced) while the shell is still flooding")
				}
				/* Announcement follows. */
				var announces func(j ssa.Instruction, depth int) bool
				announces = func(j ssa.Instruction, depth int) bool {
					cc := callCommon(j)
					if nil == cc {
						return false
					}
					for _, a := range cc.Args {
						if s, ok := constString(a); ok && strings.Contains(s, "Unmuting") {
							return true
						}
					}
					/* Or the function (literal) called or started here
					does, first thing on every way through it. */
					callee := cc.StaticCallee()
					if nil == callee {
						callee, _ = closureOf(resolveLocalFunc(cc.Value))
					}
					if nil == callee || nil == callee.Blocks || !inModule(callee) || depth > 2 {
						return false
					}
					miss := reachQ{From: entryLoc(callee), Target: isReturn, Block: func(k ssa.Instruction) bool { return announces(k, depth+1) }}.run()
					return nil == miss
				}
				ann := reachQ{From: locOf(st), Target: isReturn, Block: func(j ssa.Instruction) bool { return announces(j, 0) }}.run()
				if nil == ann {
					rUn.OK(fnName(fn)+":announced", posOf(st), "un-muting is announced on every path")
				} else {
					rUn.Bad(fnName(fn)+":announced", posOf(st), "muting can end without the announcement")
				}
				/* Not-calm edge re-arms. */
				if nil != calm {
					miss := reachQ{From: edgeLoc(calm.Block(), notCalm), Target: isReturn, Block: func(j ssa.Instruction) bool { ok, _ := isReset(j); return ok }}.run()
					if nil == miss {
						/* Re-armed for the last suppressed write plus the
						pause (not for a constant)? */
						eachInstr(fn, func(j ssa.Instruction) {
							if ok, _ := isReset(j); ok && canReach(edgeLoc(calm.Block(), notCalm), j) {
								if c := callCommon(j); nil != c && 2 == len(c.Args) && operandsReach(c.Args[1], func(x ssa.Value) bool {
									fv, _ := loadedField(x)
									return fv == last
								}) {
									rearmsFromLast = true
								}
							}
						})
						rUn.OK(fnName(fn)+":rearm", posOf(calm), "when output is not yet calm the timer is re-armed")
					} else {
						rUn.Bad(fnName(fn)+":rearm", posOf(calm), "when output is not yet calm the timer function returns without re-arming: output stays muted forever")
					}
				}
			}
		})
	}
	if 1 != nT {
		rMute.Bad("silenced=true:count", token.NoPos, "%d stores of true into silenced, one expected", nT)
	}
	if 1 != nF {
		rUn.Bad("silenced=false:count", token.NoPos, "%d stores of false into silenced, one expected", nF)
	}
	/* Already-muted edge of the callback: no writes, no reset. */
	if ifi, tk := silTest(muteFn); nil != ifi {
		hit := reachQ{From: edgeLoc(ifi.Block(), tk), Target: func(j ssa.Instruction) bool {
			if st, ok := j.(*ssa.Store); ok {
				if fv, _ := fieldAddrOf(st.Addr); fv == sil || fv == last {
					return true
				}
			}
			ok, _ := isReset(j)
			return ok
		}}.run()
		if nil != hit {
			rMute.Bad(fnName(muteFn)+":repeat-is-noop", posOf(hit), "on the already-muted path of Ctrl+O the mute state or the timer is changed: pressing Ctrl+O again postpones un-muting")
		} else {
			rMute.OK(fnName(muteFn)+":repeat-is-noop", posOf(ifi), "Ctrl+O while muted only prints a notice")
		}
		/* And: every reset/state change of the callback is below the not-muted edge. */
		eachInstr(muteFn, func(j ssa.Instruction) {
			isR, _ := isReset(j)
			st, isSt := j.(*ssa.Store)
			touch := isR
			if isSt {
				if fv, _ := fieldAddrOf(st.Addr); fv == sil || fv == last {
					touch = true
				}
			}
			if touch && !edgeDominates(ifi, 1-tk, j) {
				rMute.Bad(fnName(muteFn)+":state-change-guarded", posOf(j), "the callback changes the mute state or the timer before testing whether output is already muted")
			}
		})
	} else {
		rMute.Bad(fnName(muteFn)+":already-muted-test", muteFn.Pos(), "the callback does not test whether output is already muted")
	}

	/* 2. Readers. */
	allowed := map[*ssa.Function]bool{wp: true, cbFn: true, muteFn: true, timerFn: true}
	nr := 0
	for _, fn := range p.Funcs() {
		eachInstr(fn, func(i ssa.Instruction) {
			u, ok := i.(*ssa.UnOp)
			if !ok || token.MUL != u.Op || !isFieldOfShell(u.X, sil) {
				return
			}
			nr++
			c := fnName(fn) + ":reads-silenced"
			if fn == wp && mergedPlainWrite(p, wp) {
				/* The plain write is written out in the output loop: the
				flag may be consulted there for Plain lines only. */
				plainF := p.Field("lib/opshell", "CLine", "Plain")
				if nil != plainF && nil != guardingFieldTestTrue(wp, i, plainF) {
					rRead.OK(c, posOf(i), "plain-write path (below the cl.Plain test)")
				} else {
					rRead.Bad(c, posOf(i), "%s consults the mute flag outside the cl.Plain path: lines other than raw shell output can be suppressed", fnName(fn))
				}
				return
			}
			if allowed[fn] {
				rRead.OK(c, posOf(i), "plain-write path")
			} else {
				rRead.Bad(c, posOf(i), "%s consults the mute flag: lines other than raw shell output can be suppressed", fnName(fn))
			}
		})
	}
	if nr < 2 {
		rRead.Unproven("silenced:reads", token.NoPos, "%d reads of silenced found", nr)
	}
	/* Where the handling of one line ends: the function returns, or (the
	plain write written out in the output loop) the next line is awaited. */
	endOfLine := func(j ssa.Instruction) bool {
		if isReturn(j) {
			return true
		}
		_, isSel := j.(*ssa.Select)
		return isSel
	}
	/* writePlain: terminal write below the not-silenced edge; the silenced edge re-arms and returns without writing. */
	if ifi, tk := silTest(wp); nil != ifi {
		var write ssa.Instruction
		eachInstr(wp, func(j ssa.Instruction) {
			if c := callCommon(j); nil != c {
				switch calleeName(c) {
				case "io.WriteString", "(*github.com/magisterquis/goxterm.Terminal).Write", "(io.Writer).Write":
					write = j
				}
			}
		})
		switch {
		case nil == write:
			rRead.Unproven(fnName(wp)+":write", wp.Pos(), "terminal write not found")
		case edgeDominates(ifi, 1-tk, write):
			rRead.OK(fnName(wp)+":write-when-unmuted", posOf(write), "plain output is written exactly when not muted")
		default:
			rRead.Bad(fnName(wp)+":write-when-unmuted", posOf(write), "the terminal write of plain output is not below the not-silenced edge")
		}
		/* Without Ctrl+O nothing is suppressed: from the not-silenced edge the write is on every path to return. */
		if nil != write {
			if miss := (reachQ{From: edgeLoc(ifi.Block(), 1-tk), Target: endOfLine, Block: func(j ssa.Instruction) bool { return j == write }}).run(); nil != miss {
				rRead.Bad(fnName(wp)+":never-dropped-unmuted", posOf(miss), "plain output can be dropped although output is not muted")
			} else {
				rRead.OK(fnName(wp)+":never-dropped-unmuted", posOf(write), "when not muted every plain line is written")
			}
		}
		from := edgeLoc(ifi.Block(), tk)
		switch {
		case nil != (reachQ{From: from, Target: endOfLine, Block: recordsNow}).run():
			rArm.Bad(fnName(wp)+":suppressed-write-rearms", posOf(ifi), "a suppressed plain write does not record its time: muting ends although output is still arriving")
		case nil != (reachQ{From: from, Target: endOfLine, Block: func(j ssa.Instruction) bool { ok, _ := isReset(j); return ok }}).run() && rearmsFromLast:
			/* The timer armed at muting time wakes, finds the recorded
			time too recent and goes back to sleep until that time plus
			the pause: un-muting comes at the same moment. */
			rArm.OK(fnName(wp)+":suppressed-write-rearms", posOf(ifi), "a suppressed write records its time; the timer function re-arms itself for that time plus the pause when it wakes too early")
		case nil != (reachQ{From: from, Target: endOfLine, Block: func(j ssa.Instruction) bool { ok, _ := isReset(j); return ok }}).run():
			rArm.Bad(fnName(wp)+":suppressed-write-rearms", posOf(ifi), "a suppressed plain write does not push the timer back")
		default:
			rArm.OK(fnName(wp)+":suppressed-write-rearms", posOf(ifi), "a suppressed write records its time and pushes the timer back")
		}
	} else {
		rRead.Bad(fnName(wp)+":silenced-test", wp.Pos(), "writePlain does not test the mute flag")
	}
	/* handleOutput: the non-plain branch logs unconditionally (C03 checks the plain branch). */

	/* 4. Muting path arms the timer. */
	var stT *ssa.Store
	eachInstr(muteFn, func(j ssa.Instruction) {
		if st, ok := j.(*ssa.Store); ok && isFieldOfShell(st.Addr, sil) {
			stT = st
		}
	})
	if nil != stT {
		switch {
		case nil != (reachQ{From: locOf(stT), Target: isReturn, Block: recordsNow}).run():
			rArm.Bad(fnName(muteFn)+":mute-arms-timer", posOf(stT), "muting does not record the current time as the start of the calm interval: the timer function takes the first firing for its start-up call (or measures from a stale time) and output stays muted, or un-mutes at the wrong moment")
		case nil != (reachQ{From: locOf(stT), Target: isReturn, Block: func(j ssa.Instruction) bool { ok, _ := isReset(j); return ok }}).run():
			rArm.Bad(fnName(muteFn)+":mute-arms-timer", posOf(stT), "muting does not arm the timer: output stays muted forever if the shell is silent")
		default:
			rArm.OK(fnName(muteFn)+":mute-arms-timer", posOf(stT), "muting records the time and starts the pause timer")
		}
	}
	/* Every reset of the pause timer: it fires PlainWritePause after the last
	suppressed write — relative to lastPlainWrite, or a full pause from now
	when the time of the write has just been recorded. */
	{
		nreset := 0
		for _, fn := range p.Funcs() {
			if nil == fn.Pkg || !strings.HasSuffix(fn.Pkg.Pkg.Path(), "/"+opsPkg) {
				continue
			}
			eachInstr(fn, func(j ssa.Instruction) {
				c := callCommon(j)
				if nil == c || "(*time.Timer).Reset" != calleeName(c) {
					return
				}
				if fv, _ := loadedField(c.Args[0]); fv != tim {
					return
				}
				nreset++
				cc := fmt.Sprintf("%s:fires-after-pause#%d", fnName(fn), nreset)
				hasLast, hasPause := false, false
				var droots []Root
				var dwalk func(v ssa.Value, depth int)
				dwalk = func(v ssa.Value, depth int) {
					/* max(0, d): never before d, and d is never negative
					when it matters. */
					if mc, isCall := stripConv(v, true).(*ssa.Call); isCall && depth < 6 {
						if b, isB := mc.Common().Value.(*ssa.Builtin); isB && "max" == b.Name() && 2 == len(mc.Common().Args) {
							for q, a := range mc.Common().Args {
								if z, isZ := constInt(a); isZ && 0 == z {
									dwalk(mc.Common().Args[1-q], depth+1)
									return
								}
							}
						}
					}
					if bo, ok := stripConv(v, true).(*ssa.BinOp); ok && depth < 6 && (token.ADD == bo.Op || token.SUB == bo.Op) {
						dwalk(bo.X, depth+1)
						dwalk(bo.Y, depth+1)
						return
					}
					droots = append(droots, valueRoots(v, func(n string) bool {
						return "time.Until" == n || "(time.Time).Add" == n || "(time.Time).Sub" == n || "time.Since" == n
					})...)
				}
				dwalk(c.Args[1], 0)
				for _, x := range droots {
					if "field" == x.Kind && x.Field == last {
						hasLast = true
					}
					if "const" == x.Kind {
						if k, ok := constInt(x.V); ok && k == pause {
							hasPause = true
						}
					}
				}
				justRecorded := false
				eachInstr(fn, func(k ssa.Instruction) {
					if recordsNow(k) && instrDominates(k, j) {
						justRecorded = true
					}
				})
				if hasPause && (hasLast || justRecorded) {
					rArm.OK(cc, posOf(j), "silenceTimer fires PlainWritePause after the last suppressed write")
				} else {
					rArm.Bad(cc, posOf(j), "the timer is not reset to fire PlainWritePause after the last suppressed write")
				}
			})
		}
		if 0 == nreset {
			rArm.Bad("silenceTimer:reset", token.NoPos, "the pause timer is never reset")
		}
	}
	/* When not muted a plain write is written: what writePlain hands the
	terminal is its argument (C03's rule) — a filter in there suppresses
	output nobody asked to have muted. */
	checkC03Sink(p, r, r.Rule("unmuted-written-whole", "when output is not muted writePlain writes what it was given (C03's identity rule, under this property's clause that output is suppressed only while muted)"))
	/* Only the shell's output is marked Plain (and so muted, and counted as
	output by the pause timer): a status line, a server error or a notice
	sent as Plain would be swallowed while muted and would push un-muting
	back. */
	if plainF := p.Field("lib/opshell", "CLine", "Plain"); nil != plainF {
		nPlain := 0
		for _, fn := range p.Funcs() {
			eachInstr(fn, func(i ssa.Instruction) {
				st, ok := i.(*ssa.Store)
				if !ok {
					return
				}
				if fv, _ := fieldAddrOf(st.Addr); fv != plainF {
					return
				}
				if b, isC := constBool(st.Val); isC && !b {
					return
				}
				nPlain++
				c := fnName(fn) + ":marks-Plain"
				pout := findProxyOut(p)
				if (nil != fn.Pkg && strings.Contains(fn.Pkg.Pkg.Path()+"/", "/"+iobPkg+"/")) || (nil != pout && topFn(fn) == topFn(pout)) {
					rRead.OK(c, posOf(st), "the broker's output proxy (C03 decides what it carries)")
				} else {
					rRead.Bad(c, posOf(st), "a line which is not shell output is sent as Plain: it is dropped while output is muted, and resets the pause as if the shell had written")
				}
			})
		}
		if 0 == nPlain {
			rRead.Unproven("CLine.Plain", token.NoPos, "nothing marks a line Plain")
		}
	}
	/* Only shell output goes through the mute-aware write. */
	for _, ci := range p.callersOf(wp) {
		c := fnName(ci.Parent()) + "→writePlain"
		if ho := p.Func(opsPkg, "Shell", "handleOutput"); ci.Parent() == ho {
			rRead.OK(c, posOf(ci), "the output handler's Plain branch")
		} else {
			rRead.Bad(c, posOf(ci), "%s writes through the mute-aware path meant for remote shell output: local text is dropped while muted and postpones un-muting", fnName(ci.Parent()))
		}
	}
	/* Lock order: goxterm runs the control-character callback with the
	terminal's lock held; whoever writes to the terminal takes Shell.wL and
	then the terminal's lock.  The callback must therefore not take
	Shell.wL synchronously. */
	{
		acquires := func(fn *ssa.Function) bool {
			found := false
			eachInstr(fn, func(j ssa.Instruction) {
				if _, isGo := j.(*ssa.Go); isGo {
					return
				}
				c := callCommon(j)
				if nil == c {
					return
				}
				if "(*sync.Mutex).Lock" == calleeName(c) {
					if fv, _ := fieldAddrOf(c.Args[0]); fv == wl {
						found = true
					}
				}
			})
			return found
		}
		/* Functions taking wL, transitively through synchronous static calls. */
		takes := map[*ssa.Function]bool{}
		for changed := true; changed; {
			changed = false
			for _, fn := range p.Funcs() {
				if takes[fn] || nil == fn.Pkg || !strings.HasSuffix(fn.Pkg.Pkg.Path(), "/"+opsPkg) {
					continue
				}
				t := acquires(fn)
				eachInstr(fn, func(j ssa.Instruction) {
					if _, isGo := j.(*ssa.Go); isGo {
						return
					}
					if c := callCommon(j); nil != c && nil != c.StaticCallee() && takes[c.StaticCallee()] {
						t = true
					}
				})
				if t {
					takes[fn] = true
					changed = true
				}
			}
		}
		/* The dependency's side of the order, from its own source. */
		gf, gerr := goxtermFact(p.Repo)
		if nil != gerr {
			rLock.Unproven("goxterm:lock-facts", token.NoPos, "the terminal package's locking could not be derived from its source: %s", gerr)
		} else {
			r.Note("%s", gf.Note)
			r.Saw("package " + goxPath)
		}
		/* Does anything write to the terminal while holding wL? */
		writesUnderLock := false
		for _, fn := range p.Funcs() {
			if nil == fn.Pkg || !strings.HasSuffix(fn.Pkg.Pkg.Path(), "/"+opsPkg) {
				continue
			}
			held := mustHold(fn, wl)
			eachInstr(fn, func(j ssa.Instruction) {
				c := callCommon(j)
				if nil == c || !held[j] {
					return
				}
				for _, a := range callArgs(c) {
					if typeIs(stripConv(a, false).Type(), goxPath, "Terminal") {
						/* A method of the terminal which takes its lock; anything
						else handed the terminal counts too (it may call one). */
						sc := c.StaticCallee()
						if nil == gf || nil == sc || "Terminal" != recvTypeName(sc) || gf.Locking[sc.Name()] {
							writesUnderLock = true
						}
					}
				}
			})
		}
		switch {
		case nil != gf && !gf.CallbackUnderLock:
			rLock.OK(fnName(cbFn)+":lock-order", cbFn.Pos(), "the terminal package does not hold its lock while calling the callback")
		case !writesUnderLock:
			rLock.OK(fnName(cbFn)+":lock-order", cbFn.Pos(), "nothing uses the terminal while holding Shell.wL")
		case takes[cbFn]:
			rLock.Bad(fnName(cbFn)+":lock-order", cbFn.Pos(), "the control-character callback, which goxterm calls with the terminal's lock held, takes Shell.wL synchronously, while writers take Shell.wL and then the terminal's lock: pressing the key during a write deadlocks the terminal")
		default:
			rLock.OK(fnName(cbFn)+":lock-order", cbFn.Pos(), "the callback takes no lock under the terminal's lock (work is handed to goroutines)")
		}
	}

	/* 5. Lock. */
	tracked := map[*types.Var]bool{sil: true, last: true}
	for _, fn := range p.Funcs() {
		var acc []ssa.Instruction
		eachInstr(fn, func(i ssa.Instruction) {
			switch x := i.(type) {
			case *ssa.UnOp:
				if token.MUL == x.Op {
					if fv, _ := fieldAddrOf(x.X); tracked[fv] {
						acc = append(acc, i)
					}
				}
			case *ssa.Store:
				if fv, _ := fieldAddrOf(x.Addr); tracked[fv] && !isConstructorStore(i) {
					acc = append(acc, i)
				}
			}
			if c := callCommon(i); nil != c && "(*time.Timer).Reset" == calleeName(c) {
				if fv, _ := loadedField(c.Args[0]); fv == tim {
					acc = append(acc, i)
				}
			}
		})
		if 0 == len(acc) {
			continue
		}
		held := mustHold(fn, wl)
		bad := 0
		for _, i := range acc {
			if !held[i] {
				bad++
				rLock.Bad(fmt.Sprintf("%s:unlocked-access", fnName(fn)), posOf(i), "mute state accessed without Shell.wL")
			}
		}
		if 0 == bad {
			rLock.OK(fnName(fn)+":locked", fn.Pos(), "%d accesses under Shell.wL", len(acc))
		}
	}
	rLock.AtLeast(3, "functions touching the mute state")
}

func describeBool(v ssa.Value) string {
	if b, ok := constBool(v); ok {
		return fmt.Sprint(b)
	}
	return "?"
}

// mergedPlainWrite: the function found for writePlain is the output loop
// itself (it receives the lines it writes).
func mergedPlainWrite(p *Prog, wp *ssa.Function) bool {
	ho := p.Func(opsPkg, "Shell", "handleOutput")
	return nil != ho && ho == wp
}
