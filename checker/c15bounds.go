package main

// c15bounds.go: the "maximum-length functions never under-estimate" clause
// of C15, decided as a comparison of two closed-form integer functions of
// n = len(input), both derived from the source:
//
//   - growth of dst in the codec: the number of elements each append adds to
//     the dst accumulator, per iteration of the finite iterators (slices.Chunk
//     with constant sizes), and
//   - the arithmetic of MaxEncodedLen / MaxDecodedLen, read off their SSA.
//
// Both are built from +, -, * and / by constants over n, hence quasi-linear:
// f(n+P) = f(n) + D for a period P (the product of the divisors).  f >= g for
// all n >= 0 is therefore decided by tabulating the formulas over a window of
// residues and comparing the per-period increments.  No code of the repository
// is run; what is evaluated is the formula extracted from it.

import (
	"fmt"
	"go/token"
	"go/types"
	"strings"

	"golang.org/x/tools/go/ssa"
)

// lenExpr is an integer expression over n.
type lenExpr struct {
	Op   token.Token /* ADD SUB MUL QUO SHL SHR REM, or ILLEGAL for leaves */
	X, Y *lenExpr
	K    int64
	IsN  bool
}

func (e *lenExpr) String() string {
	switch {
	case nil == e:
		return "?"
	case e.IsN:
		return "n"
	case token.ILLEGAL == e.Op:
		return fmt.Sprint(e.K)
	}
	return "(" + e.X.String() + " " + e.Op.String() + " " + e.Y.String() + ")"
}

func (e *lenExpr) eval(n int64) (int64, bool) {
	switch {
	case e.IsN:
		return n, true
	case token.ILLEGAL == e.Op:
		return e.K, true
	}
	x, ok1 := e.X.eval(n)
	y, ok2 := e.Y.eval(n)
	if !ok1 || !ok2 {
		return 0, false
	}
	switch e.Op {
	case token.ADD:
		return x + y, true
	case token.SUB:
		return x - y, true
	case token.MUL:
		return x * y, true
	case token.QUO:
		if 0 == y {
			return 0, false
		}
		return x / y, true
	case token.REM:
		if 0 == y {
			return 0, false
		}
		return x % y, true
	case token.SHL:
		if y < 0 || y > 40 {
			return 0, false
		}
		return x << uint(y), true
	case token.SHR:
		if y < 0 || y > 62 {
			return 0, false
		}
		return x >> uint(y), true
	}
	return 0, false
}

// period: product of the constant divisors; ok=false when the expression is
// not quasi-linear by construction (product or quotient of two non-constant
// terms, division by a non-constant).
func (e *lenExpr) period() (int64, bool) {
	if e.IsN || token.ILLEGAL == e.Op {
		return 1, true
	}
	px, ok1 := e.X.period()
	py, ok2 := e.Y.period()
	if !ok1 || !ok2 {
		return 0, false
	}
	constOf := func(x *lenExpr) (int64, bool) {
		if !x.hasN() {
			return x.eval(0)
		}
		return 0, false
	}
	switch e.Op {
	case token.ADD, token.SUB:
		return lcm64(px, py), true
	case token.MUL:
		if e.X.hasN() && e.Y.hasN() {
			return 0, false
		}
		return lcm64(px, py), true
	case token.QUO, token.REM:
		k, ok := constOf(e.Y)
		if !ok || k <= 0 {
			return 0, false
		}
		return px * k, true
	case token.SHL:
		if e.Y.hasN() {
			return 0, false
		}
		return px, true
	case token.SHR:
		k, ok := constOf(e.Y)
		if !ok || k < 0 || k > 20 {
			return 0, false
		}
		return px << uint(k), true
	}
	return 0, false
}

func (e *lenExpr) hasN() bool {
	if e.IsN {
		return true
	}
	if token.ILLEGAL == e.Op {
		return false
	}
	return e.X.hasN() || e.Y.hasN()
}

func gcd64(a, b int64) int64 {
	for 0 != b {
		a, b = b, a%b
	}
	return a
}
func lcm64(a, b int64) int64 { return a / gcd64(a, b) * b }

// lenExprOf reads the returned expression of a single-block function of one
// slice (or string) parameter.
func lenExprOf(fn *ssa.Function) (*lenExpr, string) {
	if nil == fn || 1 != len(fn.Blocks) {
		return nil, "the function is not straight-line code"
	}
	var ret *ssa.Return
	for _, i := range fn.Blocks[0].Instrs {
		if r, ok := i.(*ssa.Return); ok {
			ret = r
		}
	}
	if nil == ret || 1 != len(ret.Results) {
		return nil, "no single-result return"
	}
	var why string
	var conv func(v ssa.Value, depth int) *lenExpr
	conv = func(v ssa.Value, depth int) *lenExpr {
		if depth > 40 {
			why = "expression too deep"
			return nil
		}
		switch x := v.(type) {
		case *ssa.Const:
			k, ok := constInt(x)
			if !ok {
				why = "non-integer constant"
				return nil
			}
			return &lenExpr{K: k}
		case *ssa.Convert:
			if b, ok := x.Type().Underlying().(*types.Basic); ok && 0 != b.Info()&types.IsInteger {
				return conv(x.X, depth+1)
			}
		case *ssa.Call:
			if b, ok := x.Common().Value.(*ssa.Builtin); ok && "len" == b.Name() {
				if pa, ok := x.Common().Args[0].(*ssa.Parameter); ok && pa.Parent() == fn {
					return &lenExpr{IsN: true}
				}
			}
		case *ssa.BinOp:
			switch x.Op {
			case token.ADD, token.SUB, token.MUL, token.QUO, token.REM, token.SHL, token.SHR:
				a, b := conv(x.X, depth+1), conv(x.Y, depth+1)
				if nil == a || nil == b {
					return nil
				}
				return &lenExpr{Op: x.Op, X: a, Y: b}
			}
		}
		if "" == why {
			why = fmt.Sprintf("operand %s is not arithmetic over len of the parameter", describeValue(v))
		}
		return nil
	}
	e := conv(ret.Results[0], 0)
	return e, why
}

// codecGrowth describes how much the codec appends to dst.
type codecGrowth struct {
	TopAdd    int64 /* elements appended once per call, outside the loops */
	OuterSize int64 /* size of the outer Chunk, 0 when the outer loop is not a Chunk */
	OuterAdd  int64 /* elements appended to dst per outer iteration, outside the inner loop */
	InnerSize int64 /* size of the inner Chunk */
	InnerAdd  int64 /* elements appended to dst per inner iteration (upper bound) */
	InnerFull bool  /* every appending inner iteration is known to hold a full chunk */
	Notes     []string
}

// dstAppends returns, for function f (a loop-body closure or the top
// function), the total number of elements appended to the dst accumulator of
// top outside cycles of f; ok=false when an append to dst sits in a cycle or
// has an unknown element count.
func dstAppends(f, top *ssa.Function) (total int64, n int, why string) {
	isDst := func(v ssa.Value) bool {
		for _, x := range valueRoots(v, func(n string) bool { return false }) {
			if "param" == x.Kind {
				if pa, ok := x.V.(*ssa.Parameter); ok && pa.Parent() == top && 0 < len(top.Params) && pa == top.Params[0] {
					return true
				}
			}
		}
		/* Through the captured cell. */
		u, ok := v.(*ssa.UnOp)
		if !ok || token.MUL != u.Op {
			return false
		}
		a, ok := resolveFree(u.X).(*ssa.Alloc)
		if !ok || a.Parent() != top {
			return false
		}
		for _, st := range storesTo(a) {
			if st.Val == ssa.Value(top.Params[0]) {
				return true
			}
		}
		return false
	}
	eachInstr(f, func(i ssa.Instruction) {
		c, ok := i.(*ssa.Call)
		if !ok {
			return
		}
		if b, ok := c.Common().Value.(*ssa.Builtin); !ok || "append" != b.Name() {
			return
		}
		if !isDst(c.Common().Args[0]) {
			return
		}
		n++
		if canReach(locOf(i), i) {
			why = "an append to dst sits in a loop of " + fnName(f)
			return
		}
		k, ok := appendCount(c)
		if !ok {
			why = "an append to dst adds a number of elements this analysis cannot bound"
			return
		}
		total += k
	})
	return
}

// appendCount: how many elements the append adds at most.
func appendCount(c *ssa.Call) (int64, bool) {
	if 2 != len(c.Common().Args) {
		return 0, false
	}
	v := c.Common().Args[1]
	/* Follow reslicing and phis down to array allocations. */
	var max int64 = -1
	seen := map[ssa.Value]bool{}
	var walk func(v ssa.Value) bool
	walk = func(v ssa.Value) bool {
		if seen[v] {
			return true
		}
		seen[v] = true
		switch x := v.(type) {
		case *ssa.Slice:
			if al, ok := x.X.(*ssa.Alloc); ok {
				if at, ok := al.Type().Underlying().(*types.Pointer).Elem().Underlying().(*types.Array); ok {
					if at.Len() > max {
						max = at.Len()
					}
					return true
				}
			}
			return walk(x.X)
		case *ssa.Phi:
			for _, e := range x.Edges {
				if !walk(e) {
					return false
				}
			}
			return true
		case *ssa.Alloc:
			if at, ok := x.Type().Underlying().(*types.Pointer).Elem().Underlying().(*types.Array); ok {
				if at.Len() > max {
					max = at.Len()
				}
				return true
			}
		}
		return false
	}
	if !walk(v) || max < 0 {
		return 0, false
	}
	return max, true
}

// growthOf derives the growth model of AppendEncode / AppendDecode.
func growthOf(top *ssa.Function, fns map[*ssa.Function]*ssa.Function) (*codecGrowth, string) {
	g := &codecGrowth{}
	var outer, inner *ssa.Function
	for f, t := range fns {
		if t != top || f == top {
			continue
		}
		it := iteratorOf(f)
		if nil == it {
			continue
		}
		switch f.Parent() {
		case top:
			if nil != outer {
				return nil, "more than one loop over the input"
			}
			outer = f
		default:
			if nil != inner {
				return nil, "more than one inner loop"
			}
			inner = f
		}
	}
	if nil == outer {
		return nil, "the loop over the input was not found"
	}
	if t, n, why := dstAppends(top, top); "" != why {
		return nil, why
	} else if 0 != n {
		g.TopAdd = t /* a constant number of bytes appended outside the loops */
	}
	oi := iteratorOf(outer)
	if nil == inner && "slices.Chunk" == calleeName(oi.Common()) {
		/* A single group loop (the decoder: its line loop is an ordinary
		range in the top function). */
		inner, outer = outer, nil
	} else if "slices.Chunk" == calleeName(oi.Common()) {
		k, ok := constInt(oi.Common().Args[1])
		if !ok || k <= 0 {
			return nil, "outer chunk size is not a positive constant"
		}
		g.OuterSize = k
	}
	if nil != outer {
		t, _, why := dstAppends(outer, top)
		if "" != why {
			return nil, why
		}
		g.OuterAdd = t
	}
	if nil == inner {
		return g, ""
	}
	if nil != outer && inner.Parent() != outer {
		return nil, "loops nested deeper than two"
	}
	ii := iteratorOf(inner)
	if "slices.Chunk" != calleeName(ii.Common()) {
		return nil, "the inner loop is not over slices.Chunk"
	}
	k, ok := constInt(ii.Common().Args[1])
	if !ok || k <= 0 {
		return nil, "inner chunk size is not a positive constant"
	}
	g.InnerSize = k
	t, _, why := dstAppends(inner, top)
	if "" != why {
		return nil, why
	}
	g.InnerAdd = t
	/* Does every appending iteration index chunk[k-1] first?  With
	C15.index-safety that means the chunk is full. */
	var app ssa.Instruction
	eachInstr(inner, func(i ssa.Instruction) {
		if c, ok := i.(*ssa.Call); ok {
			if b, ok := c.Common().Value.(*ssa.Builtin); ok && "append" == b.Name() {
				if tt, _, _ := dstAppends(inner, top); tt > 0 {
					if k2, ok := appendCount(c); ok && k2 == tt {
						app = i
					}
				}
			}
		}
	})
	if nil != app {
		eachInstr(inner, func(i ssa.Instruction) {
			ia, ok := i.(*ssa.IndexAddr)
			if !ok {
				return
			}
			idx, ok := constInt(ia.Index)
			if !ok || idx != k-1 {
				return
			}
			for _, x := range valueRoots(ia.X, func(n string) bool { return "bytes.Clone" == n || "slices.Clone" == n }) {
				if pa, ok := x.V.(*ssa.Parameter); ok && pa.Parent() == inner && instrDominates(i, app) {
					g.InnerFull = true
				}
			}
		})
	}
	return g, ""
}

// encodedLen: exact number of bytes the encoder appends for n source bytes.
func (g *codecGrowth) encodedLen(n int64) int64 {
	perLine := func(m int64) int64 {
		return g.OuterAdd + g.InnerAdd*((m+g.InnerSize-1)/g.InnerSize)
	}
	q, r := n/g.OuterSize, n%g.OuterSize
	out := g.TopAdd + q*perLine(g.OuterSize)
	if r > 0 {
		out += perLine(r)
	}
	return out
}

func checkC15Bounds(p *Prog, r *Report, ru *Rule, fns map[*ssa.Function]*ssa.Function) {
	enc := p.Func(uuPkg, "", "AppendEncode")
	dec := p.Func(uuPkg, "", "AppendDecode")
	maxEnc := p.Func(uuPkg, "", "MaxEncodedLen")
	maxDec := p.Func(uuPkg, "", "MaxDecodedLen")
	if nil == enc || nil == dec || nil == maxEnc || nil == maxDec {
		ru.Unproven("anchors", token.NoPos, "AppendEncode/AppendDecode/MaxEncodedLen/MaxDecodedLen not all found")
		return
	}
	r.Saw("func " + fnName(maxEnc))
	r.Saw("func " + fnName(maxDec))
	ge, why := growthOf(enc, fns)
	if nil == ge || 0 == ge.OuterSize || 0 == ge.InnerSize {
		if "" == why {
			why = "the encoder is not two nested loops over slices.Chunk"
		}
		ru.Unproven(fnName(enc)+":growth", enc.Pos(), "growth of dst not derived: %s", why)
		return
	}
	ru.OK(fnName(enc)+":growth", enc.Pos(), "per %d-byte line: %d + %d per %d-byte group; a full line is %d bytes", ge.OuterSize, ge.OuterAdd, ge.InnerAdd, ge.InnerSize, ge.encodedLen(ge.OuterSize))
	r.Note("encoder growth model: enc(n) = q*%d + [r>0]*(%d + %d*ceil(r/%d)), n = %d*q + r", ge.encodedLen(ge.OuterSize), ge.OuterAdd, ge.InnerAdd, ge.InnerSize, ge.OuterSize)

	/* Encoder bound. */
	be, why := lenExprOf(maxEnc)
	c := fnName(maxEnc) + ":never-under"
	if nil == be {
		ru.Unproven(c, maxEnc.Pos(), "bound not read: %s", why)
	} else if pb, ok := be.period(); !ok || pb > 1<<20 {
		ru.Unproven(c, maxEnc.Pos(), "bound %s is not linear-with-constant-divisions in n", be)
	} else {
		P := lcm64(pb, ge.OuterSize)
		bad, at, ok := decideGE(func(n int64) (int64, bool) {
			b, ok := be.eval(n)
			return b - ge.encodedLen(n), ok
		}, P)
		switch {
		case !ok:
			ru.Unproven(c, maxEnc.Pos(), "bound %s could not be tabulated", be)
		case bad:
			b, _ := be.eval(at)
			ru.Bad(c, maxEnc.Pos(), "MaxEncodedLen = %s gives %d for a source of %d bytes, but AppendEncode appends %d: a buffer sized by it is too small", be, b, at, ge.encodedLen(at))
		default:
			ru.OK(c, maxEnc.Pos(), "%s >= enc(n) for every n (period %d tabulated, per-period increment compared)", be, P)
		}
	}

	/* Decoder bound. */
	gd, why := growthOf(dec, fns)
	c = fnName(maxDec) + ":never-under"
	if nil == gd || 0 == gd.InnerSize {
		if "" == why {
			why = "the decoder's group loop over slices.Chunk was not found"
		}
		ru.Unproven(fnName(dec)+":growth", dec.Pos(), "growth of dst not derived: %s", why)
		return
	}
	if 0 != gd.OuterAdd {
		ru.Unproven(fnName(dec)+":growth", dec.Pos(), "the decoder appends %d elements per line outside the group loop", gd.OuterAdd)
		return
	}
	per := int64(1)
	if gd.InnerFull {
		per = gd.InnerSize
	}
	ru.OK(fnName(dec)+":growth", dec.Pos(), "at most %d bytes per group; every appending group consumes %d source bytes", gd.InnerAdd, per)
	r.Note("decoder growth model: dec(n) <= %d*floor(n/%d) (groups are disjoint pieces of src); dec(enc(m)) = m by C15.bit-layout/framing", gd.InnerAdd, per)
	bd, why := lenExprOf(maxDec)
	if nil == bd {
		ru.Unproven(c, maxDec.Pos(), "bound not read: %s", why)
		return
	}
	pb, ok := bd.period()
	if !ok || pb > 1<<16 {
		ru.Unproven(c, maxDec.Pos(), "bound %s is not linear-with-constant-divisions in n", bd)
		return
	}
	/* (a) Against the sound upper estimate. */
	badU, atU, okU := decideGE(func(n int64) (int64, bool) {
		b, ok := bd.eval(n)
		return b - gd.TopAdd - gd.InnerAdd*(n/per), ok
	}, lcm64(pb, per))
	/* (b) Against what the encoder's own output decodes to. */
	badL, atL, okL := decideGE(func(m int64) (int64, bool) {
		b, ok := bd.eval(ge.encodedLen(m))
		return b - m, ok
	}, ge.OuterSize*pb)
	switch {
	case !okU || !okL:
		ru.Unproven(c, maxDec.Pos(), "bound %s could not be tabulated", bd)
	case badL:
		b, _ := bd.eval(ge.encodedLen(atL))
		ru.Bad(c, maxDec.Pos(), "MaxDecodedLen = %s gives %d for the %d encoded bytes of a %d-byte source, which decode to %d bytes: a buffer sized by it is too small", bd, b, ge.encodedLen(atL), atL, atL)
	case badU:
		b, _ := bd.eval(atU)
		ru.Unproven(c, maxDec.Pos(), "MaxDecodedLen = %s gives %d for %d encoded bytes; it covers canonical encoder output but lies below the estimate %d*floor(n/%d) of what hand-made input can decode to, and this analysis cannot tell which is right", bd, b, atU, gd.InnerAdd, per)
	default:
		ru.OK(c, maxDec.Pos(), "%s >= %d*floor(n/%d) >= dec(n) for every n", bd, gd.InnerAdd, per)
	}
}

// decideGE: h(n) >= 0 for all n >= 0, for quasi-linear h with period P.
// Returns (violated, witness, ok).
func decideGE(h func(int64) (int64, bool), P int64) (bool, int64, bool) {
	if P <= 0 || P > 1<<22 {
		return false, 0, false
	}
	var delta int64
	for n := int64(0); n < 2*P; n++ {
		v, ok := h(n)
		if !ok {
			return false, 0, false
		}
		if v < 0 {
			return true, n, true
		}
		w, ok := h(n + P)
		if !ok {
			return false, 0, false
		}
		if 0 == n {
			delta = w - v
		} else if w-v != delta {
			/* Not quasi-linear after all: refuse to extrapolate. */
			return false, 0, false
		}
	}
	if delta < 0 {
		/* Falls behind by |delta| every period: find the witness. */
		for n := int64(0); n < 1<<40; n += P {
			for k := int64(0); k < P; k++ {
				if v, ok := h(n + k); ok && v < 0 {
					return true, n + k, true
				}
			}
			if n/P > 1<<16 {
				break
			}
		}
		return true, -1, true
	}
	return false, 0, true
}

// isDstValue: v is the output accumulator of top (its first parameter, or a
// load of the variable holding it, possibly captured by a loop body).
func isDstValue(v ssa.Value, top *ssa.Function) bool {
	return isDstValueRec(v, top, map[ssa.Value]bool{})
}

// isDstValueRec: v is dst, or what some variable of the codec holds which
// only ever receives dst, another such variable's content, or an append onto
// one of those (the output being threaded through helpers' own "dst").
func isDstValueRec(v ssa.Value, top *ssa.Function, seen map[ssa.Value]bool) bool {
	if 0 == len(top.Params) {
		return false
	}
	v = stripConv(v, false)
	if v == ssa.Value(top.Params[0]) {
		return true
	}
	if seen[v] {
		return true /* a cycle adds nothing new */
	}
	seen[v] = true
	switch x := v.(type) {
	case *ssa.Phi:
		for _, e := range x.Edges {
			if !isDstValueRec(e, top, seen) {
				return false
			}
		}
		return true
	case *ssa.Call:
		if bi, ok := x.Common().Value.(*ssa.Builtin); ok && "append" == bi.Name() {
			return isDstValueRec(x.Common().Args[0], top, seen)
		}
		/* The same elements with room reserved for what is to come. */
		if n := calleeName(x.Common()); "slices.Grow" == n || strings.HasPrefix(n, "slices.Grow[") {
			return isDstValueRec(x.Common().Args[0], top, seen)
		}
		return false
	case *ssa.FreeVar:
		if b := resolveFree(x); b != ssa.Value(x) {
			return isDstValueRec(b, top, seen)
		}
		return false
	}
	u, ok := v.(*ssa.UnOp)
	if !ok || token.MUL != u.Op {
		return false
	}
	a, ok := resolveFree(u.X).(*ssa.Alloc)
	if !ok {
		return false
	}
	in := false
	for _, f := range withAnons(top) {
		if f == a.Parent() {
			in = true
		}
	}
	if !in {
		return false
	}
	sts := storesTo(a)
	if 0 == len(sts) {
		return false
	}
	for _, st := range sts {
		if !isDstValueRec(st.Val, top, seen) {
			return false
		}
	}
	return true
}
