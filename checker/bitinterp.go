package main

// bitinterp.go: a small abstract interpreter for straight-line / counted-loop
// byte-twiddling code.  Integers which can be computed are concrete; bytes
// derived from designated input bytes are vectors of bit provenances (constant
// 0/1, "input bit n", or unknown).  Local arrays are tracked element-wise.
// The interpreter follows branches whose condition is concrete and stops at
// the first branch it cannot decide.  Used by C15 to decide the 3↔4 byte
// regrouping of uuencode for all inputs at once, and (with concrete inputs
// over a finite alphabet) the symbol tables.

import (
	"fmt"
	"go/constant"
	"go/token"
	"go/types"

	"golang.org/x/tools/go/ssa"
)

// pbit is the provenance of one bit.
type pbit int

const (
	pZero    pbit = -1
	pOne     pbit = -2
	pUnknown pbit = -3
	/* n >= 0: input bit n */
)

func (b pbit) String() string {
	switch b {
	case pZero:
		return "0"
	case pOne:
		return "1"
	case pUnknown:
		return "?"
	}
	return fmt.Sprintf("i%d", int(b))
}

// bv is an abstract value.
type bv struct {
	Kind  int /* 0 unknown, 1 concrete int, 2 bit vector (8 bits, MSB first), 3 array, 4 pointer to array element, 5 pointer to array */
	N     int64
	Bits  [8]pbit
	Arr   *[]bv
	Index int
}

var bvUnknown = bv{}

func bvInt(n int64) bv { return bv{Kind: 1, N: n} }

func bvByteConst(n int64) bv {
	v := bv{Kind: 2}
	for i := 0; i < 8; i++ {
		if 0 != (n>>(7-i))&1 {
			v.Bits[i] = pOne
		} else {
			v.Bits[i] = pZero
		}
	}
	return v
}

// asBits converts a concrete value to bits.
func (v bv) asBits() (bv, bool) {
	switch v.Kind {
	case 2:
		return v, true
	case 1:
		return bvByteConst(v.N & 0xff), true
	}
	return bvUnknown, false
}

func (v bv) allConst() (int64, bool) {
	if 1 == v.Kind {
		return v.N, true
	}
	if 2 != v.Kind {
		return 0, false
	}
	var n int64
	for i := 0; i < 8; i++ {
		n <<= 1
		switch v.Bits[i] {
		case pOne:
			n |= 1
		case pZero:
		default:
			return 0, false
		}
	}
	return n, true
}

func (v bv) String() string {
	switch v.Kind {
	case 1:
		return fmt.Sprintf("%d", v.N)
	case 2:
		s := "["
		for i, b := range v.Bits {
			if i > 0 {
				s += " "
			}
			s += b.String()
		}
		return s + "]"
	case 3:
		s := "{"
		for i, e := range *v.Arr {
			if i > 0 {
				s += ", "
			}
			s += e.String()
		}
		return s + "}"
	}
	return "?"
}

// bitMachine interprets one function fragment.
type bitMachine struct {
	Vals   map[ssa.Value]bv
	Arrays map[*ssa.Alloc]*[]bv
	// Input gives the abstract value of loads the client designates as inputs
	// (e.g. chunk[k]); return Kind 0 to decline.
	Input func(load *ssa.UnOp) bv
	// Override lets the client give a value to an instruction before normal
	// evaluation (e.g. "c - 32" → sextet).
	Override func(i ssa.Instruction) (bv, bool)
	Steps    int
	Why      string /* Why interpretation stopped. */
	Stores   []string
}

func newBitMachine() *bitMachine {
	return &bitMachine{Vals: map[ssa.Value]bv{}, Arrays: map[*ssa.Alloc]*[]bv{}}
}

func isUnsigned(t types.Type) (bits int, unsigned bool, ok bool) {
	b, isB := t.Underlying().(*types.Basic)
	if !isB || 0 == b.Info()&types.IsInteger {
		return 0, false, false
	}
	switch b.Kind() {
	case types.Uint8:
		return 8, true, true
	case types.Int8:
		return 8, false, true
	case types.Uint16:
		return 16, true, true
	case types.Int16:
		return 16, false, true
	case types.Uint32:
		return 32, true, true
	case types.Int32:
		return 32, false, true
	case types.Uint, types.Uint64, types.Uintptr:
		return 64, true, true
	case types.Int, types.Int64, types.UntypedInt:
		return 64, false, true
	}
	return 0, false, false
}

func wrap(n int64, t types.Type) int64 {
	bits, uns, ok := isUnsigned(t)
	if !ok || 64 == bits {
		return n
	}
	m := int64(1)<<bits - 1
	n &= m
	if !uns && 0 != n&(int64(1)<<(bits-1)) {
		n -= int64(1) << bits
	}
	return n
}

func (m *bitMachine) eval(v ssa.Value) bv {
	if x, ok := m.Vals[v]; ok {
		return x
	}
	if c, ok := v.(*ssa.Const); ok {
		if nil == c.Value {
			if _, _, isInt := isUnsigned(c.Type()); isInt {
				return bvInt(0)
			}
			if b, ok := c.Type().Underlying().(*types.Basic); ok && 0 != b.Info()&types.IsBoolean {
				return bvInt(0)
			}
			return bvUnknown
		}
		switch c.Value.Kind() {
		case constant.Int:
			if n, ok := constant.Int64Val(c.Value); ok {
				return bvInt(n)
			}
			if n, ok := constant.Uint64Val(c.Value); ok {
				return bvInt(int64(n))
			}
		case constant.Bool:
			if constant.BoolVal(c.Value) {
				return bvInt(1)
			}
			return bvInt(0)
		}
	}
	return bvUnknown
}

func bitOr(a, b pbit) pbit {
	switch {
	case pOne == a || pOne == b:
		return pOne
	case pZero == a:
		return b
	case pZero == b:
		return a
	case a == b && a >= 0:
		return a
	}
	return pUnknown
}

func bitAnd(a, b pbit) pbit {
	switch {
	case pZero == a || pZero == b:
		return pZero
	case pOne == a:
		return b
	case pOne == b:
		return a
	case a == b && a >= 0:
		return a
	}
	return pUnknown
}

func (m *bitMachine) binop(x *ssa.BinOp) bv {
	a, b := m.eval(x.X), m.eval(x.Y)
	ca, aok := a.allConst()
	cb, bok := b.allConst()
	if aok && bok {
		var r int64
		switch x.Op {
		case token.ADD:
			r = ca + cb
		case token.SUB:
			r = ca - cb
		case token.MUL:
			r = ca * cb
		case token.QUO:
			if 0 == cb {
				return bvUnknown
			}
			r = ca / cb
		case token.REM:
			if 0 == cb {
				return bvUnknown
			}
			r = ca % cb
		case token.AND:
			r = ca & cb
		case token.OR:
			r = ca | cb
		case token.XOR:
			r = ca ^ cb
		case token.AND_NOT:
			r = ca &^ cb
		case token.SHL:
			if cb < 0 || cb > 63 {
				return bvUnknown
			}
			r = ca << uint(cb)
		case token.SHR:
			if cb < 0 || cb > 63 {
				return bvUnknown
			}
			if _, uns, _ := isUnsigned(x.X.Type()); uns {
				r = int64(uint64(ca) >> uint(cb))
			} else {
				r = ca >> uint(cb)
			}
		case token.EQL:
			return boolBV(ca == cb)
		case token.NEQ:
			return boolBV(ca != cb)
		case token.LSS:
			return boolBV(ca < cb)
		case token.LEQ:
			return boolBV(ca <= cb)
		case token.GTR:
			return boolBV(ca > cb)
		case token.GEQ:
			return boolBV(ca >= cb)
		default:
			return bvUnknown
		}
		return bvInt(wrap(r, x.Type()))
	}
	/* Bit-vector operations on bytes. */
	if bits, _, ok := isUnsigned(x.Type()); !ok || 8 != bits {
		return bvUnknown
	}
	av, ok1 := a.asBits()
	bw, ok2 := b.asBits()
	switch x.Op {
	case token.SHL, token.SHR:
		if !ok1 || !bok {
			return bvUnknown
		}
		out := bv{Kind: 2}
		for i := 0; i < 8; i++ {
			out.Bits[i] = pZero
		}
		k := int(cb)
		for i := 0; i < 8; i++ {
			var j int
			if token.SHL == x.Op {
				j = i - k
			} else {
				j = i + k
			}
			if j >= 0 && j < 8 {
				out.Bits[j] = av.Bits[i]
			}
		}
		return out
	case token.OR, token.AND, token.ADD, token.XOR:
		if !ok1 || !ok2 {
			return bvUnknown
		}
		out := bv{Kind: 2}
		switch x.Op {
		case token.OR:
			for i := 0; i < 8; i++ {
				out.Bits[i] = bitOr(av.Bits[i], bw.Bits[i])
			}
		case token.AND:
			for i := 0; i < 8; i++ {
				out.Bits[i] = bitAnd(av.Bits[i], bw.Bits[i])
			}
		case token.ADD, token.XOR:
			/* Equal to OR when no position has two possibly-set bits. */
			for i := 0; i < 8; i++ {
				if pZero != av.Bits[i] && pZero != bw.Bits[i] {
					return bvUnknown
				}
				out.Bits[i] = bitOr(av.Bits[i], bw.Bits[i])
			}
		}
		return out
	}
	return bvUnknown
}

func boolBV(b bool) bv {
	if b {
		return bvInt(1)
	}
	return bvInt(0)
}

// arrayOf returns (creating on demand) the element store of a local array.
func (m *bitMachine) arrayOf(al *ssa.Alloc) *[]bv {
	if a, ok := m.Arrays[al]; ok {
		return a
	}
	pt, ok := al.Type().(*types.Pointer)
	if !ok {
		return nil
	}
	at, ok := pt.Elem().Underlying().(*types.Array)
	if !ok {
		return nil
	}
	arr := make([]bv, at.Len())
	for i := range arr {
		arr[i] = bvInt(0) /* Zero-initialised. */
	}
	m.Arrays[al] = &arr
	return &arr
}

// run interprets from block b (index start) until a return, an undecidable
// branch, or the step limit.  It returns the block where it stopped.
func (m *bitMachine) run(b *ssa.BasicBlock, prev *ssa.BasicBlock) *ssa.BasicBlock {
	for {
		for _, in := range b.Instrs {
			m.Steps++
			if m.Steps > 20000 {
				m.Why = "step limit"
				return b
			}
			if nil != m.Override {
				if v, ok := m.Override(in); ok {
					if val, isV := in.(ssa.Value); isV {
						m.Vals[val] = v
					}
					continue
				}
			}
			switch x := in.(type) {
			case *ssa.Phi:
				for k, p := range b.Preds {
					if p == prev {
						m.Vals[x] = m.eval(x.Edges[k])
					}
				}
			case *ssa.BinOp:
				m.Vals[x] = m.binop(x)
			case *ssa.UnOp:
				switch x.Op {
				case token.MUL:
					if nil != m.Input {
						if v := m.Input(x); 0 != v.Kind {
							m.Vals[x] = v
							continue
						}
					}
					p := m.eval(x.X)
					switch p.Kind {
					case 4:
						if p.Index >= 0 && p.Index < len(*p.Arr) {
							m.Vals[x] = (*p.Arr)[p.Index]
						}
					case 5:
						cp := append([]bv(nil), (*p.Arr)...)
						m.Vals[x] = bv{Kind: 3, Arr: &cp}
					}
				case token.NOT:
					if n, ok := m.eval(x.X).allConst(); ok {
						m.Vals[x] = boolBV(0 == n)
					}
				}
			case *ssa.Alloc:
				if arr := m.arrayOf(x); nil != arr {
					/* A fresh execution of the alloc re-zeroes it. */
					for i := range *arr {
						(*arr)[i] = bvInt(0)
					}
					m.Vals[x] = bv{Kind: 5, Arr: arr}
				}
			case *ssa.IndexAddr:
				base := m.eval(x.X)
				idx, ok := m.eval(x.Index).allConst()
				if 5 == base.Kind && ok {
					m.Vals[x] = bv{Kind: 4, Arr: base.Arr, Index: int(idx)}
				}
			case *ssa.Index:
				base := m.eval(x.X)
				idx, ok := m.eval(x.Index).allConst()
				if 3 == base.Kind && ok && idx >= 0 && int(idx) < len(*base.Arr) {
					m.Vals[x] = (*base.Arr)[idx]
				}
			case *ssa.Store:
				p := m.eval(x.Addr)
				v := m.eval(x.Val)
				switch p.Kind {
				case 4:
					if p.Index >= 0 && p.Index < len(*p.Arr) {
						(*p.Arr)[p.Index] = v
					}
				case 5:
					if 3 == v.Kind && len(*v.Arr) == len(*p.Arr) {
						copy(*p.Arr, *v.Arr)
					}
				}
			case *ssa.Convert:
				v := m.eval(x.X)
				if n, ok := v.allConst(); ok {
					m.Vals[x] = bvInt(wrap(n, x.Type()))
				} else if 2 == v.Kind {
					if bits, _, ok := isUnsigned(x.Type()); ok && 8 == bits {
						m.Vals[x] = v
					}
				}
			case *ssa.ChangeType:
				m.Vals[x] = m.eval(x.X)
			case *ssa.Call:
				if bi, ok := x.Common().Value.(*ssa.Builtin); ok && "len" == bi.Name() {
					if at, ok := x.Common().Args[0].Type().Underlying().(*types.Array); ok {
						m.Vals[x] = bvInt(at.Len())
					}
				}
			case *ssa.If:
				c, ok := m.eval(x.Cond).allConst()
				if !ok {
					m.Why = "undecidable branch"
					return b
				}
				prev = b
				if 0 != c {
					b = b.Succs[0]
				} else {
					b = b.Succs[1]
				}
				goto next
			case *ssa.Jump:
				prev = b
				b = b.Succs[0]
				goto next
			case *ssa.Return:
				m.Why = "return"
				return b
			case *ssa.Panic:
				m.Why = "panic"
				return b
			}
		}
		m.Why = "fell off"
		return b
	next:
	}
}
