package main

// C07 — the script served at /c yields a working, correctly addressed shell.

import (
	"fmt"
	"go/token"
	"go/types"
	"strings"

	"golang.org/x/tools/go/ssa"
)

func init() {
	register("C07", &propDef{
		Run:         checkC07,
		Explanation: "Static decision of the structural clauses of C07. (1) Default template: exactly two curl commands, both carrying the same pin and https://{{.URL}}, with paths /i/{{.ID}} and /o/{{.ID}} built from the same field; every field sits in a quoting context in which the ID alphabet and the pin are inert. (2) ID: TemplateParams.ID is strconv.FormatUint/FormatInt in a base ≤ 36 (or hex / URL-safe base32/64) of a value drawn inside the handler from an automatically seeded generator; nothing in the module seeds math/rand. (3) Callback address precedence: c2URL is walked by the finite abstract interpreter for every valuation of (ParseForm error, c2 form value, c2 header, Host, IDNA error, SNI, listen port 443 or not, port lookup error); on every path the returned value is the first non-empty source in the order parameter, header, IDNA(Host), SNI (+ listen port unless 443), and errors yield no address; the parameter and header are read with the constant \"c2\". (4) Re-read per request: with a template file configured every path of the script handler reads and parses the file in this call; functions reachable from the route handlers never store to Server fields or package variables (nothing can be cached). (5) No script on error: the response writer receives body bytes only from a buffer freshly allocated in this call and only below the nil edges of the template, address and execution errors; every error path sets an error status. Whether /bin/sh and curl then attach is outside.",
		Assumptions: []string{"math/rand's top-level functions are randomly seeded (go ≥ 1.20, no rand.Seed in the module)", "text/template writes only to the writer it is given"},
	})
}

func checkC07(p *Prog, r *Report) {
	rTmpl := r.Rule("template-shape", "two curl commands, same pin and URL, /i/{{.ID}} and /o/{{.ID}}, fields in inert quoting contexts")
	rID := r.Rule("id-fresh-and-safe", "the ID is a base ≤ 36 / hex rendering of a random draw made in the handler")
	rPrec := r.Rule("c2-precedence", "for every combination of sources the callback address is the first non-empty of parameter, header, IDNA(Host), SNI(+port unless 443)")
	rRead := r.Rule("reread-per-request", "a configured template file is read and parsed on every request; handlers keep no state")
	/* "For every request to /c": the route is the bare path, whatever the
	method (a POST carrying c2= as a form field is a request to /c too). */
	{
		rRoute := r.Rule("route", "the script handler is registered for /c with no method or host restriction")
		nr := 0
		for _, rt := range muxRoutes(p) {
			if nil == rt.Handler || rt.Handler != p.Func(hsrvPkg, "Server", "scriptHandler") {
				continue
			}
			nr++
			if "/c" == rt.Pattern {
				rRoute.OK("route /c", rt.Pos, "registered for every method")
			} else {
				rRoute.Bad("route /c", rt.Pos, "the script handler is registered as %q: requests to /c which that pattern does not match (another method, say) get no script", rt.Pattern)
			}
		}
		if 0 == nr {
			rRoute.Unproven("route /c", token.NoPos, "no route leads to the script handler")
		}
	}
	rErr := r.Rule("no-script-on-error", "body bytes reach the client only from a fresh buffer after template, address and execution succeeded")

	checkC07Template(p, r, rTmpl)

	sh := p.Func(hsrvPkg, "Server", "scriptHandler")
	if nil == sh {
		rErr.Unproven("scriptHandler", token.NoPos, "not found")
		return
	}
	r.Saw("func " + fnName(sh))
	checkC07ID(p, r, rID, sh)
	checkC07Precedence(p, r, rPrec)
	checkC07Reread(p, r, rRead, sh)
	checkC07NoScriptOnError(p, r, rErr, sh)
}

func checkC07Template(p *Prog, r *Report, ru *Rule) {
	text, path, err := p.embeddedFile(hsrvPkg, "DefaultTemplate")
	if nil != err {
		ru.Unproven("script.tmpl", token.NoPos, "%s", err)
		return
	}
	r.Saw("template " + strings.TrimPrefix(path, p.Repo+"/"))
	toks, err := flattenTemplate("script", text)
	if nil != err {
		ru.Bad("script.tmpl:parse", token.NoPos, "default template does not parse: %s", err)
		return
	}
	txt := renderToks(toks)
	var curls []string
	for _, c := range shellCommands(txt) {
		if strings.HasPrefix(c, "curl ") {
			curls = append(curls, c)
		}
	}
	if 2 != len(curls) {
		ru.Bad("script.tmpl:curls", token.NoPos, "%d curl commands, exactly 2 expected (input and output)", len(curls))
		return
	}
	urlOf := func(c string) (string, string) {
		i := strings.Index(c, "https://")
		if i < 0 {
			return "", ""
		}
		u := c[i:]
		if j := strings.IndexAny(u, " \t"); j >= 0 {
			u = u[:j]
		}
		k := strings.Index(u[len("https://"):], "/")
		if k < 0 {
			return u, ""
		}
		return u[:len("https://")+k], u[len("https://")+k:]
	}
	h0, p0 := urlOf(curls[0])
	h1, p1 := urlOf(curls[1])
	if "https://⟦URL⟧" != h0 || h0 != h1 {
		ru.Bad("script.tmpl:same-address", token.NoPos, "the two curl commands call back to %q and %q; both must be https://{{.URL}}", h0, h1)
	} else {
		ru.OK("script.tmpl:same-address", token.NoPos, "both curl commands use https://{{.URL}}")
	}
	paths := map[string]bool{p0: true, p1: true}
	if paths["/i/⟦ID⟧"] && paths["/o/⟦ID⟧"] {
		ru.OK("script.tmpl:same-id", token.NoPos, "/i/{{.ID}} and /o/{{.ID}}")
	} else {
		ru.Bad("script.tmpl:same-id", token.NoPos, "the curl paths are %q and %q; /i/{{.ID}} and /o/{{.ID}} with the same field expected", p0, p1)
	}
	pin := func(c string) string {
		i := strings.Index(c, "--pinnedpubkey ")
		if i < 0 {
			return ""
		}
		f := strings.Fields(c[i:])
		if len(f) < 2 {
			return ""
		}
		return f[1]
	}
	if pin(curls[0]) != pin(curls[1]) || !strings.Contains(pin(curls[0]), "sha256//⟦PubkeyFP⟧") {
		ru.Bad("script.tmpl:same-pin", token.NoPos, "the two curl commands pin %q and %q", pin(curls[0]), pin(curls[1]))
	} else {
		ru.OK("script.tmpl:same-pin", token.NoPos, "both pin %s", pin(curls[0]))
	}
	/* -k without a pin would accept anything: already covered by same-pin.
	Quoting contexts. */
	for i, c := range shellContexts(toks) {
		f := toks[i].Field
		cc := fmt.Sprintf("script.tmpl:context#%d{{.%s}}", i, f)
		switch {
		case strings.HasPrefix(f, "?"):
			ru.Unproven(cc, token.NoPos, "template action %s not understood", f)
		case ctxComment == c:
			ru.OK(cc, token.NoPos, "inside a comment")
		case "PubkeyFP" == f && ctxDouble != c && ctxSingle != c:
			ru.Bad(cc, token.NoPos, "the pin (standard base64, may contain / + =) is %s", c)
		default:
			ru.OK(cc, token.NoPos, "%s", c)
		}
	}
	/* The input side must not read the terminal's stdin, and the shell in
	the middle is /bin/sh. */
	if strings.Contains(txt, "/bin/sh") {
		ru.OK("script.tmpl:shell", token.NoPos, "pipes through /bin/sh")
	} else {
		ru.Bad("script.tmpl:shell", token.NoPos, "no /bin/sh between the two curl commands")
	}
}

func checkC07ID(p *Prog, r *Report, ru *Rule, sh *ssa.Function) {
	idF := p.Field(hsrvPkg, "TemplateParams", "ID")
	if nil == idF {
		ru.Unproven("TemplateParams.ID", token.NoPos, "field not found")
		return
	}
	sts := p.storesToField(idF)
	if 1 != len(sts) {
		ru.Bad("TemplateParams.ID:stores", sh.Pos(), "%d stores to TemplateParams.ID in non-test code, one expected", len(sts))
	}
	for _, st := range sts {
		c := fnName(st.Parent()) + ":ID"
		top := st.Parent()
		for nil != top.Parent() {
			top = top.Parent()
		}
		if top != sh {
			ru.Bad(c, posOf(st), "the ID is made outside the per-request handler")
			continue
		}
		call, ok := stripConv(resolveCell(st.Val), false).(*ssa.Call)
		if !ok {
			ru.Bad(c, posOf(st), "the ID is not a freshly rendered value (%s)", describeValue(st.Val))
			continue
		}
		name := calleeName(call.Common())
		safe := false
		switch name {
		case "strconv.FormatUint", "strconv.FormatInt":
			if b, ok := constInt(call.Common().Args[1]); ok && b >= 2 && b <= 36 {
				safe = true
			}
		case "(*math/big.Int).Text":
			if b, ok := constInt(call.Common().Args[1]); ok && b >= 2 && b <= 36 {
				safe = true /* digits and lower-case letters */
			}
		case "encoding/hex.EncodeToString":
			safe = true
		case "(*encoding/base64.Encoding).EncodeToString":
			safe = globalLoad(call.Common().Args[0], "encoding/base64", "RawURLEncoding") || globalLoad(call.Common().Args[0], "encoding/base64", "URLEncoding")
		case "(*encoding/base32.Encoding).EncodeToString":
			safe = true
		}
		if !safe {
			ru.Bad(c+":alphabet", posOf(st), "the ID is produced by %s, which is not known to yield only URL- and shell-safe characters", name)
		} else {
			ru.OK(c+":alphabet", posOf(st), "%s with a safe alphabet", name)
		}
		fresh, why, gens := freshParts(sh, st.Val)
		if fresh {
			ru.OK(c+":fresh", posOf(st), "%s", why)
			for _, g := range gens {
				if n := calleeName(g.call.Common()); strings.HasPrefix(n, "math/rand.Int31") || strings.HasSuffix(n, "Uint32") {
					ru.Bad(c+":width", posOf(g.call), "the ID is drawn from only 32 bits (%s): IDs repeat after a few ten thousand scripts", n)
				}
			}
		} else {
			ru.Bad(c+":fresh", posOf(st), "the ID is not drawn fresh for each script (%s)", why)
		}
	}
	/* Nobody seeds math/rand. */
	seeded := false
	for _, fn := range p.Funcs() {
		eachInstr(fn, func(i ssa.Instruction) {
			if c := callCommon(i); nil != c {
				switch calleeName(c) {
				case "math/rand.Seed", "math/rand.New", "math/rand.NewSource":
					seeded = true
					ru.Bad(fnName(fn)+":seed", posOf(i), "%s: a seeded generator makes IDs repeat across runs", calleeName(c))
				}
			}
		})
	}
	if !seeded {
		ru.OK("module:no-rand-seed", token.NoPos, "math/rand is never seeded in the module")
	}
}

func checkC07Precedence(p *Prog, r *Report, ru *Rule) {
	fn := p.Func(hsrvPkg, "Server", "c2URL")
	if nil == fn {
		ru.Unproven("c2URL", token.NoPos, "not found")
		return
	}
	r.Saw("func " + fnName(fn))
	c2 := "c2"
	if pk := p.Pkg(hsrvPkg); nil != pk {
		if c, ok := lookupObj(pk, "C2Param").(*types.Const); ok {
			c2 = strings.Trim(c.Val().ExactString(), `"`)
		}
	}
	if "c2" != c2 {
		ru.Bad("C2Param", token.NoPos, "the parameter/header name is %q, documented as c2", c2)
	}
	type val struct{ pfErr, form, header, host, idnaErr, sni, p443, splitErr bool }
	var cur val
	keyOK := true
	mach := &Machine{
		Fn: fn,
		LocOf: func(addr ssa.Value) string {
			if fv, _ := fieldAddrOf(addr); nil != fv {
				switch fv.Name() {
				case "ServerName":
					return "sni"
				case "Host":
					return "rawhost"
				case "TLS":
					return "tls" /* requests arrive over TLS: the state is there */
				}
			}
			if al, ok := addr.(*ssa.Alloc); ok {
				return fmt.Sprintf("local@%p", al)
			}
			if g, ok := addr.(*ssa.Global); ok && p.sentinelError(g) {
				return "sentinel" /* var ErrX = errors.New(…), never reassigned */
			}
			return ""
		},
		Param: func(v ssa.Value) AV { return avNonNil },
	}
	str := func(set bool, class string) AV {
		if set {
			return avStrClass(class)
		}
		return avEmptyS
	}
	mach.Call = func(run *Run, c *ssa.CallCommon, idx int) AV {
		name := calleeName(c)
		keyArg := func(k int) {
			if s, ok := constString(c.Args[k]); !ok || s != c2 {
				keyOK = false
			}
		}
		switch name {
		case "(*net/http.Request).ParseForm":
			if cur.pfErr {
				return avNonNil
			}
			return avNilV
		case "(net/url.Values).Get":
			keyArg(1)
			/* Only r.Form counts as "query/form parameter". */
			if fv, _ := loadedField(c.Args[0]); nil == fv || "Form" != fv.Name() {
				return avU
			}
			return str(cur.form, "PARAM")
		case "(*net/http.Request).FormValue":
			keyArg(1)
			return str(cur.form, "PARAM")
		case "(net/http.Header).Get":
			keyArg(1)
			return str(cur.header, "HEADER")
		case "golang.org/x/net/idna.ToASCII", "(*golang.org/x/net/idna.Profile).ToASCII":
			if 1 == idx {
				if cur.idnaErr {
					return avNonNil
				}
				return avNilV
			}
			if cur.idnaErr {
				return avEmptyS
			}
			return str(cur.host, "HOST")
		case "net.SplitHostPort":
			switch idx {
			case 1:
				if cur.p443 {
					return avStrClass("const:443")
				}
				return avStrClass("PORT")
			case 2:
				if cur.splitErr {
					return avNonNil
				}
				return avNilV
			}
			return avStrClass("LHOST")
		case "net.JoinHostPort":
			return avStrClass("join(" + run.Eval(c.Args[0]).S + "," + run.Eval(c.Args[1]).S + ")")
		case "errors.New", "fmt.Errorf":
			return avNonNil
		}
		if strings.HasPrefix(name, "cmp.Or") {
			for _, e := range variadicElems(c) {
				a := run.Eval(e)
				if avStr != a.K {
					return avU
				}
				if "" != a.S {
					return a
				}
			}
			return avEmptyS
		}
		return avU
	}
	mach.OnInstr = func(run *Run, i ssa.Instruction, deferred bool) bool {
		if ret, ok := i.(*ssa.Return); ok && 2 == len(ret.Results) {
			run.Emit("ret:%s|%s", run.Eval(retVal(ret, 0)), run.Eval(retVal(ret, 1)))
		}
		return false
	}
	n, bad := 0, 0
	for bits := 0; bits < 256; bits++ {
		cur = val{bits&1 != 0, bits&2 != 0, bits&4 != 0, bits&8 != 0, bits&16 != 0, bits&32 != 0, bits&64 != 0, bits&128 != 0}
		if cur.idnaErr && !cur.host {
			continue /* An empty Host converts without error. */
		}
		mem := map[string]AV{"sni": str(cur.sni, "SNI"), "rawhost": str(cur.host, "RAWHOST"), "tls": avNonNil, "sentinel": avNonNil}
		var want string
		switch {
		case cur.pfErr:
			want = "error"
		case cur.form:
			want = "str:PARAM"
		case cur.header:
			want = "str:HEADER"
		case cur.idnaErr:
			want = "error"
		case cur.host:
			want = "str:HOST"
		case cur.sni && cur.splitErr:
			want = "error"
		case cur.sni && cur.p443:
			want = "str:SNI"
		case cur.sni:
			want = "str:join(SNI,PORT)"
		default:
			want = "error"
		}
		paths, _ := mach.Explore(mem)
		for _, run := range paths {
			n++
			got := "no-return"
			for _, t := range run.Trace {
				if strings.HasPrefix(t, "ret:") {
					parts := strings.SplitN(strings.TrimPrefix(t, "ret:"), "|", 2)
					if "nil" == parts[1] {
						got = parts[0]
					} else if "non-nil" == parts[1] {
						got = "error"
					} else {
						got = "unknown(" + t + ")"
					}
				}
			}
			if got != want {
				bad++
				ru.Bad(fmt.Sprintf("%s:%s", fnName(fn), describeC2(cur.pfErr, cur.form, cur.header, cur.host, cur.idnaErr, cur.sni, cur.p443, cur.splitErr)), posOf(endInstr(run, fn)),
					"with %s the callback address is %s, expected %s (undecided: %s)", describeC2(cur.pfErr, cur.form, cur.header, cur.host, cur.idnaErr, cur.sni, cur.p443, cur.splitErr), got, want, strings.Join(run.Forks, ","))
			}
		}
	}
	if 0 == bad {
		ru.OK(fnName(fn)+":table", fn.Pos(), "%d paths over all source combinations return the documented choice", n)
	}
	if keyOK {
		ru.OK(fnName(fn)+":key", fn.Pos(), "parameter and header are read with the constant %q", c2)
	} else {
		ru.Bad(fnName(fn)+":key", fn.Pos(), "the parameter/header is not read with the constant %q", c2)
	}
	/* "In IDNA-ASCII form": the plain conversion (idna.ToASCII, i.e. the
	Punycode profile).  A profile put together with idna.New, or one of the
	validating profiles (Lookup, Display, Registration), also maps
	characters (ß to ss) and refuses names (hyphens in places, long
	labels): a Host the plain conversion passes gets another address, or
	no script. */
	eachInstr(fn, func(i ssa.Instruction) {
		c, ok := i.(*ssa.Call)
		if !ok || "(*golang.org/x/net/idna.Profile).ToASCII" != calleeName(c.Common()) {
			return
		}
		if "Punycode" == globalLoadName(c.Common().Args[0]) {
			return
		}
		ru.Bad(fnName(fn)+":idna-profile", posOf(c), "the Host is converted with an IDNA profile other than the plain Punycode one (%s): it maps or refuses names which idna.ToASCII passes unchanged", rootsString(valueRoots(c.Common().Args[0], nil)))
	})
	/* The port used for the SNI case comes from the bound socket. */
	eachInstr(fn, func(i ssa.Instruction) {
		c, ok := i.(*ssa.Call)
		if !ok || "net.JoinHostPort" != calleeName(c.Common()) {
			return
		}
		rs := valueRoots(c.Common().Args[1], func(n string) bool {
			return "net.SplitHostPort" == n || "(net.Addr).String" == n
		})
		okk := len(rs) > 0
		for _, rt := range rs {
			if !("call" == rt.Kind && "(net.Listener).Addr" == rt.Callee) {
				okk = false
			}
		}
		if okk {
			ru.OK(fnName(fn)+":sni-port", posOf(c), "the port added to the SNI comes from s.l.Addr()")
		} else {
			ru.Bad(fnName(fn)+":sni-port", posOf(c), "the port added to the SNI derives from %s", rootsString(rs))
		}
	})
}

func describeC2(pfErr, form, header, host, idnaErr, sni, p443, splitErr bool) string {
	var on []string
	for _, x := range []struct {
		b bool
		n string
	}{{pfErr, "unparsable form"}, {form, "c2 parameter"}, {header, "c2 header"}, {host, "Host"}, {idnaErr, "IDNA error"}, {sni, "SNI"}, {p443, "port 443"}, {splitErr, "port lookup error"}} {
		if x.b {
			on = append(on, x.n)
		}
	}
	if 0 == len(on) {
		return "no source"
	}
	return strings.Join(on, "+")
}

// handlerReachable returns the hsrv functions reachable (static calls,
// closures) from the route handlers.
func handlerReachable(p *Prog) map[*ssa.Function]bool {
	seen := map[*ssa.Function]bool{}
	var visit func(f *ssa.Function)
	visit = func(f *ssa.Function) {
		if nil == f || seen[f] || !inModule(f) || nil == f.Blocks {
			return
		}
		seen[f] = true
		for _, a := range f.AnonFuncs {
			visit(a)
		}
		eachInstr(f, func(i ssa.Instruction) {
			if c := callCommon(i); nil != c {
				visit(c.StaticCallee())
			}
		})
	}
	for _, rt := range muxRoutes(p) {
		visit(rt.Handler)
	}
	return seen
}

func checkC07Reread(p *Prog, r *Report, ru *Rule, sh *ssa.Function) {
	tmplf := p.Field(hsrvPkg, "Server", "tmplf")
	if nil != tmplf {
		/* "The configured template file" is the name the operator gave, as
		it resolves at each request: what is kept must not be the outcome
		of looking at the file system at start-up (a symlink resolved then
		is a different file after the link has been re-pointed). */
		for _, st := range p.storesToField(tmplf) {
			c := fnName(st.Parent()) + ":template-path"
			var fsCall string
			operandsReach(st.Val, func(v ssa.Value) bool {
				call, ok := v.(*ssa.Call)
				if !ok {
					return false
				}
				switch n := calleeName(call.Common()); {
				case "path/filepath.EvalSymlinks" == n, "path/filepath.Glob" == n, strings.HasPrefix(n, "os.") && "os.Getenv" != n && "os.ExpandEnv" != n && "os.Getwd" != n:
					fsCall = n
					return true
				}
				return false
			})
			if "" != fsCall {
				ru.Bad(c, posOf(st), "the template path kept by the server is the result of %s at start-up, not the configured name: edits which replace or re-point the file (a symlinked release, a rename into place) are never seen, and removing the old target breaks every later request", fsCall)
			} else {
				ru.OK(c, posOf(st), "the configured name is kept as given (no file-system lookup at start-up)")
			}
		}
	}
	if nil == tmplf {
		ru.Unproven("readTemplate", token.NoPos, "Server.tmplf not found")
		return
	}
	/* (The template reader is folded into the handler: the rule follows the
	handler's own paths, whether or not a helper of any name exists.) */
	var exec *ssa.Call
	eachInstr(sh, func(i ssa.Instruction) {
		if c, ok := i.(*ssa.Call); ok && "(*text/template.Template).Execute" == calleeName(c.Common()) {
			exec = c
		}
	})
	if nil == exec {
		ru.Unproven(fnName(sh)+":execute", sh.Pos(), "no template execution found")
		return
	}
	/* The test "is a template file configured". */
	var emptyIf *ssa.If
	for _, b := range sh.Blocks {
		if ifi := blockIf(b); nil != ifi {
			c := decodeCond(ifi.Cond)
			if fv, _ := loadedField(c.X); fv == tmplf && nil != c.Y {
				if s, ok := constString(c.Y); ok && "" == s {
					emptyIf = ifi
				}
			}
		}
	}
	if nil == emptyIf {
		ru.Bad(fnName(sh)+":file-branch", sh.Pos(), "the handler does not branch on whether a template file is configured")
		return
	}
	dc := decodeCond(emptyIf.Cond)
	setSucc := 1
	if !dc.Eq {
		setSucc = 0
	}
	/* What can be executed: every value the template operand can hold,
	with the way it comes in. */
	through := func(n string) bool {
		switch n {
		case "(*text/template.Template).Parse", "text/template.Must", "(*text/template.Template).Funcs", "(*text/template.Template).Option",
			"(*strings.Builder).String", "(*bytes.Buffer).String", "(*bytes.Buffer).Bytes", "io.ReadAll", "io/ioutil.ReadAll", "bufio.NewReader":
			return true
		}
		return false
	}
	nfile, ndef := 0, 0
	memoFields := map[*types.Var]bool{}
	for k, lf := range phiLeaves(exec.Common().Args[0]) {
		c := fmt.Sprintf("%s:template-source#%d", fnName(sh), k+1)
		if isNilConst(lf.V) {
			continue /* An error path's placeholder; the body rule (no script on error) covers it. */
		}
		/* A parse remembered with the exact text it came from, used only
		where that text equals what this request read: the parse of what
		this request read. */
		memoKey := ssa.Value(nil)
		if km := contentKeyedMemo(p, sh, lf.V, lf.From); nil != km {
			memoKey = km.Key
			memoFields[km.ValField], memoFields[km.KeyField] = true, true
		}
		/* The configured default: only when no file is configured. */
		if fv, _ := loadedField(lf.V); nil == memoKey && nil != fv && fv != tmplf {
			ndef++
			onEmpty := false
			if nil != lf.From {
				last := lf.From.Instrs[len(lf.From.Instrs)-1]
				if last == ssa.Instruction(emptyIf) {
					onEmpty = lf.From.Succs[1-setSucc] != lf.From.Succs[setSucc]
				} else {
					onEmpty = edgeDominates(emptyIf, 1-setSucc, last)
				}
			} else if in, ok := lf.V.(ssa.Instruction); ok {
				onEmpty = edgeDominates(emptyIf, 1-setSucc, in) || !canReachEdge(emptyIf, setSucc, exec)
			}
			if onEmpty {
				ru.OK(c, posOf(exec), "Server.%s is executed only when no template file is configured", fv.Name())
			} else {
				ru.Bad(c, posOf(exec), "the executed template can be Server.%s although a template file is configured: the file is not re-read for this request", fv.Name())
			}
			continue
		}
		/* Otherwise: the parse of what was read from s.tmplf in this call. */
		rs := valueRoots(lf.V, through)
		if nil != memoKey {
			rs = valueRoots(memoKey, through)
		}
		readOK := false
		var other []string
		var visit func(rs []Root, depth int)
		visit = func(rs []Root, depth int) {
			for _, x := range rs {
				switch {
				case "call" == x.Kind && ("os.ReadFile" == x.Callee || "io/ioutil.ReadFile" == x.Callee || "os.Open" == x.Callee):
					arg := x.V.(*ssa.Call).Common().Args[0]
					if fv, _ := loadedField(resolveCell(arg)); fv == tmplf {
						readOK = true
					} else {
						other = append(other, "reads "+describeValue(arg))
					}
				case "call" == x.Kind && "text/template.New" == x.Callee, "const" == x.Kind:
				case ("alloc" == x.Kind || "other" == x.Kind) && depth < 3 && isBufferAlloc(x.V):
					fills, bad := bufferFills(sh, x.V)
					other = append(other, bad...)
					if 0 == len(fills) && 0 == len(bad) {
						other = append(other, "an empty buffer")
					}
					for _, f := range fills {
						visit(valueRoots(f, through), depth+1)
					}
				default:
					other = append(other, x.String())
				}
			}
		}
		visit(rs, 0)
		nfile++
		if readOK && 0 == len(other) {
			ru.OK(c, posOf(exec), "the parse of os.ReadFile(s.tmplf) done in this request")
		} else {
			ru.Bad(c, posOf(exec), "with a template file configured, the template executed need not be the one read from the file in this request (%s)", strings.Join(append(other, rootsString(rs)), "; "))
		}
	}
	if 0 == nfile {
		ru.Bad(fnName(sh)+":configured-return", sh.Pos(), "the configured template file is never read and parsed on the way to the execution")
	}
	/* Handlers keep no state. */
	nst := 0
	for f := range handlerReachable(p) {
		if nil == f.Pkg || !strings.HasSuffix(f.Pkg.Pkg.Path(), "/internal/hsrv") {
			continue
		}
		eachInstr(f, func(i ssa.Instruction) {
			st, ok := i.(*ssa.Store)
			if !ok {
				return
			}
			fv, base := fieldAddrOf(st.Addr)
			/* (A field of a struct which is itself a field of the Server
			— through a pointer taken to it or not — is Server state.) */
			for nil != fv {
				nb := resolveCell(base)
				if fa, isFA := nb.(*ssa.FieldAddr); isFA {
					base = fa.X
					continue
				}
				base = nb
				break
			}
			if sfv, _ := fieldAddrOf(st.Addr); nil != sfv && memoFields[sfv] {
				return /* a content-keyed memo, judged where it is read */
			}
			if nil != fv && typeIs(base.Type(), ModPath+"/internal/hsrv", "Server") {
				nst++
				ru.Bad(fnName(f)+":stores-Server."+fv.Name(), posOf(st), "a request handler writes Server.%s: state carried from one request to the next (e.g. a cached template) breaks re-reading per request", fv.Name())
			}
			if g, ok := st.Addr.(*ssa.Global); ok && nil != g.Pkg && strings.HasPrefix(g.Pkg.Pkg.Path(), ModPath) {
				nst++
				ru.Bad(fnName(f)+":stores-global."+g.Name(), posOf(st), "a request handler writes package variable %s", g.Name())
			}
		})
	}
	if 0 == nst {
		ru.OK("handlers:stateless", token.NoPos, "no function reachable from a route handler stores to a Server field or package variable")
	}
}

func checkC07NoScriptOnError(p *Prog, r *Report, ru *Rule, sh *ssa.Function) {
	var w *ssa.Parameter
	for _, pa := range sh.Params {
		if typeIs(pa.Type(), "net/http", "ResponseWriter") {
			w = pa
		}
	}
	if nil == w {
		ru.Unproven(fnName(sh)+":w", sh.Pos(), "no ResponseWriter parameter")
		return
	}
	/* Error values which must be nil before the body is sent. */
	type gate struct {
		what string
		v    ssa.Value
	}
	var gates []gate
	var exec *ssa.Call
	eachInstr(sh, func(i ssa.Instruction) {
		if c, ok := i.(*ssa.Call); ok && "(*text/template.Template).Execute" == calleeName(c.Common()) {
			exec = c
		}
	})
	if nil == exec {
		ru.Unproven(fnName(sh)+":gates", sh.Pos(), "no template execution found")
		return
	}
	/* The fallible steps: every call on the way to the execution which
	returns an error (reading and parsing the template, working out the
	callback address, ...) and the execution itself. */
	eachInstr(sh, func(i ssa.Instruction) {
		c, ok := i.(*ssa.Call)
		if !ok || (c != exec && !canReach(locOf(c), exec)) {
			return
		}
		var ev ssa.Value
		switch t := c.Type().(type) {
		case *types.Tuple:
			if t.Len() > 0 && isErrorType(t.At(t.Len()-1).Type()) {
				ev = extractOf(c, t.Len()-1)
				if nil == ev {
					return /* discarded */
				}
			}
		default:
			if isErrorType(c.Type()) && 0 != len(*c.Referrers()) {
				ev = c
			}
		}
		if nil == ev {
			return
		}
		what := calleeName(c.Common())
		switch what {
		case "fmt.Errorf", "errors.New", "errors.Join", "errors.Unwrap":
			return /* makes an error value; cannot itself fail */
		}
		if c == exec {
			what = "template execution"
		}
		gates = append(gates, gate{what, ev})
	})
	if len(gates) < 3 {
		ru.Unproven(fnName(sh)+":gates", sh.Pos(), "%d fallible steps found on the way to the response; reading/parsing the template, the callback address and the execution were expected", len(gates))
		return
	}
	/* Execute writes into a buffer allocated in this call, not into w. */
	buf := stripConv(exec.Common().Args[1], false)
	if _, ok := buf.(*ssa.Alloc); ok {
		ru.OK(fnName(sh)+":execute-into-fresh-buffer", posOf(exec), "the template is executed into a buffer allocated in this call")
	} else if buf == ssa.Value(w) {
		ru.Bad(fnName(sh)+":execute-into-fresh-buffer", posOf(exec), "the template is executed straight into the response: a failing template sends a partial script")
	} else if why, ok := pooledBufferOwned(sh, buf, exec); ok {
		ru.OK(fnName(sh)+":execute-into-fresh-buffer", posOf(exec), "%s", why)
	} else if "" != why {
		ru.Bad(fnName(sh)+":execute-into-fresh-buffer", posOf(exec), "%s", why)
	} else {
		ru.Bad(fnName(sh)+":execute-into-fresh-buffer", posOf(exec), "the template is executed into %s, which is not a buffer freshly allocated for this request (left-overs of an earlier, failed request can be sent)", rootsString(valueRoots(buf, nil)))
	}
	/* Every use of w. */
	nbody := 0
	var visit func(v ssa.Value)
	visit = func(v ssa.Value) {
		for _, ref := range *v.Referrers() {
			switch x := ref.(type) {
			case *ssa.DebugRef:
			case *ssa.ChangeInterface:
				visit(x)
			case *ssa.MakeInterface:
				visit(x)
			case ssa.CallInstruction:
				name := calleeName(x.Common())
				c := fmt.Sprintf("%s:w→%s", fnName(sh), name)
				switch name {
				case "(net/http.ResponseWriter).WriteHeader":
					if k, ok := constInt(x.Common().Args[0]); ok && k >= 400 {
						/* Must be on an error edge. */
						/* Not reachable unless some step failed: with
						every failing edge taken away there is no way
						here. */
						fail := map[Edge]bool{}
						for _, g := range gates {
							if nil == g.v {
								continue
							}
							for _, t := range nilTestsOf(sh, g.v) {
								fail[Edge{t.If.Block().Index, t.If.Block().Succs[1-t.NilSucc].Index}] = true
							}
						}
						onErr := nil == reachQ{From: entryLoc(sh), NoEdges: fail, Target: func(j ssa.Instruction) bool { return j == ssa.Instruction(x) }}.run()
						/* Or the request ends there without a script (a
						refusal of the handler's own, e.g. a sanity check on
						the parameters), and the script can still be sent
						without passing here when nothing fails. */
						isBody := func(j ssa.Instruction) bool {
							cj := callCommon(j)
							if nil == cj || 0 == len(cj.Args) || stripConv(cj.Args[0], false) != ssa.Value(w) && (len(cj.Args) < 2 || stripConv(cj.Args[1], false) != ssa.Value(w)) {
								return false
							}
							switch calleeName(cj) {
							case "(net/http.ResponseWriter).WriteHeader", "(net/http.ResponseWriter).Header":
								return false
							}
							return true
						}
						endsRequest := nil == reachQ{From: locOf(x), Target: isBody}.run()
						sentWhenGood := nil != reachQ{From: entryLoc(sh), NoEdges: fail, Block: func(j ssa.Instruction) bool { return j == ssa.Instruction(x) }, Target: isBody}.run()
						switch {
						case onErr:
							ru.OK(fmt.Sprintf("%s#%d", c, k), posOf(x), "error status on an error edge")
						case endsRequest && sentWhenGood:
							ru.OK(fmt.Sprintf("%s#%d", c, k), posOf(x), "an error status of the handler's own: no script follows it, and the script is sent without passing here when no step fails")
						default:
							ru.Bad(fmt.Sprintf("%s#%d", c, k), posOf(x), "error status %d outside an error edge", k)
						}
					}
				case "(net/http.ResponseWriter).Header":
				default:
					/* Anything else may write the body. */
					nbody++
					okAll := true
					for _, g := range gates {
						if nil == g.v {
							okAll = false
							continue
						}
						tests := nilTestsOf(sh, g.v)
						if 0 == len(tests) {
							okAll = false
							ru.Bad(c+":after-"+g.what, posOf(x), "the error of %s is never tested: the response body can be written although it failed", g.what)
							continue
						}
						for _, t := range tests {
							if canReachEdge(t.If, 1-t.NilSucc, x) {
								okAll = false
								ru.Bad(c+":after-"+g.what, posOf(x), "the response body can be written although %s failed", g.what)
								break
							}
						}
					}
					if okAll {
						ru.OK(c, posOf(x), "unreachable once any of the %d fallible steps has failed", len(gates))
					}
					/* And what is written is the buffer. */
					if "(*bytes.Buffer).WriteTo" == name || "io.Copy" == name {
						src := x.Common().Args[0]
						if "io.Copy" == name {
							src = x.Common().Args[1]
						}
						if stripConv(src, false) != buf {
							ru.Bad(c+":source", posOf(x), "the body sent is not the buffer the template was executed into")
						}
					}
				}
			default:
				ru.Unproven(fnName(sh)+":w-use", posOf(ref), "response writer used by %T", ref)
			}
		}
	}
	visit(w)
	if 0 == nbody {
		ru.Bad(fnName(sh)+":body", sh.Pos(), "the script is never written to the response")
	}
	/* Every error edge sets an error status and returns. */
	for _, g := range gates {
		if nil == g.v {
			continue
		}
		for _, t := range nilTestsOf(sh, g.v) {
			from := edgeLoc(t.If.Block(), 1-t.NilSucc)
			miss := reachQ{From: from, Target: isReturn, Block: func(i ssa.Instruction) bool {
				c := callCommon(i)
				if nil == c {
					return false
				}
				n := calleeName(c)
				return "(net/http.ResponseWriter).WriteHeader" == n || "net/http.Error" == n
			}}.run()
			c := fnName(sh) + ":status-on-" + g.what + "-error"
			if nil != miss {
				ru.Bad(c, posOf(t.If), "a failed %s does not produce an error status (the client would see 200 and an empty script)", g.what)
			} else {
				ru.OK(c, posOf(t.If), "error status set")
			}
		}
	}
}

// isBufferAlloc: v is a local strings.Builder / bytes.Buffer (or its address).
func isBufferAlloc(v ssa.Value) bool {
	al, ok := v.(*ssa.Alloc)
	if !ok {
		return false
	}
	t := al.Type().Underlying().(*types.Pointer).Elem().String()
	return "strings.Builder" == t || "bytes.Buffer" == t
}

// bufferFills lists the readers copied into the local buffer buf within fn;
// any other way of writing into it is reported in bad.
func bufferFills(fn *ssa.Function, buf ssa.Value) (fills []ssa.Value, bad []string) {
	eachInstr(fn, func(i ssa.Instruction) {
		c := callCommon(i)
		if nil == c {
			return
		}
		uses := -1
		for k, a := range c.Args {
			if stripConv(a, false) == buf {
				uses = k
			}
		}
		if uses < 0 {
			return
		}
		switch n := calleeName(c); n {
		case "io.Copy", "io.CopyBuffer":
			if 0 == uses {
				fills = append(fills, c.Args[1])
			}
		case "(*bytes.Buffer).ReadFrom", "(*strings.Builder).ReadFrom":
			fills = append(fills, c.Args[1])
		case "(*strings.Builder).String", "(*bytes.Buffer).String", "(*bytes.Buffer).Bytes", "(*strings.Builder).Len", "(*bytes.Buffer).Len", "(*strings.Builder).Grow", "(*bytes.Buffer).Grow":
		default:
			bad = append(bad, "the buffer is also written by "+n)
		}
	})
	return fills, bad
}

// pooledBufferOwned: buf is a *bytes.Buffer taken from a sync.Pool in fn which
// is emptied (Reset) on every way from the Get to the execution at exec, and
// which is not handed back to the pool (other than by a deferred call) at a
// point from which fn still uses it.  Then it is, for this request, as good
// as freshly allocated: nothing of an earlier request is in it and nobody
// else can get hold of it while it is in use (sync.Pool's contract is
// trusted).  ("", false): not a pooled buffer at all.
func pooledBufferOwned(fn *ssa.Function, buf ssa.Value, exec *ssa.Call) (string, bool) {
	ta, ok := buf.(*ssa.TypeAssert)
	if !ok {
		return "", false
	}
	get, ok := ta.X.(*ssa.Call)
	if !ok || "(*sync.Pool).Get" != calleeName(get.Common()) {
		return "", false
	}
	reset := false
	var early ssa.Instruction
	for _, f := range withAnons(fn) {
		eachInstr(f, func(i ssa.Instruction) {
			c := callCommon(i)
			if nil == c || 0 == len(c.Args) {
				return
			}
			switch calleeName(c) {
			case "(*bytes.Buffer).Reset":
				if stripConv(c.Args[0], false) == buf && f == fn {
					if ci, isCall := i.(*ssa.Call); isCall && instrDominates(ci, exec) {
						reset = true
					}
				}
			case "(*sync.Pool).Put":
				if len(c.Args) < 2 || stripConv(c.Args[1], false) != buf {
					return
				}
				if _, isDefer := i.(*ssa.Defer); isDefer || f != fn {
					return
				}
				/* Handed back here: no use of the buffer may follow. */
				eachInstr(fn, func(j ssa.Instruction) {
					if j == i {
						return
					}
					uses := false
					var ops []*ssa.Value
					for _, o := range j.Operands(ops) {
						if nil != *o && stripConv(*o, false) == buf {
							uses = true
						}
					}
					if uses && canReach(locOf(i), j) {
						early = i
					}
				})
			}
		})
	}
	switch {
	case nil != early:
		return "the pooled buffer the template is executed into is handed back to the pool while it is still in use: another request can write into what is being sent", false
	case !reset:
		return "the template is executed into a pooled buffer which is not emptied first on every way there: left-overs of an earlier, failed request can be sent", false
	}
	return "the template is executed into a pooled buffer which is emptied before use and handed back only when this request is done with it", true
}
