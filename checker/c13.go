package main

// C13 — simpleshell talks only to the pinned key, and the pin is per
// connection.

import (
	"fmt"
	"go/token"
	"go/types"
	"strings"

	"golang.org/x/tools/go/ssa"
)

const sshPkg = "lib/simpleshell"

func init() {
	register("C13", &propDef{
		Run:         checkC13,
		Explanation: "Static decision of the structural clauses of C13. (1) Process globals untouched: no store in lib/simpleshell goes through a pointer loaded from a package-level variable (http.DefaultClient, http.DefaultTransport, or any variable of the module); every object configured in Go is allocated or cloned inside the call. (2) Pin per call: whether a fingerprint is configured is decided by comparing ConnConfig.Fingerprint itself with \"\"; on the configured edge the C2 URL's scheme must be https, the verifier is built from this call's fingerprint, and every tls.Config with InsecureSkipVerify is a fresh literal which also sets VerifyConnection to that verifier and is installed, via a cloned transport, in the very client that sends the request; on the other edge nothing weakens ordinary validation. (3) Malformed pin refused: the request is unreachable from the verifier constructor's error edge; the constructor returns its closure only below an exact-length (32) test of the value decoded with base64.StdEncoding from the parameter. (4) Accept edge: inside the verifier every return of nil is control-dependent on the equality edge of a constant-time/bytes comparison of the whole decoded pin with the whole SHA-256 of the DER SubjectPublicKeyInfo of one of this connection's peer certificates; nothing else (session resumption flags, counters) can lead to acceptance. That crypto/tls calls VerifyConnection before application data on every handshake, resumed ones included, is trusted.",
		Assumptions: []string{"crypto/tls calls Config.VerifyConnection on every handshake (including resumptions) before any application data"},
	})
}

func checkC13(p *Prog, r *Report) {
	rGlob := r.Rule("globals-untouched", "no store in simpleshell goes through a package-level variable; configured objects are allocated or cloned in the call")
	rPin := r.Rule("pin-per-call", "the fingerprint decision is on the field itself; the skip-verify config is fresh, carries this call's verifier and is installed in the client that sends the request")
	rTLS := r.Rule("pin-needs-tls", "with a fingerprint configured the request is sent only to an https URL")
	rMal := r.Rule("malformed-refused", "a verifier-construction error blocks the request; the closure exists only for a 32-byte standard-base64 value")
	rAcc := r.Rule("accept-edge", "the verifier returns nil only on full-length equality of the pin with the SPKI hash of a presented certificate")

	checkC13Fallback(p, r, r.Rule("compiled-in-pin-kept", "in the command-line wrapper the fingerprint chosen is never empty when one is compiled in: the compiled-in value is the last resort of every alternative which can be empty"))

	goFn := p.Func(sshPkg, "", "Go")
	vf := p.Func(sshPkg, "", "TLSFingerprintVerifier")
	if nil == goFn || nil == vf {
		rPin.Unproven("simpleshell", token.NoPos, "Go or TLSFingerprintVerifier not found")
		return
	}
	r.Saw("func " + fnName(goFn))
	r.Saw("func " + fnName(vf))

	/* 1. Stores through globals. */
	n := 0
	for _, fn := range p.Funcs() {
		if nil == fn.Pkg || !strings.HasSuffix(fn.Pkg.Pkg.Path(), "/"+sshPkg) {
			continue /* The library itself; its command-line wrapper sets flag.Usage. */
		}
		eachInstr(fn, func(i ssa.Instruction) {
			st, ok := i.(*ssa.Store)
			if !ok {
				return
			}
			var base ssa.Value = st.Addr
			for {
				if fa, ok := base.(*ssa.FieldAddr); ok {
					base = fa.X
					continue
				}
				if ia, ok := base.(*ssa.IndexAddr); ok {
					base = ia.X
					continue
				}
				break
			}
			if g, ok := base.(*ssa.Global); ok {
				if nil != g.Pkg && strings.HasPrefix(g.Pkg.Pkg.Path(), ModPath) && "init" == fn.Name() {
					return
				}
				n++
				rGlob.Bad(fmt.Sprintf("%s:store-global %s", fnName(fn), g.Name()), posOf(i), "package-level variable %s is assigned at run time: state shared by all calls", g.Name())
				return
			}
			if _, isField := st.Addr.(*ssa.FieldAddr); !isField {
				return
			}
			n++
			for _, x := range valueRoots(base, func(n string) bool { return false }) {
				if "global" == x.Kind {
					fv, _ := fieldAddrOf(st.Addr)
					rGlob.Bad(fmt.Sprintf("%s:%s.%s", fnName(fn), x.V.Name(), fv.Name()), posOf(i), "field %s of the object in package-level variable %s is modified: every other user of it in the process (and every later or concurrent call) is affected", fv.Name(), x.V.Name())
					return
				}
			}
		})
	}
	if 0 == len(filterObs(r, "C13.globals-untouched", Refuted)) {
		rGlob.OK("lib/simpleshell", token.NoPos, "%d stores examined, none reaches a package-level variable", n)
	}

	/* 2. The request and its client. */
	var req *ssa.Call
	eachInstr(goFn, func(i ssa.Instruction) {
		c, ok := i.(*ssa.Call)
		if !ok {
			return
		}
		switch calleeName(c.Common()) {
		case "(*net/http.Client).Post", "(*net/http.Client).Do", "(*net/http.Client).Get", "(*net/http.Client).PostForm", "net/http.Post", "net/http.Get":
			req = c
		}
	})
	if nil == req {
		rPin.Unproven(fnName(goFn)+":request", goFn.Pos(), "no HTTP request call found")
		return
	}
	if !strings.HasPrefix(calleeName(req.Common()), "(*net/http.Client)") {
		rGlob.Bad(fnName(goFn)+":default-client", posOf(req), "the request is sent with the process-wide default client (%s)", calleeName(req.Common()))
		return
	}
	client := resolveCell(req.Common().Args[0])
	/* The client may be one of several allocated on different branches. */
	clientLeaves := phiLeaves(client)
	allFresh := 0 != len(clientLeaves)
	clientAllocs := map[ssa.Value]bool{}
	for _, l := range clientLeaves {
		if al, ok := l.V.(*ssa.Alloc); ok && al.Parent() == goFn {
			clientAllocs[al] = true
		} else {
			allFresh = false
		}
	}
	if !allFresh {
		rGlob.Bad(fnName(goFn)+":client-fresh", posOf(req), "the client sending the request is %s, not one allocated in this call", rootsString(valueRoots(client, nil)))
	} else {
		rGlob.OK(fnName(goFn)+":client-fresh", posOf(req), "the client is allocated in this call")
	}
	/* The fingerprint decision. */
	fpF := p.Field(sshPkg, "ConnConfig", "Fingerprint")
	var fpIf *ssa.If
	for _, b := range goFn.Blocks {
		if ifi := blockIf(b); nil != ifi {
			dc := decodeCond(ifi.Cond)
			if fv, _ := loadedField(dc.X); fv == fpF && nil != dc.Y {
				if s, ok := constString(dc.Y); ok && "" == s {
					fpIf = ifi
				}
			}
		}
	}
	if nil == fpIf {
		rPin.Bad(fnName(goFn)+":decision", goFn.Pos(), "whether a fingerprint is configured is not decided by comparing ConnConfig.Fingerprint itself with \"\": a malformed or oddly spelled pin could be taken for 'no pin' and fall back to ordinary validation")
		return
	}
	dc := decodeCond(fpIf.Cond)
	setSucc := 1
	if !dc.Eq {
		setSucc = 0
	}
	rPin.OK(fnName(goFn)+":decision", posOf(fpIf), "ConnConfig.Fingerprint != \"\"")

	/* Verifier built from this call's fingerprint. */
	var vcall *ssa.Call
	eachInstr(goFn, func(i ssa.Instruction) {
		if c, ok := i.(*ssa.Call); ok && c.Common().StaticCallee() == vf {
			vcall = c
		}
	})
	if nil == vcall {
		rPin.Bad(fnName(goFn)+":verifier", goFn.Pos(), "Go does not build a verifier with TLSFingerprintVerifier")
		return
	}
	if fv, _ := loadedField(vcall.Common().Args[0]); fv == fpF {
		rPin.OK(fnName(goFn)+":verifier", posOf(vcall), "TLSFingerprintVerifier(conf.Fingerprint)")
	} else {
		rPin.Bad(fnName(goFn)+":verifier", posOf(vcall), "the verifier is built from %s, not from this call's ConnConfig.Fingerprint", rootsString(valueRoots(vcall.Common().Args[0], nil)))
	}
	verifier := extractOf(vcall, 0)

	/* Every skip-verify tls.Config in the module. */
	ncfg := 0
	for _, fn := range p.Funcs() {
		eachInstr(fn, func(i ssa.Instruction) {
			st, ok := i.(*ssa.Store)
			if !ok {
				return
			}
			fv, base := fieldAddrOf(st.Addr)
			if nil == fv || "InsecureSkipVerify" != fv.Name() || !typeIs(base.Type(), "crypto/tls", "Config") {
				return
			}
			if b, ok := constBool(st.Val); ok && !b {
				return
			}
			ncfg++
			c := fmt.Sprintf("%s:skip-verify-config#%d", fnName(fn), ncfg)
			cfg, fresh := base.(*ssa.Alloc)
			if !fresh {
				rPin.Bad(c, posOf(st), "InsecureSkipVerify is set on a tls.Config which is not a fresh literal of this call (%s): calls would share and overwrite each other's verifier", rootsString(valueRoots(base, nil)))
				return
			}
			if fn != goFn {
				rPin.Bad(c, posOf(st), "certificate verification is switched off in %s", fnName(fn))
				return
			}
			var vstore *ssa.Store
			for _, ref := range *cfg.Referrers() {
				fa, ok := ref.(*ssa.FieldAddr)
				if !ok {
					continue
				}
				f2, _ := fieldAddrOf(fa)
				if "VerifyConnection" != f2.Name() && "VerifyPeerCertificate" != f2.Name() {
					continue
				}
				for _, r2 := range *fa.Referrers() {
					if s2, ok := r2.(*ssa.Store); ok && s2.Addr == ssa.Value(fa) {
						vstore = s2
					}
				}
			}
			switch {
			case nil == vstore:
				rPin.Bad(c, posOf(st), "InsecureSkipVerify without VerifyConnection: any server is accepted")
			case nil == verifier || (resolveCell(vstore.Val) != ssa.Value(verifier) && !wrapsVerifier(vstore.Val, verifier)):
				rPin.Bad(c, posOf(vstore), "VerifyConnection is %s, not the verifier built from this call's fingerprint", rootsString(valueRoots(vstore.Val, nil)))
			case !edgeDominates(fpIf, setSucc, st):
				rPin.Bad(c, posOf(st), "certificate verification is switched off outside the fingerprint-configured branch")
			default:
				/* Installed in the request's client through a cloned transport. */
				installed := false
				why := ""
				for _, ref := range *cfg.Referrers() {
					s2, ok := ref.(*ssa.Store)
					if !ok || s2.Val != ssa.Value(cfg) {
						continue
					}
					f2, tbase := fieldAddrOf(s2.Addr)
					if nil == f2 || "TLSClientConfig" != f2.Name() {
						continue
					}
					tr := resolveCell(tbase)
					trOK := false
					if tc, ok := tr.(*ssa.Call); ok && "(*net/http.Transport).Clone" == calleeName(tc.Common()) {
						trOK = true
					}
					if _, ok := tr.(*ssa.Alloc); ok {
						trOK = true
					}
					if !trOK {
						rPin.Bad(c+":transport", posOf(s2), "the pinned tls.Config is installed in a transport which is not cloned/allocated in this call (%s)", rootsString(valueRoots(tbase, nil)))
						continue
					}
					/* transport → (interface, variables, joins) → client.Transport */
					fpStart := edgeLoc(fpIf.Block(), setSucc)
					onFpBranch := func(b *ssa.BasicBlock) bool {
						return b == fpStart.B || 0 != len(b.Instrs) && canReach(fpStart, b.Instrs[0])
					}
					var onStore func(s3 *ssa.Store, via ssa.Value)
					wrapped := map[ssa.Value]bool{}
					onStore = func(s3 *ssa.Store, via ssa.Value) {
						f3, cb := fieldAddrOf(s3.Addr)
						if nil != f3 && "Transport" != f3.Name() {
							/* Put inside a RoundTripper of the module's own
							which hands every request to it (and can only add
							refusals): that wrapper carries the pin on. */
							if wal, isAl := resolveCell(cb).(*ssa.Alloc); isAl && !wrapped[wal] {
								if in := unwrapPassThrough(p, wal, "RoundTrip"); in != ssa.Value(wal) && stripConv(resolveCell(in), false) == stripConv(resolveCell(s3.Val), false) {
									wrapped[wal] = true
									forwardStores(wal, onStore)
								}
							}
							return
						}
						if nil == f3 || "Transport" != f3.Name() {
							return
						}
						cl := resolveCell(cb)
						if !clientAllocs[cl] {
							return
						}
						/* On the fingerprint branch nothing else may end
						up as this client's transport, and no other client
						may send the request. */
						for _, l := range phiLeaves(s3.Val) {
							if l.V != via && nil != l.From && onFpBranch(l.From) && !flowsFrom(l.V, tr) {
								why = "with a fingerprint configured the client's transport can also be " + describeValue(l.V)
								return
							}
						}
						for _, l := range clientLeaves {
							if l.V != cl && nil != l.From && onFpBranch(l.From) {
								why = "with a fingerprint configured the request can also be sent by a client without the pinned transport"
								return
							}
						}
						installed = true
					}
					forwardStores(tr, onStore)
				}
				if "" != why {
					rPin.Bad(c, posOf(st), "%s", why)
					return
				}
				if installed {
					rPin.OK(c, posOf(st), "fresh config with this call's verifier, installed through a cloned transport in the client that sends the request")
				} else {
					rPin.Bad(c, posOf(st), "the pinned tls.Config is not installed in the client which sends the request")
				}
			}
		})
	}
	if 0 == ncfg {
		rPin.Bad(fnName(goFn)+":skip-verify-config", goFn.Pos(), "no tls.Config with a VerifyConnection hook is installed: a self-signed pinned server could never be reached, or the pin is not checked")
	}
	/* On the fingerprint branch the request is reached only through the
	config installation. */
	/* https only. */
	schemeOK := false
	for _, b := range goFn.Blocks {
		ifi := blockIf(b)
		if nil == ifi {
			continue
		}
		d2 := decodeCond(ifi.Cond)
		if nil == d2.Y {
			continue
		}
		if s, ok := constString(d2.Y); !ok || "https" != s {
			continue
		}
		fv, ub := loadedField(d2.X)
		if nil == fv || "Scheme" != fv.Name() {
			continue
		}
		/* The URL parsed must be conf.C2. */
		fromC2 := false
		for _, x := range valueRoots(ub, func(n string) bool { return "net/url.Parse" == n || "net/url.ParseRequestURI" == n }) {
			if "field" == x.Kind && "C2" == x.Field.Name() {
				fromC2 = true
			}
			/* req.URL of the request made from conf.C2 — the very
			request which is then sent. */
			if "field" == x.Kind && "URL" == x.Field.Name() && nil != x.Base {
				newReq := func(n string) bool { return "net/http.NewRequest" == n || "net/http.NewRequestWithContext" == n }
				for _, y := range valueRoots(x.Base, newReq) {
					if "field" == y.Kind && "C2" == y.Field.Name() {
						sent := false
						for _, a := range callArgs(req.Common()) {
							if stripConv(resolveCell(a), false) == stripConv(resolveCell(x.Base), false) {
								sent = true
							}
						}
						if sent {
							fromC2 = true
						}
					}
				}
			}
		}
		if !fromC2 {
			continue
		}
		/* From the "not https" edge the request is unreachable; and the
		test itself is on every path of the fingerprint branch. */
		notHTTPS := 0
		if d2.Eq {
			notHTTPS = 1
		}
		if nil == (reachQ{From: edgeLoc(ifi.Block(), notHTTPS), Target: func(i ssa.Instruction) bool { return i == ssa.Instruction(req) }}).run() {
			miss := reachQ{From: edgeLoc(fpIf.Block(), setSucc), Block: func(i ssa.Instruction) bool { return i == ssa.Instruction(ifi) }, Target: func(i ssa.Instruction) bool { return i == ssa.Instruction(req) }}.run()
			if nil == miss {
				schemeOK = true
			}
		}
	}
	if schemeOK {
		rTLS.OK(fnName(goFn)+":https-only", posOf(req), "with a fingerprint the request is sent only if the C2 URL's scheme is https")
	} else {
		rTLS.Bad(fnName(goFn)+":https-only", posOf(req), "with a fingerprint configured the request can be sent to a URL whose scheme is not https: no TLS connection, so the pin is never compared with anything")
	}

	/* 3. Malformed. */
	verr := extractOf(vcall, 1)
	if nil == verr {
		rMal.Bad(fnName(goFn)+":verifier-error", posOf(vcall), "the verifier constructor's error is discarded")
	} else {
		okk := false
		for _, t := range nilTestsOf(goFn, verr) {
			if nil == (reachQ{From: edgeLoc(t.If.Block(), 1-t.NilSucc), Target: func(i ssa.Instruction) bool { return i == ssa.Instruction(req) }}).run() {
				okk = true
			}
		}
		if okk {
			rMal.OK(fnName(goFn)+":verifier-error", posOf(vcall), "no request after a malformed fingerprint")
		} else {
			rMal.Bad(fnName(goFn)+":verifier-error", posOf(vcall), "the request can be sent although the fingerprint could not be turned into a verifier")
		}
	}
	checkC13Constructor(p, r, rMal, rAcc, vf)
}

func filterObs(r *Report, rule string, st Status) []Ob {
	var out []Ob
	for _, o := range r.Obs {
		if o.Rule == rule && o.Status == st {
			out = append(out, o)
		}
	}
	return out
}

func checkC13Constructor(p *Prog, r *Report, rMal, rAcc *Rule, vf *ssa.Function) {
	fp := vf.Params[0]
	var dec *ssa.Call
	decSrc := 1
	eachInstr(vf, func(i ssa.Instruction) {
		if c, ok := i.(*ssa.Call); ok && "(*encoding/base64.Encoding).DecodeString" == calleeName(c.Common()) {
			dec = c
		}
		/* enc.AppendDecode(buf[:0], []byte(s)): the same decoding into a
		buffer of the caller's. */
		if c, ok := i.(*ssa.Call); ok && "(*encoding/base64.Encoding).AppendDecode" == calleeName(c.Common()) && 3 == len(c.Common().Args) {
			if sl, isSl := c.Common().Args[1].(*ssa.Slice); isSl && nil != sl.High && isZeroConst(sl.High) {
				dec, decSrc = c, 2
			}
		}
	})
	c := fnName(vf)
	if nil == dec {
		rMal.Bad(c+":decode", vf.Pos(), "the fingerprint is not decoded with base64")
		return
	}
	if !globalLoad(dec.Common().Args[0], "encoding/base64", "StdEncoding") {
		rMal.Bad(c+":decode", posOf(dec), "the fingerprint is decoded with an alphabet other than base64.StdEncoding (curl's sha256// pins are padded standard base64)")
	} else {
		fromParam := false
		prefixOK := true
		for _, x := range valueRoots(stripConv(dec.Common().Args[decSrc], true), func(n string) bool { return strings.HasPrefix(n, "strings.") }) {
			if "param" == x.Kind && x.V == ssa.Value(fp) {
				fromParam = true
			}
			if "const" == x.Kind {
				if s, ok := constString(x.V); ok && "" != s && "sha256//" != s {
					prefixOK = false
				}
			}
		}
		if fromParam && prefixOK {
			rMal.OK(c+":decode", posOf(dec), "base64.StdEncoding.DecodeString(TrimPrefix(fp, \"sha256//\"))")
		} else {
			rMal.Bad(c+":decode", posOf(dec), "what is decoded is not the parameter with at most the sha256// prefix removed")
		}
	}
	want := extractOf(dec, 0)
	/* Length test. */
	var lenIf *ssa.If
	eqSucc := 0
	for _, b := range vf.Blocks {
		ifi := blockIf(b)
		if nil == ifi {
			continue
		}
		dc := decodeCond(ifi.Cond)
		lc, ok := dc.X.(*ssa.Call)
		if !ok || nil == dc.Y {
			continue
		}
		if bi, ok := lc.Common().Value.(*ssa.Builtin); !ok || "len" != bi.Name() || resolveCell(lc.Common().Args[0]) != ssa.Value(want) {
			continue
		}
		if k, ok := constInt(dc.Y); ok && 32 == k {
			lenIf = ifi
			eqSucc = 1
			if dc.Eq {
				eqSucc = 0
			}
		}
	}
	/* Returns of a closure. */
	var closure *ssa.Function
	nret := 0
	eachInstr(vf, func(i ssa.Instruction) {
		ret, ok := i.(*ssa.Return)
		if !ok {
			return
		}
		f, _ := closureOf(retVal(ret, 0))
		if nil == f {
			return
		}
		nret++
		closure = f
		switch {
		case nil == lenIf:
			rMal.Bad(c+":length", posOf(ret), "the verifier is returned without testing that the decoded fingerprint is exactly 32 bytes: a short value would be compared against a prefix or never match")
		case !edgeDominates(lenIf, eqSucc, ret):
			rMal.Bad(c+":length", posOf(ret), "the verifier can be returned for a decoded fingerprint whose length is not 32")
		default:
			rMal.OK(c+":length", posOf(ret), "closure returned only for a 32-byte value")
		}
		if derr := extractOf(dec, 1); nil != derr {
			dom := false
			for _, t := range nilTestsOf(vf, derr) {
				if edgeDominates(t.If, t.NilSucc, ret) {
					dom = true
				}
			}
			if !dom {
				rMal.Bad(c+":decode-error", posOf(ret), "the verifier can be returned although decoding failed")
			}
		}
	})
	if 0 == nret || nil == closure {
		rMal.Unproven(c+":closure", vf.Pos(), "no return of a verifier closure found")
		return
	}
	r.Saw("func " + fnName(closure))
	/* 4. Accept edge. */
	cc := fnName(closure)
	var cmp *ssa.Call
	eachInstr(closure, func(i ssa.Instruction) {
		if cl, ok := i.(*ssa.Call); ok {
			switch calleeName(cl.Common()) {
			case "crypto/subtle.ConstantTimeCompare", "bytes.Equal", "crypto/hmac.Equal":
				cmp = cl
			}
		}
	})
	if nil == cmp {
		rAcc.Bad(cc+":compare", closure.Pos(), "the verifier performs no full-length comparison of the pin")
		return
	}
	/* Operands: the decoded pin (whole) and the digest (whole). */
	var digest hashChain
	pinWhole := false
	for _, a := range cmp.Common().Args {
		if h := digestChain(a); "" == h.Err {
			digest = h
			continue
		} else if strings.Contains(h.Err, "bounds") {
			digest = h
			continue
		}
		rv := resolveCell(a)
		if rv == ssa.Value(want) {
			pinWhole = true
		} else if sl, ok := rv.(*ssa.Slice); ok && resolveCell(sl.X) == ssa.Value(want) {
			pinWhole = false
		} else if ok && nil == sl.Low && nil == sl.High {
			/* A whole-array slice of a fixed-size copy of the pin:
			[N]byte(pin)[:], with len(pin) == N established by
			malformed-refused. */
			if src, n := arraySource(sl.X, 0); nil != src && 32 == n && resolveCell(src) == ssa.Value(want) {
				pinWhole = true
			}
		}
	}
	switch {
	case "" != digest.Err:
		rAcc.Bad(cc+":operands", posOf(cmp), "%s", digest.Err)
	case "crypto/sha256.Sum256" != digest.Hash || !okSerial(digest.Serial):
		rAcc.Bad(cc+":operands", posOf(cmp), "the value compared with the pin is %s(%s), not the SHA-256 of the DER SubjectPublicKeyInfo", digest.Hash, digest.Serial)
	case !pinWhole:
		rAcc.Bad(cc+":operands", posOf(cmp), "the pin operand is not the whole decoded fingerprint (a slice or another value is compared)")
	default:
		/* The certificate hashed is one of this connection's peers. */
		fromPeers := false
		for _, x := range valueRoots(digest.Cert, nil) {
			if "field" == x.Kind && "PeerCertificates" == x.Field.Name() {
				fromPeers = true
			}
		}
		if fromPeers {
			rAcc.OK(cc+":operands", posOf(cmp), "whole pin vs sha256(%s) of a peer certificate", digest.Serial)
		} else {
			rAcc.Bad(cc+":operands", posOf(cmp), "the certificate hashed is not taken from this connection's PeerCertificates")
		}
	}
	/* Equality edges: the "equal" outcome of every full-length comparison
	of the pin (folding helpers and iterators in can leave more than one
	copy of the comparison). */
	eqEdges := map[Edge]bool{}
	eachInstr(closure, func(i ssa.Instruction) {
		cl, ok := i.(*ssa.Call)
		if !ok || calleeName(cl.Common()) != calleeName(cmp.Common()) {
			return
		}
		same := len(cl.Common().Args) == len(cmp.Common().Args)
		for k := range cl.Common().Args {
			if same && resolveCell(cl.Common().Args[k]) != resolveCell(cmp.Common().Args[k]) && !sameShape(cl.Common().Args[k], cmp.Common().Args[k]) {
				same = false
			}
		}
		if !same {
			return
		}
		for _, ref := range *cl.Referrers() {
			switch x := ref.(type) {
			case *ssa.BinOp:
				for _, r2 := range *x.Referrers() {
					if ifi, ok := r2.(*ssa.If); ok {
						dc := decodeCond(ifi.Cond)
						if k, ok := constInt(dc.Y); ok && 1 == k {
							eq := 1
							if dc.Eq {
								eq = 0
							}
							eqEdges[Edge{ifi.Block().Index, ifi.Block().Succs[eq].Index}] = true
						}
					}
				}
			case *ssa.If:
				eqEdges[Edge{x.Block().Index, x.Block().Succs[0].Index}] = true
			}
		}
	})
	/* No way to a return of nil (or of something which may be nil on that
	path) without one of those edges. */
	nnil := 0
	eachInstr(closure, func(i ssa.Instruction) {
		ret, ok := i.(*ssa.Return)
		if !ok {
			return
		}
		mayNil := false
		for _, x := range valueRoots(retVal(ret, 0), nil) {
			if "const" == x.Kind && x.V.(*ssa.Const).IsNil() {
				mayNil = true
			}
		}
		if mayNil {
			nnil++
		}
	})
	hit := reachQ{From: entryLoc(closure), NoEdges: eqEdges, TargetF: func(i ssa.Instruction, f nilFacts) bool {
		ret, ok := i.(*ssa.Return)
		if !ok {
			return false
		}
		v := retVal(ret, 0)
		switch nilnessOf(v, f) {
		case 1:
			return true
		case 2:
			return false
		}
		/* Not known on this path: nil if it can be at all. */
		for _, x := range valueRoots(v, nil) {
			if "const" == x.Kind && x.V.(*ssa.Const).IsNil() {
				return true
			}
		}
		return false
	}}.run()
	switch {
	case 0 == len(eqEdges):
		rAcc.Bad(cc+":accept-edge", posOf(cmp), "the outcome of the comparison is not branched on")
	case nil != hit:
		rAcc.Bad(cc+":accept-edge", posOf(hit), "the verifier can return nil (connection accepted) on a path which has not established equality with the pin")
	default:
		rAcc.OK(cc+":accept-edge", posOf(cmp), "return nil only below the equality edge")
	}
	if 0 == nnil {
		rAcc.Bad(cc+":accept-edge", closure.Pos(), "the verifier never accepts")
	}
}

// phiLeaf is one possible value of a merged value, with the block it comes
// from (nil when the value is not a phi).
type phiLeaf struct {
	V    ssa.Value
	From *ssa.BasicBlock
}

// phiLeaves resolves v through phis (and single-store cells and interface
// conversions) to the values it can be.
func phiLeaves(v ssa.Value) []phiLeaf {
	var out []phiLeaf
	seen := map[ssa.Value]bool{}
	var walk func(v ssa.Value, from *ssa.BasicBlock)
	walk = func(v ssa.Value, from *ssa.BasicBlock) {
		v = stripConv(resolveCell(v), false)
		if ph, ok := v.(*ssa.Phi); ok {
			if seen[ph] {
				return
			}
			seen[ph] = true
			for k, e := range ph.Edges {
				walk(e, ph.Block().Preds[k])
			}
			return
		}
		out = append(out, phiLeaf{v, from})
	}
	walk(v, nil)
	return out
}

// forwardStores follows v forwards through interface conversions, phis and
// local variables and reports every store of (a value carrying) it.
func forwardStores(v ssa.Value, f func(st *ssa.Store, via ssa.Value)) {
	seen := map[ssa.Value]bool{}
	var walk func(x ssa.Value)
	walk = func(x ssa.Value) {
		if seen[x] || nil == x.Referrers() {
			return
		}
		seen[x] = true
		for _, ref := range *x.Referrers() {
			switch r := ref.(type) {
			case *ssa.MakeInterface, *ssa.ChangeInterface, *ssa.ChangeType, *ssa.Phi:
				walk(r.(ssa.Value))
			case *ssa.Store:
				if r.Val != x {
					continue
				}
				f(r, x)
				if al, ok := resolveFree(r.Addr).(*ssa.Alloc); ok {
					/* A local variable: its loads carry the value on. */
					for _, fn := range withAnons(al.Parent()) {
						eachInstr(fn, func(i ssa.Instruction) {
							if u, ok := i.(*ssa.UnOp); ok && token.MUL == u.Op && resolveFree(u.X) == ssa.Value(al) {
								walk(u)
							}
						})
					}
				}
			}
		}
	}
	walk(v)
}

// flowsFrom: v is (a conversion of) src.
func flowsFrom(v, src ssa.Value) bool {
	for _, l := range phiLeaves(v) {
		if l.V != src {
			return false
		}
	}
	return true
}

// arraySource: ptr points at an array which is a whole copy of a slice:
// [N]T(src), *(*[N]T)(src), or "var a [N]T; copy(a[:], src)" (which copies
// all of src when len(src) == N), possibly copied again as a value.  Returns
// src and N.
func arraySource(ptr ssa.Value, depth int) (ssa.Value, int64) {
	if depth > 4 {
		return nil, 0
	}
	ptr = resolveFree(ptr)
	if cv, ok := ptr.(*ssa.SliceToArrayPointer); ok {
		if at, isArr := cv.Type().Underlying().(*types.Pointer).Elem().Underlying().(*types.Array); isArr {
			return cv.X, at.Len()
		}
		return nil, 0
	}
	al, ok := ptr.(*ssa.Alloc)
	if !ok {
		return nil, 0
	}
	at, ok := al.Type().Underlying().(*types.Pointer).Elem().Underlying().(*types.Array)
	if !ok {
		return nil, 0
	}
	/* Everything which writes the array. */
	var src ssa.Value
	writes := 0
	for _, f := range withAnons(al.Parent()) {
		eachInstr(f, func(i ssa.Instruction) {
			switch x := i.(type) {
			case *ssa.Store:
				if resolveFree(x.Addr) == ssa.Value(al) {
					writes++
					/* (An array value a function literal captured stands
					for the array it was copied from.) */
					if ld, isLd := resolveFree(x.Val).(*ssa.UnOp); isLd && token.MUL == ld.Op {
						if s2, n := arraySource(ld.X, depth+1); nil != s2 && n == at.Len() {
							src = s2
						}
					}
				} else if ia, isIA := x.Addr.(*ssa.IndexAddr); isIA && resolveFree(ia.X) == ssa.Value(al) {
					writes += 2 /* an element is written separately */
				}
			case *ssa.Call:
				if b, isB := x.Common().Value.(*ssa.Builtin); isB && "copy" == b.Name() {
					if sl, isSl := x.Common().Args[0].(*ssa.Slice); isSl && resolveFree(sl.X) == ssa.Value(al) {
						writes++
						if nil == sl.Low && nil == sl.High {
							src = x.Common().Args[1]
						}
					}
				}
			}
		})
	}
	if 1 != writes || nil == src {
		return nil, 0
	}
	return src, at.Len()
}

// sameShape: two operands are copies of one computation (the same
// instruction kind over the same callee or field), as left by unrolling or
// folding; good enough to recognise a second copy of a comparison whose other
// operand is identical.
func sameShape(a, b ssa.Value) bool {
	a, b = stripConv(a, false), stripConv(b, false)
	switch x := a.(type) {
	case *ssa.Slice:
		y, ok := b.(*ssa.Slice)
		return ok && (nil == x.Low) == (nil == y.Low) && (nil == x.High) == (nil == y.High)
	case *ssa.Call:
		y, ok := b.(*ssa.Call)
		return ok && calleeName(x.Common()) == calleeName(y.Common())
	}
	return false
}

// checkC13Fallback: the wrapper's choice of fingerprint (flag, environment,
// compiled-in value).  Every string a function of the wrapper returns, or
// hands to the library as the fingerprint, which can be the compiled-in
// variable at all must not be empty when that variable is not: an empty
// fingerprint means no pinning.
func checkC13Fallback(p *Prog, r *Report, ru *Rule) {
	var g *ssa.Global
	for _, pk := range p.SSA.AllPackages() {
		if strings.HasSuffix(pk.Pkg.Path(), "/"+sshPkg+"/cmd/simpleshell") {
			g, _ = pk.Members["Fingerprint"].(*ssa.Global)
		}
	}
	if nil == g {
		ru.Unproven("cmd/simpleshell.Fingerprint", token.NoPos, "the compiled-in fingerprint variable was not found")
		return
	}
	isDefault := func(v ssa.Value) bool {
		u, ok := stripConv(v, true).(*ssa.UnOp)
		return ok && token.MUL == u.Op && u.X == ssa.Value(g)
	}
	/* Is v known to be non-empty at `at` because a test of it says so? */
	guarded := func(fn *ssa.Function, v ssa.Value, at ssa.Instruction) bool {
		for _, b := range fn.Blocks {
			ifi := blockIf(b)
			if nil == ifi {
				continue
			}
			dc := decodeCond(ifi.Cond)
			if nil == dc.Y {
				continue
			}
			x, y := dc.X, dc.Y
			if s, isC := constString(x); isC && "" == s {
				x, y = y, x
			}
			if s, isC := constString(y); !isC || "" != s || x != v {
				continue
			}
			nonEmpty := 1
			if !dc.Eq {
				nonEmpty = 0
			}
			if edgeDominates(ifi, nonEmpty, at) {
				return true
			}
		}
		return false
	}
	defaultEmptyHere := func(fn *ssa.Function, at ssa.Instruction) bool {
		for _, b := range fn.Blocks {
			ifi := blockIf(b)
			if nil == ifi {
				continue
			}
			dc := decodeCond(ifi.Cond)
			if nil == dc.Y {
				continue
			}
			x, y := dc.X, dc.Y
			if s, isC := constString(x); isC && "" == s {
				x, y = y, x
			}
			if s, isC := constString(y); !isC || "" != s || !isDefault(x) {
				continue
			}
			empty := 0
			if !dc.Eq {
				empty = 1
			}
			if edgeDominates(ifi, empty, at) {
				return true
			}
		}
		return false
	}
	var mayEmpty func(fn *ssa.Function, v ssa.Value, at ssa.Instruction, depth int) (bool, bool)
	/* Returns (may be empty, mentions the compiled-in value). */
	mayEmpty = func(fn *ssa.Function, v ssa.Value, at ssa.Instruction, depth int) (bool, bool) {
		v = stripConv(resolveCell(v), true)
		if depth > 8 {
			return true, false
		}
		if isDefault(v) {
			return false, true
		}
		if s, ok := constString(v); ok {
			return "" == s, false
		}
		if guarded(fn, v, at) {
			return false, false
		}
		switch x := v.(type) {
		case *ssa.Phi:
			any, def := false, false
			for k, e := range x.Edges {
				pred := x.Block().Preds[k]
				m, d := mayEmpty(fn, e, pred.Instrs[len(pred.Instrs)-1], depth+1)
				any = any || m
				def = def || d
			}
			return any, def
		case *ssa.Call:
			if n := calleeName(x.Common()); "cmp.Or" == n || strings.HasPrefix(n, "cmp.Or[") {
				all, def := true, false
				for _, a := range append(variadicElems(x.Common()), callArgs(x.Common())...) {
					if _, isSl := a.Type().Underlying().(*types.Slice); isSl {
						continue
					}
					m, d := mayEmpty(fn, a, x, depth+1)
					all = all && m
					def = def || d
				}
				return all, def
			}
			/* A function of this package: what it can return. */
			if sc := x.Common().StaticCallee(); nil != sc && nil != sc.Blocks && sc.Pkg == g.Pkg && 1 == sc.Signature.Results().Len() {
				any, def := false, false
				eachInstr(sc, func(i ssa.Instruction) {
					if ret, ok := i.(*ssa.Return); ok && 1 == len(ret.Results) {
						if defaultEmptyHere(sc, i) {
							return /* nothing is compiled in on this path */
						}
						m, d := mayEmpty(sc, ret.Results[0], i, depth+1)
						any = any || m
						def = def || d
					}
				})
				return any, def
			}
		case *ssa.Parameter:
			/* Whatever the callers give. */
			any, def := false, false
			idx := paramIndex(fn, x)
			cs := p.callersOf(fn)
			if 0 == len(cs) || idx < 0 {
				return true, false
			}
			for _, ci := range cs {
				if idx >= len(ci.Common().Args) {
					continue
				}
				m, d := mayEmpty(ci.Parent(), ci.Common().Args[idx], ci, depth+1)
				any = any || m
				def = def || d
			}
			return any, def
		case *ssa.UnOp:
			/* A flag's value: whatever its default, the user can give the
			empty string; it stands for the compiled-in value when its
			default is made from it. */
			if token.MUL == x.Op {
				if fc, isCall := resolveCell(x.X).(*ssa.Call); isCall && "flag.String" == calleeName(fc.Common()) && len(fc.Common().Args) >= 2 {
					_, d := mayEmpty(fc.Parent(), fc.Common().Args[1], fc, depth+1)
					return true, d
				}
			}
		}
		return true, false
	}
	n := 0
	for _, fn := range p.Funcs() {
		if nil == fn.Pkg || fn.Pkg != g.Pkg {
			continue
		}
		/* Result positions at which some return hands out the compiled-in
		value: every return's value at that position is an alternative
		to it. */
		defPos := map[int]bool{}
		eachInstr(fn, func(i ssa.Instruction) {
			if x, ok := i.(*ssa.Return); ok {
				for k, rv := range x.Results {
					if _, d := mayEmpty(fn, rv, i, 0); d {
						defPos[k] = true
					}
				}
			}
		})
		eachInstr(fn, func(i ssa.Instruction) {
			var sinks []ssa.Value
			what := ""
			switch x := i.(type) {
			case *ssa.Return:
				for k, rv := range x.Results {
					if !defPos[k] {
						continue
					}
					/* Reached only when the compiled-in value itself has
					been found empty: outside what is claimed. */
					if defaultEmptyHere(fn, i) {
						continue
					}
					m, _ := mayEmpty(fn, rv, i, 0)
					n++
					c := fmt.Sprintf("%s:returned#%d", fnName(fn), n)
					if m {
						ru.Bad(c, posOf(i), "the fingerprint returned can be empty although one is compiled in (an alternative which may be empty — an environment variable set to nothing, say — is taken without falling back on the compiled-in value): the connection is then made without pinning")
					} else {
						ru.OK(c, posOf(i), "not empty when a fingerprint is compiled in")
					}
				}
				return
			case *ssa.Call:
				if sc := x.Common().StaticCallee(); nil != sc && nil != sc.Pkg && strings.HasSuffix(sc.Pkg.Pkg.Path(), "/"+sshPkg) {
					for k, pa := range sc.Params {
						if strings.Contains(strings.ToLower(pa.Name()), "fingerprint") && k < len(x.Common().Args) {
							sinks = append(sinks, x.Common().Args[k])
						}
					}
					what = "handed to " + sc.Name()
				}
			}
			for _, v := range sinks {
				m, d := mayEmpty(fn, v, i, 0)
				if !d {
					continue
				}
				n++
				c := fmt.Sprintf("%s:%s#%d", fnName(fn), strings.Fields(what)[0], n)
				if m {
					ru.Bad(c, posOf(i), "the fingerprint %s can be empty although one is compiled in (an alternative which may be empty — an environment variable set to nothing, say — is taken without falling back on the compiled-in value): the connection is then made without pinning", what)
				} else {
					ru.OK(c, posOf(i), "empty alternatives fall back on the compiled-in fingerprint")
				}
			}
		})
	}
	if 0 == n {
		ru.Unproven("cmd/simpleshell:fingerprint-choice", token.NoPos, "no place found where the compiled-in fingerprint is chosen among alternatives")
	}
}

// wrapsVerifier: v is a function literal which hands its own argument to the
// verifier and returns, on every path, exactly what the verifier returned
// (logging the outcome in between, say).
func wrapsVerifier(v, verifier ssa.Value) bool {
	lit, binds := closureOf(resolveCell(v))
	if nil == lit || nil == lit.Parent() || 1 != len(lit.Params) || nil == lit.Blocks {
		return false
	}
	_ = binds
	var call *ssa.Call
	n := 0
	eachInstr(lit, func(i ssa.Instruction) {
		c, ok := i.(*ssa.Call)
		if !ok || c.Common().IsInvoke() || nil != c.Common().StaticCallee() {
			return
		}
		if resolveCell(resolveFree(stripConv(resolveCell(c.Common().Value), false))) != verifier {
			return
		}
		n++
		call = c
	})
	if 1 != n || 1 != len(call.Common().Args) || resolveCell(call.Common().Args[0]) != ssa.Value(lit.Params[0]) {
		return false
	}
	ok := true
	nret := 0
	eachInstr(lit, func(i ssa.Instruction) {
		ret, isRet := i.(*ssa.Return)
		if !isRet {
			return
		}
		nret++
		if 1 != len(ret.Results) {
			ok = false
			return
		}
		for _, l := range phiLeaves(ret.Results[0]) {
			if l.V != ssa.Value(call) {
				ok = false
			}
		}
	})
	return ok && nret > 0
}
