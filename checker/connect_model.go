package main

// connect_model.go: the shared abstract model of the broker's admission /
// release function ((*Broker).connect), used by C01, C04, C06 and C11.  The
// function is walked path by path by the abstract machine of absint.go for
// every valuation of the broker state, and the effects of each path (lock
// operations, stores to the shared fields, operator notices, slog records,
// events, the proxy call) are recorded for the per-property specifications.

import (
	"fmt"
	"go/token"
	"go/types"
	"sort"
	"strings"

	"golang.org/x/tools/go/ssa"
)

const iobPkg = "internal/iobroker"

// connectAnchors are the constructs the model is built on.
type connectAnchors struct {
	Fn               *ssa.Function /* The admission function. */
	Us, Other        *ssa.Parameter
	Key              *ssa.Parameter
	Proxy            *ssa.Parameter
	Callers          []ssa.CallInstruction
	FKey, FIn, FOut  *types.Var
	FNoMore, FMu     *types.Var
	FWg, FEvCh, FOch *types.Var
	FBidir           *types.Var
	Errs             []string
}

// findConnect locates the admission function semantically: the callee of the
// calls which pass the addresses of Broker.cancelIn / Broker.cancelOut.
func findConnect(p *Prog) *connectAnchors {
	a := &connectAnchors{}
	f := func(n string) *types.Var {
		v := p.Field(iobPkg, "Broker", n)
		if nil == v {
			a.Errs = append(a.Errs, "field Broker."+n+" not found")
		}
		return v
	}
	a.FKey, a.FIn, a.FOut = f("key"), f("cancelIn"), f("cancelOut")
	a.FNoMore, a.FMu, a.FWg = f("noMore"), f("mu"), f("wg")
	a.FEvCh, a.FOch = f("evCh"), f("och")
	a.FBidir = p.Field(iobPkg, "Broker", "bidirKey") /* Optional. */
	if 0 != len(a.Errs) {
		return a
	}
	cands := map[*ssa.Function]bool{}
	for _, fn := range p.Funcs() {
		eachInstr(fn, func(i ssa.Instruction) {
			c := callCommon(i)
			if nil == c || nil == c.StaticCallee() {
				return
			}
			for _, arg := range c.Args {
				if fv, _ := fieldAddrOf(arg); fv == a.FIn || fv == a.FOut {
					cands[c.StaticCallee()] = true
					a.Callers = append(a.Callers, i.(ssa.CallInstruction))
					return
				}
			}
		})
	}
	if 1 != len(cands) {
		a.Errs = append(a.Errs, fmt.Sprintf("%d functions receive the address of Broker.cancelIn/cancelOut, exactly one expected", len(cands)))
		return a
	}
	for fn := range cands {
		a.Fn = fn
	}
	/* Parameters: the two *func() in order are own/peer; the func-typed one
	is the proxy; the key is the string parameter stored into Broker.key. */
	for _, pa := range a.Fn.Params {
		switch t := pa.Type().Underlying().(type) {
		case *types.Pointer:
			if _, ok := t.Elem().Underlying().(*types.Signature); ok {
				if nil == a.Us {
					a.Us = pa
				} else if nil == a.Other {
					a.Other = pa
				}
			}
		case *types.Signature:
			if nil == a.Proxy {
				a.Proxy = pa
			}
		}
	}
	eachInstr(a.Fn, func(i ssa.Instruction) {
		st, ok := i.(*ssa.Store)
		if !ok {
			return
		}
		if fv, _ := fieldAddrOf(st.Addr); fv != a.FKey {
			return
		}
		if pa := rootParam(st.Val); nil != pa && nil == a.Key {
			if b, ok := pa.Type().Underlying().(*types.Basic); ok && types.String == b.Kind() {
				a.Key = pa
			}
		}
	})
	if nil == a.Us || nil == a.Other {
		a.Errs = append(a.Errs, "admission function has no own/peer *func() parameters")
	}
	if nil == a.Proxy {
		a.Errs = append(a.Errs, "admission function has no proxy function parameter")
	}
	if nil == a.Key {
		a.Errs = append(a.Errs, "no string parameter of the admission function is stored into Broker.key")
	}
	return a
}

// rootParam strips slices, conversions and phis down to a parameter, if the
// value derives from exactly one.
func rootParam(v ssa.Value) *ssa.Parameter {
	seen := map[ssa.Value]bool{}
	var out *ssa.Parameter
	bad := false
	var walk func(v ssa.Value)
	walk = func(v ssa.Value) {
		if seen[v] {
			return
		}
		seen[v] = true
		switch x := v.(type) {
		case *ssa.Parameter:
			if nil != out && out != x {
				bad = true
			}
			out = x
		case *ssa.Slice:
			walk(x.X)
		case *ssa.Convert:
			walk(x.X)
		case *ssa.ChangeType:
			walk(x.X)
		case *ssa.Phi:
			for _, e := range x.Edges {
				walk(e)
			}
		case *ssa.Const:
		default:
			bad = true
		}
	}
	walk(v)
	if bad {
		return nil
	}
	return out
}

// connectValuation is one initial abstract state.
type connectValuation struct {
	NoMore     bool
	KeyEmpty   bool
	BKey       string /* "", "K" (equal to the attempt's key), "O" (another ID) */
	UsSet      bool
	OtherSet   bool
	ProxyErr   bool /* The proxy returns a non-nil error. */
	PeerAtExit bool /* The peer is still attached when the proxy returns. */
}

func (v connectValuation) String() string {
	b := func(x bool, s string) string {
		if x {
			return s
		}
		return "¬" + s
	}
	return strings.Join([]string{
		b(v.NoMore, "noMore"), b(v.KeyEmpty, `key=""`), "b.key=" + map[string]string{"": `""`, "K": "key", "O": "other-id"}[v.BKey],
		b(v.UsSet, "own-attached"), b(v.OtherSet, "peer-attached"),
		b(v.ProxyErr, "proxy-error"), b(v.PeerAtExit, "peer-attached-at-exit"),
	}, " ")
}

// expectAdmit is the specification of admission (C01).
func (v connectValuation) expectAdmit() bool {
	return !v.NoMore && !v.KeyEmpty && !v.UsSet &&
		!("" == v.BKey && v.OtherSet) &&
		("" == v.BKey || "K" == v.BKey)
}

// validReasons lists the slog reason constants which truthfully describe why
// the valuation is refused.
func (v connectValuation) validReasons() []string {
	var out []string
	if v.KeyEmpty {
		out = append(out, "LMKeyMissing")
	}
	if "" == v.BKey && (v.UsSet || v.OtherSet) {
		out = append(out, "LMDisconnecting")
	}
	if v.UsSet {
		out = append(out, "LMAlreadyConnected")
	}
	if "" != v.BKey && "K" != v.BKey {
		out = append(out, "LMIncorrectKey")
	}
	if "K" == v.BKey && v.KeyEmpty {
		out = append(out, "LMIncorrectKey")
	}
	return out
}

// connectPath is one explored path with its valuation.
type connectPath struct {
	V connectValuation
	R *Run
}

// connectModel is the result of exploring the admission function.
type connectModel struct {
	A         *connectAnchors
	Paths     []connectPath
	Truncated bool
	Consts    map[string]string /* Constant value → name, for slog messages and notices. */
	Unlocked  []string          /* Accesses to shared state without the lock (per path, deduplicated). */
}

// iobConst returns the string value of a package-level constant of iobroker.
func iobConst(p *Prog, name string) (string, bool) {
	pk := p.Pkg(iobPkg)
	if nil == pk {
		return "", false
	}
	c, ok := pk.Types.Scope().Lookup(name).(*types.Const)
	if !ok {
		return "", false
	}
	return strings.Trim(c.Val().ExactString(), `"`), true
}

// variadicElems returns the values stored into the array backing a call's
// variadic argument (when spelled out at the call site).
func variadicElems(c *ssa.CallCommon) []ssa.Value {
	if 0 == len(c.Args) {
		return nil
	}
	sl, ok := c.Args[len(c.Args)-1].(*ssa.Slice)
	if !ok {
		return nil
	}
	al, ok := sl.X.(*ssa.Alloc)
	if !ok {
		return nil
	}
	var out []ssa.Value
	for _, ref := range *al.Referrers() {
		ia, ok := ref.(*ssa.IndexAddr)
		if !ok {
			continue
		}
		for _, r2 := range *ia.Referrers() {
			if st, ok := r2.(*ssa.Store); ok && st.Addr == ssa.Value(ia) {
				out = append(out, stripConv(st.Val, false))
			}
		}
	}
	return out
}

// structLitField returns the value stored into field name of the struct
// literal which v loads (v = *alloc after stores to &alloc.f).
func structLitField(v ssa.Value, name string) ssa.Value {
	u, ok := v.(*ssa.UnOp)
	if !ok || token.MUL != u.Op {
		return nil
	}
	al, ok := u.X.(*ssa.Alloc)
	if !ok {
		return nil
	}
	for _, ref := range *al.Referrers() {
		fa, ok := ref.(*ssa.FieldAddr)
		if !ok {
			continue
		}
		fv, _ := fieldAddrOf(fa)
		if nil == fv || fv.Name() != name {
			continue
		}
		for _, r2 := range *fa.Referrers() {
			if st, ok := r2.(*ssa.Store); ok && st.Addr == ssa.Value(fa) {
				return st.Val
			}
		}
	}
	return nil
}

// buildConnectModel explores the admission function for every valuation.
func buildConnectModel(p *Prog, a *connectAnchors) *connectModel {
	m := &connectModel{A: a, Consts: map[string]string{}}
	for _, n := range []string{
		"LMAlreadyConnected", "LMDisconnected", "LMDisconnecting", "LMIncorrectKey",
		"LMKeyMissing", "LMNewConnection", "LMShellIO", "LMShuttingDown",
		"ShellReadyMessage", "ShellDisconnectedMessage",
	} {
		if v, ok := iobConst(p, n); ok {
			m.Consts[v] = n
		}
	}
	errorf := p.Func(iobPkg, "Broker", "Errorf")
	logf := p.Func(iobPkg, "Broker", "Logf")
	fn := a.Fn
	recvB := fn.Params[0]

	isBrokerField := func(addr ssa.Value, f *types.Var) bool {
		fv, base := fieldAddrOf(addr)
		return nil != fv && fv == f && base == ssa.Value(recvB)
	}
	locOf := func(addr ssa.Value) string {
		switch {
		case addr == ssa.Value(a.Us):
			return "*own"
		case addr == ssa.Value(a.Other):
			return "*peer"
		case isBrokerField(addr, a.FKey):
			return "b.key"
		case isBrokerField(addr, a.FNoMore):
			return "b.noMore"
		case isBrokerField(addr, a.FIn):
			return "b.cancelIn(direct)"
		case isBrokerField(addr, a.FOut):
			return "b.cancelOut(direct)"
		}
		if al, ok := addr.(*ssa.Alloc); ok {
			return fmt.Sprintf("local:%s@%p", al.Comment, al)
		}
		return ""
	}
	shared := func(loc string) bool { return strings.HasPrefix(loc, "*") || strings.HasPrefix(loc, "b.") }

	unlocked := map[string]bool{}

	var cur connectValuation
	mach := &Machine{
		Fn:    fn,
		LocOf: locOf,
		Param: func(v ssa.Value) AV {
			if v == ssa.Value(a.Key) {
				if cur.KeyEmpty {
					return avEmptyS
				}
				return avStrClass("K")
			}
			return avNonNil
		},
	}
	mach.Call = func(r *Run, c *ssa.CallCommon, idx int) AV {
		name := calleeName(c)
		switch name {
		case "crypto/subtle.ConstantTimeCompare":
			if eq, ok := avEq(r.Eval(c.Args[0]), r.Eval(c.Args[1])); ok {
				if eq {
					return avIntOf(1)
				}
				return avIntOf(0)
			}
		case "bytes.Equal", "crypto/hmac.Equal":
			if eq, ok := avEq(r.Eval(c.Args[0]), r.Eval(c.Args[1])); ok {
				return avBoolOf(eq)
			}
		case "strings.Compare", "bytes.Compare":
			if eq, ok := avEq(r.Eval(c.Args[0]), r.Eval(c.Args[1])); ok {
				if eq {
					return avIntOf(0)
				}
				return avIntOf(1)
			}
		case "context.WithCancel", "context.WithCancelCause":
			return avNonNil
		}
		if c.Value == ssa.Value(a.Proxy) {
			/* The proxy has run: the peer may have left meanwhile. */
			if cur.ProxyErr {
				return avNonNil
			}
			return avNilV
		}
		return avU
	}
	mach.OnInstr = func(r *Run, i ssa.Instruction, deferred bool) bool {
		held := r.User["held"] > 0
		noteAccess := func(kind, loc string) {
			if shared(loc) && !held {
				unlocked[fmt.Sprintf("%s of %s at %s", kind, loc, p.Pos(posOf(i)))] = true
				r.Emit("unlocked-access:%s", loc)
			}
		}
		switch x := i.(type) {
		case *ssa.UnOp:
			if token.MUL == x.Op {
				if l := locOf(x.X); "" != l {
					noteAccess("load", l)
					if strings.Contains(l, "(direct)") {
						r.Emit("direct-field-access:%s", l)
					}
				}
			} else if token.ARROW == x.Op {
				r.Emit("blocking-op:recv")
			}
		case *ssa.Store:
			if l := locOf(x.Addr); "" != l && shared(l) {
				noteAccess("store", l)
				r.Emit("store:%s=%s", l, r.Eval(x.Val))
				if strings.Contains(l, "(direct)") {
					r.Emit("direct-field-access:%s", l)
				}
			}
		case *ssa.Select:
			r.Emit("blocking-op:select")
		case *ssa.Send:
			if fv, _ := loadedField(x.Chan); fv == a.FEvCh {
				t := "?"
				if tv := structLitField(x.X, "Type"); nil != tv {
					if s, ok := constString(tv); ok {
						t = s
					}
				}
				r.Emit("event:%s", t)
			} else {
				r.Emit("blocking-op:send")
			}
		case *ssa.Go:
			c := x.Common()
			if u, ok := c.Value.(*ssa.UnOp); ok && token.MUL == u.Op && "*peer" == locOf(u.X) {
				r.Emit("cancel-peer")
			} else {
				r.Emit("go:%s", calleeName(c))
			}
		case ssa.CallInstruction:
			c := x.Common()
			name := calleeName(c)
			switch name {
			case "(*sync.Mutex).Lock", "(*sync.Mutex).Unlock":
				if isBrokerField(c.Args[0], a.FMu) {
					if strings.HasSuffix(name, ".Lock") {
						if held {
							r.Emit("double-lock")
						}
						r.User["held"] = 1
						r.Emit("lock")
					} else {
						if !held {
							r.Emit("unlock-unheld")
						}
						r.User["held"] = 0
						r.Emit("unlock")
					}
				}
			case "(*sync.WaitGroup).Add":
				if isBrokerField(c.Args[0], a.FWg) {
					r.Emit("wg.add")
					if !held {
						r.Emit("wg.add-unlocked")
					}
				}
			case "(*sync.WaitGroup).Done":
				if isBrokerField(c.Args[0], a.FWg) {
					r.Emit("wg.done")
				}
			case "(*log/slog.Logger).Error", "(*log/slog.Logger).Info", "(*log/slog.Logger).Warn", "(*log/slog.Logger).Debug":
				lvl := name[strings.LastIndex(name, ".")+1:]
				msg := "?"
				if s, ok := constString(c.Args[1]); ok {
					msg = s
					if n, ok := m.Consts[s]; ok {
						msg = n
					}
				}
				r.Emit("slog:%s:%s", lvl, msg)
				if held && r.User["attached"] > 0 && r.User["proxied"] == 0 {
					/* fine: still inside the admission section */
				}
			default:
				if sc := c.StaticCallee(); nil != sc && (sc == errorf || sc == logf) {
					kind := "notice:err"
					if sc == logf {
						kind = "notice:log"
					}
					r.Emit("%s", kind)
					for _, e := range append(variadicElems(c), c.Args...) {
						if s, ok := constString(e); ok {
							if n, ok := m.Consts[s]; ok {
								r.Emit("notice:%s", n)
							}
						}
					}
				} else if c.Value == ssa.Value(a.Proxy) {
					r.Emit("proxy")
					if held {
						r.Emit("proxy-under-lock")
					}
					r.User["proxied"]++
					/* While the proxy ran the peer may have attached
					or left; the valuation says which. */
					if cur.PeerAtExit {
						r.Mem["*peer"] = avNonNil
					} else {
						r.Mem["*peer"] = avNilV
					}
					/* And the key is what this attempt stored, unless the
					code failed to store it. */
				} else if u, ok := c.Value.(*ssa.UnOp); ok && token.MUL == u.Op && "*peer" == locOf(u.X) {
					r.Emit("cancel-peer")
				}
			}
		}
		return false
	}

	for _, noMore := range []bool{false, true} {
		for _, keyEmpty := range []bool{false, true} {
			for _, bkey := range []string{"", "K", "O"} {
				for _, us := range []bool{false, true} {
					for _, other := range []bool{false, true} {
						for _, perr := range []bool{false, true} {
							for _, peerExit := range []bool{false, true} {
								if keyEmpty && "K" == bkey {
									continue /* Same as b.key="" */
								}
								cur = connectValuation{noMore, keyEmpty, bkey, us, other, perr, peerExit}
								if !cur.expectAdmit() && (perr || peerExit) {
									continue /* Only matter after admission. */
								}
								mem := map[string]AV{
									"b.noMore": avBoolOf(noMore),
									"*own":     avNilV,
									"*peer":    avNilV,
								}
								switch bkey {
								case "":
									mem["b.key"] = avEmptyS
								case "K":
									mem["b.key"] = avStrClass("K")
								case "O":
									mem["b.key"] = avStrClass("O")
								}
								if us {
									mem["*own"] = avNonNil
								}
								if other {
									mem["*peer"] = avNonNil
								}
								paths, trunc := mach.Explore(mem)
								m.Truncated = m.Truncated || trunc
								for _, r := range paths {
									m.Paths = append(m.Paths, connectPath{cur, r})
								}
							}
						}
					}
				}
			}
		}
	}
	for u := range unlocked {
		m.Unlocked = append(m.Unlocked, u)
	}
	sort.Strings(m.Unlocked)
	return m
}

// traceUpTo returns the effects of a path before (and excluding) the first
// occurrence of marker, and those after it.
func splitTrace(r *Run, marker string) (before, after []string, found bool) {
	for i, t := range r.Trace {
		if t == marker {
			return r.Trace[:i], r.Trace[i+1:], true
		}
	}
	return r.Trace, nil, false
}

func countIn(tr []string, e string) int {
	n := 0
	for _, t := range tr {
		if t == e {
			n++
		}
	}
	return n
}

func countPrefix(tr []string, pre string) int {
	n := 0
	for _, t := range tr {
		if strings.HasPrefix(t, pre) {
			n++
		}
	}
	return n
}

func firstPrefix(tr []string, pre string) string {
	for _, t := range tr {
		if strings.HasPrefix(t, pre) {
			return t
		}
	}
	return ""
}
