package main

// connect_model.go: the shared abstract model of the broker's admission /
// release function ((*Broker).connect), used by C01, C04, C06 and C11.  The
// function is walked path by path by the abstract machine of absint.go for
// every valuation of the broker state, and the effects of each path (lock
// operations, stores to the shared fields, operator notices, slog records,
// events, the proxy call) are recorded for the per-property specifications.

import (
	"fmt"
	"go/token"
	"go/types"
	"os"
	"sort"
	"strings"

	"golang.org/x/tools/go/ssa"
)

const iobPkg = "internal/iobroker"

// connectInst is the admission function as called from one entry point.
type connectInst struct {
	Call        ssa.CallInstruction
	Entry       *ssa.Function
	Own, Peer   string                        /* storage of this direction's / the other direction's cancel function */
	Args        map[*ssa.Parameter]AV         /* what the entry passes: pointers to broker storage, constants */
	ParamFields map[*ssa.Parameter]map[int]AV /* the same for struct parameters, per field */
}

// connectAnchors are the constructs the model is built on.  Storage inside
// the Broker is identified by what is done with it, not by field names: the
// admission function is the function both ConnectIn and ConnectOut call; the
// cancel slots are the func()-typed storage it fills on admission; the key is
// the string storage its key parameter is written to; and so on.
type connectAnchors struct {
	Fn                *ssa.Function  /* The admission function. */
	Us, Other         *ssa.Parameter /* The slot pointers, when they are passed as such (may be nil). */
	Key               *ssa.Parameter
	Proxy             *ssa.Parameter
	Callers           []ssa.CallInstruction
	Insts             []*connectInst
	KeyLoc, NoMoreLoc string
	SlotLocs          []string
	FKey, FIn, FOut   *types.Var /* leaf fields (FIn == FOut when the slots are elements of one array) */
	FNoMore, FMu      *types.Var
	FWg, FEvCh, FOch  *types.Var
	FBidir            *types.Var
	Errs              []string
}

// brokerLeaf is one piece of storage inside the Broker struct.
type brokerLeaf struct {
	Path string
	Var  *types.Var /* the field (for array elements: the array field) */
	Type types.Type
}

// brokerLeaves enumerates the storage of the struct type t under prefix,
// descending into struct-valued fields and fixed-size arrays.
func brokerLeaves(t types.Type, prefix string, v *types.Var, depth int) []brokerLeaf {
	if depth > 4 {
		return nil
	}
	switch u := t.Underlying().(type) {
	case *types.Struct:
		if n := namedOf(t); nil != n && nil != n.Obj().Pkg() && !strings.HasPrefix(n.Obj().Pkg().Path(), ModPath) {
			return []brokerLeaf{{prefix, v, t}} /* sync.Mutex and the like: opaque */
		}
		var out []brokerLeaf
		for i := 0; i < u.NumFields(); i++ {
			f := u.Field(i)
			out = append(out, brokerLeaves(f.Type(), prefix+"."+f.Name(), f, depth+1)...)
		}
		return out
	case *types.Array:
		if u.Len() > 8 {
			return []brokerLeaf{{prefix, v, t}}
		}
		var out []brokerLeaf
		for i := int64(0); i < u.Len(); i++ {
			out = append(out, brokerLeaves(u.Elem(), fmt.Sprintf("%s[%d]", prefix, i), v, depth+1)...)
		}
		return out
	}
	return []brokerLeaf{{prefix, v, t}}
}

// brokerPath renders an address rooted at recv as "b.field.sub[2]"; idx
// evaluates index operands.  "" when the address is not rooted at recv.
func brokerPath(addr, recv ssa.Value, idx func(ssa.Value) (int64, bool)) string {
	switch x := addr.(type) {
	case *ssa.FieldAddr:
		base := ""
		if x.X == recv || resolveCell(x.X) == recv {
			base = "b"
		} else {
			base = brokerPath(x.X, recv, idx)
		}
		if "" == base {
			return ""
		}
		st, ok := x.X.Type().Underlying().(*types.Pointer).Elem().Underlying().(*types.Struct)
		if !ok {
			return ""
		}
		return base + "." + st.Field(x.Field).Name()
	case *ssa.IndexAddr:
		base := brokerPath(x.X, recv, idx)
		if "" == base {
			return ""
		}
		if _, isArr := x.X.Type().Underlying().(*types.Pointer); !isArr {
			return ""
		}
		k, ok := idx(x.Index)
		if !ok {
			return ""
		}
		return fmt.Sprintf("%s[%d]", base, k)
	}
	return ""
}

func isNiladicFunc(t types.Type) bool {
	sig, ok := t.Underlying().(*types.Signature)
	return ok && 0 == sig.Params().Len() && 0 == sig.Results().Len()
}

// findConnect locates the admission function and the broker's shared storage
// semantically.
func findConnect(p *Prog) *connectAnchors {
	a := &connectAnchors{}
	pk := p.Pkg(iobPkg)
	if nil == pk {
		a.Errs = append(a.Errs, "package iobroker not found")
		return a
	}
	bt, _ := lookupObj(pk, "Broker").(*types.TypeName)
	if nil == bt {
		a.Errs = append(a.Errs, "type Broker not found")
		return a
	}
	leaves := brokerLeaves(bt.Type(), "b", nil, 0)
	leafAt := map[string]brokerLeaf{}
	for _, l := range leaves {
		leafAt[l.Path] = l
		if isNiladicFunc(l.Type) {
			a.SlotLocs = append(a.SlotLocs, l.Path)
		}
	}
	/* The function both entry points call. */
	entries := map[string]*ssa.Function{"ConnectIn": p.Func(iobPkg, "Broker", "ConnectIn"), "ConnectOut": p.Func(iobPkg, "Broker", "ConnectOut")}
	calledBy := map[*ssa.Function]map[string]ssa.CallInstruction{}
	for name, e := range entries {
		if nil == e {
			a.Errs = append(a.Errs, "method Broker."+name+" not found")
			continue
		}
		for _, f := range withAnons(e) {
			eachInstr(f, func(i ssa.Instruction) {
				ci, ok := i.(ssa.CallInstruction)
				if !ok {
					return
				}
				sc := ci.Common().StaticCallee()
				if nil == sc || !inModule(sc) || nil == sc.Blocks || nil == sc.Pkg || !strings.HasSuffix(sc.Pkg.Pkg.Path(), iobPkg) {
					return
				}
				if nil == calledBy[sc] {
					calledBy[sc] = map[string]ssa.CallInstruction{}
				}
				calledBy[sc][name] = ci
			})
		}
	}
	if 0 != len(a.Errs) {
		return a
	}
	locksBroker := func(f *ssa.Function) bool {
		found := false
		eachInstr(f, func(i ssa.Instruction) {
			if c := callCommon(i); nil != c && "(*sync.Mutex).Lock" == calleeName(c) && 0 != len(f.Params) {
				if "" != brokerPath(c.Args[0], f.Params[0], func(ssa.Value) (int64, bool) { return 0, false }) {
					found = true
				}
			}
		})
		return found
	}
	var cands []*ssa.Function
	for f, by := range calledBy {
		if 2 == len(by) && locksBroker(f) {
			cands = append(cands, f)
		}
	}
	if 1 != len(cands) {
		a.Errs = append(a.Errs, fmt.Sprintf("%d functions are called by both ConnectIn and ConnectOut and take a Broker lock; exactly one (the admission function) expected", len(cands)))
		return a
	}
	a.Fn = cands[0]
	for _, name := range []string{"ConnectIn", "ConnectOut"} {
		ci := calledBy[a.Fn][name]
		a.Callers = append(a.Callers, ci)
		a.Insts = append(a.Insts, &connectInst{Call: ci, Entry: entries[name]})
	}
	recv := a.Fn.Params[0]
	noIdx := func(ssa.Value) (int64, bool) { return 0, false }
	/* Parameters. */
	for _, pa := range a.Fn.Params {
		switch t := pa.Type().Underlying().(type) {
		case *types.Pointer:
			if isNiladicFunc(t.Elem()) {
				if nil == a.Us {
					a.Us = pa
				} else if nil == a.Other {
					a.Other = pa
				}
			}
		case *types.Signature:
			if nil == a.Proxy {
				a.Proxy = pa
			}
		case *types.Interface:
			/* The proxy as a one-method value (proxier{proxy(ctx, sl) error})
			instead of a function value. */
			if nil == a.Proxy && 1 == t.NumMethods() && !typeIs(pa.Type(), "context", "Context") {
				if sig, isSig := t.Method(0).Type().(*types.Signature); isSig && 1 == sig.Results().Len() && isErrorType(sig.Results().At(0).Type()) {
					a.Proxy = pa
				}
			}
		}
	}
	/* Key: the string parameter stored into string storage of the broker. */
	eachInstr(a.Fn, func(i ssa.Instruction) {
		st, ok := i.(*ssa.Store)
		if !ok {
			return
		}
		path := brokerPath(st.Addr, recv, noIdx)
		l, ok := leafAt[path]
		if !ok {
			return
		}
		if b, isB := l.Type.Underlying().(*types.Basic); !isB || types.String != b.Kind() {
			return
		}
		if pa := rootParam(st.Val); nil != pa && nil == a.Key {
			a.Key, a.KeyLoc, a.FKey = pa, path, l.Var
		}
	})
	/* The shutdown flag: boolean storage of the broker the function reads. */
	eachInstr(a.Fn, func(i ssa.Instruction) {
		u, ok := i.(*ssa.UnOp)
		if !ok || token.MUL != u.Op {
			return
		}
		path := brokerPath(u.X, recv, noIdx)
		if l, ok := leafAt[path]; ok && isBoolType(l.Type) && "" == a.NoMoreLoc {
			a.NoMoreLoc, a.FNoMore = path, l.Var
		}
	})
	/* Mutex, wait group, channels. */
	eachInstr(a.Fn, func(i ssa.Instruction) {
		c := callCommon(i)
		if nil == c || 0 == len(c.Args) {
			return
		}
		path := brokerPath(c.Args[0], recv, noIdx)
		l, ok := leafAt[path]
		if !ok {
			return
		}
		switch calleeName(c) {
		case "(*sync.Mutex).Lock":
			if nil == a.FMu {
				a.FMu = l.Var
			}
		case "(*sync.WaitGroup).Add":
			if nil == a.FWg {
				a.FWg = l.Var
			}
		}
	})
	for _, l := range leaves {
		ch, ok := l.Type.Underlying().(*types.Chan)
		if !ok {
			continue
		}
		if n := namedOf(ch.Elem()); nil != n {
			switch n.Obj().Name() {
			case "Event":
				if nil == a.FEvCh {
					a.FEvCh = l.Var
				}
			case "CLine":
				if nil == a.FOch {
					a.FOch = l.Var
				}
			}
		}
	}
	a.FBidir = p.Field(iobPkg, "Broker", "bidirKey") /* Optional. */
	for what, v := range map[string]*types.Var{"key storage": a.FKey, "shutdown flag": a.FNoMore, "mutex": a.FMu, "wait group": a.FWg, "event channel": a.FEvCh, "operator channel": a.FOch} {
		if nil == v {
			a.Errs = append(a.Errs, "the broker's "+what+" was not identified")
		}
	}
	if nil == a.Proxy {
		a.Errs = append(a.Errs, "admission function has no proxy function parameter")
	}
	if nil == a.Key {
		a.Errs = append(a.Errs, "no string parameter of the admission function is stored into the broker")
	}
	if len(a.SlotLocs) < 2 {
		a.Errs = append(a.Errs, fmt.Sprintf("%d func() slots in the Broker, two expected", len(a.SlotLocs)))
	}
	if 0 != len(a.Errs) {
		return a
	}
	/* What each entry passes. */
	for _, in := range a.Insts {
		in.Args, in.ParamFields = map[*ssa.Parameter]AV{}, map[*ssa.Parameter]map[int]AV{}
		crecv := ssa.Value(nil)
		if e := in.Call.Parent(); 0 != len(e.Params) {
			crecv = resolveFree(e.Params[0])
		}
		top := in.Call.Parent()
		for nil != top.Parent() {
			top = top.Parent()
		}
		if 0 != len(top.Params) {
			crecv = top.Params[0]
		}
		argAV := func(v ssa.Value) AV {
			v = resolveCell(v)
			if c, ok := v.(*ssa.Const); ok {
				return constAV(c)
			}
			cidx := func(x ssa.Value) (int64, bool) { return constInt(resolveCell(x)) }
			if path := brokerPath(resolveFree(v), crecv, cidx); "" != path {
				return AV{K: avPtr, S: path}
			}
			/* A function value made by the caller: a literal, a method
			value, the cancel function context.With* returned. */
			if _, isFn := v.Type().Underlying().(*types.Signature); isFn {
				w := stripConv(v, false)
				if f, _ := closureOf(w); nil != f {
					return avNonNil
				}
				if ex, ok := w.(*ssa.Extract); ok {
					if c, ok := ex.Tuple.(*ssa.Call); ok && strings.HasPrefix(calleeName(c.Common()), "context.With") && 1 == ex.Index {
						return avNonNil
					}
				}
			}
			return avU
		}
		for k, pa := range a.Fn.Params {
			if 0 == k || k >= len(in.Call.Common().Args) {
				continue
			}
			arg := in.Call.Common().Args[k]
			if _, isStruct := pa.Type().Underlying().(*types.Struct); isStruct {
				fields := map[int]AV{}
				if ld, ok := arg.(*ssa.UnOp); ok && token.MUL == ld.Op {
					st := pa.Type().Underlying().(*types.Struct)
					for f := 0; f < st.NumFields(); f++ {
						if w := localStructField(ld.X, f, 0); nil != w {
							fields[f] = argAV(w)
						}
					}
				}
				in.ParamFields[pa] = fields
				continue
			}
			if av := argAV(arg); avUnknown != av.K {
				in.Args[pa] = av
			}
		}
	}
	/* Leaf fields of the slots, for the rules which look outside the
	admission function. */
	if len(a.SlotLocs) >= 2 {
		a.FIn, a.FOut = leafAt[a.SlotLocs[0]].Var, leafAt[a.SlotLocs[1]].Var
	}
	return a
}

// rootParam strips slices, conversions and phis down to a parameter, if the
// value derives from exactly one.
func rootParam(v ssa.Value) *ssa.Parameter {
	seen := map[ssa.Value]bool{}
	var out *ssa.Parameter
	bad := false
	var walk func(v ssa.Value)
	walk = func(v ssa.Value) {
		if seen[v] {
			return
		}
		seen[v] = true
		switch x := v.(type) {
		case *ssa.Parameter:
			if nil != out && out != x {
				bad = true
			}
			out = x
		case *ssa.Slice:
			walk(x.X)
		case *ssa.Convert:
			walk(x.X)
		case *ssa.ChangeType:
			walk(x.X)
		case *ssa.Phi:
			for _, e := range x.Edges {
				walk(e)
			}
		case *ssa.Const:
		default:
			bad = true
		}
	}
	walk(v)
	if bad {
		return nil
	}
	return out
}

// connectValuation is one initial abstract state.
type connectValuation struct {
	NoMore     bool
	KeyEmpty   bool
	BKey       string /* "", "K" (equal to the attempt's key), "O" (another ID) */
	UsSet      bool
	OtherSet   bool
	ProxyErr   bool /* The proxy returns a non-nil error. */
	PeerAtExit bool /* The peer is still attached when the proxy returns. */
}

func (v connectValuation) String() string {
	b := func(x bool, s string) string {
		if x {
			return s
		}
		return "¬" + s
	}
	return strings.Join([]string{
		b(v.NoMore, "noMore"), b(v.KeyEmpty, `key=""`), "b.key=" + map[string]string{"": `""`, "K": "key", "O": "other-id"}[v.BKey],
		b(v.UsSet, "own-attached"), b(v.OtherSet, "peer-attached"),
		b(v.ProxyErr, "proxy-error"), b(v.PeerAtExit, "peer-attached-at-exit"),
	}, " ")
}

// expectAdmit is the specification of admission (C01).
func (v connectValuation) expectAdmit() bool {
	return !v.NoMore && !v.KeyEmpty && !v.UsSet &&
		!("" == v.BKey && v.OtherSet) &&
		("" == v.BKey || "K" == v.BKey)
}

// validReasons lists the slog reason constants which truthfully describe why
// the valuation is refused.
func (v connectValuation) validReasons() []string {
	var out []string
	if v.KeyEmpty {
		out = append(out, "LMKeyMissing")
	}
	if "" == v.BKey && (v.UsSet || v.OtherSet) {
		out = append(out, "LMDisconnecting")
	}
	if v.UsSet {
		out = append(out, "LMAlreadyConnected")
	}
	if "" != v.BKey && "K" != v.BKey {
		out = append(out, "LMIncorrectKey")
	}
	if "K" == v.BKey && v.KeyEmpty {
		out = append(out, "LMIncorrectKey")
	}
	return out
}

// connectPath is one explored path with its valuation.
type connectPath struct {
	V connectValuation
	R *Run
}

// connectModel is the result of exploring the admission function.
type connectModel struct {
	A         *connectAnchors
	Paths     []connectPath
	Truncated bool
	Consts    map[string]string /* Constant value → name, for slog messages and notices. */
	Unlocked  []string          /* Accesses to shared state without the lock (per path, deduplicated). */
}

// iobConst returns the string value of a package-level constant of iobroker.
func iobConst(p *Prog, name string) (string, bool) {
	pk := p.Pkg(iobPkg)
	if nil == pk {
		return "", false
	}
	c, ok := lookupObj(pk, name).(*types.Const)
	if !ok {
		return "", false
	}
	return strings.Trim(c.Val().ExactString(), `"`), true
}

// variadicElems returns the values stored into the array backing a call's
// variadic argument (when spelled out at the call site).
func variadicElems(c *ssa.CallCommon) []ssa.Value {
	if 0 == len(c.Args) {
		return nil
	}
	sl, ok := c.Args[len(c.Args)-1].(*ssa.Slice)
	if !ok {
		return nil
	}
	al, ok := sl.X.(*ssa.Alloc)
	if !ok {
		return nil
	}
	var out []ssa.Value
	for _, ref := range *al.Referrers() {
		ia, ok := ref.(*ssa.IndexAddr)
		if !ok {
			continue
		}
		for _, r2 := range *ia.Referrers() {
			if st, ok := r2.(*ssa.Store); ok && st.Addr == ssa.Value(ia) {
				out = append(out, stripConv(st.Val, false))
			}
		}
	}
	return out
}

// structLitField returns the value stored into field name of the struct
// literal which v loads (v = *alloc after stores to &alloc.f).
func structLitField(v ssa.Value, name string) ssa.Value {
	u, ok := v.(*ssa.UnOp)
	if !ok || token.MUL != u.Op {
		return nil
	}
	al, ok := u.X.(*ssa.Alloc)
	if !ok {
		return nil
	}
	for _, ref := range *al.Referrers() {
		fa, ok := ref.(*ssa.FieldAddr)
		if !ok {
			continue
		}
		fv, _ := fieldAddrOf(fa)
		if nil == fv || fv.Name() != name {
			continue
		}
		for _, r2 := range *fa.Referrers() {
			if st, ok := r2.(*ssa.Store); ok && st.Addr == ssa.Value(fa) {
				return st.Val
			}
		}
	}
	return nil
}

// noticeColor: the constant CLine.Color with which fn (Errorf, Logf), or a
// function it hands its arguments to, sends on the operator channel.
func noticeColor(fn *ssa.Function, och *types.Var) (int64, bool) {
	var find func(f *ssa.Function, env map[ssa.Value]ssa.Value, depth int) (int64, bool)
	find = func(f *ssa.Function, env map[ssa.Value]ssa.Value, depth int) (int64, bool) {
		if nil == f || nil == f.Blocks || depth > 3 {
			return 0, false
		}
		var out int64
		found := false
		eachInstr(f, func(i ssa.Instruction) {
			if found {
				return
			}
			if sd, ok := i.(*ssa.Send); ok {
				if fv, _ := loadedField(sd.Chan); nil != fv && fv == och {
					cv := structLitField(sd.X, "Color")
					if nil == cv {
						return
					}
					if w, ok := env[cv]; ok {
						cv = w
					}
					if k, ok := constInt(cv); ok {
						out, found = k, true
					}
				}
				return
			}
			c := callCommon(i)
			if nil == c {
				return
			}
			g := c.StaticCallee()
			if nil == g || !inModule(g) || g == f || len(g.Params) != len(c.Args) {
				return
			}
			env2 := map[ssa.Value]ssa.Value{}
			for k, pa := range g.Params {
				v := c.Args[k]
				if w, ok := env[v]; ok {
					v = w
				}
				env2[pa] = v
			}
			if k, ok := find(g, env2, depth+1); ok {
				out, found = k, true
			}
		})
		return out, found
	}
	return find(fn, map[ssa.Value]ssa.Value{}, 0)
}

// buildConnectModel explores the admission function for every valuation.
func buildConnectModel(p *Prog, a *connectAnchors) *connectModel {
	m := &connectModel{A: a, Consts: map[string]string{}}
	for _, n := range []string{
		"LMAlreadyConnected", "LMDisconnected", "LMDisconnecting", "LMIncorrectKey",
		"LMKeyMissing", "LMNewConnection", "LMShellIO", "LMShuttingDown",
		"ShellReadyMessage", "ShellDisconnectedMessage",
	} {
		if v, ok := iobConst(p, n); ok {
			m.Consts[v] = n
		}
	}
	errorf := p.Func(iobPkg, "Broker", "Errorf")
	logf := p.Func(iobPkg, "Broker", "Logf")
	/* The colours Errorf and Logf send with: a line put on the operator
	channel by hand is told apart by them. */
	errColor, haveErrColor := noticeColor(errorf, a.FOch)
	logColor, haveLogColor := noticeColor(logf, a.FOch)
	fn := a.Fn
	recvB := fn.Params[0]

	isBrokerField := func(addr ssa.Value, f *types.Var) bool {
		fv, _ := fieldAddrOf(addr)
		return nil != fv && fv == f && "" != brokerPath(addr, recvB, func(v ssa.Value) (int64, bool) { return constInt(v) })
	}
	/* Raw locations are paths into the Broker ("b.cur.stop[1]") or local
	variables; names maps the paths which matter to the model's names. */
	var inst *connectInst
	names := map[string]string{}
	discovering := false
	rawLoc := func(r *Run, addr ssa.Value) string {
		idx := func(v ssa.Value) (int64, bool) {
			if k, ok := constInt(v); ok {
				return k, true
			}
			if a := r.Eval(v); avInt == a.K {
				return a.N, true
			}
			return 0, false
		}
		if path := brokerPath(addr, recvB, idx); "" != path {
			return path
		}
		switch x := addr.(type) {
		case *ssa.Alloc:
			return fmt.Sprintf("local:%s@%p", x.Comment, x)
		case *ssa.FieldAddr:
			if al, ok := x.X.(*ssa.Alloc); ok {
				return fmt.Sprintf("local:%s@%p#f%d", al.Comment, al, x.Field)
			}
			/* A field of one of several local structs, chosen by the way
			here (r := &refusal{…} in each case of a switch). */
			if _, isPhi := x.X.(*ssa.Phi); isPhi {
				if av := r.Eval(x.X); avPtr == av.K && strings.HasPrefix(av.S, "local:") {
					return fmt.Sprintf("%s#f%d", av.S, x.Field)
				}
			}
			/* A field of the struct a pointer parameter points at, when
			that is part of the broker (us *side = &b.in: us.cancel). */
			if pa, ok := x.X.(*ssa.Parameter); ok {
				if av := r.Eval(pa); avPtr == av.K && strings.HasPrefix(av.S, "b.") {
					if pt, ok := pa.Type().Underlying().(*types.Pointer); ok {
						if st, ok := pt.Elem().Underlying().(*types.Struct); ok && x.Field < st.NumFields() {
							return av.S + "." + st.Field(x.Field).Name()
						}
					}
				}
			}
		}
		return ""
	}
	locOfRun := func(r *Run, addr ssa.Value) string {
		raw := rawLoc(r, addr)
		if n, ok := names[raw]; ok {
			return n
		}
		if strings.HasPrefix(raw, "b.") && !discovering {
			return "" /* broker storage the model does not follow */
		}
		return raw
	}
	mapPtr := func(av AV) AV {
		if avPtr == av.K {
			if n, ok := names[av.S]; ok {
				av.S = n
			}
		}
		return av
	}
	shared := func(loc string) bool { return strings.HasPrefix(loc, "*") || strings.HasPrefix(loc, "b.") }

	unlocked := map[string]bool{}

	var cur connectValuation
	mach := &Machine{
		Fn:       fn,
		LocOfRun: locOfRun,
		Param: func(v ssa.Value) AV {
			if v == ssa.Value(a.Key) {
				if cur.KeyEmpty {
					return avEmptyS
				}
				return avStrClass("K")
			}
			if pa, ok := v.(*ssa.Parameter); ok && nil != inst {
				if av, ok := inst.Args[pa]; ok {
					return mapPtr(av)
				}
			}
			return avNonNil
		},
	}
	mach.ParamField = func(pa *ssa.Parameter, f int) (AV, bool) {
		if nil == inst {
			return avU, false
		}
		if fields, ok := inst.ParamFields[pa]; ok {
			if av, ok := fields[f]; ok {
				return mapPtr(av), true
			}
		}
		return avU, false
	}
	mach.Call = func(r *Run, c *ssa.CallCommon, idx int) AV {
		name := calleeName(c)
		switch name {
		case "crypto/subtle.ConstantTimeCompare":
			if eq, ok := avEq(r.Eval(c.Args[0]), r.Eval(c.Args[1])); ok {
				if eq {
					return avIntOf(1)
				}
				return avIntOf(0)
			}
		case "bytes.Equal", "crypto/hmac.Equal":
			if eq, ok := avEq(r.Eval(c.Args[0]), r.Eval(c.Args[1])); ok {
				return avBoolOf(eq)
			}
		case "strings.Compare", "bytes.Compare":
			if eq, ok := avEq(r.Eval(c.Args[0]), r.Eval(c.Args[1])); ok {
				if eq {
					return avIntOf(0)
				}
				return avIntOf(1)
			}
		case "context.WithCancel", "context.WithCancelCause":
			return avNonNil
		}
		if c.Value == ssa.Value(a.Proxy) {
			/* The proxy has run: the peer may have left meanwhile. */
			if cur.ProxyErr {
				return avNonNil
			}
			return avNilV
		}
		return avU
	}
	mach.OnInstr = func(r *Run, i ssa.Instruction, deferred bool) bool {
		held := r.User["held"] > 0
		noteAccess := func(kind, loc string) {
			if shared(loc) && !held && !discovering {
				/* (The discovery run sees all of the broker's storage
				under its raw names; the valuations which follow see the
				guarded fields under the model's, on the same paths.) */
				unlocked[fmt.Sprintf("%s of %s at %s", kind, loc, p.Pos(posOf(i)))] = true
				r.Emit("unlocked-access:%s", loc)
			}
		}
		switch x := i.(type) {
		case *ssa.UnOp:
			if token.MUL == x.Op {
				if l := r.locOf(x.X); "" != l {
					noteAccess("load", l)
					if strings.Contains(l, "(direct)") {
						r.Emit("direct-field-access:%s", l)
					}
				}
			} else if token.ARROW == x.Op {
				r.Emit("blocking-op:recv")
			}
		case *ssa.Store:
			/* A struct parameter spilled to its local: its fields hold
			what the entry point passed. */
			/* Whole-struct copy between locals (value receivers of
			small helper methods): the fields travel along. */
			if ld, ok := x.Val.(*ssa.UnOp); ok && token.MUL == ld.Op {
				if src, ok := ld.X.(*ssa.Alloc); ok {
					if dst, ok := x.Addr.(*ssa.Alloc); ok {
						if st, isStruct := dst.Type().Underlying().(*types.Pointer).Elem().Underlying().(*types.Struct); isStruct {
							for f := 0; f < st.NumFields(); f++ {
								if av, ok := r.Mem[fmt.Sprintf("local:%s@%p#f%d", src.Comment, src, f)]; ok {
									r.Mem[fmt.Sprintf("local:%s@%p#f%d", dst.Comment, dst, f)] = av
								}
							}
						}
					}
				}
			}
			if pa, ok := x.Val.(*ssa.Parameter); ok && nil != inst {
				if fields, ok := inst.ParamFields[pa]; ok {
					if al, ok := x.Addr.(*ssa.Alloc); ok {
						for f, av := range fields {
							r.Mem[fmt.Sprintf("local:%s@%p#f%d", al.Comment, al, f)] = mapPtr(av)
						}
					}
				}
			}
			if l := r.locOf(x.Addr); "b.shadow-of-key" == l {
				noteAccess("store", l)
				if av := r.Eval(x.Val); avNil == av.K {
					r.Mem[l] = avEmptyS /* nothing kept: the empty key */
				}
			} else if "" != l && shared(l) {
				noteAccess("store", l)
				r.Emit("store:%s=%s", l, r.Eval(x.Val))
				if strings.Contains(l, "(direct)") {
					r.Emit("direct-field-access:%s", l)
				}
			}
		case *ssa.Select:
			r.Emit("blocking-op:select")
		case *ssa.Send:
			if fv, _ := loadedField(x.Chan); fv == a.FEvCh {
				t := "?"
				if tv := structLitField(x.X, "Type"); nil != tv {
					if s, ok := constString(tv); ok {
						t = s
					}
				}
				r.Emit("event:%s", t)
			} else if fv, _ := loadedField(x.Chan); nil != fv && fv == a.FOch && nil != structLitField(x.X, "Line") {
				/* A notice sent without going through Errorf/Logf. */
				kind := "notice:other"
				if cv := structLitField(x.X, "Color"); nil != cv {
					k, ok := constInt(cv)
					if !ok {
						if av := r.Eval(cv); avInt == av.K {
							k, ok = av.N, true
						}
					}
					switch {
					case ok && haveErrColor && k == errColor:
						kind = "notice:err"
					case ok && haveLogColor && k == logColor:
						kind = "notice:log"
					}
				}
				r.Emit("%s", kind)
				for _, x := range valueRoots(structLitField(x.X, "Line"), func(n string) bool { return "fmt.Sprintf" == n }) {
					if s, ok := constString(x.V); ok {
						if n, ok := m.Consts[s]; ok {
							r.Emit("notice:%s", n)
						}
					}
				}
			} else {
				r.Emit("blocking-op:send")
			}
		case *ssa.Go:
			c := x.Common()
			if u, ok := c.Value.(*ssa.UnOp); ok && token.MUL == u.Op && "*peer" == r.locOf(u.X) {
				r.Emit("cancel-peer")
			} else {
				r.Emit("go:%s", calleeName(c))
			}
		case ssa.CallInstruction:
			c := x.Common()
			name := calleeName(c)
			switch name {
			case "(*sync.Mutex).Lock", "(*sync.Mutex).Unlock":
				if isBrokerField(c.Args[0], a.FMu) {
					if strings.HasSuffix(name, ".Lock") {
						if held {
							r.Emit("double-lock")
						}
						r.User["held"] = 1
						r.Emit("lock")
					} else {
						if !held {
							r.Emit("unlock-unheld")
						}
						r.User["held"] = 0
						r.Emit("unlock")
					}
				}
			case "(*sync.WaitGroup).Add":
				if isBrokerField(c.Args[0], a.FWg) {
					r.Emit("wg.add")
					if !held {
						r.Emit("wg.add-unlocked")
					}
				}
			case "(*sync.WaitGroup).Done":
				if isBrokerField(c.Args[0], a.FWg) {
					r.Emit("wg.done")
				}
			case "(*log/slog.Logger).Error", "(*log/slog.Logger).Info", "(*log/slog.Logger).Warn", "(*log/slog.Logger).Debug",
				"(*log/slog.Logger).ErrorContext", "(*log/slog.Logger).InfoContext", "(*log/slog.Logger).WarnContext", "(*log/slog.Logger).DebugContext",
				"(*log/slog.Logger).Log", "(*log/slog.Logger).LogAttrs":
				lvl := strings.TrimSuffix(name[strings.LastIndex(name, ".")+1:], "Context")
				mi := 1
				switch {
				case "Log" == lvl || "LogAttrs" == lvl:
					/* Log(ctx, level, msg, …): the level is an operand. */
					mi = 3
					lvl = "?"
					if len(c.Args) > 2 {
						if k, isK := constInt(c.Args[2]); isK {
							switch {
							case k >= 8:
								lvl = "Error"
							case k >= 4:
								lvl = "Warn"
							case k >= 0:
								lvl = "Info"
							default:
								lvl = "Debug"
							}
						}
					}
				case strings.HasSuffix(name, "Context"):
					mi = 2
				}
				if mi >= len(c.Args) {
					break
				}
				msg := "?"
				s, ok := constString(c.Args[mi])
				if !ok {
					/* A message chosen earlier on this path (a table or
					struct of the refusal's texts). */
					if a := r.Eval(c.Args[mi]); avStr == a.K && strings.HasPrefix(a.S, "const:") {
						s, ok = strings.TrimPrefix(a.S, "const:"), true
					}
				}
				if ok {
					msg = s
					if n, ok := m.Consts[s]; ok {
						msg = n
					}
				}
				r.Emit("slog:%s:%s", lvl, msg)
				if held && r.User["attached"] > 0 && r.User["proxied"] == 0 {
					/* fine: still inside the admission section */
				}
			default:
				if sc := c.StaticCallee(); nil != sc && (sc == errorf || sc == logf) {
					kind := "notice:err"
					if sc == logf {
						kind = "notice:log"
					}
					r.Emit("%s", kind)
					for _, e := range append(variadicElems(c), c.Args...) {
						if s, ok := constString(e); ok {
							if n, ok := m.Consts[s]; ok {
								r.Emit("notice:%s", n)
							}
						}
					}
				} else if c.Value == ssa.Value(a.Proxy) {
					r.Emit("proxy")
					if held {
						r.Emit("proxy-under-lock")
					}
					r.User["proxied"]++
					/* While the proxy ran the peer may have attached
					or left; the valuation says which. */
					if cur.PeerAtExit {
						r.Mem["*peer"] = avNonNil
					} else {
						r.Mem["*peer"] = avNilV
					}
					/* And the key is what this attempt stored, unless the
					code failed to store it. */
				} else if u, ok := c.Value.(*ssa.UnOp); ok && token.MUL == u.Op && "*peer" == r.locOf(u.X) {
					r.Emit("cancel-peer")
				}
			}
		}
		return false
	}

	/* Shadows of the key: a field of the same struct which only ever
	receives (a conversion of) what the key field receives in the same
	function, or nothing ("[]byte(key), kept so as not to convert on every
	comparison").  It holds what the key holds; the model reads it as the
	key and does not count its stores as stores of the key. */
	shadowLocs := map[string]bool{}
	if nil != a.FKey && strings.Contains(a.KeyLoc, ".") {
		prefix := a.KeyLoc[:strings.LastIndex(a.KeyLoc, ".")+1]
		cand := map[*types.Var]bool{}
		bad := map[*types.Var]bool{}
		for _, f := range p.Funcs() {
			if nil == f.Pkg || f.Pkg != fn.Pkg {
				continue
			}
			var keyVals []ssa.Value
			eachInstr(f, func(i ssa.Instruction) {
				if st, ok := i.(*ssa.Store); ok {
					if fv, _ := fieldAddrOf(st.Addr); fv == a.FKey {
						keyVals = append(keyVals, stripConv(st.Val, true))
					}
				}
			})
			eachInstr(f, func(i ssa.Instruction) {
				st, ok := i.(*ssa.Store)
				if !ok {
					return
				}
				fv, base := fieldAddrOf(st.Addr)
				if nil == fv || fv == a.FKey || nil == base {
					return
				}
				switch t := fv.Type().Underlying().(type) {
				case *types.Slice:
					if !types.Identical(t.Elem(), types.Typ[types.Byte]) {
						return
					}
				case *types.Basic:
					if 0 == t.Info()&types.IsString {
						return
					}
				default:
					return
				}
				if "" == brokerPath(st.Addr, recvOf(f), func(v ssa.Value) (int64, bool) { return constInt(v) }) {
					return
				}
				v := stripConv(st.Val, true)
				okV := isNilConst(v)
				if sv, isS := constString(v); isS && "" == sv {
					okV = true
				}
				for _, kv := range keyVals {
					if kv == v {
						okV = true
					}
				}
				if okV {
					cand[fv] = true
				} else {
					bad[fv] = true
				}
			})
		}
		/* Kept in step: wherever the key is stored, the shadow is too. */
		for fv := range cand {
			for _, f := range p.Funcs() {
				if nil == f.Pkg || f.Pkg != fn.Pkg {
					continue
				}
				nk, ns := 0, 0
				eachInstr(f, func(i ssa.Instruction) {
					if st, ok := i.(*ssa.Store); ok {
						switch sv, _ := fieldAddrOf(st.Addr); sv {
						case a.FKey:
							nk++
						case fv:
							ns++
						}
					}
				})
				if nk != ns && (nk > 0 || ns > 0) {
					/* (A branch which stores nil or the conversion counts
					once per key store when folded: allow one extra.) */
					if !(nk > 0 && ns >= nk && ns <= 2*nk) {
						bad[fv] = true
					}
				}
			}
		}
		for fv := range cand {
			if !bad[fv] {
				shadowLocs[prefix+fv.Name()] = true
			}
		}
	}
	for k, in := range a.Insts {
		inst = in
		/* Discovery: an admissible attempt on an idle broker shows which
		storage receives this direction's cancel function and the key. */
		names = map[string]string{}
		discovering = true
		cur = connectValuation{}
		dmem := map[string]AV{}
		for _, sl := range a.SlotLocs {
			dmem[sl] = avNilV
		}
		dmem[a.KeyLoc], dmem[a.NoMoreLoc] = avEmptyS, avFalse
		dpaths, _ := mach.Explore(dmem)
		discovering = false
		in.Own, in.Peer = "", ""
		for _, dr := range dpaths {
			for _, t := range dr.Trace {
				for _, sl := range a.SlotLocs {
					if strings.HasPrefix(t, "store:"+sl+"=non-nil") && "" == in.Own {
						in.Own = sl
					}
				}
			}
		}
		for _, sl := range a.SlotLocs {
			if sl != in.Own && "" == in.Peer {
				in.Peer = sl
			}
		}
		if "" == in.Own || "" == in.Peer || 2 != len(a.SlotLocs) {
			a.Errs = append(a.Errs, fmt.Sprintf("as called from %s the admission function does not store a cancel function into one of the broker's %d func() slots on the idle, admissible path", fnName(in.Entry), len(a.SlotLocs)))
			continue
		}
		names = map[string]string{in.Own: "*own", in.Peer: "*peer", a.KeyLoc: "b.key", a.NoMoreLoc: "b.noMore"}
		for sl := range shadowLocs {
			names[sl] = "b.shadow-of-key"
		}
		unlockedBefore := len(unlocked)
		_ = unlockedBefore
		_ = k
		for _, noMore := range []bool{false, true} {
			for _, keyEmpty := range []bool{false, true} {
				for _, bkey := range []string{"", "K", "O"} {
					for _, us := range []bool{false, true} {
						for _, other := range []bool{false, true} {
							for _, perr := range []bool{false, true} {
								for _, peerExit := range []bool{false, true} {
									if keyEmpty && "K" == bkey {
										continue /* Same as b.key="" */
									}
									cur = connectValuation{noMore, keyEmpty, bkey, us, other, perr, peerExit}
									if !cur.expectAdmit() && (perr || peerExit) {
										continue /* Only matter after admission. */
									}
									mem := map[string]AV{
										"b.noMore": avBoolOf(noMore),
										"*own":     avNilV,
										"*peer":    avNilV,
									}
									switch bkey {
									case "":
										mem["b.key"] = avEmptyS
									case "K":
										mem["b.key"] = avStrClass("K")
									case "O":
										mem["b.key"] = avStrClass("O")
									}
									if 0 != len(shadowLocs) {
										mem["b.shadow-of-key"] = mem["b.key"]
									}
									if us {
										mem["*own"] = avNonNil
									}
									if other {
										mem["*peer"] = avNonNil
									}
									paths, trunc := mach.Explore(mem)
									m.Truncated = m.Truncated || trunc
									for _, r := range paths {
										m.Paths = append(m.Paths, connectPath{cur, r})
									}
								}
							}
						}
					}
				}
			}
		}
	}
	inst = nil
	if "" != os.Getenv("CRS_MODELDEBUG") {
		fmt.Printf("MODEL fn=%s key=%s noMore=%s slots=%v errs=%v\n", fnName(a.Fn), a.KeyLoc, a.NoMoreLoc, a.SlotLocs, a.Errs)
		for _, in := range a.Insts {
			fmt.Printf("MODEL inst entry=%s own=%s peer=%s args=%v fields=%v\n", fnName(in.Entry), in.Own, in.Peer, in.Args, in.ParamFields)
		}
	}
	for u := range unlocked {
		m.Unlocked = append(m.Unlocked, u)
	}
	sort.Strings(m.Unlocked)
	return m
}

// traceUpTo returns the effects of a path before (and excluding) the first
// occurrence of marker, and those after it.
func splitTrace(r *Run, marker string) (before, after []string, found bool) {
	for i, t := range r.Trace {
		if t == marker {
			return r.Trace[:i], r.Trace[i+1:], true
		}
	}
	return r.Trace, nil, false
}

func countIn(tr []string, e string) int {
	n := 0
	for _, t := range tr {
		if t == e {
			n++
		}
	}
	return n
}

func countPrefix(tr []string, pre string) int {
	n := 0
	for _, t := range tr {
		if strings.HasPrefix(t, pre) {
			n++
		}
	}
	return n
}

func firstPrefix(tr []string, pre string) string {
	for _, t := range tr {
		if strings.HasPrefix(t, pre) {
			return t
		}
	}
	return ""
}

// recvOf: the receiver parameter of a method (nil for a function).
func recvOf(f *ssa.Function) ssa.Value {
	if nil == f || nil == f.Signature.Recv() || 0 == len(f.Params) {
		return nil
	}
	return f.Params[0]
}
