package main

// memo.go: content-keyed memos.  A pair of fields (key, value) of one struct,
// always stored together with value = f(key) under the struct's mutex, and a
// load of value used only where key equals some K of the reader's own: the
// load is f(K), whatever was computed before.  (A parse remembered together
// with the exact text it was parsed from.)

import (
	"go/token"
	"go/types"

	"golang.org/x/tools/go/ssa"
)

type keyedMemo struct {
	Key                ssa.Value /* what the reader compared the stored key with */
	ValField, KeyField *types.Var
}

// sameAddr: two addresses which are the same chain of fields from the same
// base value.
func sameAddr(a, b ssa.Value) bool {
	a, b = resolveCell(resolveFree(a)), resolveCell(resolveFree(b))
	if a == b {
		return true
	}
	fa, ok1 := a.(*ssa.FieldAddr)
	fb, ok2 := b.(*ssa.FieldAddr)
	if ok1 && ok2 {
		return fa.Field == fb.Field && sameAddr(fa.X, fb.X)
	}
	return false
}

// contentKeyedMemo: v (used at the end of block from, or where it is
// computed) is such a memo's value.
func contentKeyedMemo(p *Prog, fn *ssa.Function, v ssa.Value, from *ssa.BasicBlock) *keyedMemo {
	ld, ok := stripConv(v, false).(*ssa.UnOp)
	if !ok || token.MUL != ld.Op {
		return nil
	}
	vfa, ok := ld.X.(*ssa.FieldAddr)
	if !ok {
		return nil
	}
	valF, _ := fieldAddrOf(vfa)
	if nil == valF {
		return nil
	}
	at := ssa.Instruction(ld)
	if nil != from {
		at = from.Instrs[len(from.Instrs)-1]
	}
	var m *keyedMemo
	var guard *ssa.If
	for _, b := range fn.Blocks {
		ifi := blockIf(b)
		if nil == ifi || nil != m {
			continue
		}
		dc := decodeCond(ifi.Cond)
		var x, y ssa.Value
		trueSucc := 0
		if !dc.Eq {
			trueSucc = 1
		}
		switch {
		case nil != dc.Y:
			if bt, isB := dc.X.Type().Underlying().(*types.Basic); !isB || 0 == bt.Info()&types.IsString {
				continue
			}
			x, y = dc.X, dc.Y
		default:
			c, isCall := dc.X.(*ssa.Call)
			if !isCall || "bytes.Equal" != calleeName(c.Common()) {
				continue
			}
			x, y = c.Common().Args[0], c.Common().Args[1]
		}
		if ifi != at && !edgeDominates(ifi, trueSucc, at) {
			continue
		}
		for _, pr := range [][2]ssa.Value{{x, y}, {y, x}} {
			kl, isLd := stripConv(pr[0], false).(*ssa.UnOp)
			if !isLd || token.MUL != kl.Op {
				continue
			}
			kfa, isFA := kl.X.(*ssa.FieldAddr)
			if !isFA || !sameAddr(kfa.X, vfa.X) {
				continue
			}
			keyF, _ := fieldAddrOf(kfa)
			if nil == keyF || keyF == valF {
				continue
			}
			m, guard = &keyedMemo{Key: pr[1], ValField: valF, KeyField: keyF}, ifi
		}
	}
	if nil == m {
		return nil
	}
	/* Always stored together, value computed from key, in this function. */
	nst := 0
	for _, f := range p.Funcs() {
		okAll := true
		eachInstr(f, func(i ssa.Instruction) {
			st, isSt := i.(*ssa.Store)
			if !isSt {
				return
			}
			fv, _ := fieldAddrOf(st.Addr)
			if fv != m.ValField && fv != m.KeyField {
				return
			}
			if f != fn {
				okAll = false
				return
			}
			if fv != m.ValField {
				return
			}
			nst++
			var keySt *ssa.Store
			for _, j := range st.Block().Instrs {
				if s2, is := j.(*ssa.Store); is {
					if f2, _ := fieldAddrOf(s2.Addr); f2 == m.KeyField && sameAddr(s2.Addr.(*ssa.FieldAddr).X, st.Addr.(*ssa.FieldAddr).X) {
						keySt = s2
					}
				}
			}
			if nil == keySt || !operandsReach(st.Val, func(x ssa.Value) bool { return x == stripConv(keySt.Val, false) || x == keySt.Val }) {
				okAll = false
			}
		})
		if !okAll {
			return nil
		}
	}
	if 0 == nst {
		return nil
	}
	/* Key stores without a value store would break the pairing. */
	nk := 0
	eachInstr(fn, func(i ssa.Instruction) {
		if st, isSt := i.(*ssa.Store); isSt {
			if fv, _ := fieldAddrOf(st.Addr); fv == m.KeyField {
				nk++
			}
		}
	})
	if nk != nst {
		return nil
	}
	/* Under a mutex of the same struct: taken before the comparison, not
	given up before the load or the stores. */
	var lock ssa.Instruction
	var unlocks []ssa.Instruction
	eachInstr(fn, func(i ssa.Instruction) {
		c, isCall := i.(*ssa.Call)
		if !isCall || 1 != len(c.Common().Args) {
			return
		}
		mfa, isFA := c.Common().Args[0].(*ssa.FieldAddr)
		if !isFA || !sameAddr(mfa.X, vfa.X) {
			return
		}
		switch calleeName(c.Common()) {
		case "(*sync.Mutex).Lock", "(*sync.RWMutex).Lock":
			if instrDominates(i, guard) {
				lock = i
			}
		case "(*sync.Mutex).Unlock", "(*sync.RWMutex).Unlock":
			unlocks = append(unlocks, i)
		}
	})
	if nil == lock {
		return nil
	}
	for _, u := range unlocks {
		if canReach(locOf(u), guard) || canReach(locOf(u), ld) {
			return nil
		}
		bad := false
		eachInstr(fn, func(i ssa.Instruction) {
			if st, isSt := i.(*ssa.Store); isSt {
				if fv, _ := fieldAddrOf(st.Addr); (fv == m.ValField || fv == m.KeyField) && canReach(locOf(u), st) {
					bad = true
				}
			}
		})
		if bad {
			return nil
		}
	}
	return m
}
