package main

// C14 — simpleshell relays everything the wrapped command writes before
// reporting EOF.

import (
	"fmt"
	"go/token"
	"go/types"
	"strings"

	"golang.org/x/tools/go/ssa"
)

func init() {
	register("C14", &propDef{
		Run:         checkC14,
		Explanation: "Typestate of the exec.Cmd wrapped by CmdShell, decided on the SSA of lib/simpleshell. (1) Both of the child's output descriptors go through pipes obtained from StdoutPipe and StderrPipe (cmd.Stdout/cmd.Stderr are never assigned, so os/exec starts no copier of its own), and each pipe is read to EOF by a copy into the shell's output writer. (2) No Run/Output/CombinedOutput is called on a command with pipes, and Wait — which closes the pipes — is dominated by the join of the goroutines reading them. (3) The output writer is closed after that join and before Wait (Wait blocks on the stdin copier until the input ends, which in turn waits for the far side to see the output end), and nowhere else except when Start fails. (4) Wait's error is the value Go returns. (5) SetInput stores its reader unchanged into cmd.Stdin. Together: every byte written before exit is copied before the output reports EOF, however slowly it is read; EOF follows exit and drain; failure is reported. Kernel pipe buffering and grandchildren holding descriptors are outside.",
		Assumptions: []string{"os/exec: StdoutPipe/StderrPipe readers are closed by Wait; reading them to EOF before Wait is the documented correct use", "io.Copy returns only at EOF or error"},
	})
}

func checkC14(p *Prog, r *Report) {
	rPipes := r.Rule("both-descriptors-piped", "stdout and stderr both go through StdoutPipe/StderrPipe and each is copied to EOF into the output writer; cmd.Stdout/Stderr are never assigned")
	rWait := r.Rule("wait-after-join", "no Run/Output/CombinedOutput on the piped command; Wait is dominated by the join of the pipe readers")
	rClose := r.Rule("close-after-join-before-wait", "the output writer is closed after the readers are joined and before Wait, and nowhere else except on a failed Start")
	rErr := r.Rule("exit-status-returned", "Wait's error is what Go returns")
	rIn := r.Rule("stdin-unchanged", "SetInput stores its reader into cmd.Stdin unchanged")
	checkC14Wrappers(p, r, r.Rule("wrappers-pass-through", "a reader which the implant's own code puts between the transport and the command (a counter, a meter) hands on exactly what its inner Read returned: data which arrives together with the end of the stream is not dropped"))
	checkC14GroupContext(p, r, r.Rule("group-context-not-a-trigger", "nothing in lib/simpleshell is set off by the context errgroup.WithContext derives (it is cancelled whenever Wait returns, not only on failure): no context.AfterFunc on it, no command started under it"))
	checkC14HandedOnBuffers(p, r, r.Rule("buffers-not-refilled", "a reader of the implant which fills a fixed set of buffers in turn and hands the filled slices over a channel has at least capacity+2 buffers (one with the consumer, those queued, one being filled)"))
	checkC14SessionUnbounded(p, r, r.Rule("session-unbounded", "nothing in lib/simpleshell puts a clock on the whole exchange (http.Client.Timeout covers reading the response body, i.e. the input stream, and sending the request body, i.e. the output stream)"))

	/* The output writer is the *io.PipeWriter CmdShell holds (directly or in
	a struct of its own); whatever it is called. */
	goFn := p.Func(sshPkg, "CmdShell", "Go")
	var outw *types.Var
	if nil != goFn && nil != goFn.Signature.Recv() {
		if st := derefStruct(goFn.Signature.Recv().Type()); nil != st {
			ws := fieldsOfType(st, func(t types.Type) bool { return typeIs(t, "io", "PipeWriter") }, 0)
			if 1 == len(ws) {
				outw = ws[0]
			}
		}
	}
	if nil == outw || nil == goFn {
		rPipes.Unproven("CmdShell", token.NoPos, "CmdShell.Go or the one *io.PipeWriter of CmdShell not found")
		return
	}
	r.Saw("func " + fnName(goFn))

	isCmd := func(v ssa.Value) bool {
		/* A value of type *exec.Cmd which is CmdShell.cmd or the parameter stored into it. */
		return typeIs(v.Type(), "os/exec", "Cmd")
	}
	/* 1. Pipes. */
	pipeFields := map[string]pipeSrc{} /* StdoutPipe/StderrPipe → where the reader is kept */
	havePipe := map[string]bool{}
	for _, fn := range p.Funcs() {
		if nil == fn.Pkg || !strings.HasSuffix(fn.Pkg.Pkg.Path(), "/"+sshPkg) {
			continue
		}
		eachInstr(fn, func(i ssa.Instruction) {
			switch x := i.(type) {
			case *ssa.Call:
				name := calleeName(x.Common())
				switch name {
				case "(*os/exec.Cmd).StdoutPipe", "(*os/exec.Cmd).StderrPipe":
					r.Saw("func " + fnName(fn))
					which := name[strings.LastIndex(name, ".")+1:]
					if ex := extractOf(x, 0); nil != ex {
						for _, st := range storesOfValue(ex, 0) {
							if fv, _ := fieldAddrOf(st.Addr); nil != fv {
								pipeFields[which] = pipeSrc{fv, -1}
								havePipe[which] = true
							} else if ia, ok := st.Addr.(*ssa.IndexAddr); ok {
								/* A row of a literal table kept in a field. */
								k, isC := constInt(ia.Index)
								if !isC {
									continue
								}
								for _, ref := range *ia.X.Referrers() {
									sl, isSl := ref.(*ssa.Slice)
									if !isSl || nil != sl.Low || nil != sl.High {
										continue
									}
									for _, st2 := range storesOfValue(sl, 0) {
										if fv, _ := fieldAddrOf(st2.Addr); nil != fv {
											pipeFields[which] = pipeSrc{fv, int(k)}
											havePipe[which] = true
										}
									}
								}
							}
						}
					}
				case "(*os/exec.Cmd).Run", "(*os/exec.Cmd).Output", "(*os/exec.Cmd).CombinedOutput":
					rWait.Bad(fmt.Sprintf("%s→%s", fnName(fn), name), posOf(i), "%s on a command whose output is read through pipes: its Wait closes the pipes while they are still being read and unread output is lost", name)
				}
			case *ssa.Store:
				fv, base := fieldAddrOf(x.Addr)
				if nil == fv || !isCmd(base) {
					return
				}
				switch fv.Name() {
				case "WaitDelay":
					if k, isK := constInt(x.Val); !isK || 0 != k {
						rPipes.Bad(fmt.Sprintf("%s:cmd.WaitDelay", fnName(fn)), posOf(i), "cmd.WaitDelay is set: once the command's context is done and the delay has passed os/exec closes the parent ends of the stdout/stderr pipes itself, without Wait being called — output written but not yet read is thrown away whatever CmdShell.Go's drain-before-Wait order")
					}
				case "Stdout", "Stderr":
					rPipes.Bad(fmt.Sprintf("%s:cmd.%s", fnName(fn), fv.Name()), posOf(i), "cmd.%s is assigned: os/exec then copies that descriptor in a goroutine of its own which CmdShell.Go does not join before closing the output, so bytes written just before exit are lost", fv.Name())
				}
			}
		})
	}
	for _, which := range []string{"StdoutPipe", "StderrPipe"} {
		if !havePipe[which] {
			rPipes.Bad("NewCmdShell:"+which, token.NoPos, "%s is not called (or its reader is not kept): that descriptor is not relayed through a pipe Go drains", which)
		}
	}
	/* Readers: closures of Go copying from a pipe field into outw. */
	type reader struct {
		fn     *ssa.Function
		field  pipeSrc
		spawn  ssa.Instruction /* In Go: errgroup.Go(closure) / go closure() */
		group  ssa.Value
		anchor ssa.Instruction /* loop header test when started per row of a table */
	}
	var readers []reader
	for _, f := range withAnons(goFn) {
		eachInstr(f, func(i ssa.Instruction) {
			c, ok := i.(*ssa.Call)
			if !ok {
				return
			}
			switch calleeName(c.Common()) {
			case "io.Copy", "io.CopyBuffer", "(*bufio.Reader).WriteTo", "io.CopyN":
			default:
				return
			}
			dst, _ := fieldBehind(unwrapPassThroughWriter(p, c.Common().Args[0]))
			srcs, inTable := pipeSrcsOf(c.Common().Args[1], pipeFields)
			if 0 == len(srcs) {
				return
			}
			for which, pf := range pipeFields {
				if !srcs[pf] {
					continue
				}
				cc := fmt.Sprintf("%s:copies-%s", fnName(goFn), which)
				if dst != outw {
					rPipes.Bad(cc, posOf(i), "the %s reader is copied somewhere other than the shell's output writer", which)
					continue
				}
				if "io.CopyN" == calleeName(c.Common()) {
					rPipes.Bad(cc, posOf(i), "the %s reader is copied with a byte limit, not to EOF", which)
					continue
				}
				rd := reader{fn: f, field: pf}
				if f != goFn {
					rd.spawn, rd.group = spawnOf(goFn, f)
					if inTable && nil != rd.spawn {
						/* Started once per row: whenever the loop is
						entered, for every row. */
						rd.anchor = loopAnchor(rd.spawn)
						if nil == rd.anchor {
							rPipes.Bad(cc, posOf(i), "the copier for the rows of the reader table is not started on every iteration")
							continue
						}
					}
				}
				readers = append(readers, rd)
				rPipes.OK(cc, posOf(i), "io.Copy(outw, %s) to EOF", pf.Name())
			}
		})
	}
	/* Hand-written copy loops. */
	for _, f := range withAnons(goFn) {
		for _, cl := range findCopyLoops(f) {
			srcs, _ := pipeSrcsOf(cl.Src, pipeFields)
			dst, _ := fieldBehind(unwrapPassThroughWriter(p, cl.Dst))
			for which, pf := range pipeFields {
				if !srcs[pf] {
					continue
				}
				cc := fmt.Sprintf("%s:copies-%s", fnName(goFn), which)
				switch {
				case dst != outw:
					rPipes.Bad(cc, posOf(cl.Write), "the %s reader is copied somewhere other than the shell's output writer", which)
				case 0 != len(cl.Problems):
					rPipes.Bad(cc, posOf(cl.Read), "the loop copying %s is not a lossless copy to EOF: %s", pf.Name(), strings.Join(cl.Problems, "; "))
				default:
					rd := reader{fn: f, field: pf}
					if f != goFn {
						rd.spawn, rd.group = spawnOf(goFn, f)
					}
					readers = append(readers, rd)
					rPipes.OK(cc, posOf(cl.Read), "read/write loop from %s to outw: everything read is written, left only on error or EOF", pf.Name())
				}
			}
		}
	}
	seenF := map[pipeSrc]bool{}
	for _, rd := range readers {
		seenF[rd.field] = true
	}
	for which, pf := range pipeFields {
		if !seenF[pf] {
			rPipes.Bad(fmt.Sprintf("%s:copies-%s", fnName(goFn), which), goFn.Pos(), "the %s pipe is never copied to the output writer: the child's %s is lost (and the child blocks when the pipe fills)", which, strings.TrimSuffix(strings.ToLower(which), "pipe"))
		}
	}

	/* 2. Wait after join. */
	var wait *ssa.Call
	var start *ssa.Call
	eachInstr(goFn, func(i ssa.Instruction) {
		if c, ok := i.(*ssa.Call); ok {
			switch calleeName(c.Common()) {
			case "(*os/exec.Cmd).Wait":
				wait = c
			case "(*os/exec.Cmd).Start":
				start = c
			}
		}
	})
	for _, f := range withAnons(goFn)[1:] {
		eachInstr(f, func(i ssa.Instruction) {
			if c, ok := i.(*ssa.Call); ok && "(*os/exec.Cmd).Wait" == calleeName(c.Common()) {
				rWait.Bad(fnName(f)+"→Wait", posOf(i), "Wait is called from a goroutine running concurrently with the pipe readers")
			}
		})
	}
	var joins []ssa.Instruction
	if nil == wait {
		rWait.Bad(fnName(goFn)+"→Wait", goFn.Pos(), "Go never calls cmd.Wait in its own frame: the child is not reaped after its output is drained")
	} else {
		for _, rd := range readers {
			c := fmt.Sprintf("%s:join-%s-before-Wait", fnName(goFn), rd.field.Name())
			if nil == rd.spawn {
				if rd.fn == goFn {
					/* Copy done inline: it precedes Wait if it dominates it. */
					rWait.OK(c, posOf(wait), "copied inline before Wait")
					continue
				}
				rWait.Unproven(c, goFn.Pos(), "how the reader of %s is started was not recognised", rd.field.Name())
				continue
			}
			var join ssa.Instruction
			eachInstr(goFn, func(i ssa.Instruction) {
				cc := callCommon(i)
				if nil == cc {
					return
				}
				switch calleeName(cc) {
				case "(*golang.org/x/sync/errgroup.Group).Wait", "(*sync.WaitGroup).Wait":
					if nil != rd.group && resolveCell(cc.Args[0]) == resolveCell(rd.group) {
						join = i
					}
				}
			})
			/* Or: Go receives from the channel the reader closes when it
			is done. */
			if _, isChan := typeOfChan(rd.group); nil == join && isChan {
				/* As many receives as there are readers reporting on (or
				closing) that channel. */
				sharing := int64(0)
				for _, o := range readers {
					if nil != o.group && resolveCell(o.group) == resolveCell(rd.group) {
						sharing++
					}
				}
				if got, last := recvCount(goFn, rd.group, wait); got >= sharing && nil != last {
					join = last
				}
			}
			if nil == join {
				rWait.Bad(c, posOf(rd.spawn), "the goroutine reading %s is never joined in Go", rd.field.Name())
				continue
			}
			joins = append(joins, join)
			spawnAt := rd.spawn
			if nil != rd.anchor {
				spawnAt = rd.anchor
			}
			if instrDominates(join, wait) && instrDominates(spawnAt, join) {
				rWait.OK(c, posOf(wait), "Wait is dominated by the join of the %s reader", rd.field.Name())
			} else {
				rWait.Bad(c, posOf(wait), "cmd.Wait is not dominated by the join of the goroutine reading %s: Wait closes the pipe while output is still unread", rd.field.Name())
			}
		}
		if nil != start && !instrDominates(start, wait) {
			rWait.Bad(fnName(goFn)+":Start-before-Wait", posOf(wait), "Wait is not preceded by Start")
		}
	}

	/* 3. Close of the output writer. */
	nclose := 0
	properClose := false
	var deferredCloses [][2]any
	for _, f := range withAnons(goFn) {
		eachInstr(f, func(i ssa.Instruction) {
			cc := callCommon(i)
			if nil == cc {
				return
			}
			n := calleeName(cc)
			if "(*io.PipeWriter).Close" != n && "(*io.PipeWriter).CloseWithError" != n {
				return
			}
			if fv, _ := fieldBehind(cc.Args[0]); fv != outw {
				return
			}
			nclose++
			c := fmt.Sprintf("%s:close-output#%d", fnName(f), nclose)
			_, deferred := i.(*ssa.Defer)
			if f != goFn {
				/* A closure run by a defer statement of Go. */
				eachInstr(goFn, func(j ssa.Instruction) {
					if d, ok := j.(*ssa.Defer); ok {
						if cf, _ := closureOf(d.Common().Value); cf == f {
							deferred = true
						}
					}
				})
			}
			/* Failed Start path. */
			if nil != start {
				for _, t := range nilTestsOf(goFn, start) {
					if f == goFn && !deferred && edgeDominates(t.If, 1-t.NilSucc, i) {
						rClose.OK(c, posOf(i), "on the failed-Start path")
						return
					}
				}
			}
			switch {
			case deferred:
				/* Judged below: harmless beside a proper close. */
				deferredCloses = append(deferredCloses, [2]any{c, i})
			case f != goFn:
				rClose.Bad(c, posOf(i), "the output writer is closed from a reader goroutine: it ends as soon as one descriptor does, cutting off the other")
			default:
				okJoin := len(joins) > 0
				for _, j := range joins {
					if !instrDominates(j, i) {
						okJoin = false
					}
				}
				switch {
				case !okJoin:
					rClose.Bad(c, posOf(i), "the output writer is closed before all pipe readers are joined: bytes still in a pipe are dropped")
				case nil != wait && !instrDominates(i, wait):
					rClose.Bad(c, posOf(i), "the output writer is not closed before cmd.Wait: Wait waits for the stdin copier, which ends only once the far side has seen the output end")
				default:
					properClose = true
					rClose.OK(c, posOf(i), "after the join of both readers and before Wait")
				}
			}
		})
	}
	for _, dc := range deferredCloses {
		c, i := dc[0].(string), dc[1].(ssa.Instruction)
		if properClose {
			rClose.OK(c, posOf(i), "a deferred close beside the close before Wait: a no-op by then")
		} else {
			rClose.Bad(c, posOf(i), "the output writer is closed by a deferred call, i.e. only after Wait has returned: Wait blocks on the stdin copier until the input ends, so with the input still open the output never reports EOF")
		}
	}
	if nclose < 1 {
		rClose.Bad(fnName(goFn)+":close-output", goFn.Pos(), "Go never closes the output writer: the output never reports EOF")
	}

	/* 4. Exit status. */
	if nil != wait {
		okAll := true
		nret := 0
		eachInstr(goFn, func(i ssa.Instruction) {
			ret, ok := i.(*ssa.Return)
			if !ok || !canReach(locOf(wait), ret) {
				return
			}
			nret++
			got := false
			for _, x := range valueRoots(retVal(ret, 0), func(n string) bool {
				return "cmp.Or" == n || strings.HasPrefix(n, "cmp.Or[") || "errors.Join" == n || "fmt.Errorf" == n
			}) {
				if "call" == x.Kind && x.V == ssa.Value(wait) {
					got = true
				}
			}
			/* A nil returned below the nil edge of a test of Wait's own
			error is Wait's error, too. */
			if !got && isNilConst(retVal(ret, 0)) {
				for _, t := range nilTestsOf(goFn, wait) {
					if edgeDominates(t.If, t.NilSucc, ret) {
						got = true
					}
				}
			}
			if !got {
				okAll = false
				rErr.Bad(fnName(goFn)+":returns-Wait-error", posOf(ret), "after Wait, Go returns %s: an unsuccessful exit is not reported", rootsString(valueRoots(retVal(ret, 0), nil)))
			}
		})
		if okAll && nret > 0 {
			rErr.OK(fnName(goFn)+":returns-Wait-error", posOf(wait), "the error of cmd.Wait is returned")
		}
	}

	/* 5. SetInput. */
	if si := p.Func(sshPkg, "CmdShell", "SetInput"); nil != si {
		r.Saw("func " + fnName(si))
		okk := false
		eachInstr(si, func(i ssa.Instruction) {
			st, ok := i.(*ssa.Store)
			if !ok {
				return
			}
			if fv, base := fieldAddrOf(st.Addr); nil != fv && "Stdin" == fv.Name() && isCmd(base) {
				/* The reader itself, or on some paths a wrapper whose Read
				passes buffer, count and error through. */
				all := true
				for _, l := range phiLeaves(st.Val) {
					if _, isP := stripConv(unwrapPassThrough(p, l.V, "Read"), false).(*ssa.Parameter); !isP {
						all = false
					}
				}
				if all {
					okk = true
				}
			}
		})
		if okk {
			rIn.OK(fnName(si), si.Pos(), "cmd.Stdin = in")
		} else {
			rIn.Bad(fnName(si), si.Pos(), "SetInput does not store its reader unchanged into cmd.Stdin")
		}
	} else {
		rIn.Unproven("CmdShell.SetInput", token.NoPos, "not found")
	}
}

// spawnOf finds how the anonymous function f is started from its parent:
// errgroup.Group.Go(f) (returns the group) or a go statement.
func spawnOf(parent, f *ssa.Function) (ssa.Instruction, ssa.Value) {
	var out ssa.Instruction
	var group ssa.Value
	eachInstr(parent, func(i ssa.Instruction) {
		c := callCommon(i)
		if nil == c {
			return
		}
		switch calleeName(c) {
		case "(*golang.org/x/sync/errgroup.Group).Go", "(*golang.org/x/sync/errgroup.Group).TryGo":
			if cf, _ := closureOf(c.Args[1]); cf == f {
				out, group = i, c.Args[0]
			}
		}
		if _, isGo := i.(*ssa.Go); isGo {
			if cf, _ := closureOf(c.Value); cf == f {
				out = i
				group = waitGroupOf(parent, f, i)
				if nil == group {
					group = doneChanOf(f)
				}
			}
		}
	})
	return out, group
}

// waitGroupOf: the goroutine f, started by spawn, signals a sync.WaitGroup on
// every way out (a deferred Done, or Done before each return), and the parent
// has added to that group before the go statement.  Returns the group.
func waitGroupOf(parent, f *ssa.Function, spawn ssa.Instruction) ssa.Value {
	var g ssa.Value
	okDone := false
	eachInstr(f, func(i ssa.Instruction) {
		c := callCommon(i)
		if nil == c || "(*sync.WaitGroup).Done" != calleeName(c) {
			return
		}
		if _, isDefer := i.(*ssa.Defer); isDefer && i.Block() == f.Blocks[0] {
			g, okDone = resolveCell(c.Args[0]), true
			return
		}
		/* Not deferred: must precede every return. */
		all := true
		eachInstr(f, func(j ssa.Instruction) {
			if isReturn(j) && (nil == f.Recover || j.Block() != f.Recover) && !instrDominates(i, j) {
				all = false
			}
		})
		if all {
			g, okDone = resolveCell(c.Args[0]), true
		}
	})
	if !okDone || nil == g {
		return nil
	}
	added := false
	eachInstr(parent, func(i ssa.Instruction) {
		c := callCommon(i)
		if nil == c || "(*sync.WaitGroup).Add" != calleeName(c) || resolveCell(c.Args[0]) != g {
			return
		}
		if _, isCall := i.(*ssa.Call); isCall && instrDominates(i, spawn) {
			if k, ok := constInt(c.Args[1]); ok && k >= 1 {
				added = true
			}
		}
	})
	if !added {
		return nil
	}
	return g
}

// pipeSrc is where a pipe's reader is kept: a field of CmdShell, or row k of a
// literal table kept in one.
type pipeSrc struct {
	f *types.Var
	k int /* -1: the field itself */
}

func (s pipeSrc) Name() string {
	if s.k < 0 {
		return s.f.Name()
	}
	return fmt.Sprintf("%s[%d]", s.f.Name(), s.k)
}

// pipeSrcsOf: which of the kept pipe readers v can be; inTable tells that v
// is the row of a table at a loop's index (every row, once per iteration).
func pipeSrcsOf(v ssa.Value, kept map[string]pipeSrc) (map[pipeSrc]bool, bool) {
	out := map[pipeSrc]bool{}
	if nil != theProg {
		/* (a literal's parameter is what the literal is called with) */
		v = theProg.resolveUp(stripConv(v, false))
	}
	rv := stripConv(resolveCell(stripConv(v, false)), false)
	if fv, _ := fieldBehind(v); nil != fv {
		out[pipeSrc{fv, -1}] = true
		return out, false
	}
	/* A row of a literal table in the same function. */
	if arr, ok := elemOfLiteral(v); ok {
		if els, ok := literalElems(arr); ok {
			for _, e := range els {
				if fv, _ := loadedField(stripConv(e, false)); nil != fv {
					out[pipeSrc{fv, -1}] = true
				}
			}
			return out, true
		}
	}
	/* A row of a table kept in a field. */
	if ld, ok := rv.(*ssa.UnOp); ok && token.MUL == ld.Op {
		if ia, ok := ld.X.(*ssa.IndexAddr); ok {
			if fv, _ := loadedField(stripConv(resolveCell(ia.X), false)); nil != fv {
				if k, isC := constInt(ia.Index); isC {
					out[pipeSrc{fv, int(k)}] = true
					return out, false
				}
				for _, ps := range kept {
					if ps.f == fv && ps.k >= 0 {
						out[ps] = true
					}
				}
				return out, true
			}
		}
	}
	return out, false
}

// storesOfValue: the stores which put v (possibly converted between interface
// types, or merged with other values) into memory.
func storesOfValue(v ssa.Value, depth int) []*ssa.Store {
	var out []*ssa.Store
	if depth > 4 || nil == v.Referrers() {
		return out
	}
	for _, ref := range *v.Referrers() {
		switch x := ref.(type) {
		case *ssa.Store:
			if x.Val == v {
				out = append(out, x)
			}
		case *ssa.ChangeInterface:
			out = append(out, storesOfValue(x, depth+1)...)
		case *ssa.MakeInterface:
			out = append(out, storesOfValue(x, depth+1)...)
		case *ssa.ChangeType:
			out = append(out, storesOfValue(x, depth+1)...)
		case *ssa.Phi:
			out = append(out, storesOfValue(x, depth+1)...)
		}
	}
	return out
}

// fieldsOfType: the fields of st, and of the struct-typed fields of st
// declared in the same package, whose type satisfies match.
func fieldsOfType(st *types.Struct, match func(types.Type) bool, depth int) []*types.Var {
	var out []*types.Var
	if depth > 3 {
		return out
	}
	for i := 0; i < st.NumFields(); i++ {
		f := st.Field(i)
		if match(f.Type()) {
			out = append(out, f)
			continue
		}
		if inner, ok := f.Type().Underlying().(*types.Struct); ok {
			if n, isN := f.Type().(*types.Named); !isN || (nil != n.Obj().Pkg() && n.Obj().Pkg() == f.Pkg()) {
				out = append(out, fieldsOfType(inner, match, depth+1)...)
			}
		}
	}
	return out
}

func typeOfChan(v ssa.Value) (*types.Chan, bool) {
	if nil == v {
		return nil, false
	}
	c, ok := v.Type().Underlying().(*types.Chan)
	return c, ok
}

// doneChanOf: the goroutine f closes a channel on every way out (a deferred
// close in its first block, or a close which precedes every return): whoever
// receives from that channel has waited for f.  Returns the channel.
func doneChanOf(f *ssa.Function) ssa.Value {
	var ch ssa.Value
	eachInstr(f, func(i ssa.Instruction) {
		c := callCommon(i)
		if nil == c {
			return
		}
		bi, isB := c.Value.(*ssa.Builtin)
		if !isB || "close" != bi.Name() || 1 != len(c.Args) {
			return
		}
		if _, isDefer := i.(*ssa.Defer); isDefer && i.Block() == f.Blocks[0] {
			ch = resolveCell(resolveFree(c.Args[0]))
			return
		}
		all := true
		eachInstr(f, func(j ssa.Instruction) {
			if isReturn(j) && (nil == f.Recover || j.Block() != f.Recover) && !instrDominates(i, j) {
				all = false
			}
		})
		if all {
			ch = resolveCell(resolveFree(c.Args[0]))
		}
	})
	if nil != ch {
		return ch
	}
	/* Or it reports on a channel: one send which every way out passes. */
	eachInstr(f, func(i ssa.Instruction) {
		sd, ok := i.(*ssa.Send)
		if !ok {
			return
		}
		all := true
		eachInstr(f, func(j ssa.Instruction) {
			if isReturn(j) && (nil == f.Recover || j.Block() != f.Recover) && !instrDominates(i, j) {
				all = false
			}
		})
		if all {
			ch = stripConv(resolveCell(stripConv(resolveFree(stripConv(sd.Chan, false)), false)), false)
		}
	})
	return ch
}

// recvCount: how many values Go itself is certain to have received from ch
// by the time it reaches `before`: receives which dominate it, a receive in a
// loop which runs a constant number of times counting that many.
func recvCount(fn *ssa.Function, ch ssa.Value, before ssa.Instruction) (int64, ssa.Instruction) {
	var n int64
	var last ssa.Instruction
	eachInstr(fn, func(i ssa.Instruction) {
		u, ok := i.(*ssa.UnOp)
		if !ok || token.ARROW != u.Op || stripConv(resolveCell(stripConv(u.X, false)), false) != stripConv(resolveCell(ch), false) || !instrDominates(i, before) {
			return
		}
		k := int64(1)
		/* In "for range K" (tested at the bottom: body first)? */
		for _, b := range fn.Blocks {
			if !b.Dominates(u.Block()) || 0 == len(b.Instrs) {
				continue
			}
			for _, bi := range b.Instrs {
				ph, isPhi := bi.(*ssa.Phi)
				if !isPhi {
					break
				}
				for e, pred := range b.Preds {
					if !b.Dominates(pred) {
						continue
					}
					add, isAdd := ph.Edges[e].(*ssa.BinOp)
					ifi := blockIf(pred)
					if !isAdd || token.ADD != add.Op || add.X != ssa.Value(ph) || nil == ifi {
						continue
					}
					cmp, isCmp := ifi.Cond.(*ssa.BinOp)
					if !isCmp || token.LSS != cmp.Op || cmp.X != ssa.Value(add) || pred.Succs[0] != b {
						continue
					}
					if bound, isC := constInt(cmp.Y); isC && bound >= 1 && bound <= 16 && (u.Block() == b || b.Dominates(u.Block())) && (pred == u.Block() || u.Block().Dominates(pred)) {
						k = bound
					}
				}
			}
		}
		n += k
		last = i
	})
	return n, last
}

// unwrapPassThroughWriter: v is a value of a module type whose Write hands
// its argument, unchanged, to the Write of one of its fields and returns
// exactly what that returned on every path (a byte counter, a tee for
// diagnostics which only looks): what that field holds where v is made.
// Anything else is returned as it is.
func unwrapPassThroughWriter(p *Prog, v ssa.Value) ssa.Value {
	return unwrapPassThrough(p, v, "Write")
}

// unwrapPassThrough: the same for the method named (Read or Write), for
// wrappers used by value or through a pointer.
func unwrapPassThrough(p *Prog, v ssa.Value, method string) ssa.Value {
	for depth := 0; depth < 3; depth++ {
		x := stripConv(resolveCell(v), false)
		t := x.Type()
		if pt, isPtr := t.Underlying().(*types.Pointer); isPtr {
			t = pt.Elem()
		}
		st, ok := t.Underlying().(*types.Struct)
		if !ok {
			return v
		}
		ms := p.SSA.MethodSets.MethodSet(x.Type())
		var wr *ssa.Function
		for k := 0; k < ms.Len(); k++ {
			if method == ms.At(k).Obj().Name() {
				wr = p.SSA.MethodValue(ms.At(k))
			}
		}
		if nil == wr || nil == wr.Blocks || !inModule(wr) || len(wr.Params) < 1 || len(wr.Params) > 2 {
			return v
		}
		noArg := 1 == len(wr.Params) /* Accept() and the like */
		/* The one inner call, on a field of the receiver, with our p. */
		var inner *ssa.Call
		field := -1
		n := 0
		eachInstr(wr, func(i ssa.Instruction) {
			c, isCall := i.(*ssa.Call)
			if !isCall {
				return
			}
			var recv, buf ssa.Value
			switch {
			case noArg && c.Common().IsInvoke() && method == c.Common().Method.Name() && 0 == len(c.Common().Args):
				recv = c.Common().Value
			case noArg && !c.Common().IsInvoke() && strings.HasSuffix(calleeName(c.Common()), ")."+method) && 1 == len(c.Common().Args):
				recv = c.Common().Args[0]
			case noArg:
				return
			case c.Common().IsInvoke() && method == c.Common().Method.Name() && 1 == len(c.Common().Args):
				recv, buf = c.Common().Value, c.Common().Args[0]
			case !c.Common().IsInvoke() && strings.HasSuffix(calleeName(c.Common()), ")."+method) && 2 == len(c.Common().Args):
				recv, buf = c.Common().Args[0], c.Common().Args[1]
			default:
				return
			}
			n++
			if !noArg && resolveCell(buf) != ssa.Value(wr.Params[1]) {
				return
			}
			recv = stripConv(resolveCell(recv), false)
			if f, isF := recv.(*ssa.Field); isF && resolveCell(f.X) == ssa.Value(wr.Params[0]) {
				inner, field = c, f.Field
			}
			if u, isU := recv.(*ssa.UnOp); isU && token.MUL == u.Op {
				if fa, isFA := u.X.(*ssa.FieldAddr); isFA {
					if resolveCell(fa.X) == ssa.Value(wr.Params[0]) {
						inner, field = c, fa.Field
					} else if al, isAl := fa.X.(*ssa.Alloc); isAl {
						/* The receiver spilled to a local. */
						for _, s2 := range storesTo(al) {
							if s2.Val == ssa.Value(wr.Params[0]) {
								inner, field = c, fa.Field
							}
						}
					}
				}
			}
		})
		if 1 != n || nil == inner || field < 0 || field >= st.NumFields() {
			return v
		}
		okRet := true
		eachInstr(wr, func(i ssa.Instruction) {
			ret, isRet := i.(*ssa.Return)
			if !isRet || "RoundTrip" == method {
				/* (A RoundTripper may turn the inner answer into a
				refusal; what matters is that it asks nobody else.) */
				return
			}
			if 2 != len(ret.Results) {
				okRet = false
				return
			}
			for k, rv := range ret.Results {
				for _, l := range phiLeaves(rv) {
					ex, isEx := l.V.(*ssa.Extract)
					if !isEx || ex.Tuple != ssa.Value(inner) || ex.Index != k {
						okRet = false
					}
				}
			}
		})
		if !okRet {
			return v
		}
		/* What the field holds where the value is made. */
		var al *ssa.Alloc
		switch y := x.(type) {
		case *ssa.UnOp:
			if a, isAl := y.X.(*ssa.Alloc); isAl && token.MUL == y.Op {
				al = a
			}
		case *ssa.Alloc:
			al = y
		}
		var held ssa.Value
		nst := 0
		if nil != al {
			for _, ref := range *al.Referrers() {
				if fa, isFA := ref.(*ssa.FieldAddr); isFA && fa.Field == field {
					for _, r2 := range *fa.Referrers() {
						if s2, isSt := r2.(*ssa.Store); isSt && s2.Addr == ssa.Value(fa) {
							held = s2.Val
							nst++
						}
					}
				}
			}
		}
		if nil == held || 1 != nst {
			return v
		}
		v = held
	}
	return v
}

// checkC14Wrappers: in lib/simpleshell and the command built on it, every
// method Read(p []byte) (int, error) which calls the Read of something it
// wraps, with its own p, returns on every path that call's count and error
// themselves.  (io.Reader allows n > 0 together with io.EOF; a wrapper which
// returns 0 when the error is set loses the last bytes.)
func checkC14Wrappers(p *Prog, r *Report, ru *Rule) {
	n := 0
	for _, fn := range p.Funcs() {
		if nil == fn.Pkg || !strings.Contains(fn.Pkg.Pkg.Path(), "/"+sshPkg) || "Read" != fn.Name() || nil == fn.Signature.Recv() || 2 != len(fn.Params) || 2 != fn.Signature.Results().Len() {
			continue
		}
		var inner []*ssa.Call
		eachInstr(fn, func(i ssa.Instruction) {
			c, ok := i.(*ssa.Call)
			if !ok {
				return
			}
			/* The buffer argument: the only one of an interface call, the
			second (after the receiver) of a static one. */
			var buf ssa.Value
			switch {
			case c.Common().IsInvoke() && "Read" == c.Common().Method.Name() && 1 == len(c.Common().Args):
				buf = c.Common().Args[0]
			case !c.Common().IsInvoke() && strings.HasSuffix(calleeName(c.Common()), ").Read") && 2 == len(c.Common().Args):
				buf = c.Common().Args[1]
			default:
				return
			}
			if resolveCell(buf) == ssa.Value(fn.Params[1]) {
				inner = append(inner, c)
			}
		})
		if 1 != len(inner) {
			continue
		}
		n++
		c := fnName(fn)
		bad := false
		eachInstr(fn, func(i ssa.Instruction) {
			ret, ok := i.(*ssa.Return)
			if !ok || 2 != len(ret.Results) || (nil != fn.Recover && ret.Block() == fn.Recover) {
				return
			}
			for k := 0; k < 2; k++ {
				for _, l := range phiLeaves(ret.Results[k]) {
					ex, isEx := l.V.(*ssa.Extract)
					if isEx && ex.Tuple == ssa.Value(inner[0]) && ex.Index == k {
						continue
					}
					/* Returning a nil error where the inner error is known
					to be nil is the same thing. */
					if 1 == k && isNilConst(l.V) {
						errV := extractOf(inner[0], 1)
						okNil := false
						if nil != errV {
							for _, t := range nilTestsOf(fn, errV) {
								if edgeDominates(t.If, t.NilSucc, ret) {
									okNil = true
								}
							}
						}
						if okNil {
							continue
						}
					}
					bad = true
				}
			}
		})
		if bad {
			ru.Bad(c, fn.Pos(), "%s wraps another reader but does not return that reader's count and error as they are on every path (a count of 0 when the error is set, say): bytes which arrive together with the end of the stream never reach the command", fnName(fn))
		} else {
			ru.OK(c, fn.Pos(), "returns the inner Read's count and error unchanged")
		}
	}
	if 0 == n {
		ru.OK("simpleshell:no-wrapping-readers", token.NoPos, "no reader of the implant wraps another")
	}
}


// checkC14SessionUnbounded: the shell lasts as long as the command does.
// http.Client.Timeout is a deadline for the whole exchange, bodies included:
// when it runs out the input stream dies and the output stream is closed.
func checkC14SessionUnbounded(p *Prog, r *Report, ru *Rule) {
	n := 0
	for _, fn := range p.Funcs() {
		if nil == fn.Pkg || !strings.Contains(fn.Pkg.Pkg.Path(), "/"+sshPkg) {
			continue
		}
		eachInstr(fn, func(i ssa.Instruction) {
			if st, ok := i.(*ssa.Store); ok {
				fv, base := fieldAddrOf(st.Addr)
				if nil == fv || nil == base || "Timeout" != fv.Name() || !typeIs(base.Type(), "net/http", "Client") {
					return
				}
				if k, isC := constInt(st.Val); isC && k <= 0 {
					return
				}
				n++
				ru.Bad(fnName(fn)+":http.Client.Timeout", posOf(st), "http.Client.Timeout is set: it also bounds reading the response body and sending the request body — the two streams of the shell, which are cut when it runs out")
				return
			}
			if c := callCommon(i); nil != c {
				switch nm := calleeName(c); nm {
				case "context.WithTimeout", "context.WithDeadline", "context.WithTimeoutCause", "context.WithDeadlineCause":
					/* A deadline on the context the request (or the command) runs under. */
					used := false
					var res ssa.Value = i.(ssa.Value)
					if ex := extractOf(i.(*ssa.Call), 0); nil != ex {
						res = ex
					}
					eachInstr(fn, func(j ssa.Instruction) {
						c2 := callCommon(j)
						if nil == c2 {
							return
						}
						switch calleeName(c2) {
						case "net/http.NewRequestWithContext", "(*net/http.Request).WithContext", "os/exec.CommandContext":
							for _, a := range c2.Args {
								if resolveCell(a) == res {
									used = true
								}
							}
						}
					})
					if used {
						n++
						ru.Bad(fnName(fn)+":"+lastName(nm), posOf(i), "the request (or the command) runs under a context from %s: the shell ends when that clock runs out", nm)
					}
				}
			}
		})
	}
	if 0 == n {
		ru.OK("lib/simpleshell:no-session-clock", token.NoPos, "no http.Client.Timeout and no deadline context around the request or the command")
	}
}


// checkC14GroupContext: the context errgroup.WithContext returns is cancelled
// "the first time a function passed to Go returns a non-nil error or the
// first time Wait returns, whichever occurs first" — so something hung on it
// with context.AfterFunc (killing the child, closing a pipe) fires on every
// run, as soon as the output copiers are joined and before cmd.Wait.
func checkC14GroupContext(p *Prog, r *Report, ru *Rule) {
	n := 0
	for _, fn := range p.Funcs() {
		if nil == fn.Pkg || !strings.HasSuffix(fn.Pkg.Pkg.Path(), "/"+sshPkg) {
			continue
		}
		eachInstr(fn, func(i ssa.Instruction) {
			c := callCommon(i)
			if nil == c || 0 == len(c.Args) {
				return
			}
			name := calleeName(c)
			switch name {
			case "context.AfterFunc", "os/exec.CommandContext":
			default:
				return
			}
			fromGroup := false
			for _, x := range valueRoots(c.Args[0], func(s string) bool {
				return "context.WithCancel" == s || "context.WithCancelCause" == s || "context.WithValue" == s || "context.WithoutCancel" == s
			}) {
				if "call" == x.Kind && "golang.org/x/sync/errgroup.WithContext" == x.Callee && 1 == x.Idx {
					fromGroup = true
				}
			}
			if !fromGroup {
				return
			}
			n++
			ru.Bad(fnName(fn)+"→"+name, posOf(i), "%s hangs on the context errgroup.WithContext derived, which is cancelled as soon as Wait returns — on every run, when both output descriptors have reached EOF and before cmd.Wait: a child which closed its output and is still reading its input is killed (or cut off) there", name)
		})
	}
	if 0 == n {
		ru.OK("simpleshell:group-context", 0, "nothing is triggered by an errgroup's derived context")
	}
}
