package main

// absint.go: a small path-enumerating abstract interpreter over one SSA
// function (primitive P6 of DESIGN.md).  Values are abstracted to booleans,
// nil-ness, integer constants and string *classes* (two strings are equal iff
// they are in the same class); memory is a finite map from named abstract
// locations to abstract values.  Branch conditions which evaluate to a known
// boolean are followed; unknown conditions fork (both ways are explored), so
// the set of explored paths over-approximates the feasible ones for the given
// initial valuation.  No solver is involved: this is finite enumeration of a
// predicate abstraction which the code under analysis defines itself.

import (
	"strings"
	"fmt"
	"go/constant"
	"go/token"
	"go/types"

	"golang.org/x/tools/go/ssa"
)

type avKind int

const (
	avUnknown avKind = iota
	avBool
	avNil /* B: is nil */
	avStr /* S: class; "" is the empty string */
	avInt
	avLen /* S: class of the string whose length this is */
	avPtr /* S: the abstract location pointed to */
)

// AV is an abstract value.
type AV struct {
	K avKind
	B bool
	S string
	N int64
}

var (
	avU      = AV{}
	avTrue   = AV{K: avBool, B: true}
	avFalse  = AV{K: avBool, B: false}
	avNilV   = AV{K: avNil, B: true}
	avNonNil = AV{K: avNil, B: false}
	avEmptyS = AV{K: avStr, S: ""}
)

func avBoolOf(b bool) AV     { return AV{K: avBool, B: b} }
func avStrClass(c string) AV { return AV{K: avStr, S: c} }
func avIntOf(n int64) AV     { return AV{K: avInt, N: n} }

func (a AV) String() string {
	switch a.K {
	case avBool:
		return fmt.Sprintf("%v", a.B)
	case avNil:
		if a.B {
			return "nil"
		}
		return "non-nil"
	case avStr:
		if "" == a.S {
			return `""`
		}
		return "str:" + a.S
	case avInt:
		return fmt.Sprintf("%d", a.N)
	case avLen:
		return "len(" + a.S + ")"
	case avPtr:
		return "&" + a.S
	}
	return "?"
}

// avEq compares two abstract values; ok is false when the result is unknown.
func avEq(a, b AV) (eq, ok bool) {
	/* The length of a string class against a number: classes other than ""
	stand for non-empty strings. */
	if avLen == a.K && avInt == b.K {
		a, b = b, a
	}
	if avInt == a.K && avLen == b.K {
		if 0 == a.N {
			return false, true
		}
		return false, false
	}
	if avPtr == a.K && avNil == b.K {
		return false, true /* a pointer to a tracked location is not nil */
	}
	if avNil == a.K && avPtr == b.K {
		return false, true
	}
	if a.K != b.K || avUnknown == a.K {
		return false, false
	}
	switch a.K {
	case avBool:
		return a.B == b.B, true
	case avNil:
		if a.B && b.B {
			return true, true
		}
		if a.B != b.B {
			return false, true
		}
		return false, false /* two non-nil values */
	case avStr:
		return a.S == b.S, true
	case avInt:
		return a.N == b.N, true
	case avPtr:
		return a.S == b.S, true
	case avLen:
		/* Equal strings have equal lengths; different strings may or may
		not. */
		if a.S == b.S {
			return true, true
		}
		return false, false
	}
	return false, false
}

// Machine configures one abstract run.
type Machine struct {
	Fn *ssa.Function
	// LocOf names the abstract location an address denotes ("" = untracked).
	LocOf func(addr ssa.Value) string
	// LocOfRun, when set, is tried first and may use the path's state (an
	// index or a pointer known on this path).
	LocOfRun func(r *Run, addr ssa.Value) string
	// Param gives the abstract value of a parameter or free variable.
	Param func(v ssa.Value) AV
	// ParamField gives the value of one field of a struct parameter.
	ParamField func(p *ssa.Parameter, f int) (AV, bool)
	// Call models a call's result(s); idx is -1 for a single result, else
	// the tuple index being extracted.  Return avU for unmodelled calls.
	Call func(r *Run, c *ssa.CallCommon, idx int) AV
	// OnInstr sees every executed instruction (deferred calls at
	// RunDefers included, with deferred=true).  Return true to stop the path.
	OnInstr func(r *Run, i ssa.Instruction, deferred bool) bool
	// Sel chooses which arms of a select to explore (nil: the select's
	// results are unknown and the arm tests fork).
	Sel func(r *Run, s *ssa.Select) []int
	// MaxVisits bounds how often one block is entered on a path (default 2).
	MaxVisits int
	// MaxPaths bounds the exploration (default 4096).
	MaxPaths int
}

// Run is the state of one path.
type Run struct {
	M        *Machine
	Mem      map[string]AV
	Vals     map[ssa.Value]AV
	Trace    []string /* Effects recorded by OnInstr via Emit. */
	Forks    []string /* Unknown conditions decided on this path. */
	Deferred []*ssa.Defer
	visits   map[int]int
	End      string /* "return", "panic", "stopped", "loop-bound" */
	EndInstr ssa.Instruction
	User     map[string]int /* Path-local counters for the client. */
	selIdx   map[*ssa.Select]int
}

func (r *Run) clone() *Run {
	n := &Run{M: r.M, Mem: map[string]AV{}, Vals: map[ssa.Value]AV{}, visits: map[int]int{}, User: map[string]int{}, selIdx: map[*ssa.Select]int{}}
	for k, v := range r.selIdx {
		n.selIdx[k] = v
	}
	for k, v := range r.Mem {
		n.Mem[k] = v
	}
	for k, v := range r.Vals {
		n.Vals[k] = v
	}
	for k, v := range r.visits {
		n.visits[k] = v
	}
	for k, v := range r.User {
		n.User[k] = v
	}
	n.Trace = append([]string(nil), r.Trace...)
	n.Forks = append([]string(nil), r.Forks...)
	n.Deferred = append([]*ssa.Defer(nil), r.Deferred...)
	return n
}

// Emit records an effect on the current path.
func (r *Run) Emit(format string, a ...any) { r.Trace = append(r.Trace, fmt.Sprintf(format, a...)) }

// Has reports whether the effect was recorded.
func (r *Run) Has(e string) bool { return r.Count(e) > 0 }

// Count counts occurrences of an effect.
func (r *Run) Count(e string) int {
	n := 0
	for _, t := range r.Trace {
		if t == e {
			n++
		}
	}
	return n
}

// Index returns the index of the first occurrence of e at or after from, or -1.
func (r *Run) Index(e string, from int) int {
	for i := from; i < len(r.Trace); i++ {
		if r.Trace[i] == e {
			return i
		}
	}
	return -1
}

// Eval evaluates an SSA value on the current path.
func (r *Run) Eval(v ssa.Value) AV {
	if a, ok := r.Vals[v]; ok {
		return a
	}
	switch x := v.(type) {
	case *ssa.Const:
		return constAV(x)
	case *ssa.Parameter, *ssa.FreeVar:
		if nil != r.M.Param {
			return r.M.Param(v)
		}
	case *ssa.Function, *ssa.MakeClosure, *ssa.Alloc, *ssa.FieldAddr, *ssa.IndexAddr, *ssa.MakeChan, *ssa.MakeMap, *ssa.MakeSlice, *ssa.Global:
		return avNonNil
	case *ssa.Builtin:
		return avNonNil
	}
	return avU
}

func constAV(c *ssa.Const) AV {
	if c.IsNil() {
		return avNilV
	}
	if nil == c.Value {
		/* Zero value of a non-nillable type. */
		if b, ok := c.Type().Underlying().(*types.Basic); ok {
			switch {
			case 0 != b.Info()&types.IsString:
				return avEmptyS
			case 0 != b.Info()&types.IsBoolean:
				return avFalse
			case 0 != b.Info()&types.IsInteger:
				return avIntOf(0)
			}
		}
		return avU
	}
	switch c.Value.Kind() {
	case constant.Bool:
		return avBoolOf(constant.BoolVal(c.Value))
	case constant.String:
		s := constant.StringVal(c.Value)
		if "" == s {
			return avEmptyS
		}
		return avStrClass("const:" + s)
	case constant.Int:
		if n, ok := constant.Int64Val(c.Value); ok {
			return avIntOf(n)
		}
	}
	return avU
}

// step executes one value-defining instruction.
func (r *Run) step(i ssa.Instruction, prev *ssa.BasicBlock) {
	v, isVal := i.(ssa.Value)
	set := func(a AV) {
		if isVal {
			r.Vals[v] = a
		}
	}
	switch x := i.(type) {
	case *ssa.Phi:
		for k, p := range x.Block().Preds {
			if p == prev {
				a := r.Eval(x.Edges[k])
				/* One of several addresses, chosen by the way here
				(us, other := &s.in, &s.out or the reverse): the
				location it names on this path. */
				if avPtr != a.K {
					switch x.Edges[k].(type) {
					case *ssa.FieldAddr, *ssa.IndexAddr, *ssa.Alloc:
						if l := r.locOf(x.Edges[k]); "" != l {
							a = AV{K: avPtr, S: l}
						}
					}
				}
				set(a)
				return
			}
		}
		set(avU)
	case *ssa.UnOp:
		switch x.Op {
		case token.NOT:
			a := r.Eval(x.X)
			if avBool == a.K {
				set(avBoolOf(!a.B))
			} else {
				set(avU)
			}
		case token.MUL:
			if l := r.locOf(x.X); "" != l {
				if a, ok := r.Mem[l]; ok {
					set(a)
					return
				}
			}
			set(avU)
		default:
			set(avU)
		}
	case *ssa.BinOp:
		switch x.Op {
		case token.EQL, token.NEQ:
			eq, ok := avEq(r.Eval(x.X), r.Eval(x.Y))
			if !ok {
				set(avU)
				return
			}
			if token.NEQ == x.Op {
				eq = !eq
			}
			set(avBoolOf(eq))
		case token.ADD, token.SUB, token.LSS, token.LEQ, token.GTR, token.GEQ:
			a, b := r.Eval(x.X), r.Eval(x.Y)
			if avInt != a.K || avInt != b.K {
				set(avU)
				return
			}
			switch x.Op {
			case token.ADD:
				set(avIntOf(a.N + b.N))
			case token.SUB:
				set(avIntOf(a.N - b.N))
			case token.LSS:
				set(avBoolOf(a.N < b.N))
			case token.LEQ:
				set(avBoolOf(a.N <= b.N))
			case token.GTR:
				set(avBoolOf(a.N > b.N))
			case token.GEQ:
				set(avBoolOf(a.N >= b.N))
			}
		default:
			set(avU)
		}
	case *ssa.Store:
		if l := r.locOf(x.Addr); "" != l {
			r.Mem[l] = r.Eval(x.Val)
		}
	case *ssa.Call:
		if bi, ok := x.Common().Value.(*ssa.Builtin); ok && "len" == bi.Name() && 1 == len(x.Common().Args) {
			if n, ok := literalLen(x.Common().Args[0]); ok {
				set(avIntOf(n))
				return
			}
			if a := r.Eval(x.Common().Args[0]); avStr == a.K {
				if "" == a.S {
					set(avIntOf(0))
				} else {
					set(AV{K: avLen, S: a.S})
				}
				return
			}
		}
		/* cmp.Or(a, b, ...): the first operand which is not the zero value.
		Not nil as soon as any operand is known not to be; nil when all are
		known to be. */
		if n := calleeName(x.Common()); "cmp.Or" == n || strings.HasPrefix(n, "cmp.Or[") {
			allNil, anyNonNil := true, false
			for _, a := range append(callArgs(x.Common()), variadicElems(x.Common())...) {
				if _, isSlice := a.Type().Underlying().(*types.Slice); isSlice {
					continue /* the variadic slice itself */
				}
				av := r.Eval(a)
				switch {
				case avNil == av.K && av.B:
				case avNil == av.K:
					allNil, anyNonNil = false, true
				default:
					allNil = false
				}
			}
			switch {
			case anyNonNil:
				set(avNonNil)
				return
			case allNil:
				set(avNilV)
				return
			}
		}
		if nil != r.M.Call {
			set(r.M.Call(r, x.Common(), -1))
		} else {
			set(avU)
		}
	case *ssa.Extract:
		if c, ok := x.Tuple.(*ssa.Call); ok && nil != r.M.Call {
			set(r.M.Call(r, c.Common(), x.Index))
		} else if sel, ok := x.Tuple.(*ssa.Select); ok && 0 == x.Index {
			if k, ok := r.selIdx[sel]; ok {
				set(avIntOf(int64(k)))
			} else {
				set(avU)
			}
		} else {
			set(avU)
		}
	case *ssa.Alloc:
		/* A fresh variable holds its type's zero value. */
		if l := r.locOf(x); "" != l {
			if pt, ok := x.Type().Underlying().(*types.Pointer); ok {
				if z := zeroAV(pt.Elem()); avUnknown != z.K {
					r.Mem[l] = z
				}
			}
		}
		set(avNonNil)
	case *ssa.Field:
		if pa, ok := x.X.(*ssa.Parameter); ok && nil != r.M.ParamField {
			if a, ok := r.M.ParamField(pa, x.Field); ok {
				set(a)
				return
			}
		}
		set(avU)
	case *ssa.Convert:
		set(r.Eval(x.X))
	case *ssa.ChangeType:
		set(r.Eval(x.X))
	case *ssa.MakeInterface:
		a := r.Eval(x.X)
		if avNil == a.K {
			set(a)
		} else {
			set(avNonNil)
		}
	case *ssa.ChangeInterface:
		set(r.Eval(x.X))
	case *ssa.Defer:
		r.Deferred = append(r.Deferred, x)
	default:
		if isVal {
			set(r.Eval(v))
		}
	}
}

// Explore runs the machine from the function's entry with the given initial
// memory and returns every completed path.
func (m *Machine) Explore(mem map[string]AV) (paths []*Run, truncated bool) {
	if 0 == m.MaxVisits {
		m.MaxVisits = 4
	}
	if 0 == m.MaxPaths {
		m.MaxPaths = 4096
	}
	start := &Run{M: m, Mem: map[string]AV{}, Vals: map[ssa.Value]AV{}, visits: map[int]int{}, User: map[string]int{}, selIdx: map[*ssa.Select]int{}}
	for k, v := range mem {
		start.Mem[k] = v
	}
	type item struct {
		r     *Run
		b     *ssa.BasicBlock
		prev  *ssa.BasicBlock
		start int
	}
	work := []item{{start, m.Fn.Blocks[0], nil, 0}}
	for 0 != len(work) {
		if len(paths) >= m.MaxPaths {
			return paths, true
		}
		it := work[len(work)-1]
		work = work[:len(work)-1]
		r, b, prev, startAt := it.r, it.b, it.prev, it.start
	BLOCKS:
		for {
			if 0 == startAt {
				r.visits[b.Index]++
				if r.visits[b.Index] > m.MaxVisits {
					r.End = "loop-bound"
					paths = append(paths, r)
					break
				}
			}
			first := startAt
			startAt = 0
			for k := first; k < len(b.Instrs); k++ {
				in := b.Instrs[k]
				if sel, ok := in.(*ssa.Select); ok && nil != m.Sel {
					{
						choices := m.Sel(r, sel)
						if 0 != len(choices) {
							for _, c := range choices[1:] {
								o := r.clone()
								o.selIdx[sel] = c
								o.Forks = append(o.Forks, fmt.Sprintf("select@%d=arm%d", m.Fn.Prog.Fset.Position(posOf(sel)).Line, c))
								if nil != m.OnInstr {
									m.OnInstr(o, in, false)
								}
								work = append(work, item{o, b, prev, k + 1})
							}
							r.selIdx[sel] = choices[0]
							r.Forks = append(r.Forks, fmt.Sprintf("select@%d=arm%d", m.Fn.Prog.Fset.Position(posOf(sel)).Line, choices[0]))
						}
					}
				}
				r.step(in, prev)
				if rd, ok := in.(*ssa.RunDefers); ok {
					_ = rd
					for k := len(r.Deferred) - 1; k >= 0; k-- {
						if nil != m.OnInstr && m.OnInstr(r, r.Deferred[k], true) {
							r.End, r.EndInstr = "stopped", r.Deferred[k]
							paths = append(paths, r)
							break BLOCKS
						}
					}
					continue
				}
				if _, ok := in.(*ssa.Defer); !ok {
					if nil != m.OnInstr && m.OnInstr(r, in, false) {
						r.End, r.EndInstr = "stopped", in
						paths = append(paths, r)
						break BLOCKS
					}
				}
				switch t := in.(type) {
				case *ssa.Return:
					r.End, r.EndInstr = "return", t
					paths = append(paths, r)
					break BLOCKS
				case *ssa.Panic:
					r.End, r.EndInstr = "panic", t
					paths = append(paths, r)
					break BLOCKS
				case *ssa.If:
					c := r.Eval(t.Cond)
					if avBool == c.K {
						prev = b
						if c.B {
							b = b.Succs[0]
						} else {
							b = b.Succs[1]
						}
						continue BLOCKS
					}
					/* Unknown: fork. */
					o := r.clone()
					o.Forks = append(o.Forks, fmt.Sprintf("%s=false", condName(m.Fn, t)))
					work = append(work, item{o, b.Succs[1], b, 0})
					r.Forks = append(r.Forks, fmt.Sprintf("%s=true", condName(m.Fn, t)))
					prev = b
					b = b.Succs[0]
					continue BLOCKS
				case *ssa.Jump:
					prev = b
					b = b.Succs[0]
					continue BLOCKS
				}
			}
			/* Block without terminator (select/range lowering handled by
			If/Jump above); anything else ends the path. */
			if "" == r.End {
				r.End = "fell-off"
				paths = append(paths, r)
			}
			break
		}
	}
	return paths, false
}

func condName(fn *ssa.Function, i *ssa.If) string {
	p := fn.Prog.Fset.Position(posOf(i))
	return fmt.Sprintf("cond@%d", p.Line)
}

// literalLen: the length of a whole-array slice of a local array (a slice
// literal), or of the array itself.
func literalLen(v ssa.Value) (int64, bool) {
	if sl, ok := v.(*ssa.Slice); ok && nil == sl.Low && nil == sl.High && nil == sl.Max {
		v = sl.X
	}
	pt, ok := v.Type().Underlying().(*types.Pointer)
	if !ok {
		return 0, false
	}
	at, ok := pt.Elem().Underlying().(*types.Array)
	if !ok {
		return 0, false
	}
	return at.Len(), true
}

// locOf names the abstract location of an address: the machine's own naming
// first, then elements of local arrays at a known index.
func (r *Run) locOf(addr ssa.Value) string {
	/* A pointer whose target is known on this path. */
	if a, ok := r.Vals[addr]; ok && avPtr == a.K {
		return a.S
	}
	if _, isP := addr.(*ssa.Parameter); isP && nil != r.M.Param {
		if a := r.M.Param(addr); avPtr == a.K {
			return a.S
		}
	}
	if nil != r.M.LocOfRun {
		if l := r.M.LocOfRun(r, addr); "" != l {
			return l
		}
	}
	if nil != r.M.LocOf {
		if l := r.M.LocOf(addr); "" != l {
			return l
		}
	}
	ia, ok := addr.(*ssa.IndexAddr)
	if !ok {
		return ""
	}
	base := ia.X
	if sl, ok := base.(*ssa.Slice); ok && nil == sl.Low {
		base = sl.X
	}
	al, ok := base.(*ssa.Alloc)
	if !ok {
		return ""
	}
	k := r.Eval(ia.Index)
	if avInt != k.K {
		return ""
	}
	return fmt.Sprintf("elem@%p[%d]", al, k.N)
}

// zeroAV is the abstract zero value of a type (avU for aggregates).
func zeroAV(t types.Type) AV {
	switch u := t.Underlying().(type) {
	case *types.Basic:
		switch {
		case 0 != u.Info()&types.IsString:
			return avEmptyS
		case 0 != u.Info()&types.IsBoolean:
			return avFalse
		case 0 != u.Info()&types.IsInteger:
			return avIntOf(0)
		}
	case *types.Pointer, *types.Interface, *types.Signature, *types.Map, *types.Chan, *types.Slice:
		return avNilV
	}
	return avU
}
