package main

// goxfact.go: the two facts about the terminal dependency which the C19
// lock-order rule relies on, derived from the dependency's own source (the
// version go.mod selects) on every run instead of being trusted:
//
//   - (*goxterm.Terminal) invokes ControlCharacterCallback with Terminal.lock
//     held (interprocedural must-hold lockset inside the package), and
//   - which Terminal methods acquire Terminal.lock themselves.

import (
	"fmt"
	"go/token"
	"go/types"
	"sort"
	"strings"

	"golang.org/x/tools/go/packages"
	"golang.org/x/tools/go/ssa"
	"golang.org/x/tools/go/ssa/ssautil"
)

const goxPath = "github.com/magisterquis/goxterm"

type goxFact struct {
	Dir               string
	CallbackSites     int
	CallbackUnderLock bool            /* at every site */
	Locking           map[string]bool /* exported Terminal methods which acquire Terminal.lock */
	Note              string
}

// mustHoldFrom is mustHold with a given lock state at function entry.
func mustHoldFrom(fn *ssa.Function, mu *types.Var, entryHeld bool) map[ssa.Instruction]bool {
	isMu := func(c *ssa.CallCommon, names ...string) bool {
		if 0 == len(c.Args) {
			return false
		}
		n := calleeName(c)
		for _, want := range names {
			if n == want {
				fv, _ := fieldAddrOf(c.Args[0])
				return fv == mu
			}
		}
		return false
	}
	in := map[int]int{}
	for _, b := range fn.Blocks {
		in[b.Index] = -1
	}
	in[0] = 0
	if entryHeld {
		in[0] = 1
	}
	out := map[ssa.Instruction]bool{}
	transfer := func(b *ssa.BasicBlock, h int, record bool) int {
		for _, i := range b.Instrs {
			if record {
				out[i] = 1 == h
			}
			switch i.(type) {
			case *ssa.Defer, *ssa.Go:
				continue
			}
			if c := callCommon(i); nil != c {
				if isMu(c, "(*sync.Mutex).Lock", "(*sync.RWMutex).Lock") {
					h = 1
				} else if isMu(c, "(*sync.Mutex).Unlock", "(*sync.RWMutex).Unlock") {
					h = 0
				}
			}
		}
		return h
	}
	for changed := true; changed; {
		changed = false
		for _, b := range fn.Blocks {
			if -1 == in[b.Index] {
				continue
			}
			h := transfer(b, in[b.Index], false)
			for _, s := range b.Succs {
				n := h
				if -1 != in[s.Index] && in[s.Index] != h {
					n = 0
				}
				if in[s.Index] != n {
					in[s.Index] = n
					changed = true
				}
			}
		}
	}
	for _, b := range fn.Blocks {
		if -1 != in[b.Index] {
			transfer(b, in[b.Index], true)
		}
	}
	return out
}

// goxtermFact loads the dependency as the module under -repo resolves it.
func goxtermFact(repo string) (*goxFact, error) {
	cfg := &packages.Config{
		Mode: packages.NeedName | packages.NeedFiles | packages.NeedCompiledGoFiles | packages.NeedImports |
			packages.NeedTypes | packages.NeedSyntax | packages.NeedTypesInfo | packages.NeedTypesSizes,
		Dir:  repo,
		Fset: token.NewFileSet(),
		Env:  goEnv(nil),
	}
	pkgs, err := packages.Load(cfg, goxPath)
	if nil != err {
		return nil, err
	}
	if 1 != len(pkgs) || 0 != len(pkgs[0].Errors) || nil == pkgs[0].Types {
		return nil, fmt.Errorf("loading %s: %d packages, errors %v", goxPath, len(pkgs), pkgs[0].Errors)
	}
	prog, spkgs := ssautil.Packages(pkgs, ssa.InstantiateGenerics)
	prog.Build()
	sp := spkgs[0]
	if nil == sp {
		return nil, fmt.Errorf("no SSA for %s", goxPath)
	}
	f := &goxFact{Locking: map[string]bool{}}
	if 0 != len(pkgs[0].GoFiles) {
		f.Dir = pkgs[0].GoFiles[0][:strings.LastIndex(pkgs[0].GoFiles[0], "/")]
	}
	/* The lock field and the callback field of Terminal. */
	tn, _ := pkgs[0].Types.Scope().Lookup("Terminal").(*types.TypeName)
	if nil == tn {
		return nil, fmt.Errorf("type Terminal not found in %s", goxPath)
	}
	st, _ := tn.Type().Underlying().(*types.Struct)
	var lock, cb *types.Var
	for k := 0; nil != st && k < st.NumFields(); k++ {
		switch fl := st.Field(k); {
		case "sync.Mutex" == fl.Type().String() && nil == lock:
			lock = fl
		case "ControlCharacterCallback" == fl.Name():
			cb = fl
		}
	}
	if nil == lock || nil == cb {
		return nil, fmt.Errorf("Terminal.lock / Terminal.ControlCharacterCallback not found")
	}
	/* All functions of the package, anonymous ones included. */
	var fns []*ssa.Function
	for fn := range ssautil.AllFunctions(prog) {
		if nil != fn.Blocks && nil != fn.Package() && fn.Package() == sp {
			fns = append(fns, fn)
		}
	}
	sort.Slice(fns, func(i, j int) bool { return fns[i].String() < fns[j].String() })
	/* Held at entry: optimistic fixpoint over the in-package call sites of
	unexported, non-escaping functions. */
	entry := map[*ssa.Function]bool{}
	sites := map[*ssa.Function][]ssa.Instruction{}
	escapes := map[*ssa.Function]bool{}
	for _, fn := range fns {
		eachInstr(fn, func(i ssa.Instruction) {
			if c := callCommon(i); nil != c {
				if sc := c.StaticCallee(); nil != sc {
					if _, isCall := i.(*ssa.Call); isCall {
						sites[sc] = append(sites[sc], i)
					} else {
						escapes[sc] = true /* go / defer: not on this stack with this lock state */
					}
				}
			}
			/* A function used as a value. */
			var ops []*ssa.Value
			for _, o := range i.Operands(ops) {
				if g, ok := (*o).(*ssa.Function); ok {
					if c := callCommon(i); nil == c || c.Value != ssa.Value(g) {
						escapes[g] = true
					}
				}
			}
		})
	}
	for _, fn := range fns {
		exported := nil != fn.Object() && fn.Object().Exported()
		entry[fn] = !exported && !escapes[fn] && nil == fn.Parent() && 0 != len(sites[fn])
	}
	for changed := true; changed; {
		changed = false
		for _, fn := range fns {
			if !entry[fn] {
				continue
			}
			for _, s := range sites[fn] {
				if !mustHoldFrom(s.Parent(), lock, entry[s.Parent()])[s] {
					entry[fn] = false
					changed = true
					break
				}
			}
		}
	}
	/* The callback's call sites. */
	f.CallbackUnderLock = true
	for _, fn := range fns {
		held := mustHoldFrom(fn, lock, entry[fn])
		eachInstr(fn, func(i ssa.Instruction) {
			c := callCommon(i)
			if nil == c || c.IsInvoke() || nil != c.StaticCallee() {
				return
			}
			if fv, _ := loadedField(c.Value); fv != cb {
				return
			}
			f.CallbackSites++
			if _, isCall := i.(*ssa.Call); !isCall || !held[i] {
				f.CallbackUnderLock = false
			}
		})
	}
	if 0 == f.CallbackSites {
		f.CallbackUnderLock = false
	}
	/* Exported methods which take the lock (directly or through static callees). */
	takes := map[*ssa.Function]bool{}
	for changed := true; changed; {
		changed = false
		for _, fn := range fns {
			if takes[fn] {
				continue
			}
			t := false
			eachInstr(fn, func(i ssa.Instruction) {
				c := callCommon(i)
				if nil == c {
					return
				}
				if _, isGo := i.(*ssa.Go); isGo {
					return
				}
				if n := calleeName(c); ("(*sync.Mutex).Lock" == n) && 0 != len(c.Args) {
					if fv, _ := fieldAddrOf(c.Args[0]); fv == lock {
						t = true
					}
				}
				if sc := c.StaticCallee(); nil != sc && takes[sc] {
					t = true
				}
			})
			if t {
				takes[fn] = true
				changed = true
			}
		}
	}
	for fn, t := range takes {
		if t && nil != fn.Object() && fn.Object().Exported() && "Terminal" == recvTypeName(fn) {
			f.Locking[fn.Name()] = true
		}
	}
	var names []string
	for n := range f.Locking {
		names = append(names, n)
	}
	sort.Strings(names)
	f.Note = fmt.Sprintf("%s (%s): ControlCharacterCallback invoked at %d site(s), Terminal.lock held at all of them: %v; methods acquiring Terminal.lock: %s",
		goxPath, f.Dir, f.CallbackSites, f.CallbackUnderLock, strings.Join(names, ", "))
	return f, nil
}
