package main

// flow.go: backward value-flow slices (primitive P3).

import (
	"fmt"
	"go/ast"
	"go/token"
	"go/types"
	"sort"
	"strings"

	"golang.org/x/tools/go/ssa"
)

// Root is a leaf of a backward slice.
type Root struct {
	Kind   string /* const, param, field, global, call, alloc, other */
	V      ssa.Value
	Field  *types.Var
	Base   ssa.Value /* For fields: the struct (pointer) the field was read from. */
	Callee string
	Idx    int /* Result index for calls (-1 single). */
}

func (r Root) String() string {
	switch r.Kind {
	case "const":
		if s, ok := constString(r.V); ok {
			return fmt.Sprintf("const %q", s)
		}
		return "const " + r.V.String()
	case "param":
		return "parameter " + r.V.Name()
	case "field":
		return "field " + r.Field.Name()
	case "global":
		return "global " + r.V.Name()
	case "call":
		return "result of " + r.Callee
	}
	return fmt.Sprintf("%s %T", r.Kind, r.V)
}

// valueRoots slices v backwards through phis, conversions, slicing, string
// concatenation, single/multi-store local cells and the calls for which
// through returns true (their arguments are followed instead).
func valueRoots(v ssa.Value, through func(callee string) bool) []Root {
	var out []Root
	seen := map[ssa.Value]bool{}
	var walk func(v ssa.Value)
	walk = func(v ssa.Value) {
		v = resolveFree(v)
		if nil == v || seen[v] {
			return
		}
		seen[v] = true
		switch x := v.(type) {
		case *ssa.Const:
			out = append(out, Root{Kind: "const", V: x})
		case *ssa.Parameter:
			out = append(out, Root{Kind: "param", V: x})
		case *ssa.Phi:
			for _, e := range x.Edges {
				walk(e)
			}
		case *ssa.Convert:
			walk(x.X)
		case *ssa.ChangeType:
			walk(x.X)
		case *ssa.MakeInterface:
			walk(x.X)
		case *ssa.ChangeInterface:
			walk(x.X)
		case *ssa.TypeAssert:
			walk(x.X)
		case *ssa.Slice:
			walk(x.X)
		case *ssa.BinOp:
			if token.ADD == x.Op {
				walk(x.X)
				walk(x.Y)
			} else {
				out = append(out, Root{Kind: "other", V: x})
			}
		case *ssa.Extract:
			if c, ok := x.Tuple.(*ssa.Call); ok {
				name := calleeName(c.Common())
				if nil != through && through(name) {
					for _, a := range callArgs(c.Common()) {
						walk(a)
					}
					for _, e := range variadicElems(c.Common()) {
						walk(e)
					}
				} else if !inlineReturns(c, x.Index, walk) {
					out = append(out, Root{Kind: "call", V: c, Callee: name, Idx: x.Index})
				}
			} else {
				out = append(out, Root{Kind: "other", V: x})
			}
		case *ssa.Call:
			name := calleeName(x.Common())
			if nil != through && through(name) {
				for _, a := range callArgs(x.Common()) {
					walk(a)
				}
				for _, e := range variadicElems(x.Common()) {
					walk(e)
				}
			} else if !inlineReturns(x, 0, walk) {
				out = append(out, Root{Kind: "call", V: x, Callee: name, Idx: -1})
			}
		case *ssa.Field:
			/* A field of a row of a table built in this function: what
			was put into that field of any row. */
			if ld, ok := x.X.(*ssa.UnOp); ok && token.MUL == ld.Op {
				if ia, ok := ld.X.(*ssa.IndexAddr); ok {
					if vals, ok := tableFieldValues(ia.X, x.Field); ok {
						for _, e := range vals {
							walk(e)
						}
						return
					}
				}
			}
			fv, base := fieldValOf(x)
			out = append(out, Root{Kind: "field", V: x, Field: fv, Base: base})
		case *ssa.UnOp:
			if token.MUL != x.Op {
				out = append(out, Root{Kind: "other", V: x})
				return
			}
			addr := resolveFree(x.X)
			switch a := addr.(type) {
			case *ssa.FieldAddr:
				if ia, ok := a.X.(*ssa.IndexAddr); ok {
					if vals, ok := tableFieldValues(ia.X, a.Field); ok {
						for _, e := range vals {
							walk(e)
						}
						return
					}
				}
				fv, base := fieldAddrOf(a)
				out = append(out, Root{Kind: "field", V: x, Field: fv, Base: base})
			case *ssa.IndexAddr:
				walk(a.X) /* An element derives from its container. */
			case *ssa.Global:
				out = append(out, Root{Kind: "global", V: a})
			case *ssa.Alloc:
				sts := storesTo(a)
				/* A variable whose address was put into a map made here
				(dests := map[string]*[]byte{"cert": &certB, …}): what is
				stored through an element of that map may land in it. */
				for _, st := range storesThroughMaps(a) {
					sts = append(sts, st)
				}
				/* A struct variable read whole: what was put into its
				fields is in it. */
				if _, isStruct := a.Type().Underlying().(*types.Pointer).Elem().Underlying().(*types.Struct); isStruct && nil != a.Referrers() {
					for _, ref := range *a.Referrers() {
						fa, isFA := ref.(*ssa.FieldAddr)
						if !isFA || nil == fa.Referrers() {
							continue
						}
						for _, r2 := range *fa.Referrers() {
							if st, isSt := r2.(*ssa.Store); isSt && st.Addr == ssa.Value(fa) {
								sts = append(sts, st)
							}
						}
					}
				}
				if 0 == len(sts) {
					out = append(out, Root{Kind: "alloc", V: a})
				}
				for _, st := range sts {
					walk(st.Val)
				}
			default:
				out = append(out, Root{Kind: "other", V: x})
			}
		case *ssa.Lookup:
			/* An element of a map made in this function: whatever was put
			into it. */
			if mm, ok := resolveCell(x.X).(*ssa.MakeMap); ok {
				n := 0
				for _, ref := range *mm.Referrers() {
					if mu, isMU := ref.(*ssa.MapUpdate); isMU && mu.Map == ssa.Value(mm) {
						n++
						walk(mu.Value)
					}
				}
				if n > 0 {
					return
				}
			}
			out = append(out, Root{Kind: "other", V: x})
		case *ssa.Alloc:
			out = append(out, Root{Kind: "alloc", V: x})
		case *ssa.MakeSlice, *ssa.MakeMap, *ssa.MakeChan, *ssa.MakeClosure, *ssa.Function, *ssa.Global:
			out = append(out, Root{Kind: "other", V: x})
		default:
			out = append(out, Root{Kind: "other", V: v})
		}
	}
	walk(v)
	return out
}

func rootsString(rs []Root) string {
	var ss []string
	for _, r := range rs {
		ss = append(ss, r.String())
	}
	sort.Strings(ss)
	return strings.Join(ss, ", ")
}

// globalLoad: is v a load of the package-level variable pkgPath.name?
func globalLoad(v ssa.Value, pkgPath, name string) bool {
	u, ok := stripConv(v, false).(*ssa.UnOp)
	if !ok || token.MUL != u.Op {
		return false
	}
	g, ok := u.X.(*ssa.Global)
	return ok && nil != g.Pkg && g.Pkg.Pkg.Path() == pkgPath && g.Name() == name
}

// storesToField lists every Store in the module whose address is field f.
func (p *Prog) storesToField(f *types.Var) []*ssa.Store {
	var out []*ssa.Store
	for _, fn := range p.Funcs() {
		eachInstr(fn, func(i ssa.Instruction) {
			if st, ok := i.(*ssa.Store); ok {
				if fv, _ := fieldAddrOf(st.Addr); fv == f {
					out = append(out, st)
				}
			}
		})
	}
	return out
}

// inlineReturns follows a call of a small module function (a getter or thin
// helper: no parameters besides the receiver are allowed to matter, so only
// functions whose returned values do not depend on parameters other than the
// receiver are inlined) into its return values.
func inlineReturns(c *ssa.Call, idx int, walk func(ssa.Value)) bool {
	f := c.Common().StaticCallee()
	if nil == f || !inModule(f) || nil == f.Blocks || len(f.Blocks) > 6 {
		return false
	}
	var rets []ssa.Value
	ok := true
	eachInstr(f, func(i ssa.Instruction) {
		ret, isRet := i.(*ssa.Return)
		if !isRet {
			return
		}
		if idx >= len(ret.Results) {
			ok = false
			return
		}
		rets = append(rets, ret.Results[idx])
	})
	if !ok || 0 == len(rets) {
		return false
	}
	/* Only when the returned values do not depend on non-receiver parameters. */
	for _, rv := range rets {
		dep := false
		seen := map[ssa.Value]bool{}
		var chk func(v ssa.Value)
		chk = func(v ssa.Value) {
			if nil == v || seen[v] {
				return
			}
			seen[v] = true
			if pa, isP := v.(*ssa.Parameter); isP {
				if nil == f.Signature.Recv() || pa != f.Params[0] {
					dep = true
				}
				return
			}
			if in, isI := v.(ssa.Instruction); isI {
				for _, op := range in.Operands(nil) {
					if nil != *op {
						chk(*op)
					}
				}
			}
		}
		chk(rv)
		if dep {
			return false
		}
	}
	for _, rv := range rets {
		walk(rv)
	}
	return true
}

// tableFieldValues: tbl is a slice built in the function itself — slice
// literals, grown with append — whose rows are structs; it returns every value
// put into field f of a row.  ok is false when tbl can hold rows from elsewhere
// or a row is written other than field by field.
func tableFieldValues(tbl ssa.Value, f int) ([]ssa.Value, bool) {
	var out []ssa.Value
	ok := true
	seen := map[ssa.Value]bool{}
	var rowsOf func(arr *ssa.Alloc)
	rowsOf = func(arr *ssa.Alloc) {
		for _, ref := range *arr.Referrers() {
			switch u := ref.(type) {
			case *ssa.IndexAddr:
				for _, r2 := range *u.Referrers() {
					switch w := r2.(type) {
					case *ssa.FieldAddr:
						for _, r3 := range *w.Referrers() {
							if st, isSt := r3.(*ssa.Store); isSt && st.Addr == ssa.Value(w) {
								if w.Field == f {
									out = append(out, st.Val)
								}
							}
						}
					case *ssa.Store:
						if w.Addr != ssa.Value(u) {
							continue
						}
						/* A whole row stored: a struct assembled in a local
						variable, field by field. */
						ld, isLd := w.Val.(*ssa.UnOp)
						if !isLd || token.MUL != ld.Op {
							ok = false
							continue
						}
						tmp, isAl := ld.X.(*ssa.Alloc)
						if !isAl {
							ok = false
							continue
						}
						got := false
						for _, r3 := range *tmp.Referrers() {
							switch t := r3.(type) {
							case *ssa.FieldAddr:
								for _, r4 := range *t.Referrers() {
									if st, isSt := r4.(*ssa.Store); isSt && st.Addr == ssa.Value(t) && t.Field == f {
										out = append(out, st.Val)
										got = true
									}
								}
							case *ssa.Store:
								if t.Addr == ssa.Value(tmp) {
									ok = false
								}
							}
						}
						if !got {
							out = append(out, zeroValueMarker)
						}
					}
				}
			}
		}
	}
	var walk func(v ssa.Value)
	walk = func(v ssa.Value) {
		if nil == v || seen[v] || !ok {
			return
		}
		seen[v] = true
		switch x := v.(type) {
		case *ssa.Const:
			if !x.IsNil() {
				ok = false
			}
		case *ssa.Phi:
			for _, e := range x.Edges {
				walk(e)
			}
		case *ssa.Slice:
			arr, isArr := x.X.(*ssa.Alloc)
			if !isArr {
				ok = false
				return
			}
			if _, isA := arr.Type().Underlying().(*types.Pointer).Elem().Underlying().(*types.Array); !isA {
				ok = false
				return
			}
			rowsOf(arr)
		case *ssa.Call:
			if bi, isB := x.Common().Value.(*ssa.Builtin); isB && "append" == bi.Name() {
				for _, a := range x.Common().Args {
					walk(a)
				}
				return
			}
			ok = false
		case *ssa.UnOp:
			if al, isAl := resolveFree(x.X).(*ssa.Alloc); isAl && token.MUL == x.Op {
				sts := storesTo(al)
				if 0 == len(sts) {
					ok = false
				}
				for _, st := range sts {
					walk(st.Val)
				}
				return
			}
			ok = false
		default:
			ok = false
		}
	}
	if _, isStruct := sliceElemStruct(tbl.Type()); !isStruct {
		return nil, false
	}
	walk(tbl)
	return out, ok && 0 != len(out)
}

// zeroValueMarker stands for a field left at its zero value.
var zeroValueMarker ssa.Value = ssa.NewConst(nil, types.Typ[types.UntypedNil])

func sliceElemStruct(t types.Type) (*types.Struct, bool) {
	sl, ok := t.Underlying().(*types.Slice)
	if !ok {
		return nil, false
	}
	st, ok := sl.Elem().Underlying().(*types.Struct)
	return st, ok
}

// deepRoots follows a value back like valueRoots and, further, through the
// module's own plumbing: a parameter of a private function (every use of
// which is a static call) stands for what its callers pass, and a private
// field stands for everything stored into it anywhere in the module.  accept
// says which roots are final; the others are expanded where possible and
// returned as they are where not.
func (p *Prog) deepRoots(v ssa.Value, accept func(v ssa.Value) bool) []Root {
	var out []Root
	seenP := map[*ssa.Parameter]bool{}
	seenF := map[*types.Var]bool{}
	var walk func(v ssa.Value, depth int)
	walk = func(v ssa.Value, depth int) {
		if accept(v) {
			out = append(out, Root{Kind: "accepted", V: v})
			return
		}
		for _, x := range valueRoots(v, nil) {
			if nil != x.V && x.V != v && accept(x.V) {
				out = append(out, Root{Kind: "accepted", V: x.V})
				continue
			}
			switch {
			case depth < 6 && "param" == x.Kind:
				pa := x.V.(*ssa.Parameter)
				fn := pa.Parent()
				if seenP[pa] {
					continue
				}
				if nil == fn || !inModule(fn) || ast.IsExported(fn.Name()) || nil != fn.Parent() {
					out = append(out, x)
					continue
				}
				idx := paramIndex(fn, pa)
				cs := p.callersOf(fn)
				if 0 == len(cs) || len(p.usesOfFunc(fn)) != len(cs) {
					out = append(out, x)
					continue
				}
				seenP[pa] = true
				for _, ci := range cs {
					if idx < len(ci.Common().Args) {
						walk(ci.Common().Args[idx], depth+1)
					}
				}
			case depth < 6 && "field" == x.Kind && nil != x.Field && !x.Field.Exported() && nil != x.Field.Pkg() && strings.HasPrefix(x.Field.Pkg().Path(), ModPath):
				if seenF[x.Field] {
					continue
				}
				seenF[x.Field] = true
				sts := p.storesToField(x.Field)
				if 0 == len(sts) {
					out = append(out, x)
					continue
				}
				for _, st := range sts {
					walk(st.Val, depth+1)
				}
			default:
				out = append(out, x)
			}
		}
	}
	walk(v, 0)
	return out
}

// storesThroughMaps: the stores "*m[k] = v" in a's function, for the maps made
// there into which a's address was put.
func storesThroughMaps(a *ssa.Alloc) []*ssa.Store {
	var out []*ssa.Store
	if nil == a.Referrers() {
		return nil
	}
	for _, ref := range *a.Referrers() {
		mu, ok := ref.(*ssa.MapUpdate)
		if !ok || mu.Value != ssa.Value(a) {
			continue
		}
		mm, ok := resolveCell(mu.Map).(*ssa.MakeMap)
		if !ok {
			continue
		}
		for _, f := range withAnons(a.Parent()) {
			eachInstr(f, func(i ssa.Instruction) {
				st, ok := i.(*ssa.Store)
				if !ok {
					return
				}
				addr := stripConv(st.Addr, false)
				if ex, isEx := addr.(*ssa.Extract); isEx {
					addr = ex.Tuple
				}
				lk, isLk := addr.(*ssa.Lookup)
				if !isLk {
					return
				}
				if m2, isM := resolveCell(resolveFree(lk.X)).(*ssa.MakeMap); isM && m2 == mm {
					out = append(out, st)
				}
			})
		}
	}
	return out
}

// rootsUp: the roots rs with every parameter root which resolveUp can follow
// to its only caller replaced by the roots of what that caller passes (a
// method made a plain function is handed what it used to read from its
// receiver).
func (p *Prog) rootsUp(rs []Root, through func(callee string) bool) []Root {
	for depth := 0; depth < 4; depth++ {
		var out []Root
		changed := false
		for _, rt := range rs {
			if "param" == rt.Kind {
				if u := p.resolveUp(rt.V); u != rt.V {
					out = append(out, valueRoots(u, through)...)
					changed = true
					continue
				}
			}
			out = append(out, rt)
		}
		rs = out
		if !changed {
			break
		}
	}
	return rs
}

// appendDests peels append-style calls off v: the memory a value built by
// append(dst, …), fmt.Append*(dst, …), strconv.Append*(dst, …) or a module
// function Append*(dst []byte, …) []byte lives in is dst's (or fresh, when dst
// was too small); what is appended is copied.  Slicing and phis are followed.
func appendDests(v ssa.Value) []ssa.Value {
	var out []ssa.Value
	seen := map[ssa.Value]bool{}
	var walk func(v ssa.Value)
	walk = func(v ssa.Value) {
		if nil == v || seen[v] {
			return
		}
		seen[v] = true
		switch x := v.(type) {
		case *ssa.Call:
			name := calleeName(x.Common())
			args := callArgs(x.Common())
			appendLike := "builtin.append" == name || strings.HasPrefix(name, "fmt.Append") || strings.HasPrefix(name, "strconv.Append") ||
				"slices.Grow" == name || "bytes.TrimSpace" == name || "bytes.TrimRight" == name || "bytes.TrimSuffix" == name
			if sc := x.Common().StaticCallee(); !appendLike && nil != sc && strings.HasPrefix(sc.Name(), "Append") && 0 != len(sc.Params) && nil == sc.Signature.Recv() {
				_, inSl := sc.Params[0].Type().Underlying().(*types.Slice)
				res := sc.Signature.Results()
				if inSl && 0 != res.Len() && types.Identical(res.At(0).Type(), sc.Params[0].Type()) {
					appendLike = true
				}
			}
			if appendLike && 0 != len(args) {
				walk(args[0])
				return
			}
		case *ssa.Extract:
			if c, ok := x.Tuple.(*ssa.Call); ok && 0 == x.Index {
				if sc := c.Common().StaticCallee(); nil != sc && strings.HasPrefix(sc.Name(), "Append") && 0 != len(sc.Params) && nil == sc.Signature.Recv() {
					if _, inSl := sc.Params[0].Type().Underlying().(*types.Slice); inSl {
						if args := callArgs(c.Common()); 0 != len(args) {
							walk(args[0])
							return
						}
					}
				}
			}
		case *ssa.Slice:
			walk(x.X)
			return
		case *ssa.Phi:
			for _, e := range x.Edges {
				walk(e)
			}
			return
		}
		out = append(out, v)
	}
	walk(v)
	return out
}
