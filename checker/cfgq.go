package main

// cfgq.go: instruction-granular control-flow queries on SSA functions.

import (
	"go/token"
	"go/types"

	"golang.org/x/tools/go/ssa"
)

// Loc is a program point: instruction I of block B.
type Loc struct {
	B *ssa.BasicBlock
	I int
}

func locOf(i ssa.Instruction) Loc {
	b := i.Block()
	for k, x := range b.Instrs {
		if x == i {
			return Loc{b, k}
		}
	}
	return Loc{b, -1}
}

func entryLoc(fn *ssa.Function) Loc { return Loc{fn.Blocks[0], -1} }

// Edge identifies a CFG edge by block indices.
type Edge struct{ From, To int }

// reachQ describes a reachability query: starting just after From, is there a
// path to an instruction satisfying Target that neither executes an
// instruction satisfying Block (checked before Target) nor takes an edge in
// NoEdges?
type reachQ struct {
	From    Loc
	Target  func(ssa.Instruction) bool
	Block   func(ssa.Instruction) bool
	NoEdges map[Edge]bool
}

// run returns the first target instruction found, or nil.
func (q reachQ) run() ssa.Instruction {
	seen := map[int]bool{}
	type item struct {
		b *ssa.BasicBlock
		i int
	}
	work := []item{{q.From.B, q.From.I + 1}}
	for 0 != len(work) {
		it := work[len(work)-1]
		work = work[:len(work)-1]
		blocked := false
		for k := it.i; k < len(it.b.Instrs); k++ {
			in := it.b.Instrs[k]
			if nil != q.Block && q.Block(in) {
				blocked = true
				break
			}
			if nil != q.Target && q.Target(in) {
				return in
			}
			if isNoReturn(in) {
				/* The path ends here: the process exits. */
				blocked = true
				break
			}
		}
		if blocked {
			continue
		}
		for _, s := range it.b.Succs {
			if q.NoEdges[Edge{it.b.Index, s.Index}] {
				continue
			}
			if seen[s.Index] {
				continue
			}
			seen[s.Index] = true
			work = append(work, item{s, 0})
		}
	}
	return nil
}

// canReach: is there a path from just after `from` to `to`?
func canReach(from Loc, to ssa.Instruction) bool {
	return nil != reachQ{From: from, Target: func(i ssa.Instruction) bool { return i == to }}.run()
}

// mustPass: does every path from just after `from` to an instruction in `to`
// execute an instruction in `via` first?  Returns the offending target if not.
func mustPass(from Loc, to, via func(ssa.Instruction) bool) ssa.Instruction {
	return reachQ{From: from, Target: to, Block: via}.run()
}

// isReturn matches Return instructions (and panics are ignored).
func isReturn(i ssa.Instruction) bool { _, ok := i.(*ssa.Return); return ok }

// edgeDominates: does every path from the function's entry to `to` take the
// edge ifi.Block() -> Succs[succ]?
func edgeDominates(ifi *ssa.If, succ int, to ssa.Instruction) bool {
	b := ifi.Block()
	fn := b.Parent()
	/* If both successors are the same block the edge proves nothing. */
	if b.Succs[0] == b.Succs[1] {
		return false
	}
	q := reachQ{
		From:    entryLoc(fn),
		Target:  func(i ssa.Instruction) bool { return i == to },
		NoEdges: map[Edge]bool{{b.Index, b.Succs[succ].Index}: true},
	}
	if nil != q.run() {
		return false
	}
	/* And it must be reachable at all. */
	return canReach(entryLoc(fn), to)
}

// instrDominates: does a execute before b on every path from entry to b?
func instrDominates(a, b ssa.Instruction) bool {
	if a.Block() == b.Block() {
		la, lb := locOf(a), locOf(b)
		if la.I < lb.I {
			return true
		}
		/* Same block, a after b: only via a loop, which means b can be
		reached first. */
		return false
	}
	return a.Block().Dominates(b.Block())
}

// Cond is a decoded branch condition: on the true edge, X <op> Y holds where
// op is == (Eq true) or != (Eq false); for plain boolean values Y is nil and
// Eq tells whether X is true on the true edge.
type Cond struct {
	X, Y ssa.Value
	Eq   bool
}

// decodeCond decodes the condition value of an If.
func decodeCond(v ssa.Value) Cond {
	neg := false
	for {
		if u, ok := v.(*ssa.UnOp); ok && token.NOT == u.Op {
			neg = !neg
			v = u.X
			continue
		}
		break
	}
	if b, ok := v.(*ssa.BinOp); ok && (token.EQL == b.Op || token.NEQ == b.Op) {
		eq := token.EQL == b.Op
		if neg {
			eq = !eq
		}
		x, y := b.X, b.Y
		/* Put the constant on the right. */
		if isConst(x) && !isConst(y) {
			x, y = y, x
		}
		/* v == true / v != false (also for named boolean types, e.g.
		s.mode == justOne): a plain boolean test of v. */
		if yb, ok := constBool(y); ok && !isConst(x) {
			inner := decodeCond(stripBoolConv(x))
			if eq != yb {
				inner.Eq = !inner.Eq
			}
			return inner
		}
		return Cond{X: x, Y: y, Eq: eq}
	}
	return Cond{X: stripBoolConv(v), Y: nil, Eq: !neg}
}

// stripBoolConv removes conversions between boolean types.
func stripBoolConv(v ssa.Value) ssa.Value {
	for {
		switch x := v.(type) {
		case *ssa.ChangeType:
			if isBoolType(x.Type()) && isBoolType(x.X.Type()) {
				v = x.X
				continue
			}
		case *ssa.Convert:
			if isBoolType(x.Type()) && isBoolType(x.X.Type()) {
				v = x.X
				continue
			}
		}
		return v
	}
}

func isBoolType(t types.Type) bool {
	b, ok := t.Underlying().(*types.Basic)
	return ok && 0 != b.Info()&types.IsBoolean
}

// ifsTesting returns the If instructions of fn whose condition compares v
// (after stripConv) against nil, with the successor index on which v is nil.
func nilTestsOf(fn *ssa.Function, v ssa.Value) (out []struct {
	If      *ssa.If
	NilSucc int
}) {
	for _, b := range fn.Blocks {
		if 0 == len(b.Instrs) {
			continue
		}
		ifi, ok := b.Instrs[len(b.Instrs)-1].(*ssa.If)
		if !ok {
			continue
		}
		c := decodeCond(ifi.Cond)
		if nil == c.Y || !isNilConst(c.Y) || c.X != v {
			continue
		}
		ns := 1
		if c.Eq {
			ns = 0
		}
		out = append(out, struct {
			If      *ssa.If
			NilSucc int
		}{ifi, ns})
	}
	return out
}

// blockIf returns the If terminating b, or nil.
func blockIf(b *ssa.BasicBlock) *ssa.If {
	if 0 == len(b.Instrs) {
		return nil
	}
	ifi, _ := b.Instrs[len(b.Instrs)-1].(*ssa.If)
	return ifi
}

// isNoReturn: a call which never returns to its caller.
func isNoReturn(i ssa.Instruction) bool {
	c, ok := i.(*ssa.Call)
	if !ok {
		return false
	}
	switch calleeName(c.Common()) {
	case "os.Exit", "log.Fatal", "log.Fatalf", "log.Fatalln", "log.Panic", "log.Panicf", "log.Panicln", "runtime.Goexit",
		"(*log.Logger).Fatal", "(*log.Logger).Fatalf", "(*log.Logger).Fatalln", "(*log.Logger).Panic", "(*log.Logger).Panicf", "(*log.Logger).Panicln",
		"syscall.Exit", "(*testing.common).FailNow", "(*testing.common).Fatal", "(*testing.common).Fatalf", "(*testing.common).SkipNow", "(*testing.common).Skip", "(*testing.common).Skipf":
		return true
	}
	return false
}

// boolTest is an If deciding on the boolean v (possibly negated).
type boolTest struct {
	If       *ssa.If
	TrueSucc int /* successor index on which v is true */
}

// boolTestsOf returns the Ifs of fn whose condition is v or !v.
func boolTestsOf(fn *ssa.Function, v ssa.Value) []boolTest {
	var out []boolTest
	for _, b := range fn.Blocks {
		ifi := blockIf(b)
		if nil == ifi {
			continue
		}
		if dc := decodeCond(ifi.Cond); nil == dc.Y && dc.X == v {
			k := 0
			if !dc.Eq {
				k = 1
			}
			out = append(out, boolTest{ifi, k})
		}
	}
	return out
}
