package main

// cfgq.go: instruction-granular control-flow queries on SSA functions.

import (
	"go/constant"
	"fmt"
	"go/token"
	"go/types"
	"sort"
	"strings"

	"golang.org/x/tools/go/ssa"
)

// Loc is a program point: instruction I of block B.
type Loc struct {
	B *ssa.BasicBlock
	I int
	/* Via, when set, is the block whose edge to B is where the path starts
	(I is -1 then): what that edge establishes is known on the path. */
	Via *ssa.BasicBlock
}

// edgeLoc is the start of the k'th successor of b, entered from b.
func edgeLoc(b *ssa.BasicBlock, k int) Loc { return Loc{b.Succs[k], -1, b} }

func locOf(i ssa.Instruction) Loc {
	b := i.Block()
	for k, x := range b.Instrs {
		if x == i {
			return Loc{b, k, nil}
		}
	}
	return Loc{b, -1, nil}
}

func entryLoc(fn *ssa.Function) Loc { return Loc{fn.Blocks[0], -1, nil} }

// Edge identifies a CFG edge by block indices.
type Edge struct{ From, To int }

// reachQ describes a reachability query: starting just after From, is there a
// path to an instruction satisfying Target that neither executes an
// instruction satisfying Block (checked before Target) nor takes an edge in
// NoEdges?
type reachQ struct {
	From    Loc
	Target  func(ssa.Instruction) bool
	Block   func(ssa.Instruction) bool
	NoEdges map[Edge]bool
	// TargetF, when set, is asked instead of Target and may consult what
	// the path knows (nil-ness, constants) about the values the
	// instruction uses.
	TargetF func(ssa.Instruction, nilFacts) bool
}

// nilFacts records what a path knows about values: for interface/pointer
// values 1 = nil, 2 = not nil; for values which are a constant on this path
// (a flag or state variable merged from constants), the constant.
type nilFacts map[ssa.Value]pathFact

type pathFact struct {
	n int8   /* nil-ness */
	c string /* "" or the constant, as kind:exact-string */
}

func (f nilFacts) with(v ssa.Value, k int8) nilFacts {
	n := nilFacts{}
	for a, b := range f {
		n[a] = b
	}
	n[v] = pathFact{n: k}
	return n
}

func (f nilFacts) withConst(v ssa.Value, c string) nilFacts {
	n := nilFacts{}
	for a, b := range f {
		n[a] = b
	}
	n[v] = pathFact{c: c}
	return n
}

// constKey: a comparable rendering of a (non-nil) constant.
func constKey(c *ssa.Const) string {
	if nil == c || nil == c.Value {
		return ""
	}
	switch c.Value.Kind() {
	case constant.Bool, constant.Int, constant.String:
		return fmt.Sprintf("%d:%s", c.Value.Kind(), c.Value.ExactString())
	}
	return ""
}

// constOf: the constant v is known to be on this path, if any.
func pathConstOf(v ssa.Value, f nilFacts) string {
	if c, ok := v.(*ssa.Const); ok {
		return constKey(c)
	}
	return f[v].c
}

func (f nilFacts) key() string {
	if 0 == len(f) {
		return ""
	}
	var ks []string
	for v, k := range f {
		ks = append(ks, fmt.Sprintf("%p:%d:%s", v, k.n, k.c))
	}
	sort.Strings(ks)
	return strings.Join(ks, ",")
}

// nilnessOf: what is known about v by itself or from the facts.
func nilnessOf(v ssa.Value, f nilFacts) int8 {
	if k, ok := f[v]; ok && 0 != k.n {
		return k.n
	}
	switch x := v.(type) {
	case *ssa.Const:
		if x.IsNil() {
			return 1
		}
	case *ssa.MakeInterface, *ssa.Alloc, *ssa.MakeClosure, *ssa.Function, *ssa.Global, *ssa.FieldAddr, *ssa.IndexAddr, *ssa.MakeMap, *ssa.MakeChan, *ssa.MakeSlice:
		return 2
	case *ssa.ChangeInterface:
		return nilnessOf(x.X, f)
	case *ssa.Call:
		switch calleeName(x.Common()) {
		case "fmt.Errorf", "errors.New":
			return 2
		}
	}
	return 0
}

// enterBlock: the facts which hold at the head of b when it is entered from
// prev: phis take the value of the edge we came over, and whatever b itself
// defines is a fresh value (b may be in a loop).
func enterBlock(prev, b *ssa.BasicBlock, in nilFacts) nilFacts {
	facts := in
	edge := -1
	for e, p := range b.Preds {
		if p == prev {
			edge = e
		}
	}
	var ks []int8
	var cs []string
	var phis []*ssa.Phi
	for _, i := range b.Instrs {
		ph, ok := i.(*ssa.Phi)
		if !ok {
			break
		}
		k := int8(0)
		c := ""
		if 0 <= edge && edge < len(ph.Edges) {
			k = nilnessOf(ph.Edges[edge], in)
			c = pathConstOf(ph.Edges[edge], in)
		}
		phis = append(phis, ph)
		ks = append(ks, k)
		cs = append(cs, c)
	}
	drop := func(v ssa.Value) {
		if _, had := facts[v]; had {
			facts = facts.with(v, 0)
			delete(facts, v)
		}
	}
	for _, i := range b.Instrs {
		if v, ok := i.(ssa.Value); ok {
			drop(v)
		}
	}
	for n, ph := range phis {
		if 0 != ks[n] {
			facts = facts.with(ph, ks[n])
		} else if "" != cs[n] {
			facts = facts.withConst(ph, cs[n])
		}
	}
	return facts
}

// run returns the first target instruction found, or nil.  Paths are pruned
// by what they have learnt about nil-ness: after "if err != nil" a later test
// of the same value (or of a variable it was merged into) is not taken the
// other way.
func (q reachQ) run() ssa.Instruction {
	type item struct {
		b     *ssa.BasicBlock
		i     int
		prev  *ssa.BasicBlock
		facts nilFacts
	}
	seen := map[string]bool{}
	perBlock := map[int]int{}
	start := item{q.From.B, q.From.I + 1, nil, nilFacts{}}
	/* Starting over an edge: what that edge established holds. */
	via := q.From.Via
	if nil == via && 0 == start.i && 1 == len(q.From.B.Preds) {
		via = q.From.B.Preds[0]
	}
	if 0 == start.i && nil != via {
		start.prev = via
		if ifi := blockIf(via); nil != ifi && via.Succs[0] != via.Succs[1] {
			if c := decodeCond(ifi.Cond); nil != c.Y && isNilConst(c.Y) {
				onTrue := via.Succs[0] == q.From.B
				if c.Eq == onTrue {
					start.facts = start.facts.with(c.X, 1)
				} else {
					start.facts = start.facts.with(c.X, 2)
				}
			} else if nil == c.Y && nil != c.X {
				/* A boolean branched on. */
				if _, xIsC := c.X.(*ssa.Const); !xIsC {
					if b, isB := c.X.Type().Underlying().(*types.Basic); isB && 0 != b.Info()&types.IsBoolean {
						onTrue := via.Succs[0] == q.From.B
						start.facts = start.facts.withConst(c.X, fmt.Sprintf("%d:%v", constant.Bool, c.Eq == onTrue))
					}
				}
			}
		}
		start.facts = enterBlock(via, q.From.B, start.facts)
	}
	work := []item{start}
	for 0 != len(work) {
		it := work[len(work)-1]
		work = work[:len(work)-1]
		facts := it.facts
		blocked := false
		for k := it.i; k < len(it.b.Instrs); k++ {
			in := it.b.Instrs[k]
			if nil != q.Block && q.Block(in) {
				blocked = true
				break
			}
			if nil != q.TargetF {
				if q.TargetF(in, facts) {
					return in
				}
			} else if nil != q.Target && q.Target(in) {
				return in
			}
			if isNoReturn(in) {
				/* The path ends here: the process exits. */
				blocked = true
				break
			}
		}
		if blocked {
			continue
		}
		/* Which ways out are consistent with what the path knows? */
		var outs []item
		ifi := blockIf(it.b)
		decided := false
		if nil != ifi && 2 == len(it.b.Succs) && it.b.Succs[0] != it.b.Succs[1] {
			/* A flag or state variable which is a known constant on this
			path, compared with a constant (or tested, if boolean). */
			if c := decodeCond(ifi.Cond); !decided {
				var lhs, rhs string
				switch {
				case nil == c.Y:
					lhs, rhs = pathConstOf(c.X, facts), fmt.Sprintf("%d:true", constant.Bool)
				case !isNilConst(c.Y):
					lhs, rhs = pathConstOf(c.X, facts), pathConstOf(c.Y, facts)
				}
				if "" != lhs && "" != rhs {
					holds := lhs == rhs
					succ := 1
					if holds == c.Eq {
						succ = 0
					}
					outs = append(outs, item{it.b.Succs[succ], 0, it.b, facts})
					decided = true
				}
			}
			if c := decodeCond(ifi.Cond); !decided && nil != c.Y && isNilConst(c.Y) {
				nilSucc := 1
				if c.Eq {
					nilSucc = 0
				}
				switch nilnessOf(c.X, facts) {
				case 1:
					outs = append(outs, item{it.b.Succs[nilSucc], 0, it.b, facts})
					decided = true
				case 2:
					outs = append(outs, item{it.b.Succs[1-nilSucc], 0, it.b, facts})
					decided = true
				default:
					outs = append(outs, item{it.b.Succs[nilSucc], 0, it.b, facts.with(c.X, 1)}, item{it.b.Succs[1-nilSucc], 0, it.b, facts.with(c.X, 2)})
					decided = true
				}
			}
		}
		if !decided && nil != ifi && 2 == len(it.b.Succs) && it.b.Succs[0] != it.b.Succs[1] {
			/* x == constant: on that edge x is that constant. */
			if c := decodeCond(ifi.Cond); nil != c.Y {
				if yc, isC := c.Y.(*ssa.Const); isC && "" != constKey(yc) {
					if _, xIsC := c.X.(*ssa.Const); !xIsC {
						eq := 1
						if c.Eq {
							eq = 0
						}
						outs = append(outs, item{it.b.Succs[eq], 0, it.b, facts.withConst(c.X, constKey(yc))}, item{it.b.Succs[1-eq], 0, it.b, facts})
						decided = true
					}
				}
			}
		}
		if !decided && nil != ifi && 2 == len(it.b.Succs) && it.b.Succs[0] != it.b.Succs[1] {
			/* A boolean value branched on: on each edge it is what the
			edge says, and a later test of the same value (else if ok)
			goes the same way. */
			if c := decodeCond(ifi.Cond); nil == c.Y && nil != c.X {
				if _, xIsC := c.X.(*ssa.Const); !xIsC {
					if b, isB := c.X.Type().Underlying().(*types.Basic); isB && 0 != b.Info()&types.IsBoolean {
						tk := fmt.Sprintf("%d:true", constant.Bool)
						fk := fmt.Sprintf("%d:false", constant.Bool)
						tSucc := 1
						if c.Eq {
							tSucc = 0
						}
						outs = append(outs, item{it.b.Succs[tSucc], 0, it.b, facts.withConst(c.X, tk)}, item{it.b.Succs[1-tSucc], 0, it.b, facts.withConst(c.X, fk)})
						decided = true
					}
				}
			}
		}
		if !decided {
			for _, s := range it.b.Succs {
				outs = append(outs, item{s, 0, it.b, facts})
			}
		}
		for _, o := range outs {
			if q.NoEdges[Edge{it.b.Index, o.b.Index}] {
				continue
			}
			o.facts = enterBlock(it.b, o.b, o.facts)
			/* Bound the number of distinct fact sets per block. */
			if perBlock[o.b.Index] >= 12 {
				o.facts = nilFacts{}
			}
			key := fmt.Sprintf("%d|%s", o.b.Index, o.facts.key())
			if seen[key] {
				continue
			}
			seen[key] = true
			perBlock[o.b.Index]++
			work = append(work, o)
		}
	}
	return nil
}

// canReach: is there a path from just after `from` to `to`?
func canReach(from Loc, to ssa.Instruction) bool {
	return nil != reachQ{From: from, Target: func(i ssa.Instruction) bool { return i == to }}.run()
}

// mustPass: does every path from just after `from` to an instruction in `to`
// execute an instruction in `via` first?  Returns the offending target if not.
func mustPass(from Loc, to, via func(ssa.Instruction) bool) ssa.Instruction {
	return reachQ{From: from, Target: to, Block: via}.run()
}

// isReturn matches Return instructions (and panics are ignored).
func isReturn(i ssa.Instruction) bool { _, ok := i.(*ssa.Return); return ok }

// edgeDominates: does every path from the function's entry to `to` take the
// edge ifi.Block() -> Succs[succ]?
func edgeDominates(ifi *ssa.If, succ int, to ssa.Instruction) bool {
	b := ifi.Block()
	fn := b.Parent()
	/* If both successors are the same block the edge proves nothing. */
	if b.Succs[0] == b.Succs[1] {
		return false
	}
	q := reachQ{
		From:    entryLoc(fn),
		Target:  func(i ssa.Instruction) bool { return i == to },
		NoEdges: map[Edge]bool{{b.Index, b.Succs[succ].Index}: true},
	}
	if nil != q.run() {
		return false
	}
	/* And it must be reachable at all. */
	return canReach(entryLoc(fn), to)
}

// instrDominates: does a execute before b on every path from entry to b?
func instrDominates(a, b ssa.Instruction) bool {
	if a.Block() == b.Block() {
		la, lb := locOf(a), locOf(b)
		if la.I < lb.I {
			return true
		}
		/* Same block, a after b: only via a loop, which means b can be
		reached first. */
		return false
	}
	return a.Block().Dominates(b.Block())
}

// Cond is a decoded branch condition: on the true edge, X <op> Y holds where
// op is == (Eq true) or != (Eq false); for plain boolean values Y is nil and
// Eq tells whether X is true on the true edge.
type Cond struct {
	X, Y ssa.Value
	Eq   bool
}

// decodeCond decodes the condition value of an If.
func decodeCond(v ssa.Value) Cond {
	neg := false
	for {
		if u, ok := v.(*ssa.UnOp); ok && token.NOT == u.Op {
			neg = !neg
			v = u.X
			continue
		}
		break
	}
	if b, ok := v.(*ssa.BinOp); ok && (token.EQL == b.Op || token.NEQ == b.Op) {
		eq := token.EQL == b.Op
		if neg {
			eq = !eq
		}
		x, y := b.X, b.Y
		/* Put the constant on the right. */
		if isConst(x) && !isConst(y) {
			x, y = y, x
		}
		/* v == true / v != false (also for named boolean types, e.g.
		s.mode == justOne): a plain boolean test of v. */
		if yb, ok := constBool(y); ok && !isConst(x) {
			inner := decodeCond(stripBoolConv(x))
			if eq != yb {
				inner.Eq = !inner.Eq
			}
			return inner
		}
		return Cond{X: x, Y: y, Eq: eq}
	}
	return Cond{X: stripBoolConv(v), Y: nil, Eq: !neg}
}

// stripBoolConv removes conversions between boolean types.
func stripBoolConv(v ssa.Value) ssa.Value {
	for {
		switch x := v.(type) {
		case *ssa.ChangeType:
			if isBoolType(x.Type()) && isBoolType(x.X.Type()) {
				v = x.X
				continue
			}
		case *ssa.Convert:
			if isBoolType(x.Type()) && isBoolType(x.X.Type()) {
				v = x.X
				continue
			}
		}
		return v
	}
}

func isBoolType(t types.Type) bool {
	b, ok := t.Underlying().(*types.Basic)
	return ok && 0 != b.Info()&types.IsBoolean
}

// ifsTesting returns the If instructions of fn whose condition compares v
// (after stripConv) against nil, with the successor index on which v is nil.
func nilTestsOf(fn *ssa.Function, v ssa.Value) (out []struct {
	If      *ssa.If
	NilSucc int
}) {
	for _, b := range fn.Blocks {
		if 0 == len(b.Instrs) {
			continue
		}
		ifi, ok := b.Instrs[len(b.Instrs)-1].(*ssa.If)
		if !ok {
			continue
		}
		c := decodeCond(ifi.Cond)
		if nil == c.Y || !isNilConst(c.Y) {
			continue
		}
		if c.X != v {
			/* Or a load of the variable v was put into, which can hold
			nothing else at that point. */
			ld, isLd := c.X.(*ssa.UnOp)
			if !isLd || token.MUL != ld.Op {
				continue
			}
			cell, isCell := ld.X.(*ssa.Alloc)
			if !isCell {
				continue
			}
			sts := reachingStoresAt(ld, cell)
			if 1 != len(sts) || sts[0].Val != v {
				continue
			}
		}
		ns := 1
		if c.Eq {
			ns = 0
		}
		out = append(out, struct {
			If      *ssa.If
			NilSucc int
		}{ifi, ns})
	}
	return out
}

// blockIf returns the If terminating b, or nil.
func blockIf(b *ssa.BasicBlock) *ssa.If {
	if 0 == len(b.Instrs) {
		return nil
	}
	ifi, _ := b.Instrs[len(b.Instrs)-1].(*ssa.If)
	return ifi
}

// isNoReturn: a call which never returns to its caller.
func isNoReturn(i ssa.Instruction) bool {
	c, ok := i.(*ssa.Call)
	if !ok {
		return false
	}
	switch calleeName(c.Common()) {
	case "os.Exit", "log.Fatal", "log.Fatalf", "log.Fatalln", "log.Panic", "log.Panicf", "log.Panicln", "runtime.Goexit",
		"(*log.Logger).Fatal", "(*log.Logger).Fatalf", "(*log.Logger).Fatalln", "(*log.Logger).Panic", "(*log.Logger).Panicf", "(*log.Logger).Panicln",
		"syscall.Exit", "(*testing.common).FailNow", "(*testing.common).Fatal", "(*testing.common).Fatalf", "(*testing.common).SkipNow", "(*testing.common).Skip", "(*testing.common).Skipf":
		return true
	}
	return false
}

// boolTest is an If deciding on the boolean v (possibly negated).
type boolTest struct {
	If       *ssa.If
	TrueSucc int /* successor index on which v is true */
}

// boolTestsOf returns the Ifs of fn whose condition is v or !v.
func boolTestsOf(fn *ssa.Function, v ssa.Value) []boolTest {
	var out []boolTest
	for _, b := range fn.Blocks {
		ifi := blockIf(b)
		if nil == ifi {
			continue
		}
		if dc := decodeCond(ifi.Cond); nil == dc.Y && dc.X == v {
			k := 0
			if !dc.Eq {
				k = 1
			}
			out = append(out, boolTest{ifi, k})
		}
	}
	return out
}

// canReachEdge: can target be reached once the branch ifi has gone to its
// successor number succ?
func canReachEdge(ifi *ssa.If, succ int, target ssa.Instruction) bool {
	return nil != reachQ{From: edgeLoc(ifi.Block(), succ), Target: func(i ssa.Instruction) bool { return i == target }}.run()
}

// retIntOnPath: the integer v is known to be where the path stands: a
// constant, or a value (the merged exit status of a folded helper, say) which
// the path's way in made one.
func retIntOnPath(v ssa.Value, facts nilFacts) (int64, bool) {
	if k, ok := constInt(v); ok {
		return k, true
	}
	key := pathConstOf(v, facts)
	pre := fmt.Sprintf("%d:", constant.Int)
	if !strings.HasPrefix(key, pre) {
		return 0, false
	}
	var k int64
	if _, err := fmt.Sscanf(strings.TrimPrefix(key, pre), "%d", &k); nil != err {
		return 0, false
	}
	return k, true
}
