package main

import (
	"go/types"
	"strings"

	"golang.org/x/tools/go/ssa"
)

// checkC15Yield: an iterator of the codec's package (a function literal
// func(yield func(…) bool) handed to a range statement) looks at what every
// call of yield returns.  When the loop body stops early — the decoder returns
// its error from inside the loop — yield returns false; an iterator which
// goes on and calls yield again makes the runtime panic ("range function
// continued iteration after function for loop body returned false").  The
// iterators are read where they are declared (before folding).
func checkC15Yield(p *Prog, r *Report, ru *Rule) {
	n := 0
	seen := map[*ssa.Function]bool{}
	var visit func(f *ssa.Function)
	visit = func(f *ssa.Function) {
		if nil == f || seen[f] {
			return
		}
		seen[f] = true
		for _, a := range f.AnonFuncs {
			visit(a)
		}
		if 0 == len(f.Blocks) || 0 != f.Signature.Results().Len() {
			return
		}
		/* Literals reach their parameters as such; a yield captured by an
		inner literal is a free variable there. */
		var yields []ssa.Value
		for _, pa := range f.Params {
			if sg, ok := pa.Type().Underlying().(*types.Signature); ok && 1 == sg.Results().Len() && types.Identical(sg.Results().At(0).Type(), types.Typ[types.Bool]) {
				yields = append(yields, pa)
			}
		}
		if 1 != len(f.Params) || 1 != len(yields) {
			return
		}
		y := yields[0]
		for _, ref := range *y.Referrers() {
			call, ok := ref.(*ssa.Call)
			if !ok || call.Call.Value != y {
				continue
			}
			n++
			k := fnName(f) + ":yield-result"
			again := false
			for _, r2 := range *y.Referrers() {
				if c2, ok := r2.(*ssa.Call); ok && c2.Call.Value == y && canReach(locOf(call), c2) {
					again = true
				}
			}
			if refs := call.Referrers(); (nil == refs || 0 == len(*refs)) && again {
				ru.Bad(k, posOf(call), "the iterator ignores what yield returns: when the loop body ends the loop early (the decoder returning an error) and another element follows, the iterator calls yield again and the runtime panics instead of the error being returned")
			} else {
				ru.OK(k, posOf(call), "the result of yield is looked at, or no further yield can follow")
			}
		}
	}
	for _, pkg := range p.SSA.AllPackages() {
		if nil == pkg.Pkg || !strings.HasSuffix(pkg.Pkg.Path(), "/"+uuPkg) {
			continue
		}
		for _, m := range pkg.Members {
			if f, ok := m.(*ssa.Function); ok {
				visit(f)
			}
		}
	}
	if 0 == n {
		ru.OK("uu:no-iterators", 0, "the codec's package declares no range-over-func iterators of its own")
	}
}
