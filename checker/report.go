package main

// report.go: obligations, findings, known findings, evidence.

import (
	"bufio"
	"encoding/json"
	"fmt"
	"go/token"
	"os"
	"path/filepath"
	"sort"
	"strings"
	"time"
)

// Status of an obligation.
type Status string

const (
	Discharged Status = "discharged"
	Refuted    Status = "refuted"  /* The code does the forbidden thing. */
	Unproven   Status = "unproven" /* No accepted idiom establishes it. */
)

// Ob is one proof obligation.
type Ob struct {
	Property  string `json:"property"`
	Rule      string `json:"rule"`      /* e.g. C01.guarded-by */
	Construct string `json:"construct"` /* function + callee/field/edge, never a line */
	Pos       string `json:"pos"`       /* Reported, not matched. */
	Status    Status `json:"status"`
	Detail    string `json:"detail,omitempty"`
}

// Key identifies an obligation across runs and edits.
func (o Ob) Key() string { return o.Rule + ":" + o.Construct }

// Report collects the obligations of one property.
type Report struct {
	Property  string
	P         *Prog
	Obs       []Ob
	Analysed  map[string]bool /* Functions, files, templates looked at. */
	Notes     []string
	RuleDocs  map[string]string
	ruleOrder []string
}

func NewReport(prop string, p *Prog) *Report {
	return &Report{Property: prop, P: p, Analysed: map[string]bool{}, RuleDocs: map[string]string{}}
}

// Rule is a handle to record obligations of one rule.
type Rule struct {
	r    *Report
	name string
	n    int
}

// Rule declares a rule with a one-line statement of what it decides.
func (r *Report) Rule(name, doc string) *Rule {
	full := r.Property + "." + name
	if _, ok := r.RuleDocs[full]; !ok {
		r.RuleDocs[full] = doc
		r.ruleOrder = append(r.ruleOrder, full)
	}
	return &Rule{r: r, name: full}
}

func (ru *Rule) add(st Status, construct string, pos token.Pos, format string, a ...any) {
	ru.n++
	if Discharged != st {
		/* One finding per rule+construct: further paths reaching the same
		construct add nothing a reader can act on. */
		for _, o := range ru.r.Obs {
			if o.Rule == ru.name && o.Construct == construct && Discharged != o.Status {
				return
			}
		}
	}
	ps := "-"
	if nil != ru.r.P {
		ps = ru.r.P.Pos(pos)
	}
	ru.r.Obs = append(ru.r.Obs, Ob{
		Property:  ru.r.Property,
		Rule:      ru.name,
		Construct: construct,
		Pos:       ps,
		Status:    st,
		Detail:    fmt.Sprintf(format, a...),
	})
}

func (ru *Rule) OK(construct string, pos token.Pos, format string, a ...any) {
	ru.add(Discharged, construct, pos, format, a...)
}
func (ru *Rule) Bad(construct string, pos token.Pos, format string, a ...any) {
	ru.add(Refuted, construct, pos, format, a...)
}
func (ru *Rule) Unproven(construct string, pos token.Pos, format string, a ...any) {
	ru.add(Unproven, construct, pos, format, a...)
}

// Check records OK or Bad depending on cond.
func (ru *Rule) Check(cond bool, construct string, pos token.Pos, okMsg, badMsg string) bool {
	if cond {
		ru.OK(construct, pos, "%s", okMsg)
	} else {
		ru.Bad(construct, pos, "%s", badMsg)
	}
	return cond
}

// AtLeast is the vacuity guard: the rule must have produced at least n
// obligations (the number confirmed by hand on the reference tree).
func (ru *Rule) AtLeast(n int, what string) {
	if ru.n < n {
		ru.add(Unproven, "instances", token.NoPos,
			"rule matched %d %s, at least %d expected: anchor missing or code restructured beyond the accepted idioms",
			ru.n, what, n)
	}
}

// Count returns the number of obligations recorded by the rule so far.
func (ru *Rule) Count() int { return ru.n }

func (r *Report) Saw(what string) { r.Analysed[what] = true }
func (r *Report) Note(format string, a ...any) {
	r.Notes = append(r.Notes, fmt.Sprintf(format, a...))
}

// Known findings file: lines
//
//	known: property=Cnn key=<rule:construct> <what fails>
//	fixed: property=Cnn <commit> <what failed>
//
// Only "known" lines suppress anything.
type knownFinding struct {
	Property, Key, What string
}

func loadKnown(path string) ([]knownFinding, []string, error) {
	f, err := os.Open(path)
	if nil != err {
		if os.IsNotExist(err) {
			return nil, nil, nil
		}
		return nil, nil, err
	}
	defer f.Close()
	var kf []knownFinding
	var fixed []string
	sc := bufio.NewScanner(f)
	for sc.Scan() {
		l := strings.TrimSpace(sc.Text())
		switch {
		case strings.HasPrefix(l, "fixed:"):
			fixed = append(fixed, l)
		case strings.HasPrefix(l, "known:"):
			fs := strings.Fields(strings.TrimPrefix(l, "known:"))
			k := knownFinding{}
			var rest []string
			for _, w := range fs {
				switch {
				case strings.HasPrefix(w, "property=") && "" == k.Property:
					k.Property = strings.TrimPrefix(w, "property=")
				case strings.HasPrefix(w, "key=") && "" == k.Key:
					k.Key = strings.TrimPrefix(w, "key=")
				default:
					rest = append(rest, w)
				}
			}
			k.What = strings.Join(rest, " ")
			kf = append(kf, k)
		}
	}
	return kf, fixed, sc.Err()
}

// Evidence is written per EVIDENCE.schema.json.
type Evidence struct {
	PropertyID  string         `json:"property_id"`
	Tier        string         `json:"tier"`
	Seed        int            `json:"seed"`
	Level       string         `json:"level"`
	Coverage    map[string]any `json:"coverage"`
	Assumptions []string       `json:"assumptions"`
	WallS       float64        `json:"wall_s"`
	Violations  int            `json:"violations"`
}

// Finish prints findings, writes evidence and the replay file, and returns the
// process exit code.
func (r *Report) Finish(tier string, seed int, start time.Time, evPath, knownPath string,
	explanation string, assumptions []string, extra map[string]any) int {

	known, fixedLines, err := loadKnown(knownPath)
	if nil != err {
		fmt.Printf("ERROR reading %s: %s\n", knownPath, err)
		return 2
	}
	isKnown := func(o Ob) *knownFinding {
		for i := range known {
			if known[i].Property == o.Property && known[i].Key == o.Key() {
				return &known[i]
			}
		}
		return nil
	}

	var bad, knownHit []Ob
	discharged := 0
	perRule := map[string][2]int{}
	for _, o := range r.Obs {
		c := perRule[o.Rule]
		c[0]++
		if Discharged == o.Status {
			discharged++
			c[1]++
		} else if k := isKnown(o); nil != k {
			knownHit = append(knownHit, o)
		} else {
			bad = append(bad, o)
		}
		perRule[o.Rule] = c
	}
	sortObs := func(os []Ob) {
		sort.SliceStable(os, func(i, j int) bool { return os[i].Key() < os[j].Key() })
	}
	sortObs(bad)
	sortObs(knownHit)

	for _, o := range knownHit {
		fmt.Printf("KNOWN-FINDING: property=%s %s at %s: %s\n", o.Property, o.Key(), o.Pos, o.Detail)
	}
	for _, o := range bad {
		fmt.Printf("%s: [%s] %s — %s: %s\n", o.Pos, o.Rule, o.Construct, o.Status, o.Detail)
	}

	/* Samples: every non-discharged obligation, and a spread of discharged ones. */
	var samples []any
	for _, o := range bad {
		samples = append(samples, o)
	}
	for _, o := range knownHit {
		samples = append(samples, o)
	}
	perRuleShown := map[string]int{}
	for _, o := range r.Obs {
		if Discharged != o.Status {
			continue
		}
		if perRuleShown[o.Rule] >= 3 {
			continue
		}
		perRuleShown[o.Rule]++
		samples = append(samples, o)
	}
	var rules []any
	for _, name := range r.ruleOrder {
		c := perRule[name]
		rules = append(rules, map[string]any{
			"rule": name, "decides": r.RuleDocs[name],
			"obligations": c[0], "discharged": c[1],
		})
	}
	var analysed []string
	for a := range r.Analysed {
		analysed = append(analysed, a)
	}
	sort.Strings(analysed)

	cov := map[string]any{
		"explanation":    explanation,
		"obligations":    len(r.Obs),
		"discharged":     discharged,
		"known_findings": len(knownHit),
		"rules":          rules,
		"analysed":       analysed,
		"samples":        samples,
		"checker_cmd":    strings.Join(os.Args, " "),
		"trusted_base": []string{
			"go/types and go/ssa of golang.org/x/tools v0.29.0 represent the program faithfully",
			"documented semantics of the Go standard library and the module's dependencies",
		},
		"packages_loaded":        r.P.AllPkgs,
		"module_packages":        len(r.P.Pkgs),
		"module_functions":       len(r.P.Funcs()),
		"fixed_findings_on_file": fixedLines,
		"notes":                  r.Notes,
	}
	for k, v := range extra {
		cov[k] = v
	}
	ev := Evidence{
		PropertyID:  r.Property,
		Tier:        tier,
		Seed:        seed,
		Level:       "other",
		Coverage:    cov,
		Assumptions: assumptions,
		WallS:       time.Since(start).Seconds(),
		Violations:  len(bad),
	}
	if "" != evPath {
		if err := writeJSON(evPath, ev); nil != err {
			fmt.Printf("ERROR writing evidence: %s\n", err)
			return 2
		}
	}
	fmt.Printf("%s %s: %d obligations, %d discharged, %d known, %d violated; %d functions in %d module packages; %.2fs\n",
		r.Property, tier, len(r.Obs), discharged, len(knownHit), len(bad),
		len(r.P.Funcs()), len(r.P.Pkgs), time.Since(start).Seconds())
	if 0 != len(bad) {
		replay := filepath.Join(filepath.Dir(evPath), "replay", r.Property+".json")
		if "" == evPath {
			replay = filepath.Join(os.TempDir(), fmt.Sprintf("crscheck-replay-%s-%d.json", r.Property, os.Getpid()))
		}
		if "" != os.Getenv("CRS_NOREPLAY") {
			/* A child run of the self-test batteries: nobody replays it. */
			fmt.Printf("VIOLATION property=%s replay=-\n", r.Property)
			return 1
		}
		if err := writeJSON(replay, bad); nil != err {
			fmt.Printf("ERROR writing replay: %s\n", err)
			return 2
		}
		fmt.Printf("VIOLATION property=%s replay=%s\n", r.Property, replay)
		return 1
	}
	return 0
}

func writeJSON(path string, v any) error {
	if err := os.MkdirAll(filepath.Dir(path), 0o755); nil != err {
		return err
	}
	b, err := json.MarshalIndent(v, "", " ")
	if nil != err {
		return err
	}
	tmp := fmt.Sprintf("%s.%d.tmp", path, os.Getpid())
	if err := os.WriteFile(tmp, append(b, '\n'), 0o644); nil != err {
		return err
	}
	return os.Rename(tmp, path)
}
