package main

// mutants.go: built-in overlay mutants.  Each is a textual edit of one file of
// the repository, applied in memory through go/packages' Overlay (nothing is
// copied or written), after which the property's rules must report the named
// obligation.  They keep the rules honest: a rule whose expected number of
// findings is zero passes vacuously forever unless something shows it can
// fire.  A mutant whose anchor text is not found in the current tree is
// skipped and counted; it never raises an alarm.

import (
	"bytes"
	"fmt"
	"os"
	"os/exec"
	"path/filepath"
	"sort"
	"strings"
	"sync"
)

// Mutant is one overlay edit.
type Mutant struct {
	Property string
	Name     string
	File     string      /* Repo-relative. */
	Old, New string      /* First occurrence of Old is replaced by New. */
	Edits    [][3]string /* Additional (file, old, new). */
	Expect   string      /* Substring of the finding key that must be reported; "" = must stay silent (benign). */
	Quick    bool        /* Also run in the quick tier. */
	Why      string
}

var allMutants []Mutant

func addMutants(ms ...Mutant) { allMutants = append(allMutants, ms...) }

func mutantsFor(prop string) []Mutant {
	var out []Mutant
	for _, m := range allMutants {
		if m.Property == prop {
			out = append(out, m)
		}
	}
	return out
}

func findMutant(prop, name string) *Mutant {
	for i := range allMutants {
		if allMutants[i].Property == prop && allMutants[i].Name == name {
			return &allMutants[i]
		}
	}
	return nil
}

func (m *Mutant) apply(repo string, overlay map[string][]byte) error {
	edits := append([][3]string{{m.File, m.Old, m.New}}, m.Edits...)
	for _, e := range edits {
		path := filepath.Join(repo, e[0])
		b, ok := overlay[path]
		if !ok {
			var err error
			if b, err = os.ReadFile(path); nil != err {
				return err
			}
		}
		if !bytes.Contains(b, []byte(e[1])) {
			return fmt.Errorf("anchor text not found in %s", e[0])
		}
		overlay[path] = bytes.Replace(b, []byte(e[1]), []byte(e[2]), 1)
	}
	return nil
}

// mutantResult is the outcome of one self-test run.
type mutantResult struct {
	Name     string   `json:"name"`
	Expect   string   `json:"expect"`
	Outcome  string   `json:"outcome"` /* detected, silent-as-expected, MISSED, FALSE-ALARM, skipped */
	Findings []string `json:"findings,omitempty"`
	Why      string   `json:"why,omitempty"`
}

// runMutants runs the given mutants in child processes (one mutant per
// process, in parallel).
func runMutants(prop, repo string, ms []Mutant) []mutantResult {
	self, err := os.Executable()
	if nil != err {
		return nil
	}
	res := make([]mutantResult, len(ms))
	var wg sync.WaitGroup
	sem := make(chan struct{}, 8)
	for i := range ms {
		wg.Add(1)
		go func(i int) {
			defer wg.Done()
			sem <- struct{}{}
			defer func() { <-sem }()
			m := ms[i]
			cmd := exec.Command(self, "-property", prop, "-repo", repo, "-mutant", m.Name)
			cmd.Env = append(os.Environ(), "CRS_NOREPLAY=1")
			out, _ := cmd.CombinedOutput()
			r := mutantResult{Name: m.Name, Expect: m.Expect, Why: m.Why}
			code := -1
			if nil != cmd.ProcessState {
				code = cmd.ProcessState.ExitCode()
			}
			var keys []string
			for _, l := range strings.Split(string(out), "\n") {
				if strings.HasPrefix(l, "MUTANT-FINDING ") {
					keys = append(keys, strings.TrimPrefix(l, "MUTANT-FINDING "))
				}
			}
			sort.Strings(keys)
			switch {
			case 3 == code:
				r.Outcome = "skipped"
				r.Findings = []string{strings.TrimSpace(string(out))}
			case 0 != code && 1 != code:
				r.Outcome = "error"
				r.Findings = []string{strings.TrimSpace(string(out))}
			case "" == m.Expect:
				if 0 == len(keys) {
					r.Outcome = "silent-as-expected"
				} else {
					r.Outcome = "FALSE-ALARM"
					r.Findings = keys
				}
			default:
				r.Outcome = "MISSED"
				for _, k := range keys {
					if strings.Contains(k, m.Expect) {
						r.Outcome = "detected"
					}
				}
				r.Findings = keys
			}
			res[i] = r
		}(i)
	}
	wg.Wait()
	return res
}

func summarise(res []mutantResult, extra map[string]any, label string) {
	counts := map[string]int{}
	for _, r := range res {
		counts[r.Outcome]++
	}
	extra[label] = map[string]any{"counts": counts, "results": res}
}

// quickSelfTest runs the mutants marked Quick.
func quickSelfTest(prop, repo string, extra map[string]any) {
	var ms []Mutant
	for _, m := range mutantsFor(prop) {
		if m.Quick {
			ms = append(ms, m)
		}
	}
	if 0 == len(ms) {
		return
	}
	summarise(runMutants(prop, repo, ms), extra, "selftest_mutants")
}
